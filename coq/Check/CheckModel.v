(* CheckModel.v — executable mirror of what pfdl_scheduler DOES between a successful
   syntactic parse and the verdict of parse_string:

     parser/pfdl_tree_visitor.py   (visitProgram … visitCall_output: dict-collapsing of
                                    duplicates, the per-task variable table, the messages
                                    printed while visiting)
     model/struct.py::parse_json   (struct literals)
     validation/semantic_error_checker.py  (one definition per method, same order of
                                    effects, short-circuit [and] vs eager [&] preserved)
     utils/helpers.py::get_type_of_variable_list
     utils/parsing_utils.py::parse_string  (verdict = no message was printed)

   A check returns [res (bool * list err)]: the Python return value and the messages
   printed by this call, in order; [Exn k] = the Python exception of class k that escapes
   the unguarded lookup at this point (and therefore escapes parse_string, which has no
   handler).  An [err] is the message *kind* (one constructor per print_error call site)
   and the *context reference* handed to print_error, as a position in the AST.

   State of the code: after the repairs D8–D12a and D21 in /repo (known_findings.json, status
   fixed).  The attribute-access check, the type lookup and the expression checks no longer
   raise; the only remaining unguarded lookups are in check_if_input_parameter_matches
   ([ipm_walk], [check_input_matches]) and in check_for_wrong_attribute_type_in_struct (always
   called behind the unknown-attribute test).

   Definitions only; proofs are in CheckProofs*.v.

   What is abstracted (see docs/check_component.md):
   - message texts (only the call site = kind is kept), columns and symbol lengths;
   - numeric values of literals (only the Python class int/float vs bool vs str matters);
   - the interleaving of Struct and Task definitions in the file (the visitor fills two
     separate dicts; the checker never looks at the relative order) — the model takes the
     structs in source order, then the tasks in source order;
   - [Struct.name] mutation inside literals (line 607/655 of the checker): the name only
     feeds message texts and the comparisons modelled explicitly by [nm] below. *)
From PFDL Require Import Base Syntax.

(* ------------------------------------------------------------------------------ *)
(* messages                                                                        *)
(* ------------------------------------------------------------------------------ *)

Inductive ekind :=
(* printed by the tree visitor *)
| KDupStruct        (* A Struct with the name … is already defined *)
| KDupTask          (* A Task with the name … is already defined *)
| KDupAttr          (* An attribute with the name … is already defined in the Struct *)
| KDupTaskIn        (* There is already a input paramter with the name *)
| KDupCallOut       (* There is already a output parameter with the name *)
| KArrayLen         (* Array length has to be specified by an integer *)
| KNestedArray      (* The array … contains an array as element, arrays of arrays are not supported *)
(* printed by the semantic checker *)
| KUnknownType      (* Unknown data type … for task input variable *)
| KNoStartTask      (* The file contains no 'productionTask' *)
| KUnknownTaskOut   (* An unknown variable … is used in the Task Output *)
| KOutTypeMismatch  (* Type of TaskCall output parameter at position … does not match *)
| KInTypeMismatch   (* Type of TaskCall parameter … does not match with type … of Input Parameter *)
| KInLen            (* Inputparameter length of Task Call and called Task dont match *)
| KOutLen           (* Outputparameter length … dont match *)
| KUnknownVarInput  (* An unknown variable … is used as input of *)
| KNoAttribute      (* Struct … has no attribute … *)
| KNotAStruct       (* Attribute … is not a Struct *)
| KUnknownVariable  (* Unknown variable … . *)
| KUnknownStruct    (* Unknown Struct … *)
| KUnknownAttrInLit (* Unknown attribute … in instantiated struct *)
| KWrongTypeStruct  (* Attribute … has the wrong type …, expected Struct … *)
| KWrongTypePrim    (* Attribute … has the wrong type …, expected '<primitive>' *)
| KWrongTypeArray   (* Attribute … has the wrong type …, expected 'Array' *)
| KArrayElem        (* Array has elements that does not match with the defined type *)
| KArrayLength      (* Length of the defined array and the instantiated do not match *)
| KMissingAttr      (* Attribute … is not defined in the instantiated struct *)
| KParLoop          (* Only a single task is allowed in a parallel loop statement! *)
| KNotBoolean       (* The given attribute can not be resolved to a boolean expression *)
| KCmpTypes         (* Types of right and left side of the comparison dont match *)
| KArith            (* Right and left side have to be numbers when using arithmetic operators *)
| KUnknownTask      (* Unknown Task … *)
| KIndexMismatch    (* Attribute … is not an Array / is an Array and needs an index *)
| KLimitNotNumber   (* The limit of a counting loop has to be a number *)
| KRecursion.       (* The call of Task … leads back to Task … (recursion is not supported) *)

(* The ANTLR context object handed to print_error (its start token gives the line).
   Structs and tasks are numbered by their position in p_structs / p_tasks (source
   order, duplicates included); statements by the index path of Unfold.site /
   pfdl_ast.render: body index; Condition 0 = Passed, 1 = Failed, then index;
   Parallel: index of the call; parallel loop: body index. *)
Inductive ctx :=
| CFile                                         (* line=1 given explicitly *)
| CNone                                         (* no context, default line 0 *)
| CStruct (i : nat)                             (* Struct definition i ("Struct X" line) *)
| CStructAttr (i j : nat)                       (* j-th attribute line of struct i *)
| CTask (i : nat)                               (* "Task t" line *)
| CTaskIn (i : nat)                             (* the task's "In" line *)
| CTaskInParam (i j : nat)                      (* j-th input definition line *)
| CTaskOut (i : nat)                            (* the task's "Out" line *)
| CStmt (i : nat) (pi : list nat)               (* first line of the statement *)
| CStmtIn (i : nat) (pi : list nat)             (* the call's "In" line *)
| CStmtOutParam (i : nat) (pi : list nat) (j : nat)  (* j-th output definition of the call *)
| CLit (i : nat) (pi : list nat) (k : nat)      (* k-th input: line of the literal's struct name *)
| CLitJson (i : nat) (pi : list nat) (k : nat). (* k-th input: line of the opening brace *)

Definition err := (ekind * ctx)%type.

Definition chk := res (bool * list err).

Definition ok_true : chk := Ok (true, []).
Definition fail1 (k : ekind) (c : ctx) : chk := Ok (false, [(k, c)]).

(* [a & b] and the loop pattern [if not f(x): valid = False]: both sides run *)
Definition band (a b : chk) : chk :=
  match a with
  | Ok (x, e1) =>
    match b with
    | Ok (y, e2) => Ok (x && y, e1 ++ e2)
    | Fuel => Fuel | Exn k => Exn k | Unsupported => Unsupported
    end
  | Fuel => Fuel | Exn k => Exn k | Unsupported => Unsupported
  end.

(* [a and b], [if not a: return False; return b]: b runs only when a returned True *)
Definition andthen (a b : chk) : chk :=
  match a with
  | Ok (true, e1) =>
    match b with
    | Ok (y, e2) => Ok (y, e1 ++ e2)
    | Fuel => Fuel | Exn k => Exn k | Unsupported => Unsupported
    end
  | Ok (false, e1) => Ok (false, e1)
  | Fuel => Fuel | Exn k => Exn k | Unsupported => Unsupported
  end.

Section Loops.
  Variable A : Type.
  Variable f : nat -> A -> chk.
  (* valid = True; for i, x in enumerate(xs): if not f(i, x): valid = False *)
  Fixpoint forall_from (i : nat) (xs : list A) : chk :=
    match xs with
    | [] => ok_true
    | x :: r => band (f i x) (forall_from (S i) r)
    end.
End Loops.
Arguments forall_from {A} f i xs.

(* ------------------------------------------------------------------------------ *)
(* the Process object built by the visitor                                         *)
(* ------------------------------------------------------------------------------ *)

(* visitVariable_type / initializeArray: a length given by a name leaves length = -1 *)
Definition norm_vtype (t : vtype) : vtype :=
  match t with
  | TArray p (LenVar _) => TArray p LenNone
  | _ => t
  end.

Definition prim_eqb (a b : prim) : bool :=
  match a, b with
  | TNumber, TNumber | TString, TString | TBoolean, TBoolean => true
  | TStructName x, TStructName y => Nat.eqb x y
  | _, _ => false
  end.

Definition alen_eqb (a b : alen) : bool :=
  match a, b with
  | LenNone, LenNone => true
  | LenNat x, LenNat y => Nat.eqb x y
  | LenVar x, LenVar y => Nat.eqb x y
  | _, _ => false
  end.

(* str(a) == str(b) on type objects, and Array.__eq__ (values are empty in definitions) *)
Definition vtype_eqb (a b : vtype) : bool :=
  match a, b with
  | TPlain x, TPlain y => prim_eqb x y
  | TArray x l, TArray y m => prim_eqb x y && alen_eqb l m
  | _, _ => false
  end.

(* OrderedDict filled with [if k not in d: d[k] = v]: first binding wins *)
Fixpoint dedup_first {V} (seen : list name) (l : list (name * V)) : list (name * V) :=
  match l with
  | [] => []
  | (k, v) :: r => if mem k seen then dedup_first seen r else (k, v) :: dedup_first (k :: seen) r
  end.

(* positions (from i) of the entries whose key occurred before *)
Fixpoint dup_positions {V} (seen : list name) (i : nat) (l : list (name * V)) : list nat :=
  match l with
  | [] => []
  | (k, _) :: r => if mem k seen then i :: dup_positions seen (S i) r
                   else dup_positions (k :: seen) (S i) r
  end.

(* dict filled with d[k] = v: position of the first insertion, value of the last *)
Fixpoint dict_set {V} (k : name) (v : V) (d : list (name * V)) : list (name * V) :=
  match d with
  | [] => [(k, v)]
  | (k', v') :: r => if Nat.eqb k k' then (k, v) :: r else (k', v') :: dict_set k v r
  end.

Definition dict_of {V} (l : list (name * V)) : list (name * V) :=
  fold_left (fun d kv => dict_set (fst kv) (snd kv) d) l [].

Definition has_key {V} (k : name) (d : list (name * V)) : bool :=
  match assoc k d with Some _ => true | None => false end.

Record sdef := {
  sd_idx : nat;                       (* position of the definition in p_structs *)
  sd_name : name;
  sd_attrs : list (name * vtype)      (* struct.attributes: first definition of a name wins *)
}.

Definition norm_defs (l : list (name * vtype)) : list (name * vtype) :=
  map (fun kv => (fst kv, norm_vtype (snd kv))) l.

(* visitCall_output: the OrderedDict of one call *)
Definition call_outs (outs : outparams) : list (name * vtype) :=
  dedup_first [] (norm_defs outs).

(* every (identifier, type) the visitor stores into current_task.variables while it
   walks the statements, in source order *)
Fixpoint stmt_decls (s : stmt) : list (name * vtype) :=
  match s with
  | SService _ _ outs => call_outs outs
  | SCall c => call_outs (c_outs c)
  | SParallel cs => flat_map (fun c => call_outs (c_outs c)) cs
  | SWhile _ body => flat_map stmt_decls body
  | SCount _ _ _ body => flat_map stmt_decls body
  | SCond _ p f => flat_map stmt_decls p ++ flat_map stmt_decls f
  end.

(* called_task_names: the names of all tasks called by a statement, at any nesting depth *)
Fixpoint stmt_calls (s : stmt) : list name :=
  match s with
  | SService _ _ _ => []
  | SCall c => [c_name c]
  | SParallel cs => map c_name cs
  | SWhile _ b => flat_map stmt_calls b
  | SCount _ _ _ b => flat_map stmt_calls b
  | SCond _ p f => flat_map stmt_calls p ++ flat_map stmt_calls f
  end.

Record tdef := {
  td_idx : nat;                       (* position in p_tasks *)
  td_name : name;
  td_ins : list (name * vtype);       (* task.input_parameters (first wins) *)
  td_vars : list (name * vtype);      (* task.variables (last assignment wins) *)
  td_body : list stmt;
  td_outs : list name
}.

Definition visit_struct (i : nat) (s : structdef) : sdef :=
  {| sd_idx := i; sd_name := s_name s; sd_attrs := dedup_first [] (norm_defs (s_attrs s)) |}.

Definition visit_task (i : nat) (t : task) : tdef :=
  {| td_idx := i; td_name := t_name t;
     td_ins := dedup_first [] (norm_defs (t_ins t));
     (* visitTask_in assigns variables[identifier] for every definition, duplicates too *)
     td_vars := dict_of (norm_defs (t_ins t) ++ flat_map stmt_decls (t_body t));
     td_body := t_body t; td_outs := t_outs t |}.

Record env := {
  e_structs : list (name * sdef);     (* process.structs: first definition wins *)
  e_tasks : list (name * tdef)        (* process.tasks *)
}.

Fixpoint index_from {A} (i : nat) (l : list A) : list (nat * A) :=
  match l with
  | [] => []
  | x :: r => (i, x) :: index_from (S i) r
  end.

Definition visit_env (p : program) : env :=
  {| e_structs := dedup_first []
        (map (fun ix => (s_name (snd ix), visit_struct (fst ix) (snd ix))) (index_from 0 (p_structs p)));
     e_tasks := dedup_first []
        (map (fun ix => (t_name (snd ix), visit_task (fst ix) (snd ix))) (index_from 0 (p_tasks p))) |}.

(* ---- messages printed while visiting ------------------------------------------- *)

(* initializeArray: the message carries the array's own context (the line of the definition);
   mk j = context of the j-th definition of the list *)
Definition arraylen_errs (mk : nat -> ctx) (l : list (name * vtype)) : list err :=
  flat_map (fun jkv => match snd (snd jkv) with
                       | TArray _ (LenVar _) => [(KArrayLen, mk (fst jkv))]
                       | _ => []
                       end) (index_from 0 l).

(* Struct.parse_json (called by visitStruct_initialization): a list that is an element of a list
   is reported — once per such element, with the literal's json_object context — and not stored;
   the walk goes into objects (attribute values and array elements) but not into the reported
   list.  (json.loads collapses duplicate keys before parse_json sees them; the count below is
   over all occurrences of a key — literals with duplicate keys are outside what is compared.) *)
Fixpoint nested_in (j : json) : nat :=
  match j with
  | JObj fs =>
    (fix go (l : list (name * json)) : nat :=
       match l with [] => 0 | (_, v) :: r => nested_in v + go r end) fs
  | JArr es =>
    (fix go (l : list json) : nat :=
       match l with
       | [] => 0
       | e :: r => (match e with JArr _ => 1 | _ => nested_in e end) + go r
       end) es
  | _ => 0
  end.

Definition lit_visit_errs (ti : nat) (pi : list nat) (ins : list param) : list err :=
  flat_map (fun kp => match snd kp with
                      | PLit _ j => repeat (KNestedArray, CLitJson ti pi (fst kp)) (nested_in j)
                      | _ => []
                      end) (index_from 0 ins).

Definition outs_visit_errs (ti : nat) (pi : list nat) (outs : outparams) : list err :=
  arraylen_errs (CStmtOutParam ti pi) outs
  ++ map (fun j => (KDupCallOut, CStmtOutParam ti pi j)) (dup_positions [] 0 outs).

Section VisitErrs.
  Variable ti : nat.
  Fixpoint stmt_visit_errs (pi : list nat) (s : stmt) : list err :=
    match s with
    | SService _ ins outs => lit_visit_errs ti pi ins ++ outs_visit_errs ti pi outs
    | SCall c => lit_visit_errs ti pi (c_ins c) ++ outs_visit_errs ti pi (c_outs c)
    | SParallel cs =>
      flat_map (fun ic => lit_visit_errs ti (pi ++ [fst ic]) (c_ins (snd ic))
                          ++ outs_visit_errs ti (pi ++ [fst ic]) (c_outs (snd ic))) (index_from 0 cs)
    | SWhile _ body =>
      (fix go (i : nat) (l : list stmt) : list err :=
         match l with [] => [] | s1 :: r => stmt_visit_errs (pi ++ [i]) s1 ++ go (S i) r end) 0 body
    | SCount _ _ _ body =>
      (fix go (i : nat) (l : list stmt) : list err :=
         match l with [] => [] | s1 :: r => stmt_visit_errs (pi ++ [i]) s1 ++ go (S i) r end) 0 body
    | SCond _ p f =>
      (fix go (i : nat) (l : list stmt) : list err :=
         match l with [] => [] | s1 :: r => stmt_visit_errs (pi ++ [0; i]) s1 ++ go (S i) r end) 0 p
      ++
      (fix go (i : nat) (l : list stmt) : list err :=
         match l with [] => [] | s1 :: r => stmt_visit_errs (pi ++ [1; i]) s1 ++ go (S i) r end) 0 f
    end.

  Fixpoint body_visit_errs (i : nat) (l : list stmt) : list err :=
    match l with
    | [] => []
    | s :: r => stmt_visit_errs [i] s ++ body_visit_errs (S i) r
    end.
End VisitErrs.

Definition struct_visit_errs (i : nat) (s : structdef) : list err :=
  arraylen_errs (CStructAttr i) (s_attrs s)
  ++ map (fun j => (KDupAttr, CStructAttr i j)) (dup_positions [] 0 (s_attrs s)).

Definition task_visit_errs (i : nat) (t : task) : list err :=
  arraylen_errs (CTaskInParam i) (t_ins t)
  ++ map (fun j => (KDupTaskIn, CTaskInParam i j)) (dup_positions [] 0 (t_ins t))
  ++ body_visit_errs i 0 (t_body t).

Definition visit_errs (p : program) : list err :=
  flat_map (fun ix => struct_visit_errs (fst ix) (snd ix)) (index_from 0 (p_structs p))
  ++ map (fun j => (KDupStruct, CStruct j))
         (dup_positions [] 0 (map (fun s => (s_name s, tt)) (p_structs p)))
  ++ flat_map (fun ix => task_visit_errs (fst ix) (snd ix)) (index_from 0 (p_tasks p))
  ++ map (fun j => (KDupTask, CTask j))
         (dup_positions [] 0 (map (fun t => (t_name t, tt)) (p_tasks p))).

(* ------------------------------------------------------------------------------ *)
(* struct literals: json.loads + parse_json                                        *)
(* ------------------------------------------------------------------------------ *)

(* the Python object stored for a JSON value; numbers keep only their class *)
Inductive pv :=
| PVNum                               (* int or float (not bool) *)
| PVBool
| PVStr
| PVStruct (fs : list (name * pv))    (* inner Struct, name "" *)
| PVArray (vs : list pv).             (* Array; values in order *)

Definition is_jarr (j : json) : bool := match j with JArr _ => true | _ => false end.

Fixpoint parse_json (j : json) : pv :=
  match j with
  | JNum _ => PVNum
  | JBool _ => PVBool
  | JStr _ => PVStr
  | JObj fs =>
    PVStruct (dict_of ((fix go (l : list (name * json)) : list (name * pv) :=
                          match l with
                          | [] => []
                          | (k, v) :: r => (k, parse_json v) :: go r
                          end) fs))
  | JArr es =>
    (* a list inside a list is neither primitive nor dict: silently skipped *)
    PVArray ((fix go (l : list json) : list pv :=
                match l with
                | [] => []
                | e :: r => if is_jarr e then go r else parse_json e :: go r
                end) es)
  end.

(* ------------------------------------------------------------------------------ *)
(* the checker                                                                     *)
(* ------------------------------------------------------------------------------ *)

Section Checker.
  Variable E : env.

  Definition find_struct (s : name) : option sdef := assoc s (e_structs E).
  Definition find_tdef (t : name) : option tdef := assoc t (e_tasks E).

  (* [x in self.structs] / [self.structs[x]] for a type *string* x *)
  Definition struct_of_prim (p : prim) : option sdef :=
    match p with
    | TStructName s => find_struct s
    | _ => None
    end.

  (* variable_type_exists *)
  Definition variable_type_exists (p : prim) : bool :=
    match p with
    | TStructName s => has_key s (e_structs E)
    | _ => true
    end.

  (* check_if_variable_definition_is_valid *)
  Definition check_vardef (t : vtype) (c : ctx) : chk :=
    let p := match t with TPlain p => p | TArray p _ => p end in
    if variable_type_exists p then ok_true else fail1 KUnknownType c.

  (* check_for_unknown_datatypes_in_struct_definition *)
  Definition check_struct_def (sd : sdef) : chk :=
    forall_from (fun _ kv => check_vardef (snd kv) (CStruct (sd_idx sd))) 0 (sd_attrs sd).

  (* check_structs *)
  Definition check_structs : chk :=
    forall_from (fun _ kv => check_struct_def (snd kv)) 0 (e_structs E).

  (* ---- attribute paths --------------------------------------------------------- *)

  Definition is_index (e : pelem) : bool := match e with PF _ => false | _ => true end.

  (* d[<element as string>] on an attribute dict: "[…]" is never a key *)
  Definition attr_of (sd : sdef) (e : pelem) : option vtype :=
    match e with
    | PF a => assoc a (sd_attrs sd)
    | _ => None
    end.

  (* check_attribute_access, the loop over variable_list[1:]: an index has to follow exactly
     an array attribute; the type reached before a further element has to be a struct *)
  Fixpoint caa_loop (c : ctx) (pred : sdef) (es : list pelem) : chk :=
    match es with
    | [] => ok_true
    | PF a :: rest =>
      match assoc a (sd_attrs pred) with
      | None => fail1 KNoAttribute c
      | Some ty =>
        match rest with
        | [] => ok_true
        | e2 :: _ =>
          let continue_with (p : prim) :=
              match struct_of_prim p with
              | None => fail1 KNotAStruct c
              | Some sd => caa_loop c sd rest
              end in
          match ty with
          | TArray p _ => if is_index e2 then continue_with p else fail1 KIndexMismatch c
          | TPlain p => if is_index e2 then fail1 KIndexMismatch c else continue_with p
          end
        end
      end
    | _ :: rest => caa_loop c pred rest
    end.

  Definition check_attribute_access (T : tdef) (c : ctx) (v : name) (es : list pelem) : chk :=
    match assoc v (td_vars T) with
    | Some (TPlain p) =>
      match struct_of_prim p with
      | None => fail1 KUnknownVariable c
      | Some sd => caa_loop c sd es
      end
    | _ => fail1 KUnknownVariable c       (* undeclared, or not a str (an Array) *)
    end.

  (* helpers.get_type_of_variable_list: var_list = v :: es; KeyError and TypeError of the
     lookups are caught and yield None (no type) *)
  Definition struct_of_type (t : vtype) : option sdef :=
    match t with
    | TArray _ _ => None
    | TPlain p => struct_of_prim p
    end.

  Fixpoint gtvl_loop (cur : sdef) (last : pelem) (es : list pelem) : option vtype :=
    match es with
    | [] => attr_of cur last
    | e :: rest =>
      match attr_of cur last with
      | None => None
      | Some t => match struct_of_type t with Some sd => gtvl_loop sd e rest | None => None end
      end
    end.

  Definition get_type_of_variable_list (T : tdef) (v : name) (es : list pelem) : option vtype :=
    match assoc v (td_vars T) with
    | None => None
    | Some t =>
      match struct_of_type t with
      | None => None
      | Some sd =>
        match es with
        | [] => assoc v (sd_attrs sd)
        | e :: rest => gtvl_loop sd e rest
        end
      end
    end.

  (* ---- expressions ----------------------------------------------------------- *)

  Definition is_cmp (o : binop) : bool :=
    match o with OLt | OLe | OGt | OGe => true | _ => false end.
  Definition is_arith (o : binop) : bool :=
    match o with OAdd | OSub | OMul | ODiv => true | _ => false end.

  (* expression_is_number (neither prints nor raises) *)
  Fixpoint expression_is_number (T : tdef) (e : expr) : bool :=
    match e with
    | ENum _ | EBool _ => true
    | EStr _ => false
    | EPath v p => match get_type_of_variable_list T v p with Some (TPlain TNumber) => true | _ => false end
    | EParen e1 => expression_is_number T e1
    | EBin _ l r => expression_is_number T l && expression_is_number T r
    | ENot _ => false                                (* len(expression) == 2 *)
    end.

  (* expression_is_string *)
  Definition expression_is_string (T : tdef) (e : expr) : bool :=
    match e with
    | EStr _ => true
    | EPath v p => match get_type_of_variable_list T v p with Some (TPlain TString) => true | _ => false end
    | _ => false
    end.

  (* check_single_expression on a list *)
  Definition check_single_path (T : tdef) (c : ctx) (v : name) (p : list pelem) : chk :=
    andthen (check_attribute_access T c v p)
      (match get_type_of_variable_list T v p with
       | Some (TPlain TNumber) | Some (TPlain TBoolean) => ok_true
       | _ => fail1 KNotBoolean c
       end).

  (* check_expression / check_single_expression / check_unary_operation /
     check_binary_operation *)
  Fixpoint check_expression (T : tdef) (c : ctx) (e : expr) : chk :=
    match e with
    | ENum _ | EBool _ | EStr _ => ok_true
    | EPath v p => check_single_path T c v p
    | ENot e1 => check_expression T c e1
    | EParen e1 => check_expression T c e1
    | EBin o l r =>
      if is_cmp o then
        if expression_is_number T l && expression_is_number T r then ok_true
        else if expression_is_string T l && expression_is_string T r then ok_true
        else fail1 KCmpTypes c
      else if is_arith o then
        if expression_is_number T l && expression_is_number T r then ok_true else fail1 KArith c
      else andthen (check_expression T c l) (check_expression T c r)
    end.

  (* ---- struct literals ---------------------------------------------------------- *)

  (* check_type_of_value(value, value_type); [nm] = value.name when value is a Struct *)
  Definition check_type_of_value (v : pv) (nm : option prim) (ty : prim) : bool :=
    match ty with
    | TNumber => match v with PVNum => true | _ => false end
    | TBoolean => match v with PVBool => true | _ => false end
    | TString => match v with PVStr => true | _ => false end
    | TStructName _ =>
      match v with
      | PVStruct _ => match nm with Some n => prim_eqb n ty | None => false end
      | _ => match struct_of_prim ty with Some _ => false | None => true end   (* value_type in self.structs *)
      end
    end.

  (* check_for_missing_attribute_in_struct: stops at the first missing attribute *)
  Fixpoint check_missing (c : ctx) (defattrs : list (name * vtype)) (fs : list (name * pv)) : chk :=
    match defattrs with
    | [] => ok_true
    | (a, _) :: r => if has_key a fs then check_missing c r fs else fail1 KMissingAttr c
    end.

  (* instantiated_array_length_correct; Array.length of a literal: -1 when empty *)
  Definition array_length_correct (n : nat) (l : alen) : bool :=
    match l with
    | LenNat k => negb (Nat.eqb n 0) && Nat.eqb n k
    | _ => true
    end.

  (* check_for_wrong_attribute_type_in_struct(struct_instance, identifier, struct_definition)
     with attribute = struct_instance.attributes[identifier] = v;
     ictx = struct_instance.context, jctx = the json_object context shared by everything
     nested.  check_array and check_instantiated_struct_attributes (for array elements)
     are the two inner loops. *)
  Fixpoint check_attr_type (jctx ictx : ctx) (def : sdef) (id : name) (v : pv) {struct v} : chk :=
    match assoc id (sd_attrs def) with
    | None => Exn KeyError                        (* struct_definition.attributes[identifier] *)
    | Some (TPlain p) =>
      match struct_of_prim p with
      | Some sd' =>
        match v with
        | PVStruct fs =>
          (* struct_correct = check_for_missing_attribute_in_struct(attribute, struct_def);
             for identifier in attribute.attributes: unknown-attribute test and
             check_for_wrong_attribute_type_in_struct *)
          band (check_missing jctx (sd_attrs sd') fs)
            ((fix go (l : list (name * pv)) : chk :=
                match l with
                | [] => ok_true
                | (id', v') :: r =>
                  band (if has_key id' (sd_attrs sd')
                        then check_attr_type jctx jctx sd' id' v'
                        else fail1 KUnknownAttrInLit jctx)
                       (go r)
                end) fs)
        | _ => fail1 KWrongTypeStruct ictx
        end
      | None =>
        if check_type_of_value v None p then ok_true else fail1 KWrongTypePrim ictx
      end
    | Some (TArray p len) =>
      match v with
      | PVArray vs =>
        (* check_array *)
        let arr :=
          (fix elems (l : list pv) : chk :=
             match l with
             | [] =>
               if array_length_correct (length vs) len then ok_true
               else fail1 KArrayLength jctx
             | value :: r =>
               let inst :=
                 match value with
                 | PVStruct fs =>
                   (* check_instantiated_struct_attributes(value), value.name = element type *)
                   match struct_of_prim p with
                   | None => fail1 KUnknownStruct jctx
                   | Some sd' =>
                     band (check_missing jctx (sd_attrs sd') fs)
                       ((fix go (l2 : list (name * pv)) : chk :=
                           match l2 with
                           | [] => ok_true
                           | (id', v') :: r2 =>
                             band (if has_key id' (sd_attrs sd')
                                   then check_attr_type jctx jctx sd' id' v'
                                   else fail1 KUnknownAttrInLit jctx)
                                  (go r2)
                           end) fs)
                   end
                 | _ => ok_true
                 end in
               andthen inst
                 (if check_type_of_value value (Some p) p then elems r
                  else fail1 KArrayElem jctx)
             end) vs in
        match arr with
        | Ok (true, es) => Ok (true, es)
        | Ok (false, es) => Ok (false, es ++ [(KWrongTypeArray, ictx)])
        | Fuel => Fuel | Exn k => Exn k | Unsupported => Unsupported
        end
      | _ => fail1 KWrongTypeArray ictx
      end
    end.

  (* check_instantiated_struct_attributes for a top-level literal *)
  Definition check_literal (ictx jctx : ctx) (sname : name) (j : json) : chk :=
    match parse_json j with
    | PVStruct fs =>
      match find_struct sname with
      | None => fail1 KUnknownStruct ictx
      | Some sd =>
        band (check_missing ictx (sd_attrs sd) fs)
          (forall_from (fun _ kv =>
             if has_key (fst kv) (sd_attrs sd)
             then check_attr_type jctx ictx sd (fst kv) (snd kv)
             else fail1 KUnknownAttrInLit ictx) 0 fs)
      end
    | _ => Unsupported                             (* the grammar only admits a JSON object here *)
    end.

  (* ---- calls --------------------------------------------------------------------- *)

  Definition check_input_param (T : tdef) (ti : nat) (pi : list nat)
             (k : nat) (p : param) : chk :=
    match p with
    | PLit s j => check_literal (CLit ti pi k) (CLitJson ti pi k) s j
    | PPath v es => check_attribute_access T (CStmtIn ti pi) v es
    | PVar v => if has_key v (td_vars T) then ok_true else fail1 KUnknownVarInput (CStmt ti pi)
    end.

  (* check_call_input_parameters *)
  Definition check_call_inputs (T : tdef) (ti : nat) (pi : list nat)
             (ins : list param) : chk :=
    forall_from (check_input_param T ti pi) 0 ins.

  (* check_call_output_parameters *)
  Definition check_call_outputs (ti : nat) (pi : list nat) (outs : outparams) : chk :=
    forall_from (fun _ kv => check_vardef (snd kv) (CStmt ti pi)) 0 (call_outs outs).

  (* check_call_parameters *)
  Definition check_call_parameters (T : tdef) (ti : nat) (pi : list nat)
             (ins : list param) (outs : outparams) : chk :=
    band (match ins with [] => ok_true | _ => check_call_inputs T ti pi ins end)
         (match call_outs outs with [] => ok_true | _ => check_call_outputs ti pi outs end).

  (* check_if_task_call_parameter_length_match *)
  Definition check_length_match (ti : nat) (pi : list nat) (called : tdef) (c : call) : chk :=
    if negb (Nat.eqb (length (td_ins called)) (length (c_ins c))) then fail1 KInLen (CStmt ti pi)
    else if negb (Nat.eqb (length (td_outs called)) (length (call_outs (c_outs c))))
         then fail1 KOutLen (CStmt ti pi)
    else ok_true.

  (* the while loop of check_if_input_parameter_matches on input_parameter[1:] *)
  Fixpoint ipm_walk (cur : sdef) (es : list pelem) : res sdef :=
    match es with
    | [] => Ok cur
    | [_] => Ok cur
    | e :: ((_ :: rest2) as rest) =>
      match attr_of cur e with
      | None => Exn KeyError
      | Some (TArray p _) =>
        match struct_of_prim p with
        | None => Exn KeyError
        | Some sd => ipm_walk sd rest2               (* i = i + 1 skips the index *)
        end
      | Some (TPlain p) =>
        match struct_of_prim p with
        | None => Exn KeyError
        | Some sd => ipm_walk sd rest
        end
      end
    end.

  (* given_type: current_struct.name (a str) or an attribute's type object *)
  Inductive given := GName (s : name) | GType (t : vtype).

  Definition given_differs (g : given) (defined : vtype) : bool :=
    match g with
    | GName s => negb (vtype_eqb (TPlain (TStructName s)) defined)
    | GType t => negb (vtype_eqb t defined)
    end.

  (* check_if_input_parameter_matches *)
  Definition check_input_matches (T : tdef) (ti : nat) (pi : list nat) (p : param)
             (defined : vtype) : chk :=
    let c := CStmt ti pi in
    match p with
    | PVar v =>
      match assoc v (td_vars T) with
      | Some t => if vtype_eqb t defined then ok_true else fail1 KInTypeMismatch c
      | None => fail1 KInTypeMismatch c
      end
    | PPath v es =>
      match assoc v (td_vars T) with
      | None => Exn KeyError
      | Some t =>
        (* self.structs[<type object>]: an Array is unhashable, a primitive is no key *)
        match (match t with
               | TArray _ _ => Exn TypeError
               | TPlain p0 => match struct_of_prim p0 with Some sd => Ok sd | None => Exn KeyError end
               end) with
        | Ok sd0 =>
          match ipm_walk sd0 es with
          | Ok cur =>
            let last_e := last es (PF v) in
            let g := if is_index last_e then Ok (GName (sd_name cur))
                     else match attr_of cur last_e with
                          | Some t' => Ok (GType t')
                          | None => Exn KeyError
                          end in
            match g with
            | Ok g' => if given_differs g' defined then fail1 KInTypeMismatch c else ok_true
            | Fuel => Fuel | Exn k => Exn k | Unsupported => Unsupported
            end
          | Fuel => Fuel | Exn k => Exn k | Unsupported => Unsupported
          end
        | Fuel => Fuel | Exn k => Exn k | Unsupported => Unsupported
        end
      end
    | PLit s _ =>
      if vtype_eqb (TPlain (TStructName s)) defined then ok_true else fail1 KInTypeMismatch c
    end.

  (* the output loop of check_if_task_call_matches_with_called_task *)
  Definition check_output_matches (ti : nat) (pi : list nat) (called : tdef)
             (out_name : name) (data_type : vtype) : chk :=
    match assoc out_name (td_vars called) with
    | Some t => if vtype_eqb t data_type then ok_true else fail1 KOutTypeMismatch (CStmt ti pi)
    | None => ok_true
    end.

  Fixpoint forall2_chk {A B} (f : A -> B -> chk) (l1 : list A) (l2 : list B) : chk :=
    match l1, l2 with
    | x :: r1, y :: r2 => band (f x y) (forall2_chk f r1 r2)
    | _, _ => ok_true              (* equal lengths were established by check_length_match *)
    end.

  (* check_if_task_call_matches_with_called_task *)
  Definition check_call_matches (T : tdef) (ti : nat) (pi : list nat) (c : call) : chk :=
    match find_tdef (c_name c) with
    | None => Exn KeyError
    | Some called =>
      andthen (check_length_match ti pi called c)
        (band
           (forall2_chk (fun p def => check_input_matches T ti pi p (snd def)) (c_ins c) (td_ins called))
           (forall2_chk (fun o out_name => check_output_matches ti pi called out_name (snd o))
                        (call_outs (c_outs c)) (td_outs called)))
    end.

  (* called_task_names / task_reaches: can the task [target] be reached from the task [n] by
     task calls (through defined tasks)?  The code runs a depth-first search with a visited
     set; the model bounds the depth by the number of tasks, which decides the same relation. *)
  Definition calls_of_task (n : name) : list name :=
    match find_tdef n with
    | Some t => flat_map stmt_calls (td_body t)
    | None => []
    end.

  Fixpoint task_reaches (fuel : nat) (n target : name) : bool :=
    has_key n (e_tasks E) &&
    (Nat.eqb n target ||
     match fuel with
     | O => false
     | S f => existsb (fun m => task_reaches f m target) (calls_of_task n)
     end).

  (* check_task_call (with check_if_task_in_taskcall_exists) *)
  Definition check_task_call (T : tdef) (ti : nat) (pi : list nat) (c : call) : chk :=
    if has_key (c_name c) (e_tasks E) then
      if task_reaches (length (e_tasks E)) (c_name c) (td_name T) then fail1 KRecursion (CStmt ti pi)
      else andthen (check_call_parameters T ti pi (c_ins c) (c_outs c))
                   (check_call_matches T ti pi c)
    else fail1 KUnknownTask (CStmt ti pi).

  (* the limit part of check_counting_loop *)
  Definition check_limit (T : tdef) (c : ctx) (lim : limit) : chk :=
    match lim with
    | LimInt _ => ok_true
    | LimPath v es =>
      andthen (check_attribute_access T c v es)
              (if expression_is_number T (EPath v es) then ok_true else fail1 KLimitNotNumber c)
    end.

  (* ---- statements ---------------------------------------------------------------- *)

  Definition is_single_call (body : list stmt) : bool :=
    match body with
    | [SCall _] => true
    | _ => false
    end.

  Section Stmt.
    Variable T : tdef.
    Notation ti := (td_idx T).

    (* check_statement and the methods it dispatches to *)
    Fixpoint check_stmt (pi : list nat) (s : stmt) {struct s} : chk :=
      match s with
      | SService _ ins outs => check_call_parameters T ti pi ins outs
      | SCall c => check_task_call T ti pi c
      | SParallel cs => forall_from (fun j c => check_task_call T ti (pi ++ [j]) c) 0 cs
      | SWhile e body =>
        band (forall_from (fun i s1 => check_stmt (pi ++ [i]) s1) 0 body)
             (check_expression T (CStmt ti pi) e)
      | SCount true _ lim body =>
        band (check_limit T (CStmt ti pi) lim)
             (match body with
              | [SCall c] => check_task_call T ti (pi ++ [0]) c
              | _ => fail1 KParLoop (CStmt ti pi)
              end)
      | SCount false _ lim body =>
        band (check_limit T (CStmt ti pi) lim)
             (forall_from (fun i s1 => check_stmt (pi ++ [i]) s1) 0 body)
      | SCond e p f =>
        band (forall_from (fun i s1 => check_stmt (pi ++ [0; i]) s1) 0 p)
          (band (forall_from (fun i s1 => check_stmt (pi ++ [1; i]) s1) 0 f)
                (check_expression T (CStmt ti pi) e))
      end.

    (* check_statements *)
    Definition check_statements : chk :=
      forall_from (fun i s => check_stmt [i] s) 0 (td_body T).

    (* check_task_input_parameters *)
    Definition check_task_inputs : chk :=
      forall_from (fun _ kv => check_vardef (snd kv) (CTaskIn ti)) 0 (td_ins T).

    (* check_task_output_parameters *)
    Definition check_task_outputs : chk :=
      forall_from (fun _ o => if has_key o (td_vars T) then ok_true
                              else fail1 KUnknownTaskOut (CTaskOut ti)) 0 (td_outs T).

    Definition check_task : chk :=
      band check_statements (band check_task_inputs check_task_outputs).
  End Stmt.

  (* check_tasks *)
  Definition check_tasks : chk :=
    match forall_from (fun _ kv => check_task (snd kv)) 0 (e_tasks E) with
    | Ok (valid, es) =>
      if has_key production_task (e_tasks E) then Ok (valid, es)
      else Ok (false, es ++ [(KNoStartTask, CFile)])
    | r => r
    end.

  (* validate_process *)
  Definition validate_process : chk := band check_structs check_tasks.
End Checker.

(* parse_string after a successful syntactic parse: all messages printed, or the escaping
   exception.  The verdict is [error_handler.has_error() is False]. *)
Definition validate (p : program) : res (list err) :=
  match validate_process (visit_env p) with
  | Ok (_, es) => Ok (visit_errs p ++ es)
  | Fuel => Fuel | Exn k => Exn k | Unsupported => Unsupported
  end.

Definition accepted (p : program) : bool :=
  match validate p with Ok [] => true | _ => false end.

(* the value validate_process returns (ignored by parse_string) *)
Definition validate_bool (p : program) : res bool :=
  match validate_process (visit_env p) with
  | Ok (b, _) => Ok b
  | Fuel => Fuel | Exn k => Exn k | Unsupported => Unsupported
  end.
