(* CheckProofsC09.v — what acceptance by the validator guarantees to the scheduler (the static
   half of C09; the run-time half — a sched_safe program unfolds, generates and runs without
   a Python exception and completes — is the RefSem/NetModel development).

   sched_safe p = what Scheduler(...) and the run need from the calls and loops of the program:
     (1) productionTask exists                           (Unfold.unfold_program: find_task)
     (2) every task call — in loops, conditions, Parallel blocks and parallel loops — names a
         defined task, with matching arity
     (3) a parallel loop consists of exactly one task call
     (4) call parameters are declared variables
     (5) no task call leads back to the calling task (the unfolding is finite)
     (6) loop limits are integers or resolve to a number
   and, not checked by the validator (known finding D12b):
     (7) guards are boolean expressions *)
From PFDL Require Import Base Syntax.
From PFDL.Check Require Import CheckModel CheckProofsC10 Typing Guards.

Definition sched_safe (p : program) : bool :=
  negb (has_fault_no_start_task p)
  && negb (has_fault_unknown_task p) && negb (has_fault_wrong_arity p)
  && negb (has_fault_bad_parallel_loop p)
  && negb (has_fault_undeclared_variable p)
  && negb (has_fault_recursive_call p)
  && negb (has_fault_bad_limit p).

Definition guards_typed (p : program) : bool := negb (sh_bad_guard p).

Definition C09_accepted_guards_typed : Prop := forall p, validate p = Ok [] -> guards_typed p = true.

Lemma accepted_no_fault : forall (hf : program -> bool),
  (forall p, hf p = true -> validate p <> Ok []) -> forall p, validate p = Ok [] -> hf p = false.
Proof.
  intros hf H p Hacc. destruct (hf p) eqn:Hf; [|reflexivity]. exfalso. exact (H p Hf Hacc).
Qed.

Theorem accepted_sched_safe : forall p, validate p = Ok [] -> sched_safe p = true.
Proof.
  intros p Hacc. unfold sched_safe.
  rewrite (accepted_no_fault _ no_start_task_rejected p Hacc).
  rewrite (accepted_no_fault _ unknown_task_rejected p Hacc).
  rewrite (accepted_no_fault _ wrong_arity_rejected p Hacc).
  rewrite (accepted_no_fault _ bad_parallel_loop_rejected p Hacc).
  rewrite (accepted_no_fault _ undeclared_variable_rejected p Hacc).
  rewrite (accepted_no_fault _ recursive_call_rejected p Hacc).
  rewrite (accepted_no_fault _ bad_limit_rejected p Hacc).
  reflexivity.
Qed.

(* the start of Unfold.unfold_program / PetriNetGenerator.generate_petri_net succeeds *)
Lemma mem_find_task : forall n ts, mem n (map t_name ts) = true -> exists t, find_task n ts = Some t.
Proof.
  intros n ts. induction ts as [|t r IH]; intro H; [discriminate|].
  cbn [map mem] in H. cbn [find_task]. destruct (Nat.eqb n (t_name t)); [eauto|]. apply IH. exact H.
Qed.

Theorem accepted_has_production_task : forall p,
  validate p = Ok [] -> exists t, find_task production_task (p_tasks p) = Some t.
Proof.
  intros p Hacc. apply mem_find_task.
  pose proof (accepted_no_fault _ no_start_task_rejected p Hacc) as H.
  unfold has_fault_no_start_task in H. apply negb_false_iff in H. exact H.
Qed.
