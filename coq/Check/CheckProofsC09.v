(* CheckProofsC09.v — what acceptance by the validator guarantees to the scheduler (the static
   half of C09; the run-time half — a sched_safe program unfolds, generates and runs without
   a Python exception and completes — is the RefSem/NetModel development).

   sched_safe p = what Scheduler(...) and the run need from the program text:
     (1) productionTask exists                           (Unfold.unfold_program: find_task)
     (2) every task call outside parallel loops names a defined task, with matching arity
     (3) a parallel loop consists of exactly one task call
     (4) call parameters are declared variables
     (5) the call inside a parallel loop is a correct call            -- not checked: D9
     (6) the call graph is acyclic                                    -- not checked: D8
     (7) loop limits are integers or number paths                     -- not checked: D10
     (8) guards are boolean expressions                               -- not checked: D12b *)
From PFDL Require Import Base Syntax.
From PFDL.Check Require Import CheckModel CheckProofsC10 Typing Guards.

Definition sched_safe_checked (p : program) : bool :=
  negb (has_fault_no_start_task p)
  && negb (has_fault_unknown_task p) && negb (has_fault_wrong_arity p)
  && negb (has_fault_bad_parallel_loop p)
  && negb (has_fault_undeclared_variable p).

Definition sched_safe_unchecked (p : program) : bool :=
  negb (sh_parloop_call p) && negb (has_recursion p) && negb (has_bad_limit p) && negb (sh_bad_guard p).

Definition sched_safe (p : program) : bool := sched_safe_checked p && sched_safe_unchecked p.

Definition C09_accepted_is_sched_safe : Prop := forall p, validate p = Ok [] -> sched_safe p = true.

Lemma accepted_no_fault : forall (hf : program -> bool),
  (forall p, hf p = true -> validate p <> Ok []) -> forall p, validate p = Ok [] -> hf p = false.
Proof.
  intros hf H p Hacc. destruct (hf p) eqn:Hf; [|reflexivity]. exfalso. exact (H p Hf Hacc).
Qed.

Theorem accepted_sched_safe_checked : forall p, validate p = Ok [] -> sched_safe_checked p = true.
Proof.
  intros p Hacc. unfold sched_safe_checked.
  rewrite (accepted_no_fault _ no_start_task_rejected p Hacc).
  rewrite (accepted_no_fault _ unknown_task_rejected p Hacc).
  rewrite (accepted_no_fault _ wrong_arity_rejected p Hacc).
  rewrite (accepted_no_fault _ bad_parallel_loop_rejected p Hacc).
  rewrite (accepted_no_fault _ undeclared_variable_rejected p Hacc).
  reflexivity.
Qed.

Theorem accepted_sched_safe_partial : forall p,
  sched_safe_unchecked p = true -> validate p = Ok [] -> sched_safe p = true.
Proof.
  intros p Hu Hacc. unfold sched_safe. rewrite (accepted_sched_safe_checked p Hacc), Hu. reflexivity.
Qed.

(* the start of Unfold.unfold_program / PetriNetGenerator.generate_petri_net succeeds *)
Lemma mem_find_task : forall n ts, mem n (map t_name ts) = true -> exists t, find_task n ts = Some t.
Proof.
  intros n ts. induction ts as [|t r IH]; intro H; [discriminate|].
  cbn [map mem] in H. cbn [find_task]. destruct (Nat.eqb n (t_name t)); [eauto|]. apply IH. exact H.
Qed.

Theorem accepted_has_production_task : forall p,
  validate p = Ok [] -> exists t, find_task production_task (p_tasks p) = Some t.
Proof.
  intros p Hacc. apply mem_find_task.
  pose proof (accepted_no_fault _ no_start_task_rejected p Hacc) as H.
  unfold has_fault_no_start_task in H. apply negb_false_iff in H. exact H.
Qed.
