(* CheckProofsC11.v — well-formed programs are accepted: fragments, construct by construct.

   Part 1: under WF the Process object built by the visitor is the program itself (no
           duplicate is dropped, no type is normalised) and the visitor prints nothing.
   Part 2: the struct definitions, the task inputs and the task outputs pass.
   Part 3: statements (see the list of proved constructs at the end). *)
From PFDL Require Import Base Syntax.
From PFDL.Check Require Import CheckModel CheckProofsBase CheckProofsC10 CheckProofsC19 Typing TypingProofs.

(* ------------------------------------------------------------------------------ *)
(* Part 1: the visitor under WF                                                    *)
(* ------------------------------------------------------------------------------ *)
Lemma mem_false_notin : forall k l, mem k l = false <-> ~ In k l.
Proof.
  intros k l. split.
  - intros H Hin. apply mem_In in Hin. congruence.
  - intro H. destruct (mem k l) eqn:Hm; [|reflexivity]. apply mem_In in Hm. contradiction.
Qed.

Lemma dedup_first_nodup : forall V (l : list (name * V)) seen,
  NoDup (map fst l) -> (forall k, In k (map fst l) -> ~ In k seen) -> dedup_first seen l = l.
Proof.
  intros V l. induction l as [|[k v] r IH]; intros seen Hnd Hs; [reflexivity|].
  cbn [dedup_first]. cbn [map fst] in Hnd, Hs. inversion Hnd; subst.
  assert (Hm : mem k seen = false) by (apply mem_false_notin; apply Hs; left; reflexivity).
  rewrite Hm. f_equal. apply IH; [assumption|].
  intros k' Hin [Heq|Hin']; [subst; contradiction | exact (Hs k' (or_intror Hin) Hin')].
Qed.

Lemma dup_positions_nodup : forall V (l : list (name * V)) seen i,
  NoDup (map fst l) -> (forall k, In k (map fst l) -> ~ In k seen) -> dup_positions seen i l = [].
Proof.
  intros V l. induction l as [|[k v] r IH]; intros seen i Hnd Hs; [reflexivity|].
  cbn [dup_positions]. cbn [map fst] in Hnd, Hs. inversion Hnd; subst.
  assert (Hm : mem k seen = false) by (apply mem_false_notin; apply Hs; left; reflexivity).
  rewrite Hm. apply IH; [assumption|].
  intros k' Hin [Heq|Hin']; [subst; contradiction | exact (Hs k' (or_intror Hin) Hin')].
Qed.

Section WfTypes.
  Variable P : program.

  Lemma type_wf_norm : forall t, type_wf P t -> norm_vtype t = t.
  Proof. intros t H. destruct t as [p|p [|n|v]]; try reflexivity. destruct H. Qed.

  Lemma norm_defs_wf : forall l, Forall (fun a => type_wf P (snd a)) l -> norm_defs l = l.
  Proof.
    induction l as [|[k t] r IH]; intro H; [reflexivity|]. inversion H; subst.
    unfold norm_defs in *. cbn [map fst snd]. cbn [snd] in H2. rewrite (type_wf_norm t H2). f_equal. apply IH. assumption.
  Qed.

  Lemma arraylen_errs_wf : forall mk l, Forall (fun a => type_wf P (snd a)) l -> arraylen_errs mk l = [].
  Proof.
    intros mk l H. unfold arraylen_errs. generalize 0.
    induction l as [|[k t] r IH]; intro n; [reflexivity|]. inversion H; subst.
    cbn [index_from flat_map fst snd]. cbn [snd] in H2.
    destruct t as [p|p [|m|v]]; try (cbn [app]; apply IH; assumption). destruct H2.
  Qed.

  Lemma outs_wf_call_outs : forall outs, outs_wf P outs -> call_outs outs = outs.
  Proof.
    intros outs [Hnd Hty]. unfold call_outs. rewrite (norm_defs_wf _ Hty).
    apply dedup_first_nodup; [assumption | intros k _ []].
  Qed.

  Lemma outs_wf_visit_errs : forall ti pi outs, outs_wf P outs -> outs_visit_errs ti pi outs = [].
  Proof.
    intros ti pi outs [Hnd Hty]. unfold outs_visit_errs. rewrite (arraylen_errs_wf _ _ Hty).
    rewrite dup_positions_nodup; [reflexivity | assumption | intros k _ []].
  Qed.

  Lemma concat_from_nil : forall f l i, (forall j x, In x l -> f j x = []) -> concat_from f i l = [].
  Proof.
    intros f l. induction l as [|x r IH]; intros i H; [reflexivity|]. cbn [concat_from].
    rewrite (H i x (or_introl eq_refl)). cbn [app]. apply IH. intros. apply H. right. assumption.
  Qed.

  Lemma go_wf_forall : forall (Q : stmt -> Prop) (l : list stmt),
    (fix go (l : list stmt) : Prop := match l with [] => True | s1 :: r => Q s1 /\ go r end) l <-> Forall Q l.
  Proof.
    intros Q l. induction l as [|s r IH]; [split; [constructor | tauto]|].
    rewrite IH. split; [intros [? ?]; constructor; assumption | intro H; inversion H; tauto].
  Qed.

  (* a literal that matches its struct has no array inside an array *)
  Lemma json_wt_no_nested : forall j t, json_wt P t j -> nested_in j = 0.
  Proof.
    intro j. induction j using json_ind'; intros t Hw; try reflexivity.
    - destruct t as [[| | |s0]|]; try (destruct Hw; fail). cbn [json_wt] in Hw.
      destruct Hw as (sd & _ & _ & _ & Hgo). cbn [nested_in].
      induction fs as [|[k v] r IHr]; [reflexivity|]. inversion H; subst.
      destruct Hgo as [[t' [_ Hv]] Hr]. cbn [snd] in H2. rewrite (H2 t' Hv). cbn [Nat.add]. apply IHr; assumption.
    - destruct t as [[| | |s0]|p1 len]; try (destruct Hw; fail). cbn [json_wt] in Hw. destruct Hw as [_ Hgo].
      cbn [nested_in]. induction es as [|e r IHr]; [reflexivity|]. inversion H; subst. destruct Hgo as [He Hr].
      assert (He0 : match e with JArr _ => 1 | _ => nested_in e end = 0).
      { destruct e; try (apply (H2 (TPlain p1)); exact He). destruct p1; destruct He. }
      rewrite He0. cbn [Nat.add]. apply IHr; assumption.
  Qed.

  Lemma lit_visit_errs_wf : forall vars ti pi lv ins,
    Forall (fun x => exists t, param_wt P vars lv x t) ins -> lit_visit_errs ti pi ins = [].
  Proof.
    intros vars ti pi lv ins H. unfold lit_visit_errs. generalize 0.
    induction ins as [|x r IH]; intro n; [reflexivity|]. inversion H; subst.
    cbn [index_from flat_map fst snd]. rewrite IH by assumption.
    destruct x as [| |s j]; try reflexivity. destruct H2 as [t [_ Hw]].
    rewrite (json_wt_no_nested _ _ Hw). reflexivity.
  Qed.

  Lemma call_wf_params_typed : forall vars lv c,
    call_wf P vars lv c -> Forall (fun x => exists t, param_wt P vars lv x t) (c_ins c).
  Proof.
    intros vars lv c (callee & _ & _ & Hl1 & _ & Hins & _).
    assert (Hex : forall (l1 : list param) (l2 : list (name * vtype)), length l1 = length l2 ->
              Forall (fun pf => param_wt P vars lv (fst pf) (snd (snd pf))) (combine l1 l2) ->
              Forall (fun x => exists t, param_wt P vars lv x t) l1).
    { induction l1 as [|a r IH]; intros l2 Hl HF; [constructor|].
      destruct l2 as [|b r2]; [discriminate|]. cbn [combine] in HF. inversion HF; subst.
      constructor; [eexists; exact H1 | eapply IH; [|exact H2]; cbn in Hl; lia]. }
    eapply Hex; eassumption.
  Qed.

  Lemma call_wf_visit_errs : forall vars ti pi lv c,
    call_wf P vars lv c -> lit_visit_errs ti pi (c_ins c) ++ outs_visit_errs ti pi (c_outs c) = [].
  Proof.
    intros vars ti pi lv c Hw. rewrite (lit_visit_errs_wf vars ti pi lv _ (call_wf_params_typed _ _ _ Hw)).
    destruct Hw as (callee & _ & Ho & _). cbn [app]. apply outs_wf_visit_errs. exact Ho.
  Qed.

  Lemma stmt_wf_visit_errs : forall vars ti s lv pi,
    stmt_wf P vars lv s -> stmt_visit_errs ti pi s = [].
  Proof.
    intros vars ti s. induction s using stmt_ind'; intros lv pi Hw; rewrite stmt_visit_errs_unfold;
      cbn [stmt_wf] in Hw.
    - destruct Hw as [Hins Ho]. rewrite (lit_visit_errs_wf vars ti pi lv _ Hins). cbn [app].
      apply outs_wf_visit_errs. exact Ho.
    - eapply call_wf_visit_errs. exact Hw.
    - destruct Hw as [_ Hw]. rewrite Forall_forall in Hw.
      assert (Hall : forall i, flat_map (fun ic : nat * call =>
                                           lit_visit_errs ti (pi ++ [fst ic]) (c_ins (snd ic))
                                           ++ outs_visit_errs ti (pi ++ [fst ic]) (c_outs (snd ic)))
                                        (index_from i cs) = []).
      { induction cs as [|c r IH]; intro i; [reflexivity|]. cbn [index_from flat_map fst snd].
        rewrite (call_wf_visit_errs vars ti _ lv c (Hw c (or_introl eq_refl))). cbn [app].
        apply IH. intros. apply Hw. right. assumption. }
      apply Hall.
    - destruct Hw as (_ & _ & Hb). apply go_wf_forall in Hb. rewrite Forall_forall in H, Hb.
      apply concat_from_nil. intros j x Hin. eapply H; [exact Hin | apply Hb; exact Hin].
    - destruct Hw as [_ Hw]. destruct par.
      + destruct Hw as (c & -> & Hcw). cbn [concat_from].
        rewrite stmt_visit_errs_unfold. rewrite (call_wf_visit_errs vars ti _ _ c Hcw). reflexivity.
      + destruct Hw as [_ Hb]. apply go_wf_forall in Hb. rewrite Forall_forall in H, Hb.
        apply concat_from_nil. intros j x Hin. eapply H; [exact Hin | apply Hb; exact Hin].
    - destruct Hw as (_ & _ & Hp & Hf). apply go_wf_forall in Hp. apply go_wf_forall in Hf.
      rewrite Forall_forall in H, H0, Hp, Hf.
      rewrite !concat_from_nil; [reflexivity | |].
      + intros j x Hin. eapply H0; [exact Hin | apply Hf; exact Hin].
      + intros j x Hin. eapply H; [exact Hin | apply Hp; exact Hin].
  Qed.
End WfTypes.

Lemma flat_map_nil : forall A B (f : A -> list B) l, (forall x, In x l -> f x = []) -> flat_map f l = [].
Proof.
  intros A B f l. induction l as [|x r IH]; intro H; [reflexivity|]. cbn [flat_map].
  rewrite (H x (or_introl eq_refl)). apply IH. intros. apply H. right. assumption.
Qed.

(* the visitor prints nothing for a well-formed program *)
Theorem wf_visit_errs_nil : forall p, WF p -> visit_errs p = [].
Proof.
  intros p (Hns & Hs & Hnt & _ & Ht & _). unfold visit_errs.
  rewrite Forall_forall in Hs, Ht.
  rewrite (flat_map_nil _ _ _ (index_from 0 (p_structs p))).
  2:{ intros [i s] Hin. apply in_index_from_inv in Hin. destruct (Hs s Hin) as [Hnd Hty].
      unfold struct_visit_errs. cbn [fst snd]. rewrite (arraylen_errs_wf p _ _ Hty).
      rewrite dup_positions_nodup; [reflexivity | assumption | intros k _ []]. }
  rewrite dup_positions_nodup; [| rewrite map_map; exact Hns | intros k _ []].
  rewrite (flat_map_nil _ _ _ (index_from 0 (p_tasks p))).
  2:{ intros [i t] Hin. apply in_index_from_inv in Hin.
      destruct (Ht t Hin) as (Hnd & Hty & _ & _ & Hb & _).
      unfold task_visit_errs. cbn [fst snd]. rewrite (arraylen_errs_wf p _ _ Hty).
      rewrite dup_positions_nodup; [| assumption | intros k _ []].
      rewrite body_visit_errs_concat. cbn [app]. apply concat_from_nil.
      intros j x Hx. rewrite Forall_forall in Hb. eapply stmt_wf_visit_errs. apply Hb. exact Hx. }
  rewrite dup_positions_nodup; [reflexivity | rewrite map_map; exact Hnt | intros k _ []].
Qed.

(* ------------------------------------------------------------------------------ *)
(* Part 2: the Process object under WF; struct definitions, task inputs and outputs *)
(* ------------------------------------------------------------------------------ *)
Lemma forall_from_all_ok : forall A (f : nat -> A -> chk) xs i,
  (forall j x, In x xs -> f j x = ok_true) -> forall_from f i xs = ok_true.
Proof.
  intros A f xs. induction xs as [|x r IH]; intros i H; [reflexivity|].
  rewrite forall_from_cons, (H i x (or_introl eq_refl)), IH; [reflexivity|].
  intros. apply H. right. assumption.
Qed.

Lemma has_key_mem : forall V (l : list (name * V)) k, has_key k l = mem k (map fst l).
Proof.
  intros V l k. induction l as [|[k' v] r IH]; [reflexivity|].
  unfold has_key in *. cbn [assoc map fst mem]. destruct (Nat.eqb k k'); [reflexivity | exact IH].
Qed.

Lemma dict_set_keys : forall V k (v : V) d k', mem k' (map fst (dict_set k v d)) = Nat.eqb k' k || mem k' (map fst d).
Proof.
  intros V k v d. induction d as [|[k0 v0] r IH]; intro k'; cbn [dict_set map fst mem].
  - reflexivity.
  - destruct (Nat.eqb k k0) eqn:Hk.
    + apply Nat.eqb_eq in Hk. subst k0. cbn [map fst mem]. destruct (Nat.eqb k' k); reflexivity.
    + cbn [map fst mem]. rewrite IH. destruct (Nat.eqb k' k0), (Nat.eqb k' k); reflexivity.
Qed.

Lemma dict_of_keys_gen : forall V (l : list (name * V)) d k,
  mem k (map fst (fold_left (fun d kv => dict_set (fst kv) (snd kv) d) l d)) = mem k (map fst l) || mem k (map fst d).
Proof.
  intros V l. induction l as [|[k0 v0] r IH]; intros d k; cbn [fold_left map fst mem].
  - reflexivity.
  - rewrite IH. cbn [fst snd]. rewrite dict_set_keys.
    destruct (Nat.eqb k k0), (mem k (map fst r)), (mem k (map fst d)); reflexivity.
Qed.

Lemma dict_of_keys : forall V (l : list (name * V)) k, mem k (map fst (dict_of l)) = mem k (map fst l).
Proof. intros. unfold dict_of. rewrite dict_of_keys_gen. cbn. apply orb_false_r. Qed.

(* lookups in a dict built by assignments, when every assignment of a key stores the same value *)
Lemma assoc_dict_set : forall V k (v : V) d k',
  assoc k' (dict_set k v d) = if Nat.eqb k' k then Some v else assoc k' d.
Proof.
  intros V k v d. induction d as [|[k0 v0] r IH]; intro k'; cbn [dict_set assoc].
  - destruct (Nat.eqb k' k); reflexivity.
  - destruct (Nat.eqb k k0) eqn:Hk.
    + apply Nat.eqb_eq in Hk. subst k0. cbn [assoc]. destruct (Nat.eqb k' k); reflexivity.
    + cbn [assoc]. rewrite IH. destruct (Nat.eqb k' k0) eqn:Hk0; [|reflexivity].
      apply Nat.eqb_eq in Hk0. subst k0. destruct (Nat.eqb k' k) eqn:Hk'; [|reflexivity].
      apply Nat.eqb_eq in Hk'. subst. rewrite Nat.eqb_refl in Hk. discriminate.
Qed.

Lemma assoc_In : forall V (l : list (name * V)) k v, assoc k l = Some v -> In (k, v) l.
Proof.
  intros V l k v. induction l as [|[k0 v0] r IH]; cbn [assoc]; [discriminate|].
  destruct (Nat.eqb k k0) eqn:Hk.
  - intro H. inversion H; subst. apply Nat.eqb_eq in Hk. subst. left. reflexivity.
  - intro H. right. apply IH. exact H.
Qed.

Lemma assoc_dict_of_gen : forall (l : list (name * vtype)) d k,
  (forall t1 t2, (In (k, t1) l \/ assoc k d = Some t1) -> (In (k, t2) l \/ assoc k d = Some t2) -> t1 = t2) ->
  assoc k (fold_left (fun d kv => dict_set (fst kv) (snd kv) d) l d) =
  match assoc k d with Some t => Some t | None => assoc k l end.
Proof.
  induction l as [|[k0 t0] r IH]; intros d k Hc; cbn [fold_left assoc fst snd].
  - destruct (assoc k d); reflexivity.
  - rewrite IH.
    + rewrite assoc_dict_set. destruct (Nat.eqb k k0) eqn:Hk.
      * apply Nat.eqb_eq in Hk. subst k0. destruct (assoc k d) as [t|] eqn:Hd; [|reflexivity].
        f_equal. apply Hc; [left; left; reflexivity | right; reflexivity].
      * reflexivity.
    + intros t1 t2 H1 H2. apply Hc.
      * destruct H1 as [H1|H1]; [left; right; exact H1|].
        rewrite assoc_dict_set in H1. destruct (Nat.eqb k k0) eqn:Hk; [|right; exact H1].
        apply Nat.eqb_eq in Hk. subst k0. inversion H1; subst. left. left. reflexivity.
      * destruct H2 as [H2|H2]; [left; right; exact H2|].
        rewrite assoc_dict_set in H2. destruct (Nat.eqb k k0) eqn:Hk; [|right; exact H2].
        apply Nat.eqb_eq in Hk. subst k0. inversion H2; subst. left. left. reflexivity.
Qed.

Lemma assoc_dict_of : forall (l : list (name * vtype)) k,
  consistent_wf l -> assoc k (dict_of l) = assoc k l.
Proof.
  intros l k Hc. unfold dict_of. rewrite assoc_dict_of_gen; [reflexivity|].
  intros t1 t2 [H1|H1] [H2|H2]; try discriminate. eapply Hc; eassumption.
Qed.

Section WfEnv.
  Variable p : program.
  Variable HWF : WF p.
  Notation E := (visit_env p).

  Lemma wf_e_structs :
    e_structs E = map (fun ix => (s_name (snd ix), visit_struct (fst ix) (snd ix))) (index_from 0 (p_structs p)).
  Proof.
    destruct HWF as (Hns & _). cbn [visit_env e_structs].
    apply dedup_first_nodup; [|intros k _ []]. rewrite map_fst_indexed. exact Hns.
  Qed.

  Lemma wf_e_tasks :
    e_tasks E = map (fun ix => (t_name (snd ix), visit_task (fst ix) (snd ix))) (index_from 0 (p_tasks p)).
  Proof.
    destruct HWF as (_ & _ & Hnt & _). cbn [visit_env e_tasks].
    apply dedup_first_nodup; [|intros k _ []]. rewrite map_fst_indexed. exact Hnt.
  Qed.

  Lemma wf_has_struct : forall s, has_key s (e_structs E) = mem s (struct_names p).
  Proof. intro s. rewrite has_key_mem, wf_e_structs, map_fst_indexed. reflexivity. Qed.

  Lemma wf_has_task : forall t, has_key t (e_tasks E) = mem t (task_names p).
  Proof. intro t. rewrite has_key_mem, wf_e_tasks, map_fst_indexed. reflexivity. Qed.

  Lemma wf_type_exists : forall t, type_wf p t -> type_exists E t = true.
  Proof.
    intros t H. unfold type_exists, variable_type_exists.
    destruct t as [[| | |s]|[| | |s] [|n|v]]; cbn in *; try reflexivity; try (destruct H; fail);
      rewrite wf_has_struct; apply mem_In; tauto.
  Qed.

  Lemma wf_check_vardef : forall t c, type_wf p t -> check_vardef E t c = ok_true.
  Proof.
    intros t c H. unfold check_vardef. pose proof (wf_type_exists t H) as He.
    unfold type_exists in He. rewrite He. reflexivity.
  Qed.

  Lemma in_e_structs : forall kv, In kv (e_structs E) ->
    exists i s, In s (p_structs p) /\ snd kv = visit_struct i s.
  Proof.
    intros kv Hin. rewrite wf_e_structs in Hin. apply in_map_iff in Hin.
    destruct Hin as ([i s] & <- & Hin). apply in_index_from_inv in Hin. exists i, s. auto.
  Qed.

  Lemma in_e_tasks : forall kv, In kv (e_tasks E) ->
    exists i t, In t (p_tasks p) /\ snd kv = visit_task i t.
  Proof.
    intros kv Hin. rewrite wf_e_tasks in Hin. apply in_map_iff in Hin.
    destruct Hin as ([i t] & <- & Hin). apply in_index_from_inv in Hin. exists i, t. auto.
  Qed.

  Lemma wf_visit_struct_attrs : forall i s, In s (p_structs p) -> sd_attrs (visit_struct i s) = s_attrs s.
  Proof.
    intros i s Hin. destruct HWF as (_ & Hs & _). rewrite Forall_forall in Hs. destruct (Hs s Hin) as [Hnd Hty].
    cbn [visit_struct sd_attrs]. rewrite (norm_defs_wf p _ Hty). apply dedup_first_nodup; [assumption | intros k _ []].
  Qed.

  (* check_structs *)
  Theorem wf_check_structs : check_structs E = ok_true.
  Proof.
    unfold check_structs. apply forall_from_all_ok. intros j kv Hin.
    destruct (in_e_structs kv Hin) as (i & s & Hs & ->).
    unfold check_struct_def. apply forall_from_all_ok. intros j' a Ha.
    rewrite (wf_visit_struct_attrs i s Hs) in Ha.
    destruct HWF as (_ & Hss & _). rewrite Forall_forall in Hss. destruct (Hss s Hs) as [_ Hty].
    rewrite Forall_forall in Hty. apply wf_check_vardef. apply Hty. exact Ha.
  Qed.

  Lemma wf_td_ins : forall i t, In t (p_tasks p) -> td_ins (visit_task i t) = t_ins t.
  Proof.
    intros i t Hin. destruct HWF as (_ & _ & _ & _ & Ht & _). rewrite Forall_forall in Ht.
    destruct (Ht t Hin) as (Hnd & Hty & _). cbn [visit_task td_ins].
    rewrite (norm_defs_wf p _ Hty). apply dedup_first_nodup; [assumption | intros k _ []].
  Qed.

  Lemma wf_td_vars : forall i t v, In t (p_tasks p) ->
    assoc v (td_vars (visit_task i t)) = assoc v (vars_of_task t).
  Proof.
    intros i t v Hin. destruct HWF as (_ & _ & _ & _ & Ht & _). rewrite Forall_forall in Ht.
    destruct (Ht t Hin) as (_ & Hty & Hc & _). cbn [visit_task td_vars].
    rewrite (norm_defs_wf p _ Hty). apply assoc_dict_of. exact Hc.
  Qed.

  Lemma wf_td_vars_key : forall i t v, In t (p_tasks p) ->
    has_key v (td_vars (visit_task i t)) = mem v (map fst (vars_of_task t)).
  Proof.
    intros i t v Hin. destruct HWF as (_ & _ & _ & _ & Ht & _). rewrite Forall_forall in Ht.
    destruct (Ht t Hin) as (_ & Hty & _). rewrite has_key_mem. cbn [visit_task td_vars].
    rewrite (norm_defs_wf p _ Hty). apply dict_of_keys.
  Qed.

  (* check_task_input_parameters, check_task_output_parameters *)
  Theorem wf_check_task_io : forall kv, In kv (e_tasks E) ->
    check_task_inputs E (snd kv) = ok_true /\ check_task_outputs (snd kv) = ok_true.
  Proof.
    intros kv Hin. destruct (in_e_tasks kv Hin) as (i & t & Ht & ->).
    destruct HWF as (_ & _ & _ & _ & Hts & _). rewrite Forall_forall in Hts.
    destruct (Hts t Ht) as (_ & Hty & _ & _ & _ & Ho). split.
    - unfold check_task_inputs. apply forall_from_all_ok. intros j a Ha.
      rewrite (wf_td_ins i t Ht) in Ha. rewrite Forall_forall in Hty. apply wf_check_vardef. apply Hty. exact Ha.
    - unfold check_task_outputs. apply forall_from_all_ok. intros j o Hin'.
      cbn [visit_task td_outs] in Hin'. rewrite (wf_td_vars_key i t o Ht).
      rewrite Forall_forall in Ho. specialize (Ho o Hin'). apply mem_In in Ho. rewrite Ho. reflexivity.
  Qed.

  Lemma wf_has_start_task : has_key production_task (e_tasks E) = true.
  Proof. rewrite wf_has_task. apply mem_In. destruct HWF as (_ & _ & _ & H & _). exact H. Qed.
End WfEnv.

(* ------------------------------------------------------------------------------ *)
(* Part 3: attribute paths                                                         *)
(* ------------------------------------------------------------------------------ *)
From PFDL.Check Require Import Guards CheckProofsNoExn.

Lemma find_structdef_name : forall s l sdf, find_structdef s l = Some sdf -> s_name sdf = s /\ In sdf l.
Proof.
  intros s l. induction l as [|x r IH]; intros sdf H; [discriminate|]. cbn [find_structdef] in H.
  destruct (Nat.eqb s (s_name x)) eqn:Hs.
  - inversion H; subst. apply Nat.eqb_eq in Hs. split; [symmetry; exact Hs | left; reflexivity].
  - destruct (IH _ H) as [H1 H2]. split; [exact H1 | right; exact H2].
Qed.

Lemma assoc_indexed_struct : forall l i s sdf,
  find_structdef s l = Some sdf ->
  exists j, assoc s (map (fun ix => (s_name (snd ix), visit_struct (fst ix) (snd ix))) (index_from i l))
            = Some (visit_struct j sdf).
Proof.
  induction l as [|x r IH]; intros i s sdf H; [discriminate|]. cbn [find_structdef] in H.
  cbn [index_from map fst snd assoc]. destruct (Nat.eqb s (s_name x)).
  - inversion H; subst. eauto.
  - apply IH. exact H.
Qed.

Lemma assoc_indexed_task : forall l i n t,
  find_task n l = Some t ->
  exists j, assoc n (map (fun ix => (t_name (snd ix), visit_task (fst ix) (snd ix))) (index_from i l))
            = Some (visit_task j t).
Proof.
  induction l as [|x r IH]; intros i n t H; [discriminate|]. cbn [find_task] in H.
  cbn [index_from map fst snd assoc]. destruct (Nat.eqb n (t_name x)).
  - inversion H; subst. eauto.
  - apply IH. exact H.
Qed.

Lemma find_task_in : forall n l t, find_task n l = Some t -> t_name t = n /\ In t l.
Proof.
  intros n l. induction l as [|x r IH]; intros t H; [discriminate|]. cbn [find_task] in H.
  destruct (Nat.eqb n (t_name x)) eqn:Hn.
  - inversion H; subst. apply Nat.eqb_eq in Hn. split; [symmetry; exact Hn | left; reflexivity].
  - destruct (IH _ H) as [H1 H2]. split; [exact H1 | right; exact H2].
Qed.

Section WfPaths.
  Variable p : program.
  Variable HWF : WF p.
  Notation E := (visit_env p).

  (* the model's struct object for a struct type of the program *)
  Definition models (sd : sdef) (t : vtype) : Prop :=
    exists s sdf, t = TPlain (TStructName s) /\ find_structdef s (p_structs p) = Some sdf
                  /\ find_struct E s = Some sd /\ sd_attrs sd = s_attrs sdf /\ sd_name sd = s.

  Lemma wf_models : forall s sdf, find_structdef s (p_structs p) = Some sdf ->
    exists sd, models sd (TPlain (TStructName s)).
  Proof.
    intros s sdf H. destruct (assoc_indexed_struct _ 0 _ _ H) as [j Hj].
    destruct (find_structdef_name _ _ _ H) as [Hn Hin].
    exists (visit_struct j sdf). exists s, sdf. repeat split; try assumption.
    - unfold find_struct. rewrite (wf_e_structs p HWF). exact Hj.
    - apply (wf_visit_struct_attrs p HWF). exact Hin.
  Qed.

  Lemma models_fun : forall sd sd' t, models sd t -> models sd' t -> sd = sd'.
  Proof.
    intros sd sd' t (s & sdf & -> & _ & H1 & _) (s' & sdf' & Heq & _ & H2 & _).
    inversion Heq; subst. congruence.
  Qed.

  Lemma models_struct_of_prim : forall sd s, models sd (TPlain (TStructName s)) ->
    struct_of_prim E (TStructName s) = Some sd.
  Proof. intros sd s (s' & sdf & Heq & _ & H & _). inversion Heq; subst. exact H. Qed.

  (* one step of path_type through a field *)
  Lemma path_type_field : forall lv t a rest t' sd,
    path_type p lv t (PF a :: rest) = Some t' -> models sd t ->
    exists t1, assoc a (sd_attrs sd) = Some t1 /\ path_type p lv t1 rest = Some t'.
  Proof.
    intros lv t a rest t' sd H (s & sdf & -> & Hf & _ & Ha & _). cbn [path_type] in H.
    rewrite Hf in H. rewrite Ha. destruct (assoc a (s_attrs sdf)) as [t1|]; [eauto | discriminate].
  Qed.

  Lemma path_type_struct_head : forall lv t1 b rest t',
    path_type p lv t1 (PF b :: rest) = Some t' -> exists s1 sd1, t1 = TPlain (TStructName s1) /\ models sd1 t1.
  Proof.
    intros lv t1 b rest t' H. cbn [path_type] in H.
    destruct t1 as [[| | |s1]|]; try discriminate.
    destruct (find_structdef s1 (p_structs p)) as [sdf1|] eqn:Hf; [|discriminate].
    destruct (wf_models _ _ Hf) as [sd1 Hm]. eauto.
  Qed.

  Lemma path_type_index_head : forall lv t1 e rest t',
    is_index e = true -> path_type p lv t1 (e :: rest) = Some t' ->
    exists p1 l, t1 = TArray p1 l /\ path_type p lv (TPlain p1) rest = Some t'.
  Proof.
    intros lv t1 e rest t' Hi H. destruct e; try discriminate; cbn [path_type] in H;
      destruct t1 as [|p1 l]; try discriminate; [|eauto].
    destruct (mem v lv); [eauto | discriminate].
  Qed.

  (* check_attribute_access succeeds on a typed path (outside the crash shapes) *)
  Lemma path_caa_ok : forall n es lv t t' sd c,
    length es <= n -> path_type p lv t es = Some t' -> models sd t ->
    access_safe_loop E sd es = true -> caa_loop E c sd es = ok_true.
  Proof.
    induction n as [|n IH]; intros es lv t t' sd c Hlen Hp Hm Hs.
    - destruct es; [reflexivity | cbn in Hlen; lia].
    - destruct es as [|e rest]; [reflexivity|].
      destruct e.
      2-4: destruct Hm as (s & sdf & -> & _); cbn [path_type] in Hp; try discriminate;
           destruct (mem v lv); discriminate.
      destruct (path_type_field _ _ _ _ _ _ Hp Hm) as (t1 & Ha & Hp1).
      cbn [caa_loop]. cbn [access_safe_loop] in Hs. rewrite Ha in *.
      destruct rest as [|e2 rest2]; [reflexivity|].
      destruct e2.
      + destruct (path_type_struct_head _ _ _ _ _ Hp1) as (s1 & sd1 & -> & Hm1).
        rewrite (models_struct_of_prim _ _ Hm1) in *.
        eapply IH; [cbn in *; lia | exact Hp1 | exact Hm1 | exact Hs].
      + destruct (path_type_index_head lv t1 (PIdxVar v) rest2 t' eq_refl Hp1) as (p1 & l & -> & Hp2).
        destruct (struct_of_prim E p1) as [sd1|] eqn:Hsp; [|discriminate].
        cbn [caa_loop]. destruct rest2 as [|e3 rest3]; [reflexivity|].
        destruct e3; try (destruct p1; cbn [path_type] in Hp2; try discriminate; destruct (mem v0 lv); discriminate).
        destruct (path_type_struct_head _ _ _ _ _ Hp2) as (s1 & sd1' & Heq & Hm1). inversion Heq; subst p1.
        rewrite (models_struct_of_prim _ _ Hm1) in Hsp. inversion Hsp; subst sd1'.
        eapply IH; [cbn in *; lia | exact Hp2 | exact Hm1 | exact Hs].
      + destruct (path_type_index_head lv t1 (PIdxLit k) rest2 t' eq_refl Hp1) as (p1 & l & -> & Hp2).
        destruct (struct_of_prim E p1) as [sd1|] eqn:Hsp; [|discriminate].
        cbn [caa_loop]. destruct rest2 as [|e3 rest3]; [reflexivity|].
        destruct e3; try (destruct p1; cbn [path_type] in Hp2; try discriminate; destruct (mem v lv); discriminate).
        destruct (path_type_struct_head _ _ _ _ _ Hp2) as (s1 & sd1' & Heq & Hm1). inversion Heq; subst p1.
        rewrite (models_struct_of_prim _ _ Hm1) in Hsp. inversion Hsp; subst sd1'.
        eapply IH; [cbn in *; lia | exact Hp2 | exact Hm1 | exact Hs].
      + cbn [path_type] in Hp1. destruct t1; discriminate.
  Qed.

  (* get_type_of_variable_list computes the declared type of a field-only path *)
  Lemma path_gtvl_ok : forall rest lv t t' sd e1,
    path_type p lv t (e1 :: rest) = Some t' -> models sd t ->
    forallb (fun e => negb (is_index e)) (e1 :: rest) = true ->
    gtvl_loop E sd e1 rest = Some t'.
  Proof.
    induction rest as [|e2 rest IH]; intros lv t t' sd e1 Hp Hm Hf.
    - destruct e1; try discriminate. destruct (path_type_field _ _ _ _ _ _ Hp Hm) as (t1 & Ha & Hp1).
      cbn [path_type] in Hp1. inversion Hp1; subst. cbn [gtvl_loop attr_of]. exact Ha.
    - cbn [forallb] in Hf. apply andb_true_iff in Hf. destruct Hf as [H1 Hf].
      destruct e1; try discriminate.
      destruct (path_type_field _ _ _ _ _ _ Hp Hm) as (t1 & Ha & Hp1).
      assert (H2 : is_index e2 = false).
      { cbn [forallb] in Hf. apply andb_true_iff in Hf. destruct Hf as [H2 _].
        destruct (is_index e2); [discriminate | reflexivity]. }
      destruct e2; try discriminate.
      destruct (path_type_struct_head _ _ _ _ _ Hp1) as (s1 & sd1 & -> & Hm1).
      cbn [gtvl_loop attr_of]. rewrite Ha. cbn [struct_of_type]. rewrite (models_struct_of_prim _ _ Hm1).
      eapply IH; [exact Hp1 | exact Hm1 | exact Hf].
  Qed.

  Lemma assoc_indexed_struct_inv : forall l i s sd,
    assoc s (map (fun ix => (s_name (snd ix), visit_struct (fst ix) (snd ix))) (index_from i l)) = Some sd ->
    sd_name sd = s.
  Proof.
    induction l as [|x r IH]; intros i s sd H; [discriminate|].
    cbn [index_from map fst snd assoc] in H. destruct (Nat.eqb s (s_name x)) eqn:Hs.
    - inversion H; subst. cbn. apply Nat.eqb_eq in Hs. symmetry. exact Hs.
    - eapply IH. exact H.
  Qed.

  Lemma find_struct_name : forall s sd, find_struct E s = Some sd -> sd_name sd = s.
  Proof. intros s sd H. unfold find_struct in H. rewrite (wf_e_structs p HWF) in H. eapply assoc_indexed_struct_inv. exact H. Qed.

  (* the walk of check_if_input_parameter_matches arrives at the declared type of the path *)
  Lemma path_ipm_ok : forall n es lv t t' sd prev,
    length es <= n -> path_type p lv t es = Some t' -> models sd t ->
    match es with [] => is_index prev = true | e :: _ => is_index e = false end ->
    access_safe_loop E sd es = true ->
    exists cur, ipm_walk E sd es = Ok cur /\
      ((is_index (last es prev) = true /\ t' = TPlain (TStructName (sd_name cur)))
       \/ (is_index (last es prev) = false /\ attr_of cur (last es prev) = Some t')).
  Proof.
    induction n as [|n IH]; intros es lv t t' sd prev Hlen Hp Hm Hh Hs.
    - destruct es; [|cbn in Hlen; lia]. cbn [path_type] in Hp. inversion Hp; subst.
      exists sd. split; [reflexivity|]. left. split; [exact Hh|].
      destruct Hm as (s & sdf & -> & _ & _ & _ & Hn). rewrite Hn. reflexivity.
    - destruct es as [|e [|e2 rest2]].
      + cbn [path_type] in Hp. inversion Hp; subst.
        exists sd. split; [reflexivity|]. left. split; [exact Hh|].
        destruct Hm as (s & sdf & -> & _ & _ & _ & Hn). rewrite Hn. reflexivity.
      + destruct e; try discriminate.
        destruct (path_type_field _ _ _ _ _ _ Hp Hm) as (t1 & Ha & Hp1).
        cbn [path_type] in Hp1. inversion Hp1; subst.
        exists sd. split; [reflexivity|]. right. cbn [last attr_of]. split; [reflexivity | exact Ha].
      + destruct e; try discriminate.
        destruct (path_type_field _ _ _ _ _ _ Hp Hm) as (t1 & Ha & Hp1).
        rewrite (CheckProofsNoExn.ipm_walk_cons2 E). cbn [attr_of]. rewrite Ha.
        cbn [access_safe_loop] in Hs. rewrite Ha in Hs.
        destruct e2.
        * destruct (path_type_struct_head _ _ _ _ _ Hp1) as (s1 & sd1 & -> & Hm1).
          rewrite (models_struct_of_prim _ _ Hm1) in *.
          change (last (PF n0 :: PF n1 :: rest2) prev) with (last (PF n1 :: rest2) prev).
          eapply IH; [cbn in *; lia | exact Hp1 | exact Hm1 | reflexivity | exact Hs].
        * destruct (path_type_index_head lv t1 (PIdxVar v) rest2 t' eq_refl Hp1) as (p1 & l & -> & Hp2).
          destruct (struct_of_prim E p1) as [sd1|] eqn:Hsp; [|discriminate].
          rewrite (CheckProofsNoExn.last_cons _ (PIdxVar v :: rest2) (PF n0) prev).
          rewrite (CheckProofsNoExn.last_cons _ rest2 (PIdxVar v) (PF n0)).
          destruct rest2 as [|e3 rest3].
          -- cbn [path_type] in Hp2. inversion Hp2; subst. exists sd1. split; [reflexivity|].
             left. split; [reflexivity|]. destruct p1; try discriminate. cbn in Hsp.
             rewrite (find_struct_name _ _ Hsp). reflexivity.
          -- destruct e3; try (destruct p1; cbn [path_type] in Hp2; try discriminate; destruct (mem v0 lv); discriminate).
             destruct (path_type_struct_head _ _ _ _ _ Hp2) as (s1 & sd1' & Heq & Hm1). inversion Heq; subst p1.
             rewrite (models_struct_of_prim _ _ Hm1) in Hsp. inversion Hsp; subst sd1'.
             eapply IH; [cbn in *; lia | exact Hp2 | exact Hm1 | reflexivity | exact Hs].
        * destruct (path_type_index_head lv t1 (PIdxLit k) rest2 t' eq_refl Hp1) as (p1 & l & -> & Hp2).
          destruct (struct_of_prim E p1) as [sd1|] eqn:Hsp; [|discriminate].
          rewrite (CheckProofsNoExn.last_cons _ (PIdxLit k :: rest2) (PF n0) prev).
          rewrite (CheckProofsNoExn.last_cons _ rest2 (PIdxLit k) (PF n0)).
          destruct rest2 as [|e3 rest3].
          -- cbn [path_type] in Hp2. inversion Hp2; subst. exists sd1. split; [reflexivity|].
             left. split; [reflexivity|]. destruct p1; try discriminate. cbn in Hsp.
             rewrite (find_struct_name _ _ Hsp). reflexivity.
          -- destruct e3; try (destruct p1; cbn [path_type] in Hp2; try discriminate; destruct (mem v lv); discriminate).
             destruct (path_type_struct_head _ _ _ _ _ Hp2) as (s1 & sd1' & Heq & Hm1). inversion Heq; subst p1.
             rewrite (models_struct_of_prim _ _ Hm1) in Hsp. inversion Hsp; subst sd1'.
             eapply IH; [cbn in *; lia | exact Hp2 | exact Hm1 | reflexivity | exact Hs].
        * cbn [path_type] in Hp1. destruct t1; discriminate.
  Qed.
End WfPaths.

(* ------------------------------------------------------------------------------ *)
(* Part 4: parameters, expressions, calls, statements of one task                  *)
(* ------------------------------------------------------------------------------ *)
Lemma forall2_all_ok : forall A B (f : A -> B -> chk) l1 l2,
  Forall (fun xy => f (fst xy) (snd xy) = ok_true) (combine l1 l2) -> forall2_chk f l1 l2 = ok_true.
Proof.
  intros A B f l1. induction l1 as [|x r IH]; intros l2 H; destruct l2 as [|y r2]; try reflexivity.
  cbn [combine] in H. inversion H; subst. cbn [fst snd] in H2. cbn [forall2_chk]. rewrite H2, IH; [reflexivity | assumption].
Qed.

Lemma vtype_eqb_refl : forall t, vtype_eqb t t = true.
Proof. intro t. apply vtype_eqb_eq. reflexivity. Qed.

Lemma index_free_access_safe : forall E es sd, path_index_free es = true -> access_safe_loop E sd es = true.
Proof.
  intros E es. induction es as [|e rest IH]; intros sd H; [reflexivity|].
  unfold path_index_free in H. cbn [forallb] in H. apply andb_true_iff in H. destruct H as [He Hr].
  destruct e; try discriminate. cbn [access_safe_loop].
  destruct (assoc n (sd_attrs sd)) as [ty|]; [|reflexivity].
  destruct rest as [|e2 rest2]; [reflexivity|].
  assert (Hi : is_index e2 = false).
  { cbn [forallb] in Hr. apply andb_true_iff in Hr. destruct Hr as [H2 _]. destruct (is_index e2); [discriminate|reflexivity]. }
  rewrite Hi. destruct ty as [p0|p0 l]; [|reflexivity].
  destruct (struct_of_prim E p0); [apply IH; exact Hr | reflexivity].
Qed.

Section WfTask.
  Variable p : program.
  Variable HWF : WF p.
  Variable tk : task.
  Variable Htk : In tk (p_tasks p).
  Variable i : nat.
  Notation E := (visit_env p).
  Notation T := (visit_task i tk).
  Notation vars := (vars_of_task tk).

  Lemma wf_var : forall v, assoc v (td_vars T) = var_type vars v.
  Proof. intro v. unfold var_type. apply (wf_td_vars p HWF). exact Htk. Qed.

  (* ---- attribute paths as parameters, conditions and limits ---- *)
  Lemma wf_attribute_access : forall c lv v es t',
    param_path_type p vars lv v es = Some t' -> access_safe E T v es = true ->
    check_attribute_access E T c v es = ok_true.
  Proof.
    intros c lv v es t' Hp Hs. unfold param_path_type in Hp. unfold access_safe in Hs.
    unfold check_attribute_access. rewrite wf_var in *. destruct (var_type vars v) as [t|]; [|discriminate].
    destruct es as [|e rest]; [discriminate|]. destruct e; try discriminate.
    destruct (path_type_struct_head p HWF _ _ _ _ _ Hp) as (s1 & sd1 & -> & Hm).
    rewrite (models_struct_of_prim p _ _ Hm) in *.
    eapply (path_caa_ok p HWF); [apply le_n | exact Hp | exact Hm | exact Hs].
  Qed.

  Lemma wf_gtvl : forall lv v es t',
    param_path_type p vars lv v es = Some t' -> path_index_free es = true ->
    get_type_of_variable_list E T v es = Some t'.
  Proof.
    intros lv v es t' Hp Hf. unfold param_path_type in Hp. unfold get_type_of_variable_list.
    rewrite wf_var. destruct (var_type vars v) as [t|]; [|discriminate].
    destruct es as [|e rest]; [discriminate|]. destruct e; try discriminate.
    destruct (path_type_struct_head p HWF _ _ _ _ _ Hp) as (s1 & sd1 & -> & Hm).
    cbn [struct_of_type]. rewrite (models_struct_of_prim p _ _ Hm).
    eapply (path_gtvl_ok p HWF); eassumption.
  Qed.

  Lemma wf_index_free_access : forall c lv v es t',
    param_path_type p vars lv v es = Some t' -> path_index_free es = true ->
    check_attribute_access E T c v es = ok_true.
  Proof.
    intros c lv v es t' Hp Hf. eapply wf_attribute_access; [exact Hp|].
    unfold access_safe. destruct (assoc v (td_vars T)) as [[p0|p0 l]|]; try reflexivity.
    destruct (struct_of_prim E p0); [apply index_free_access_safe; exact Hf | reflexivity].
  Qed.

  Lemma wf_single_path : forall c lv v es t',
    param_path_type p vars lv v es = Some t' -> (t' = TPlain TNumber \/ t' = TPlain TBoolean) ->
    path_index_free es = true -> check_single_path E T c v es = ok_true.
  Proof.
    intros c lv v es t' Hp Ht Hf. unfold check_single_path.
    rewrite (wf_index_free_access c lv v es t' Hp Hf), (wf_gtvl lv v es t' Hp Hf).
    destruct Ht as [-> | ->]; reflexivity.
  Qed.

  Lemma wf_check_limit : forall c lv lim,
    limit_ok p vars lv lim = true -> limit_index_free lim = true -> check_limit E T c lim = ok_true.
  Proof.
    intros c lv lim Hl Hf. destruct lim as [n|v es]; [reflexivity|]. cbn [limit_ok limit_index_free check_limit] in *.
    destruct (param_path_type p vars lv v es) as [t|] eqn:Hp; [|discriminate].
    destruct t as [[| | |s]|]; try discriminate.
    rewrite (wf_index_free_access c lv v es _ Hp Hf). cbn [expression_is_number].
    rewrite (wf_gtvl lv v es _ Hp Hf). reflexivity.
  Qed.

  (* ---- operands of comparison / arithmetic operators ---- *)
  Lemma typed_num_operand : forall lv e,
    expr_type p vars lv e = Some TyNum -> expr_index_free e = true -> expression_is_number E T e = true.
  Proof.
    intros lv e. induction e; intros Ht Hs; cbn [expr_type expr_index_free expression_is_number] in *; try discriminate.
    - reflexivity.
    - destruct (param_path_type p vars lv v p0) as [t|] eqn:Hp; [|discriminate].
      rewrite (wf_gtvl lv v p0 t Hp Hs). destruct t as [[| | |s]|]; try discriminate. reflexivity.
    - destruct (expr_type p vars lv e) as [[| |]|]; discriminate.
    - apply IHe; assumption.
    - apply andb_true_iff in Hs. destruct Hs as [H1 H2].
      destruct (expr_type p vars lv e1) as [a|] eqn:Ha; [|discriminate].
      destruct (expr_type p vars lv e2) as [b|] eqn:Hb; [|discriminate].
      destruct o; destruct a, b; try discriminate;
        rewrite (IHe1 eq_refl H1), (IHe2 eq_refl H2); reflexivity.
  Qed.

  Lemma typed_str_operand : forall lv e,
    expr_type p vars lv e = Some TyStr -> expr_index_free e = true ->
    expression_is_number E T e = false /\
    (paren_string p vars lv e = false -> expression_is_string E T e = true).
  Proof.
    intros lv e. induction e; intros Ht Hs; cbn [expr_type expr_index_free expression_is_number expression_is_string] in *;
      try discriminate.
    - split; reflexivity.
    - destruct (param_path_type p vars lv v p0) as [t|] eqn:Hp; [|discriminate].
      rewrite (wf_gtvl lv v p0 t Hp Hs). destruct t as [[| | |s]|]; try discriminate. split; reflexivity.
    - destruct (expr_type p vars lv e) as [[| |]|]; discriminate.
    - split; [apply IHe; assumption|]. unfold paren_string. cbn [expr_type]. rewrite Ht. discriminate.
    - destruct (expr_type p vars lv e1) as [a|]; [|discriminate].
      destruct (expr_type p vars lv e2) as [b|]; [|discriminate].
      destruct o; destruct a, b; try discriminate; cbn in Ht; try discriminate.
  Qed.

  (* ---- guards ---- *)
  Theorem wf_check_expression : forall c lv e ty,
    expr_type p vars lv e = Some ty -> expr_index_free e = true ->
    string_path_checked p vars lv e = false ->
    check_expression E T c e = ok_true.
  Proof.
    intros c lv e. induction e; intros ty Ht Hs Hg;
      cbn [expr_type check_expression expr_index_free string_path_checked] in *; try reflexivity.
    - destruct (param_path_type p vars lv v p0) as [t|] eqn:Hpt; [|discriminate].
      eapply (wf_single_path c lv v p0 t Hpt); [|exact Hs].
      destruct t as [[| | |s]|]; try discriminate; auto.
    - destruct (expr_type p vars lv e) as [[| |]|] eqn:He; try discriminate.
      eapply IHe; [reflexivity | exact Hs | exact Hg].
    - eapply IHe; [exact Ht | exact Hs | exact Hg].
    - apply andb_true_iff in Hs. destruct Hs as [Hl Hr].
      destruct (expr_type p vars lv e1) as [a|] eqn:Ha; [|discriminate].
      destruct (expr_type p vars lv e2) as [b|] eqn:Hb; [|discriminate].
      destruct (is_cmp o) eqn:Hcmp; [|destruct (is_arith o) eqn:Har].
      + apply orb_false_iff in Hg. destruct Hg as [Hgl Hgr].
        destruct o; try discriminate; destruct a, b; try discriminate;
          first [ rewrite (typed_num_operand lv e1 Ha Hl), (typed_num_operand lv e2 Hb Hr); reflexivity
                | destruct (typed_str_operand lv e1 Ha Hl) as [Hn1 Hs1];
                  destruct (typed_str_operand lv e2 Hb Hr) as [Hn2 Hs2];
                  rewrite Hn1; cbn [andb]; rewrite (Hs1 Hgl), (Hs2 Hgr); reflexivity ].
      + destruct o; try discriminate; destruct a, b; try discriminate;
          rewrite (typed_num_operand lv e1 Ha Hl), (typed_num_operand lv e2 Hb Hr); reflexivity.
      + apply orb_false_iff in Hg. destruct Hg as [Hgl Hgr].
        rewrite (IHe1 a eq_refl Hl Hgl). rewrite (IHe2 b eq_refl Hr Hgr). reflexivity.
  Qed.
End WfTask.

(* ------------------------------------------------------------------------------ *)
(* Part 5: struct literals                                                         *)
(* ------------------------------------------------------------------------------ *)
Lemma parse_json_obj : forall fs,
  parse_json (JObj fs) = PVStruct (dict_of (map (fun kv => (fst kv, parse_json (snd kv))) fs)).
Proof.
  intro fs. cbn [parse_json]. f_equal. f_equal.
  induction fs as [|[k v] r IH]; [reflexivity|]. cbn [map fst snd]. rewrite <- IH. reflexivity.
Qed.

Lemma parse_json_arr : forall es,
  parse_json (JArr es) = PVArray (map parse_json (filter (fun e => negb (is_jarr e)) es)).
Proof.
  intro es. cbn [parse_json]. f_equal.
  induction es as [|e r IH]; [reflexivity|]. cbn [filter]. destruct (is_jarr e); cbn [negb map]; rewrite <- IH; reflexivity.
Qed.

Lemma dict_set_fresh : forall V k (v : V) d, ~ In k (map fst d) -> dict_set k v d = d ++ [(k, v)].
Proof.
  intros V k v d. induction d as [|[k0 v0] r IH]; intro H; [reflexivity|]. cbn [dict_set].
  destruct (Nat.eqb k k0) eqn:Hk.
  - apply Nat.eqb_eq in Hk. subst. exfalso. apply H. left. reflexivity.
  - cbn [app]. f_equal. apply IH. intro Hin. apply H. right. exact Hin.
Qed.

Lemma dict_of_nodup_gen : forall V (l d : list (name * V)),
  NoDup (map fst d ++ map fst l) -> fold_left (fun d kv => dict_set (fst kv) (snd kv) d) l d = d ++ l.
Proof.
  intros V l. induction l as [|[k v] r IH]; intros d H; [symmetry; apply app_nil_r|].
  cbn [fold_left fst snd]. rewrite dict_set_fresh.
  - rewrite IH.
    + rewrite <- app_assoc. reflexivity.
    + rewrite map_app. cbn [map fst]. rewrite <- app_assoc. exact H.
  - cbn [map fst] in H. apply NoDup_remove_2 in H. intro Hin. apply H. apply in_or_app. left. exact Hin.
Qed.

Lemma dict_of_nodup : forall V (l : list (name * V)), NoDup (map fst l) -> dict_of l = l.
Proof. intros V l H. unfold dict_of. rewrite dict_of_nodup_gen; [reflexivity | exact H]. Qed.

Lemma band_ok_true : band ok_true ok_true = ok_true.
Proof. reflexivity. Qed.

Lemma go_fields_ok : forall (f : name -> pv -> chk) (l : list (name * pv)),
  (forall kv, In kv l -> f (fst kv) (snd kv) = ok_true) ->
  (fix go (l : list (name * pv)) : chk :=
     match l with [] => ok_true | (id', v') :: r => band (f id' v') (go r) end) l = ok_true.
Proof.
  intros f l. induction l as [|[k v] r IH]; intro H; [reflexivity|].
  pose proof (H (k, v) (or_introl eq_refl)) as Hk. cbn [fst snd] in Hk. rewrite Hk.
  rewrite IH; [reflexivity|]. intros. apply H. right. assumption.
Qed.

Lemma check_missing_ok : forall c defattrs (fs : list (name * pv)),
  (forall a, In a defattrs -> In (fst a) (map fst fs)) -> check_missing c defattrs fs = ok_true.
Proof.
  intros c defattrs fs. induction defattrs as [|[a t] r IH]; intro H; [reflexivity|]. cbn [check_missing].
  rewrite has_key_mem. assert (Hm : mem a (map fst fs) = true) by (apply mem_In; apply (H (a, t)); left; reflexivity).
  rewrite Hm. apply IH. intros. apply H. right. assumption.
Qed.

(* the two inner loops of check_attr_type for an array attribute, named *)
Definition inst_chk (E : env) (p1 : prim) (jctx : ctx) (value : pv) : chk :=
  match value with
  | PVStruct fs =>
    match struct_of_prim E p1 with
    | None => fail1 KUnknownStruct jctx
    | Some sd' =>
      band (check_missing jctx (sd_attrs sd') fs)
        ((fix go (l2 : list (name * pv)) : chk :=
            match l2 with
            | [] => ok_true
            | (id', v') :: r2 =>
              band (if has_key id' (sd_attrs sd') then check_attr_type E jctx jctx sd' id' v'
                    else fail1 KUnknownAttrInLit jctx) (go r2)
            end) fs)
    end
  | _ => ok_true
  end.

Fixpoint elems_f (E : env) (p1 : prim) (jctx : ctx) (k : chk) (l : list pv) : chk :=
  match l with
  | [] => k
  | value :: r =>
    andthen (inst_chk E p1 jctx value)
      (if check_type_of_value E value (Some p1) p1 then elems_f E p1 jctx k r else fail1 KArrayElem jctx)
  end.

Lemma check_attr_type_array_eq : forall E jctx ictx def id p1 len vs,
  assoc id (sd_attrs def) = Some (TArray p1 len) ->
  check_attr_type E jctx ictx def id (PVArray vs) =
  match elems_f E p1 jctx (if array_length_correct (length vs) len then ok_true else fail1 KArrayLength jctx) vs with
  | Ok (true, es) => Ok (true, es)
  | Ok (false, es) => Ok (false, es ++ [(KWrongTypeArray, ictx)])
  | Fuel => Fuel | Exn k => Exn k | Unsupported => Unsupported
  end.
Proof.
  intros E jctx ictx def id p1 len vs Ha. cbn [check_attr_type]. rewrite Ha.
  set (K := if array_length_correct (length vs) len then ok_true else fail1 KArrayLength jctx).
  match goal with
  | |- match ?F vs with _ => _ end = _ =>
    assert (Heq : forall l, F l = elems_f E p1 jctx K l)
  end.
  { induction l as [|value r IH]; [reflexivity|]. cbn [elems_f]. rewrite <- IH. reflexivity. }
  rewrite Heq. reflexivity.
Qed.

Lemma andthen_ok_true_l : forall b, andthen ok_true b = b.
Proof. intro b. unfold andthen, ok_true. destruct b as [[y e2]| |k|]; reflexivity. Qed.

Lemma elems_f_ok : forall E p1 jctx k vs,
  (forall value, In value vs -> inst_chk E p1 jctx value = ok_true /\ check_type_of_value E value (Some p1) p1 = true) ->
  elems_f E p1 jctx k vs = k.
Proof.
  intros E p1 jctx k vs. induction vs as [|value r IH]; intro H; [reflexivity|]. cbn [elems_f].
  destruct (H value (or_introl eq_refl)) as [H1 H2]. rewrite H1, H2, andthen_ok_true_l.
  apply IH. intros. apply H. right. assumption.
Qed.

Section WfLiterals.
  Variable p : program.
  Variable HWF : WF p.
  Notation E := (visit_env p).

  Lemma structdef_attrs_wf : forall s sdf a t, find_structdef s (p_structs p) = Some sdf ->
    assoc a (s_attrs sdf) = Some t -> type_wf p t.
  Proof.
    intros s sdf a t Hf Ha. destruct (find_structdef_name _ _ _ Hf) as [_ Hin].
    destruct HWF as (_ & Hs & _). rewrite Forall_forall in Hs. destruct (Hs sdf Hin) as [_ Hty].
    rewrite Forall_forall in Hty. apply (Hty (a, t)). apply assoc_In. exact Ha.
  Qed.

  Definition Qj (j : json) : Prop :=
    forall t' def id jctx ictx, json_wt p t' j -> assoc id (sd_attrs def) = Some t' -> type_wf p t' ->
      check_attr_type E jctx ictx def id (parse_json j) = ok_true.
  Definition Pj (j : json) : Prop :=
    Qj j /\ match j with JObj fs => Forall (fun kv => Qj (snd kv)) fs | _ => True end.

  (* the fields of an object literal against the struct it instantiates *)
  Lemma obj_fields_ok : forall fs s1 sdf1 sd1 jctx,
    Forall (fun kv => Qj (snd kv)) fs ->
    find_structdef s1 (p_structs p) = Some sdf1 -> sd_attrs sd1 = s_attrs sdf1 ->
    (fix go (l : list (name * json)) : Prop :=
       match l with
       | [] => True
       | (k, v) :: r => (exists t', assoc k (s_attrs sdf1) = Some t' /\ json_wt p t' v) /\ go r
       end) fs ->
    forall kv, In kv (map (fun kv => (fst kv, parse_json (snd kv))) fs) ->
      has_key (fst kv) (sd_attrs sd1) = true /\
      check_attr_type E jctx jctx sd1 (fst kv) (snd kv) = ok_true.
  Proof.
    intros fs s1 sdf1 sd1 jctx HQ Hf Hattrs. induction fs as [|[k v] r IH]; intros Hgo kv Hin; [destruct Hin|].
    inversion HQ; subst. destruct Hgo as [[t' [Ha Hw]] Hgo].
    destruct Hin as [<-|Hin]; [|apply IH; assumption].
    cbn [fst snd]. split.
    - unfold has_key. rewrite Hattrs, Ha. reflexivity.
    - apply (H1 t'); [exact Hw | rewrite Hattrs; exact Ha | eapply structdef_attrs_wf; eassumption].
  Qed.

  Lemma wf_check_attr_type_strong : forall j, Pj j.
  Proof.
    intro j. induction j using json_ind'; unfold Pj; (split; [|try exact I]).
    - intros t' def id jctx ictx Hw Ha Hty. cbn [parse_json check_attr_type]. rewrite Ha.
      destruct t' as [[| | |s0]|]; try (destruct Hw; fail). reflexivity.
    - intros t' def id jctx ictx Hw Ha Hty. cbn [parse_json check_attr_type]. rewrite Ha.
      destruct t' as [[| | |s0]|]; try (destruct Hw; fail). reflexivity.
    - intros t' def id jctx ictx Hw Ha Hty. cbn [parse_json check_attr_type]. rewrite Ha.
      destruct t' as [[| | |s0]|]; try (destruct Hw; fail). reflexivity.
    - (* object *)
      intros t' def id jctx ictx Hw Ha Hty. rewrite parse_json_obj.
      destruct t' as [[| | |s1]|]; try (destruct Hw; fail). cbn [json_wt] in Hw.
      destruct Hw as (sdf1 & Hf & Hnd & Hall & Hgo).
      destruct (wf_models p HWF _ _ Hf) as [sd1 Hm].
      pose proof (models_struct_of_prim p _ _ Hm) as Hsp.
      destruct Hm as (s' & sdf' & Heq & Hf' & _ & Hattrs & _). inversion Heq; subst s'.
      rewrite Hf in Hf'. inversion Hf'; subst sdf'.
      cbn [check_attr_type]. rewrite Ha, Hsp.
      rewrite dict_of_nodup by (rewrite map_map; cbn [fst]; exact Hnd).
      assert (HQ : Forall (fun kv => Qj (snd kv)) fs)
        by (eapply Forall_impl; [|exact H]; intros a0 Ha0; apply Ha0).
      rewrite check_missing_ok.
      2:{ intros a Hin'. rewrite Hattrs in Hin'. rewrite Forall_forall in Hall. rewrite map_map. cbn [fst].
          apply Hall. exact Hin'. }
      rewrite (go_fields_ok (fun id' v' => if has_key id' (sd_attrs sd1) then check_attr_type E jctx jctx sd1 id' v'
                                           else fail1 KUnknownAttrInLit jctx)); [reflexivity|].
      intros kv Hin. destruct (obj_fields_ok fs s1 sdf1 sd1 jctx HQ Hf Hattrs Hgo kv Hin) as [Hk Hc].
      rewrite Hk. exact Hc.
    - eapply Forall_impl; [|exact H]. intros a0 Ha0. apply Ha0.
    - (* array *)
      intros t' def id jctx ictx Hw Ha Hty. rewrite parse_json_arr.
      destruct t' as [[| | |s0]|p1 len]; try (destruct Hw; fail). cbn [json_wt] in Hw. destruct Hw as [Hlen Hgo].
      assert (Hall : Forall (json_wt p (TPlain p1)) es).
      { clear - Hgo. induction es as [|e r IH]; [constructor|]. destruct Hgo. constructor; auto. }
      assert (Hfilter : filter (fun e => negb (is_jarr e)) es = es).
      { clear - Hall. induction es as [|e r IH]; [reflexivity|]. inversion Hall; subst. cbn [filter].
        destruct e; cbn [is_jarr negb]; try (rewrite IH by assumption; reflexivity).
        destruct p1; destruct H1. }
      rewrite Hfilter. rewrite (check_attr_type_array_eq _ _ _ _ _ _ _ _ Ha).
      assert (Hlenok : array_length_correct (length (map parse_json es)) len = true).
      { rewrite map_length. destruct len as [|n|v]; try reflexivity. cbn [type_wf] in Hty. destruct Hty as [_ Hn].
        subst n. cbn [array_length_correct]. rewrite Nat.eqb_refl.
        destruct (length es); [lia | reflexivity]. }
      rewrite Hlenok. rewrite elems_f_ok; [reflexivity|].
      intros value Hin. apply in_map_iff in Hin. destruct Hin as (e & <- & Hin).
      rewrite Forall_forall in Hall, H. specialize (Hall e Hin). specialize (H e Hin).
      destruct e; try (destruct p1; destruct Hall; fail).
      + destruct p1; try (destruct Hall; fail). split; reflexivity.
      + destruct p1; try (destruct Hall; fail). split; reflexivity.
      + destruct p1; try (destruct Hall; fail). split; reflexivity.
      + (* struct element *)
        destruct p1 as [| | |s1]; try (destruct Hall; fail). cbn [json_wt] in Hall.
        destruct Hall as (sdf1 & Hf & Hnd & Hpres & Hgo1).
        destruct (wf_models p HWF _ _ Hf) as [sd1 Hm].
        pose proof (models_struct_of_prim p _ _ Hm) as Hsp.
        destruct Hm as (s' & sdf' & Heq & Hf' & _ & Hattrs & _). inversion Heq; subst s'.
        rewrite Hf in Hf'. inversion Hf'; subst sdf'.
        rewrite parse_json_obj. rewrite dict_of_nodup by (rewrite map_map; cbn [fst]; exact Hnd).
        destruct H as [_ HQ]. split.
        * unfold inst_chk. rewrite Hsp. rewrite check_missing_ok.
          2:{ intros a Hin'. rewrite Hattrs in Hin'. rewrite Forall_forall in Hpres. rewrite map_map. cbn [fst].
              apply Hpres. exact Hin'. }
          rewrite (go_fields_ok (fun id' v' => if has_key id' (sd_attrs sd1) then check_attr_type E jctx jctx sd1 id' v'
                                               else fail1 KUnknownAttrInLit jctx)); [reflexivity|].
          intros kv Hin'. destruct (obj_fields_ok fs s1 sdf1 sd1 jctx HQ Hf Hattrs Hgo1 kv Hin') as [Hk Hc].
          rewrite Hk. exact Hc.
        * cbn [check_type_of_value prim_eqb]. apply Nat.eqb_refl.
  Qed.

  Theorem wf_check_literal : forall ictx jctx s j,
    json_wt p (TPlain (TStructName s)) j -> check_literal E ictx jctx s j = ok_true.
  Proof.
    intros ictx jctx s j Hw. destruct j; try (destruct Hw; fail). cbn [json_wt] in Hw.
    destruct Hw as (sdf & Hf & Hnd & Hpres & Hgo).
    destruct (wf_models p HWF _ _ Hf) as [sd Hm].
    destruct Hm as (s' & sdf' & Heq & Hf' & Hfs & Hattrs & _). inversion Heq; subst s'.
    rewrite Hf in Hf'. inversion Hf'; subst sdf'.
    unfold check_literal. rewrite parse_json_obj, Hfs.
    rewrite dict_of_nodup by (rewrite map_map; cbn [fst]; exact Hnd).
    rewrite check_missing_ok.
    2:{ intros a Hin. rewrite Hattrs in Hin. rewrite Forall_forall in Hpres. rewrite map_map. cbn [fst].
        apply Hpres. exact Hin. }
    rewrite forall_from_all_ok; [reflexivity|].
    intros k kv Hin.
    assert (HQ : Forall (fun kv => Qj (snd kv)) fs).
    { apply Forall_forall. intros x _. apply (proj1 (wf_check_attr_type_strong (snd x))). }
    (* the top-level instance carries its own context; the proof of the fields is the same *)
    apply in_map_iff in Hin. destruct Hin as ([k0 v0] & <- & Hin0). cbn [fst snd].
    assert (Hkv : exists t', assoc k0 (s_attrs sdf) = Some t' /\ json_wt p t' v0).
    { clear - Hgo Hin0. induction fs as [|[k1 v1] r IH]; [destruct Hin0|]. destruct Hgo as [Hh Hr].
      destruct Hin0 as [Heq|Hin0]; [inversion Heq; subst; exact Hh | apply IH; assumption]. }
    destruct Hkv as (t' & Ha & Hwv). unfold has_key. rewrite Hattrs, Ha.
    apply (proj1 (wf_check_attr_type_strong v0) t'); [exact Hwv | rewrite Hattrs; exact Ha|].
    eapply structdef_attrs_wf; eassumption.
  Qed.
End WfLiterals.

(* ------------------------------------------------------------------------------ *)
(* Part 6: no recursion                                                            *)
(* ------------------------------------------------------------------------------ *)
Lemma find_task_nodup : forall l t, NoDup (map t_name l) -> In t l -> find_task (t_name t) l = Some t.
Proof.
  induction l as [|x r IH]; intros t Hnd Hin; [destruct Hin|]. cbn [find_task map] in *.
  inversion Hnd; subst. destruct Hin as [->|Hin]; [rewrite Nat.eqb_refl; reflexivity|].
  destruct (Nat.eqb (t_name t) (t_name x)) eqn:Hn; [|apply IH; assumption].
  apply Nat.eqb_eq in Hn. exfalso. apply H1. rewrite <- Hn. apply in_map. exact Hin.
Qed.

Section WfRecursion.
  Variable p : program.
  Variable HWF : WF p.
  Notation E := (visit_env p).

  Lemma chains_shorter_mono : forall k n, chains_shorter p k n -> chains_shorter p (S k) n.
  Proof.
    induction k as [|k IH]; intros n H; [destruct H|]. cbn [chains_shorter] in *.
    destruct (find_task n (p_tasks p)) as [t|]; [|exact I].
    eapply Forall_impl; [|exact H]. intros a Ha. apply IH. exact Ha.
  Qed.

  Lemma wf_calls_of_task : forall n, has_key n (e_tasks E) = true ->
    exists t, find_task n (p_tasks p) = Some t /\ calls_of_task E n = task_calls t.
  Proof.
    intros n Hk. rewrite (wf_has_task p HWF) in Hk. unfold task_names in Hk.
    assert (Hex : exists t, find_task n (p_tasks p) = Some t).
    { clear - Hk. induction (p_tasks p) as [|x r IH]; [discriminate|]. cbn [map mem find_task] in *.
      destruct (Nat.eqb n (t_name x)); [eauto | apply IH; exact Hk]. }
    destruct Hex as [t Ht]. exists t. split; [exact Ht|].
    destruct (assoc_indexed_task _ 0 _ _ Ht) as [j Hj].
    unfold calls_of_task, find_tdef. rewrite (wf_e_tasks p HWF), Hj. reflexivity.
  Qed.

  (* what can be reached from a task has call chains no longer than the task itself *)
  Lemma reach_chains : forall f a b k,
    task_reaches E f a b = true -> chains_shorter p k a -> chains_shorter p k b.
  Proof.
    induction f as [|f IH]; intros a b k Hr Hc; cbn [task_reaches] in Hr;
      apply andb_true_iff in Hr; destruct Hr as [Hk Hr]; apply orb_true_iff in Hr.
    - destruct Hr as [Hr|Hr]; [|discriminate]. apply Nat.eqb_eq in Hr. subst. exact Hc.
    - destruct Hr as [Hr|Hr]; [apply Nat.eqb_eq in Hr; subst; exact Hc|].
      apply existsb_exists in Hr. destruct Hr as (m & Hm & Hr).
      destruct (wf_calls_of_task a Hk) as (t & Ht & Hcalls). rewrite Hcalls in Hm.
      destruct k as [|k]; [destruct Hc|]. cbn [chains_shorter] in Hc. rewrite Ht in Hc.
      rewrite Forall_forall in Hc. specialize (Hc m Hm).
      apply (IH m b (S k) Hr). apply chains_shorter_mono. exact Hc.
  Qed.

  Theorem wf_no_recursion : forall tk n f,
    In tk (p_tasks p) -> In n (task_calls tk) -> task_reaches E f n (t_name tk) = false.
  Proof.
    intros tk n f Htk Hn. destruct (task_reaches E f n (t_name tk)) eqn:Hr; [|reflexivity]. exfalso.
    pose proof HWF as (_ & _ & Hnd & _ & _ & Hch). rewrite Forall_forall in Hch. specialize (Hch tk Htk).
    revert Hch. generalize (S (length (p_tasks p))) as k.
    induction k as [|k IH]; intro Hc; [destruct Hc|].
    cbn [chains_shorter] in Hc. rewrite (find_task_nodup _ _ Hnd Htk) in Hc.
    rewrite Forall_forall in Hc. specialize (Hc n Hn).
    apply IH. eapply reach_chains; [exact Hr | exact Hc].
  Qed.
End WfRecursion.

(* ------------------------------------------------------------------------------ *)
(* Part 7: parameters, calls, statements, tasks, the program                       *)
(* ------------------------------------------------------------------------------ *)
Section WfStatements.
  Variable p : program.
  Variable HWF : WF p.
  Variable tk : task.
  Variable Htk : In tk (p_tasks p).
  Variable i : nat.
  Notation E := (visit_env p).
  Notation T := (visit_task i tk).
  Notation vars := (vars_of_task tk).

  Lemma wf_input_param : forall ti pi k lv x t,
    param_wt p vars lv x t -> param_access_safe E T x = true ->
    check_input_param E T ti pi k x = ok_true.
  Proof.
    intros ti pi k lv x t Hw Hs. destruct x as [v|v es|s j]; cbn [check_input_param param_wt param_access_safe] in *.
    - unfold has_key. rewrite (wf_var p HWF tk Htk i), Hw. reflexivity.
    - eapply (wf_attribute_access p HWF tk Htk i); eassumption.
    - destruct Hw as [-> Hw]. apply (wf_check_literal p HWF). exact Hw.
  Qed.

  Lemma wf_call_outputs : forall ti pi outs, outs_wf p outs ->
    call_outs outs = outs /\ check_call_outputs E ti pi outs = ok_true.
  Proof.
    intros ti pi outs Ho. pose proof (outs_wf_call_outs p outs Ho) as Hc. split; [exact Hc|].
    unfold check_call_outputs. rewrite Hc. apply forall_from_all_ok. intros j o Hin.
    destruct Ho as [_ Hty]. rewrite Forall_forall in Hty. apply (wf_check_vardef p HWF). apply Hty. exact Hin.
  Qed.

  Lemma wf_call_parameters : forall ti pi lv ins outs,
    Forall (fun x => exists t, param_wt p vars lv x t) ins -> outs_wf p outs ->
    forallb (param_access_safe E T) ins = true ->
    check_call_parameters E T ti pi ins outs = ok_true.
  Proof.
    intros ti pi lv ins outs Hins Ho Hs. unfold check_call_parameters.
    destruct (wf_call_outputs ti pi outs Ho) as [Hc Hco].
    assert (H1 : match ins with [] => ok_true | _ :: _ => check_call_inputs E T ti pi ins end = ok_true).
    { destruct ins as [|x0 r0]; [reflexivity|]. unfold check_call_inputs. apply forall_from_all_ok.
      intros k x Hin. rewrite Forall_forall in Hins. destruct (Hins x Hin) as [t Ht].
      rewrite forallb_forall in Hs. eapply wf_input_param; [exact Ht | apply Hs; exact Hin]. }
    rewrite H1. rewrite Hc. destruct outs; [reflexivity|]. rewrite Hco. reflexivity.
  Qed.

  Lemma wf_input_matches : forall ti pi lv x t,
    param_wt p vars lv x t -> param_access_safe E T x = true ->
    check_input_matches E T ti pi x t = ok_true.
  Proof.
    intros ti pi lv x t Hw Hs. destruct x as [v|v es|s j]; cbn [check_input_matches param_wt param_access_safe] in *.
    - rewrite (wf_var p HWF tk Htk i), Hw, vtype_eqb_refl. reflexivity.
    - unfold param_path_type in Hw. rewrite (wf_var p HWF tk Htk i).
      unfold access_safe in Hs. rewrite (wf_var p HWF tk Htk i) in Hs.
      destruct (var_type vars v) as [t0|]; [|discriminate].
      destruct es as [|e rest]; [discriminate|]. destruct e; try discriminate.
      destruct (path_type_struct_head p HWF _ _ _ _ _ Hw) as (s1 & sd1 & -> & Hm).
      rewrite (models_struct_of_prim p _ _ Hm) in *.
      destruct (path_ipm_ok p HWF (length (PF n :: rest)) (PF n :: rest) lv _ t sd1 (PF v) (le_n _) Hw Hm eq_refl Hs)
        as (cur & Hwalk & Hlast).
      rewrite Hwalk. destruct Hlast as [[Hi ->] | [Hi Ha]]; rewrite Hi.
      + unfold given_differs. rewrite vtype_eqb_refl. reflexivity.
      + rewrite Ha. unfold given_differs. rewrite vtype_eqb_refl. reflexivity.
    - destruct Hw as [-> _]. rewrite vtype_eqb_refl. reflexivity.
  Qed.

  Lemma wf_find_tdef : forall n callee, find_task n (p_tasks p) = Some callee ->
    exists j, find_tdef E n = Some (visit_task j callee) /\ In callee (p_tasks p).
  Proof.
    intros n callee H. destruct (assoc_indexed_task _ 0 _ _ H) as [j Hj].
    exists j. split; [|apply (find_task_in _ _ _ H)].
    unfold find_tdef. rewrite (wf_e_tasks p HWF). exact Hj.
  Qed.

  Lemma wf_task_call : forall ti pi lv c,
    call_wf p vars lv c -> forallb (param_access_safe E T) (c_ins c) = true ->
    In (c_name c) (task_calls tk) ->
    check_task_call E T ti pi c = ok_true.
  Proof.
    intros ti pi lv c (callee & Hf & Ho & Hl1 & Hl2 & Hins & Houts) Hs Hcall. unfold check_task_call.
    destruct (wf_find_tdef _ _ Hf) as (j & Hfd & Hcin).
    assert (Hk : has_key (c_name c) (e_tasks E) = true) by (unfold has_key; unfold find_tdef in Hfd; rewrite Hfd; reflexivity).
    rewrite Hk. cbn [visit_task td_name]. rewrite (wf_no_recursion p HWF tk _ _ Htk Hcall).
    assert (Hparams : check_call_parameters E T ti pi (c_ins c) (c_outs c) = ok_true).
    { eapply wf_call_parameters; [|exact Ho|exact Hs].
      apply Forall_forall. intros x Hin.
      assert (Hex : forall (l1 : list param) (l2 : list (name * vtype)), length l1 = length l2 ->
                Forall (fun pf => param_wt p vars lv (fst pf) (snd (snd pf))) (combine l1 l2) ->
                forall x, In x l1 -> exists t, param_wt p vars lv x t).
      { induction l1 as [|a r IH]; intros l2 Hl HF x0 Hin0; [destruct Hin0|].
        destruct l2 as [|b r2]; [discriminate|]. cbn [combine] in HF. inversion HF; subst.
        destruct Hin0 as [<-|Hin0]; [eexists; exact H1 | eapply IH; [|exact H2|exact Hin0]; cbn in Hl; lia]. }
      eapply Hex; [exact Hl1 | exact Hins | exact Hin]. }
    rewrite Hparams. rewrite andthen_ok_true_l.
    unfold check_call_matches. rewrite Hfd.
    destruct (wf_call_outputs ti pi (c_outs c) Ho) as [Hc _].
    unfold check_length_match. rewrite (wf_td_ins p HWF j callee Hcin). cbn [visit_task td_outs].
    rewrite Hc, <- Hl1, <- Hl2, !Nat.eqb_refl. cbn [negb]. rewrite andthen_ok_true_l.
    rewrite forall2_all_ok.
    - rewrite forall2_all_ok; [reflexivity|].
      eapply Forall_impl; [|exact Houts]. intros oo Hoo. cbn beta. unfold check_output_matches.
      rewrite (wf_td_vars p HWF j callee _ Hcin), Hoo, vtype_eqb_refl. reflexivity.
    - assert (Hall : forall (l1 : list param) (l2 : list (name * vtype)),
                forallb (param_access_safe E T) l1 = true ->
                Forall (fun pf => param_wt p vars lv (fst pf) (snd (snd pf))) (combine l1 l2) ->
                Forall (fun xy => check_input_matches E T ti pi (fst xy) (snd (snd xy)) = ok_true) (combine l1 l2)).
      { induction l1 as [|a r IH]; intros l2 Hsafe HF; [constructor|].
        destruct l2 as [|b r2]; [constructor|]. cbn [combine] in *. inversion HF; subst.
        cbn [forallb] in Hsafe. apply andb_true_iff in Hsafe. destruct Hsafe as [Ha Hr].
        constructor; [|apply IH; assumption]. cbn [fst snd] in *. eapply wf_input_matches; eassumption. }
      apply Hall; assumption.
  Qed.

  Lemma existsb_false_in : forall A (f : A -> bool) l x, existsb f l = false -> In x l -> f x = false.
  Proof.
    intros A f l x H Hin. destruct (f x) eqn:Hx; [|reflexivity].
    assert (existsb f l = true) by (apply existsb_exists; eauto). congruence.
  Qed.

  Lemma incl_flat_map_in : forall (b : list stmt) x, In x b -> incl (stmt_calls x) (flat_map stmt_calls b).
  Proof. intros b x Hin n Hn. apply in_flat_map. eauto. Qed.

  (* the statements of the task: rule by rule, under the two shape guards *)
  Lemma wf_check_stmt : forall s lv pi,
    stmt_wf p vars lv s ->
    stmt_all expr_index_free limit_index_free (param_access_safe E T) s = true ->
    stmt_exists (string_path_checked p vars) lv s = false ->
    incl (stmt_calls s) (task_calls tk) ->
    check_stmt E T pi s = ok_true.
  Proof.
    intro s. induction s using stmt_ind'; intros lv pi Hw Hs Hg Hc; cbn [check_stmt stmt_wf stmt_all stmt_exists stmt_calls] in *.
    - destruct Hw as [Hins Ho]. eapply wf_call_parameters; eassumption.
    - eapply wf_task_call; [exact Hw | exact Hs | apply Hc; left; reflexivity].
    - destruct Hw as [_ Hw]. apply forall_from_all_ok. intros j c Hin.
      rewrite Forall_forall in Hw. rewrite forallb_forall in Hs.
      eapply wf_task_call; [apply Hw; exact Hin | apply Hs; exact Hin | apply Hc; apply in_map; exact Hin].
    - destruct Hw as (He & _ & Hb). apply go_wf_forall in Hb.
      apply andb_true_iff in Hs. destruct Hs as [Hsb Hse].
      apply orb_false_iff in Hg. destruct Hg as [Hge Hgb].
      rewrite forall_from_all_ok.
      + rewrite (wf_check_expression p HWF tk Htk i _ lv e TyBool He Hse Hge). reflexivity.
      + intros j x Hin. rewrite Forall_forall in H, Hb. rewrite forallb_forall in Hsb.
        eapply H; [exact Hin | apply Hb; exact Hin | apply Hsb; exact Hin | eapply existsb_false_in; eassumption|].
        eapply incl_tran; [apply incl_flat_map_in; exact Hin | exact Hc].
    - destruct Hw as [Hlim Hw]. destruct par.
      + destruct Hw as (c & -> & Hcw). apply andb_true_iff in Hs. destruct Hs as [Hsl Hsc].
        rewrite (wf_check_limit p HWF tk Htk i _ lv l Hlim Hsl).
        rewrite (wf_task_call _ (pi ++ [0]) (v :: lv) c Hcw Hsc); [reflexivity|].
        apply Hc. cbn. left. reflexivity.
      + destruct Hw as [_ Hb]. apply go_wf_forall in Hb.
        apply andb_true_iff in Hs. destruct Hs as [Hsl Hsb].
        rewrite (wf_check_limit p HWF tk Htk i _ lv l Hlim Hsl).
        rewrite forall_from_all_ok; [reflexivity|].
        intros j x Hin. rewrite Forall_forall in H, Hb. rewrite forallb_forall in Hsb.
        eapply H; [exact Hin | apply Hb; exact Hin | apply Hsb; exact Hin | eapply existsb_false_in; eassumption|].
        eapply incl_tran; [apply incl_flat_map_in; exact Hin | exact Hc].
    - destruct Hw as (He & _ & Hp & Hf). apply go_wf_forall in Hp. apply go_wf_forall in Hf.
      apply andb_true_iff in Hs. destruct Hs as [Hs Hse]. apply andb_true_iff in Hs. destruct Hs as [Hsp Hsf].
      apply orb_false_iff in Hg. destruct Hg as [Hg Hgf]. apply orb_false_iff in Hg. destruct Hg as [Hge Hgp].
      rewrite forall_from_all_ok; [rewrite forall_from_all_ok|].
      + rewrite (wf_check_expression p HWF tk Htk i _ lv e TyBool He Hse Hge). reflexivity.
      + intros j x Hin. rewrite Forall_forall in H0, Hf. rewrite forallb_forall in Hsf.
        eapply H0; [exact Hin | apply Hf; exact Hin | apply Hsf; exact Hin | exact (existsb_false_in _ _ _ _ Hgf Hin)|].
        eapply incl_tran; [apply incl_flat_map_in; exact Hin|].
        eapply incl_tran; [apply incl_appr; apply incl_refl | exact Hc].
      + intros j x Hin. rewrite Forall_forall in H, Hp. rewrite forallb_forall in Hsp.
        eapply H; [exact Hin | apply Hp; exact Hin | apply Hsp; exact Hin | exact (existsb_false_in _ _ _ _ Hgp Hin)|].
        eapply incl_tran; [apply incl_flat_map_in; exact Hin|].
        eapply incl_tran; [apply incl_appl; apply incl_refl | exact Hc].
  Qed.
End WfStatements.

Theorem wf_accepted_under_guard : forall p, WF p -> c11_guard p = true -> validate p = Ok [].
Proof.
  intros p HWF Hg. unfold c11_guard in Hg. apply andb_true_iff in Hg. destruct Hg as [Hsafe Hstr].
  apply negb_true_iff in Hstr.
  unfold validate. rewrite (wf_visit_errs_nil p HWF).
  assert (Hvp : validate_process (visit_env p) = ok_true).
  { unfold validate_process. rewrite (wf_check_structs p HWF).
    assert (Htasks : forall_from (fun (_ : nat) (kv : name * tdef) => check_task (visit_env p) (snd kv)) 0
                                 (e_tasks (visit_env p)) = ok_true).
    { apply forall_from_all_ok. intros j kv Hin.
      destruct (wf_check_task_io p HWF kv Hin) as [Hi Ho].
      unfold check_task. rewrite Hi, Ho.
      assert (Hst : check_statements (visit_env p) (snd kv) = ok_true).
      { destruct (in_e_tasks p HWF kv Hin) as (i & tk & Htk & Heq).
        unfold g_array_elements, prog_all in Hsafe. rewrite forallb_forall in Hsafe. specialize (Hsafe kv Hin).
        rewrite Heq in *. cbn [visit_task td_body] in Hsafe.
        unfold check_statements. cbn [visit_task td_body]. apply forall_from_all_ok. intros k s Hs.
        pose proof HWF as HWF'. destruct HWF' as (_ & _ & _ & _ & Hts & _). rewrite Forall_forall in Hts.
        destruct (Hts tk Htk) as (_ & _ & _ & _ & Hb & _). rewrite Forall_forall in Hb.
        rewrite forallb_forall in Hsafe.
        eapply (wf_check_stmt p); [assumption | exact Htk | apply Hb; exact Hs | apply Hsafe; exact Hs | |].
        - destruct (stmt_exists (string_path_checked p (vars_of_task tk)) [] s) eqn:Hx; [|reflexivity].
          exfalso. unfold sh_string_eq, tasks_exist in Hstr.
          assert (existsb (fun t => existsb (stmt_exists (string_path_checked p (vars_of_task t)) []) (t_body t))
                          (p_tasks p) = true).
          { apply existsb_exists. exists tk. split; [exact Htk|]. apply existsb_exists. eauto. }
          congruence.
        - intros n Hn. unfold task_calls. apply in_flat_map. eauto. }
      rewrite Hst. reflexivity. }
    unfold check_tasks. rewrite Htasks. rewrite (wf_has_start_task p HWF). reflexivity. }
  rewrite Hvp. reflexivity.
Qed.

(* full statement of C11 *)
Definition C11_wf_accepted : Prop := forall p, WF p -> validate p = Ok [].
