(* TypingProofs.v — wf_dec decides WF. *)
From PFDL Require Import Base Syntax.
From PFDL.Check Require Import CheckModel CheckProofsBase Typing.

Lemma mem_In : forall k l, mem k l = true <-> In k l.
Proof.
  intros k l. induction l as [|x r IH]; cbn [mem In].
  - split; [discriminate | tauto].
  - rewrite orb_true_iff, Nat.eqb_eq, IH. split; intros [H|H]; auto.
Qed.

Lemma nodupb_NoDup : forall l, nodupb l = true <-> NoDup l.
Proof.
  induction l as [|x r IH]; cbn [nodupb].
  - split; [constructor | reflexivity].
  - rewrite andb_true_iff, negb_true_iff, IH. split.
    + intros [Hm Hn]. constructor; [|assumption]. intro Hin. apply mem_In in Hin. congruence.
    + intro H. inversion H; subst. split; [|assumption].
      destruct (mem x r) eqn:Hm; [|reflexivity]. apply mem_In in Hm. contradiction.
Qed.

Lemma forallb_Forall_iff : forall A (f : A -> bool) (P : A -> Prop) l,
  (forall x, In x l -> (f x = true <-> P x)) -> (forallb f l = true <-> Forall P l).
Proof.
  intros A f P l H. rewrite forallb_forall, Forall_forall.
  split; intros Hx x Hin; apply H; auto.
Qed.

Lemma prim_eqb_eq : forall a b, prim_eqb a b = true <-> a = b.
Proof.
  intros a b. destruct a, b; cbn; try (split; [reflexivity || discriminate | reflexivity || discriminate]).
  rewrite Nat.eqb_eq. split; [intros ->; reflexivity | intro H; inversion H; reflexivity].
Qed.

Lemma alen_eqb_eq : forall a b, alen_eqb a b = true <-> a = b.
Proof.
  intros a b. destruct a, b; cbn; try (split; [reflexivity || discriminate | reflexivity || discriminate]);
    rewrite Nat.eqb_eq; (split; [intros ->; reflexivity | intro H; inversion H; reflexivity]).
Qed.

Lemma vtype_eqb_eq : forall a b, vtype_eqb a b = true <-> a = b.
Proof.
  intros a b. destruct a as [x|x l], b as [y|y m]; cbn [vtype_eqb]; try (split; discriminate).
  - rewrite prim_eqb_eq. split; [intros ->; reflexivity | intro H; inversion H; reflexivity].
  - rewrite andb_true_iff, prim_eqb_eq, alen_eqb_eq.
    split; [intros [-> ->]; reflexivity | intro H; inversion H; auto].
Qed.

Section JsonInd.
  Variable P : json -> Prop.
  Variable Hnum : forall q, P (JNum q).
  Variable Hbool : forall b, P (JBool b).
  Variable Hstr : forall s, P (JStr s).
  Variable Hobj : forall fs, Forall (fun kv => P (snd kv)) fs -> P (JObj fs).
  Variable Harr : forall es, Forall P es -> P (JArr es).
  Fixpoint json_ind' (j : json) : P j :=
    match j with
    | JNum q => Hnum q
    | JBool b => Hbool b
    | JStr s => Hstr s
    | JObj fs =>
      Hobj fs ((fix go (l : list (name * json)) : Forall (fun kv => P (snd kv)) l :=
                  match l with
                  | [] => Forall_nil _
                  | (k, x) :: r => Forall_cons (k, x) (json_ind' x) (go r)
                  end) fs)
    | JArr es =>
      Harr es ((fix go (l : list json) : Forall P l :=
                  match l with
                  | [] => Forall_nil _
                  | x :: r => Forall_cons x (json_ind' x) (go r)
                  end) es)
    end.
End JsonInd.

Section Correct.
  Variable P : program.

  Lemma prim_ok_wf : forall p, prim_ok P p = true <-> prim_wf P p.
  Proof. intro p. destruct p; cbn; try (split; auto; fail). apply mem_In. Qed.

  Lemma type_ok_wf : forall t, type_ok P t = true <-> type_wf P t.
  Proof.
    intro t. destruct t as [p|p [|n|v]]; cbn [type_ok type_wf]; try apply prim_ok_wf.
    - rewrite andb_true_iff, Nat.ltb_lt, prim_ok_wf. tauto.
    - split; [discriminate | tauto].
  Qed.

  Lemma struct_ok_wf : forall s, struct_ok P s = true <-> struct_wf P s.
  Proof.
    intro s. unfold struct_ok, struct_wf. rewrite andb_true_iff, nodupb_NoDup.
    rewrite (forallb_Forall_iff _ _ (fun a => type_wf P (snd a))); [tauto|].
    intros. apply type_ok_wf.
  Qed.

  Lemma json_ok_wt : forall j t, json_ok P t j = true <-> json_wt P t j.
  Proof.
    intro j. induction j using json_ind'; intro t;
      destruct t as [[| | |s']|p len]; cbn [json_ok json_wt]; try (split; [discriminate | tauto]);
      try (split; auto; fail).
    - (* object against a struct type *)
      destruct (find_structdef s' (p_structs P)) as [sd|].
      + rewrite !andb_true_iff, nodupb_NoDup.
        rewrite (forallb_Forall_iff _ _ (fun a => In (fst a) (map fst fs))) by (intros; apply mem_In).
        assert (Hgo : forall l, Forall (fun kv => forall t, json_ok P t (snd kv) = true <-> json_wt P t (snd kv)) l ->
                  ((fix go (l : list (name * json)) : bool :=
                      match l with
                      | [] => true
                      | (k, v) :: r => match assoc k (s_attrs sd) with
                                       | Some t' => json_ok P t' v && go r
                                       | None => false
                                       end
                      end) l = true
                   <->
                   (fix go (l : list (name * json)) : Prop :=
                      match l with
                      | [] => True
                      | (k, v) :: r => (exists t', assoc k (s_attrs sd) = Some t' /\ json_wt P t' v) /\ go r
                      end) l)).
        { induction l as [|[k v] r IHr]; intro HF; [tauto|]. inversion HF; subst. cbn [snd] in *.
          destruct (assoc k (s_attrs sd)) as [t'|].
          - rewrite andb_true_iff, H2, IHr by assumption. split.
            + intros [Ha Hb]. split; [eauto | assumption].
            + intros [[t'' [Heq Ha]] Hb]. inversion Heq; subst. tauto.
          - split; [discriminate|]. intros [[t'' [Heq _]] _]. discriminate. }
        rewrite (Hgo fs H). split.
        * intros [[H1 H2] H3]. exists sd. tauto.
        * intros [sd' [Heq [H1 [H2 H3]]]]. inversion Heq; subst. tauto.
      + split; [discriminate|]. intros [sd [Heq _]]. discriminate.
    - (* array against an array type *)
      rewrite andb_true_iff.
      assert (Hgo : forall l, Forall (fun e => forall t, json_ok P t e = true <-> json_wt P t e) l ->
                ((fix go (l : list json) : bool :=
                    match l with [] => true | e :: r => json_ok P (TPlain p) e && go r end) l = true
                 <->
                 (fix go (l : list json) : Prop :=
                    match l with [] => True | e :: r => json_wt P (TPlain p) e /\ go r end) l)).
      { induction l as [|e r IHr]; intro HF; [tauto|]. inversion HF; subst.
        rewrite andb_true_iff, H2, IHr by assumption. tauto. }
      rewrite (Hgo es H).
      destruct len as [|n|v]; try tauto. rewrite Nat.eqb_eq. tauto.
  Qed.

  Section TaskCorrect.
    Variable vars : list (name * vtype).

    Lemma param_ok_wt : forall lv p, param_ok P vars lv p = true <-> exists t, param_wt P vars lv p t.
    Proof.
      intros lv p. unfold param_ok. destruct p as [v|v es|s j]; cbn [param_type param_wt].
      - destruct (var_type vars v); split; eauto; try discriminate. intros [t H]. discriminate.
      - destruct (param_path_type P vars lv v es); split; eauto; try discriminate. intros [t H]. discriminate.
      - destruct (json_ok P (TPlain (TStructName s)) j) eqn:Hj.
        + split; [|reflexivity]. intros _. exists (TPlain (TStructName s)). split; [reflexivity|].
          apply json_ok_wt. exact Hj.
        + split; [discriminate|]. intros [t [-> Hw]]. apply json_ok_wt in Hw. congruence.
    Qed.

    Lemma param_type_wt : forall lv p t, param_type P vars lv p = Some t <-> param_wt P vars lv p t.
    Proof.
      intros lv p t. destruct p as [v|v es|s j]; cbn [param_type param_wt]; try tauto.
      destruct (json_ok P (TPlain (TStructName s)) j) eqn:Hj.
      - split.
        + intro H. inversion H; subst. split; [reflexivity | apply json_ok_wt; exact Hj].
        + intros [-> _]. reflexivity.
      - split; [discriminate|]. intros [-> Hw]. apply json_ok_wt in Hw. congruence.
    Qed.

    Lemma outs_ok_wf : forall outs, outs_ok P outs = true <-> outs_wf P outs.
    Proof.
      intro outs. unfold outs_ok, outs_wf. rewrite andb_true_iff, nodupb_NoDup.
      rewrite (forallb_Forall_iff _ _ (fun o => type_wf P (snd o))); [tauto|]. intros. apply type_ok_wf.
    Qed.

    Lemma call_ok_wf : forall lv c, call_ok P vars lv c = true <-> call_wf P vars lv c.
    Proof.
      intros lv c. unfold call_ok, call_wf.
      destruct (find_task (c_name c) (p_tasks P)) as [callee|].
      - rewrite !andb_true_iff, outs_ok_wf, !Nat.eqb_eq.
        rewrite (forallb_Forall_iff _ _ (fun pf => param_wt P vars lv (fst pf) (snd (snd pf)))).
        2:{ intros pf _. destruct (param_type P vars lv (fst pf)) as [t|] eqn:Ht.
            - rewrite vtype_eqb_eq. split.
              + intros ->. apply param_type_wt. exact Ht.
              + intro Hw. apply param_type_wt in Hw. congruence.
            - split; [discriminate|]. intro Hw. apply param_type_wt in Hw. congruence. }
        rewrite (forallb_Forall_iff _ _ (fun oo => assoc (snd oo) (vars_of_task callee) = Some (snd (fst oo)))).
        2:{ intros oo _. destruct (assoc (snd oo) (vars_of_task callee)) as [t|].
            - rewrite vtype_eqb_eq. split; [intros ->; reflexivity | intro H; inversion H; reflexivity].
            - split; discriminate. }
        split.
        + intros [[[[H1 H2] H3] H4] H5]. exists callee. tauto.
        + intros [callee' [Heq H]]. inversion Heq; subst. tauto.
      - split; [discriminate|]. intros [callee [Heq _]]. discriminate.
    Qed.

    Lemma length_zero_nil : forall A (l : list A), negb (Nat.eqb (length l) 0) = true <-> l <> [].
    Proof. intros A l. destruct l; cbn; split; try discriminate; try congruence; auto. Qed.

    Lemma stmt_ok_wf : forall s lv, stmt_ok P vars lv s = true <-> stmt_wf P vars lv s.
    Proof.
      intro s. induction s using stmt_ind'; intro lv; cbn [stmt_ok stmt_wf].
      - rewrite andb_true_iff, outs_ok_wf.
        rewrite (forallb_Forall_iff _ _ (fun p => exists t, param_wt P vars lv p t)); [tauto|].
        intros. apply param_ok_wt.
      - apply call_ok_wf.
      - rewrite andb_true_iff, length_zero_nil.
        rewrite (forallb_Forall_iff _ _ (call_wf P vars lv)); [tauto|]. intros. apply call_ok_wf.
      - rewrite !andb_true_iff, length_zero_nil. unfold guard_ok.
        assert (Hb : forallb (stmt_ok P vars lv) b = true <->
                     (fix go (l : list stmt) : Prop :=
                        match l with [] => True | s1 :: r => stmt_wf P vars lv s1 /\ go r end) b).
        { clear - H. induction b as [|s1 r IH]; [cbn; tauto|]. inversion H; subst.
          cbn [forallb]. rewrite andb_true_iff, H2, IH by assumption. tauto. }
        rewrite Hb. destruct (expr_type P vars lv e) as [[| |]|]; split; intros; try tauto;
          try (destruct H0 as [[? ?] ?]; discriminate); try (destruct H0 as [? _]; discriminate).
      - rewrite andb_true_iff. destruct par.
        + split.
          * intros [H1 H2]. split; [assumption|].
            destruct b as [|s0 [|s1 r]]; [discriminate | | destruct s0; discriminate].
            destruct s0; try discriminate. exists c. split; [reflexivity | apply call_ok_wf; assumption].
          * intros [H1 [c [-> H2]]]. split; [assumption|]. apply call_ok_wf. assumption.
        + rewrite andb_true_iff, length_zero_nil.
          assert (Hb : forallb (stmt_ok P vars (v :: lv)) b = true <->
                       (fix go (l0 : list stmt) : Prop :=
                          match l0 with [] => True | s1 :: r => stmt_wf P vars (v :: lv) s1 /\ go r end) b).
          { clear - H. induction b as [|s1 r IH]; [cbn; tauto|]. inversion H; subst.
            cbn [forallb]. rewrite andb_true_iff, H2, IH by assumption. tauto. }
          rewrite Hb. tauto.
      - rewrite !andb_true_iff, length_zero_nil. unfold guard_ok.
        assert (Hb : forall l, Forall (fun s => forall lv, stmt_ok P vars lv s = true <-> stmt_wf P vars lv s) l ->
                     (forallb (stmt_ok P vars lv) l = true <->
                      (fix go (l : list stmt) : Prop :=
                         match l with [] => True | s1 :: r => stmt_wf P vars lv s1 /\ go r end) l)).
        { induction l as [|s1 r IH]; intro HF; [cbn; tauto|]. inversion HF; subst.
          cbn [forallb]. rewrite andb_true_iff, H3, IH by assumption. tauto. }
        rewrite (Hb p H), (Hb f H0).
        destruct (expr_type P vars lv e) as [[| |]|]; split; intros; try tauto;
          try (destruct H1 as [[[? ?] ?] ?]; discriminate); try (destruct H1 as [? _]; discriminate).
    Qed.
  End TaskCorrect.

  Lemma consistent_wf_iff : forall l, consistent l = true <-> consistent_wf l.
  Proof.
    induction l as [|[k t] r IH]; cbn [consistent].
    - split; [intros _ k t1 t2 [] | reflexivity].
    - rewrite andb_true_iff, IH, forallb_forall. split.
      + intros [Hh Hr] k' t1 t2 [H1|H1] [H2|H2].
        * inversion H1; inversion H2; subst. reflexivity.
        * inversion H1; subst. specialize (Hh _ H2). cbn [fst snd] in Hh.
          apply orb_true_iff in Hh. destruct Hh as [Hh|Hh].
          -- apply negb_true_iff in Hh. rewrite Nat.eqb_refl in Hh. discriminate.
          -- apply vtype_eqb_eq in Hh. exact Hh.
        * inversion H2; subst. specialize (Hh _ H1). cbn [fst snd] in Hh.
          apply orb_true_iff in Hh. destruct Hh as [Hh|Hh].
          -- apply negb_true_iff in Hh. rewrite Nat.eqb_refl in Hh. discriminate.
          -- apply vtype_eqb_eq in Hh. symmetry. exact Hh.
        * eapply Hr; eassumption.
      + intro H. split.
        * intros [k' t'] Hin. cbn [fst snd]. destruct (Nat.eqb k k') eqn:Hk; [|reflexivity].
          apply Nat.eqb_eq in Hk. subst k'. cbn [negb orb]. apply vtype_eqb_eq.
          apply (H k t t'); [left; reflexivity | right; exact Hin].
        * intros k' t1 t2 H1 H2. apply (H k' t1 t2); right; assumption.
  Qed.

  Lemma task_ok_wf : forall t, task_ok P t = true <-> task_wf P t.
  Proof.
    intro t. unfold task_ok, task_wf. cbn zeta.
    rewrite !andb_true_iff, nodupb_NoDup, consistent_wf_iff, length_zero_nil.
    rewrite (forallb_Forall_iff _ _ (fun a => type_wf P (snd a))) by (intros; apply type_ok_wf).
    rewrite (forallb_Forall_iff _ _ (stmt_wf P (vars_of_task t) [])) by (intros; apply stmt_ok_wf).
    rewrite (forallb_Forall_iff _ _ (fun o => In o (map fst (vars_of_task t)))) by (intros; apply mem_In).
    tauto.
  Qed.

  Lemma depth_lt_chains : forall k n, depth_lt P k n = true <-> chains_shorter P k n.
  Proof.
    induction k as [|k IH]; intro n; cbn [depth_lt chains_shorter].
    - split; [discriminate | tauto].
    - destruct (find_task n (p_tasks P)) as [t|]; [|tauto].
      apply forallb_Forall_iff. intros. apply IH.
  Qed.

  Theorem wf_dec_correct : wf_dec P = true <-> WF P.
  Proof.
    unfold wf_dec, WF, acyclic.
    rewrite !andb_true_iff, !nodupb_NoDup, mem_In.
    rewrite (forallb_Forall_iff _ _ (struct_wf P)) by (intros; apply struct_ok_wf).
    rewrite (forallb_Forall_iff _ _ (task_wf P)) by (intros; apply task_ok_wf).
    rewrite (forallb_Forall_iff _ _ (fun t => chains_shorter P (S (length (p_tasks P))) (t_name t)))
      by (intros; apply depth_lt_chains).
    tauto.
  Qed.
End Correct.
