(* CheckProofsC16.v — totality and "the verdict matches the output".

   good r  :=  r is not Fuel  /\  (r = Ok (b, es) -> (b = true <-> es = []))

   Every method of the checker model is [good]: the model needs no fuel (it is total by
   structural recursion — Coq accepted the definitions — and none of its branches returns
   Fuel), and whenever a method returns, its boolean result is True exactly when it
   printed nothing.  Consequently validate_process returns True iff no message was printed
   by the checker, and the verdict of parse_string (no message at all) is well defined for
   every AST. *)
From PFDL Require Import Base Syntax.
From PFDL.Check Require Import CheckModel CheckProofsBase.

Definition good (r : chk) : Prop := nofuel r /\ cons r.

Lemma good_ok_true : good ok_true.
Proof. split; [unfold nofuel, ok_true; congruence | apply cons_ok_true]. Qed.
Lemma good_fail1 : forall k c, good (fail1 k c).
Proof. intros; split; [unfold nofuel, fail1; congruence | apply cons_fail1]. Qed.
Lemma good_exn : forall k, good (Exn k).
Proof. intros; split; [unfold nofuel; congruence | apply cons_exn]. Qed.
Lemma good_unsupported : good Unsupported.
Proof. split; [unfold nofuel; congruence | apply cons_unsupported]. Qed.
Lemma good_band : forall a b, good a -> good b -> good (band a b).
Proof. intros a b [? ?] [? ?]; split; [apply nofuel_band | apply cons_band]; auto. Qed.
Lemma good_andthen : forall a b, good a -> good b -> good (andthen a b).
Proof. intros a b [? ?] [? ?]; split; [apply nofuel_andthen | apply cons_andthen]; auto. Qed.
Lemma good_forall_from : forall A (f : nat -> A -> chk) xs i,
  Forall (fun x => forall j, good (f j x)) xs -> good (forall_from f i xs).
Proof.
  intros A f xs i H. split.
  - apply nofuel_forall_from. eapply Forall_impl; [|exact H]. intros a Ha j. apply Ha.
  - apply cons_forall_from. eapply Forall_impl; [|exact H]. intros a Ha j. apply Ha.
Qed.
Lemma good_forall_from_all : forall A (f : nat -> A -> chk) xs i,
  (forall j x, good (f j x)) -> good (forall_from f i xs).
Proof. intros. apply good_forall_from. apply Forall_forall. intros; auto. Qed.

Ltac good_step :=
  match goal with
  | |- good ok_true => apply good_ok_true
  | |- good (fail1 _ _) => apply good_fail1
  | |- good (Ok (true, [])) => apply good_ok_true
  | |- good (Exn _) => apply good_exn
  | |- good Unsupported => apply good_unsupported
  | |- good (band _ _) => apply good_band
  | |- good (andthen _ _) => apply good_andthen
  | |- good (forall_from _ _ _) => apply good_forall_from_all; intros
  | |- good (if ?c then _ else _) => destruct c eqn:?
  | |- good (match ?x with _ => _ end) => destruct x eqn:?
  end.
Ltac good_auto := repeat good_step.

Section Good.
  Variable E : env.

  Lemma good_check_vardef : forall t c, good (check_vardef E t c).
  Proof. intros. unfold check_vardef. good_auto. Qed.

  Lemma good_check_structs : good (check_structs E).
  Proof.
    unfold check_structs. good_auto. unfold check_struct_def. good_auto. apply good_check_vardef.
  Qed.

  Lemma good_caa_loop : forall c es pred, good (caa_loop E c pred es).
  Proof.
    intros c es. induction es as [|e rest IH]; intro pred; cbn [caa_loop].
    - good_auto.
    - destruct e; try apply IH.
      destruct (assoc n (sd_attrs pred)) as [ty|]; [|solve [good_auto]].
      destruct rest as [|e2 rest2]; [solve [good_auto]|].
      destruct ty as [p|p l]; destruct (is_index e2); try solve [good_auto];
        (destruct (struct_of_prim E p); [apply IH | solve [good_auto]]).
  Qed.

  Lemma good_check_attribute_access : forall T c v es, good (check_attribute_access E T c v es).
  Proof.
    intros. unfold check_attribute_access.
    destruct (assoc v (td_vars T)) as [[p|p l]|]; [|solve [good_auto]|solve [good_auto]].
    destruct (struct_of_prim E p); [apply good_caa_loop | solve [good_auto]].
  Qed.

  Lemma good_check_single_path : forall T c v p, good (check_single_path E T c v p).
  Proof.
    intros. unfold check_single_path. apply good_andthen.
    - apply good_check_attribute_access.
    - destruct (get_type_of_variable_list E T v p) as [[[| | |s]|p0 l]|]; good_auto.
  Qed.

  Lemma good_check_expression : forall T c e, good (check_expression E T c e).
  Proof.
    intros T c e. induction e; cbn [check_expression]; try solve [good_auto]; try assumption.
    - apply good_check_single_path.
    - destruct (is_cmp o); [|destruct (is_arith o)].
      + destruct (expression_is_number E T e1 && expression_is_number E T e2); [solve [good_auto]|].
        destruct (expression_is_string E T e1 && expression_is_string E T e2); good_auto.
      + destruct (expression_is_number E T e1 && expression_is_number E T e2); good_auto.
      + apply good_andthen; assumption.
  Qed.

  Lemma good_check_limit : forall T c lim, good (check_limit E T c lim).
  Proof.
    intros T c lim. unfold check_limit. destruct lim; [good_auto|].
    apply good_andthen; [apply good_check_attribute_access|].
    destruct (expression_is_number E T (EPath v p)); good_auto.
  Qed.

  Lemma good_check_missing : forall c defattrs fs, good (check_missing c defattrs fs).
  Proof.
    intros c defattrs fs. induction defattrs as [|[a t] r IH]; cbn [check_missing]; good_auto. exact IH.
  Qed.

  Lemma good_arr_wrap : forall (arr : chk) x,
    good arr ->
    good (match arr with
          | Ok (true, es) => Ok (true, es)
          | Ok (false, es) => Ok (false, es ++ [x])
          | Fuel => Fuel | Exn k => Exn k | Unsupported => Unsupported
          end).
  Proof.
    intros arr x [Hn Hc]. unfold nofuel in Hn.
    destruct arr as [[[|] es]| |k|]; try congruence; try good_auto.
    - split; [unfold nofuel; congruence|]. intros b es' H. inversion H; subst. apply Hc. reflexivity.
    - split; [unfold nofuel; congruence|]. intros b es' H. inversion H; subst.
      split; [discriminate|]. intro Hnil. apply app_eq_nil in Hnil. destruct Hnil; discriminate.
  Qed.

  Definition Qattr (v : pv) : Prop :=
    forall jctx ictx def id, good (check_attr_type E jctx ictx def id v).
  Definition Pattr (v : pv) : Prop :=
    Qattr v /\ match v with
               | PVStruct fs => Forall (fun kv => Qattr (snd kv)) fs
               | _ => True
               end.

  Lemma good_check_attr_type_strong : forall v, Pattr v.
  Proof.
    intro v. induction v using pv_ind'; unfold Pattr; (split; [|try exact I]);
      try (intros jctx ictx def id; cbn [check_attr_type];
           destruct (assoc id (sd_attrs def)) as [[p|p len]|]; try solve [good_auto]).
    (* PVStruct under a struct-typed attribute *)
    - destruct (struct_of_prim E p) as [sd'|]; [|solve [good_auto]].
      apply good_band; [apply good_check_missing|].
      clear - H. induction fs as [|[id' v'] r IHr]; [solve [good_auto]|].
      inversion H; subst. apply good_band; [|apply IHr; assumption].
      destruct (has_key id' (sd_attrs sd')); [apply H2 | solve [good_auto]].
    - clear - H. eapply Forall_impl; [|exact H]. intros a Ha. apply Ha.
    (* PVArray under an array-typed attribute *)
    - apply good_arr_wrap.
      assert (Hlen : good (if array_length_correct (length vs) len then ok_true
                           else fail1 KArrayLength jctx)) by good_auto.
      revert Hlen. generalize (length vs) as n. intros n Hlen.
      induction vs as [|value r IHr]; [exact Hlen|].
      inversion H; subst. apply good_andthen.
      + destruct value; try solve [good_auto].
        destruct (struct_of_prim E p) as [sd'|]; [|solve [good_auto]].
        apply good_band; [apply good_check_missing|].
        destruct H2 as [_ H2]. clear - H2. induction fs as [|[id' v'] r2 IHr2]; [solve [good_auto]|].
        inversion H2; subst. apply good_band; [|apply IHr2; assumption].
        destruct (has_key id' (sd_attrs sd')); [apply H1 | solve [good_auto]].
      + destruct (check_type_of_value E value (Some p) p); [apply IHr; assumption | solve [good_auto]].
  Qed.

  Lemma good_check_attr_type : forall v jctx ictx def id, good (check_attr_type E jctx ictx def id v).
  Proof. intro v. exact (proj1 (good_check_attr_type_strong v)). Qed.

  Lemma good_check_literal : forall ictx jctx s j, good (check_literal E ictx jctx s j).
  Proof.
    intros. unfold check_literal. good_auto.
    - apply good_check_missing.
    - apply good_check_attr_type.
  Qed.

  Lemma good_check_call_parameters : forall T ti pi ins outs, good (check_call_parameters E T ti pi ins outs).
  Proof.
    intros. unfold check_call_parameters. apply good_band.
    - destruct ins; [good_auto|]. unfold check_call_inputs. apply good_forall_from_all.
      intros j x. unfold check_input_param. destruct x; try good_auto.
      + apply good_check_attribute_access.
      + apply good_check_literal.
    - destruct (call_outs outs) eqn:Ho; [good_auto|]. unfold check_call_outputs. rewrite Ho.
      apply good_forall_from_all. intros. apply good_check_vardef.
  Qed.

  Lemma ipm_walk_cons2 : forall cur e e2 rest2,
    ipm_walk E cur (e :: e2 :: rest2) =
    match attr_of cur e with
    | None => Exn KeyError
    | Some (TArray p _) =>
      match struct_of_prim E p with
      | None => Exn KeyError
      | Some sd => ipm_walk E sd rest2
      end
    | Some (TPlain p) =>
      match struct_of_prim E p with
      | None => Exn KeyError
      | Some sd => ipm_walk E sd (e2 :: rest2)
      end
    end.
  Proof. reflexivity. Qed.

  Lemma nofuel_ipm_walk : forall es cur, nofuel (ipm_walk E cur es).
  Proof.
    intros es. remember (length es) as n eqn:Hn. revert es Hn.
    induction n as [n IH] using lt_wf_ind. intros es Hn cur. unfold nofuel.
    destruct es as [|e [|e2 rest2]]; [cbn; congruence | cbn; congruence |].
    rewrite ipm_walk_cons2.
    destruct (attr_of cur e) as [[p|p l]|]; try congruence;
      destruct (struct_of_prim E p); try congruence.
    - apply (IH (length (e2 :: rest2))); [subst; cbn; lia | reflexivity].
    - apply (IH (length rest2)); [subst; cbn; lia | reflexivity].
  Qed.

  Lemma good_check_input_matches : forall T ti pi p defined, good (check_input_matches E T ti pi p defined).
  Proof.
    intros. unfold check_input_matches. destruct p as [v|v es|s j]; try good_auto.
    - exfalso. destruct (is_index (last es (PF v))); [discriminate|].
      destruct (attr_of a0 (last es (PF v))); discriminate.
    - exfalso. pose proof (nofuel_ipm_walk es a) as Hn. unfold nofuel in Hn. congruence.
    - exfalso. destruct v0 as [p0|p0 l]; [destruct (struct_of_prim E p0)|]; discriminate.
  Qed.

  Lemma good_forall2 : forall A B (f : A -> B -> chk) l1 l2,
    (forall x y, good (f x y)) -> good (forall2_chk f l1 l2).
  Proof.
    intros A B f l1. induction l1 as [|x r IH]; intros l2 Hf; destruct l2; cbn [forall2_chk]; try good_auto.
    - apply Hf.
    - apply IH. assumption.
  Qed.

  Lemma good_check_task_call : forall T ti pi c, good (check_task_call E T ti pi c).
  Proof.
    intros. unfold check_task_call. destruct (has_key (c_name c) (e_tasks E)); [|good_auto].
    destruct (task_reaches E (length (e_tasks E)) (c_name c) (td_name T)); [solve [good_auto]|].
    apply good_andthen; [apply good_check_call_parameters|].
    unfold check_call_matches. destruct (find_tdef E (c_name c)); [|good_auto].
    apply good_andthen.
    - unfold check_length_match. good_auto.
    - apply good_band; apply good_forall2; intros.
      + apply good_check_input_matches.
      + unfold check_output_matches. good_auto.
  Qed.

  Lemma good_check_stmt : forall T s pi, good (check_stmt E T pi s).
  Proof.
    intros T s. induction s using stmt_ind'; intro pi; cbn [check_stmt].
    - apply good_check_call_parameters.
    - apply good_check_task_call.
    - apply good_forall_from_all. intros. apply good_check_task_call.
    - apply good_band; [|apply good_check_expression].
      apply good_forall_from. eapply Forall_impl; [|exact H]. intros a Ha j. apply Ha.
    - destruct par; (apply good_band; [apply good_check_limit|]).
      + destruct b as [|s0 [|s1 r]]; try solve [good_auto]. destruct s0; try solve [good_auto].
        apply good_check_task_call.
      + apply good_forall_from. eapply Forall_impl; [|exact H]. intros a Ha j. apply Ha.
    - apply good_band; [|apply good_band; [|apply good_check_expression]].
      + apply good_forall_from. eapply Forall_impl; [|exact H]. intros a Ha j. apply Ha.
      + apply good_forall_from. eapply Forall_impl; [|exact H0]. intros a Ha j. apply Ha.
  Qed.

  Lemma good_check_task : forall T, good (check_task E T).
  Proof.
    intro T. unfold check_task. apply good_band; [|apply good_band].
    - unfold check_statements. apply good_forall_from_all. intros. apply good_check_stmt.
    - unfold check_task_inputs. apply good_forall_from_all. intros. apply good_check_vardef.
    - unfold check_task_outputs. apply good_forall_from_all. intros. good_auto.
  Qed.

  Lemma good_check_tasks : good (check_tasks E).
  Proof.
    unfold check_tasks.
    assert (Hg : good (forall_from (fun (_ : nat) (kv : name * tdef) => check_task E (snd kv)) 0 (e_tasks E))).
    { apply good_forall_from_all. intros. apply good_check_task. }
    destruct Hg as [Hn Hc]. unfold nofuel in Hn.
    destruct (forall_from _ 0 (e_tasks E)) as [[valid es]| |k|]; try congruence; try good_auto.
    - split; [unfold nofuel; congruence | exact Hc].
    - split; [unfold nofuel; congruence|]. intros b es' H. inversion H; subst.
      split; [discriminate|]. intro Hnil. apply app_eq_nil in Hnil. destruct Hnil; discriminate.
  Qed.

  Lemma good_validate_process : good (validate_process E).
  Proof. unfold validate_process. apply good_band; [apply good_check_structs | apply good_check_tasks]. Qed.
End Good.

(* ---- the statements of C16 --------------------------------------------------------- *)

(* validation needs no fuel: the only outcomes are a list of messages, a Python exception,
   or Unsupported for an AST the grammar cannot produce (a literal that is not an object) *)
Theorem validate_never_out_of_fuel : forall p, validate p <> Fuel.
Proof.
  intro p. unfold validate.
  pose proof (good_validate_process (visit_env p)) as [Hn _]. unfold nofuel in Hn.
  destruct (validate_process (visit_env p)) as [[b es]| |k|]; congruence.
Qed.

(* the flag returned by validate_process is True exactly when the checker printed nothing *)
Theorem validate_process_flag_matches_output : forall E b es,
  validate_process E = Ok (b, es) -> (b = true <-> es = []).
Proof. intros E b es H. exact (proj2 (good_validate_process E) b es H). Qed.

(* the verdict of parse_string: valid exactly when no message was printed *)
Theorem verdict_iff_no_message : forall p es,
  validate p = Ok es -> (accepted p = true <-> es = []).
Proof.
  intros p es H. unfold accepted. rewrite H. destruct es; split; intro; try reflexivity; discriminate.
Qed.

(* full statement of C16 (model level): a verdict is always returned *)
Definition C16_always_a_verdict : Prop := forall p, exists es, validate p = Ok es.
