(* CheckExamplesC10.v — every fault predicate with a theorem is inhabited: one program per
   catalogue entry (the fault sits in the Failed branch of a Condition inside a counting
   loop), by computation. *)
From PFDL Require Import Base Syntax.
From PFDL.Check Require Import CheckModel CheckProofsC10 CheckProofsNoExn Guards Witnesses.

Lemma fault_predicates_inhabited :
  has_fault_unknown_task w_f_F01a = true /\ has_fault_unknown_task w_f_F01b = true
  /\ has_fault_unknown_struct_literal w_f_F02a = true
  /\ has_fault_unknown_output_type w_f_F03c = true /\ has_fault_unknown_output_type w_f_F03d = true
  /\ has_fault_unknown_attribute_type w_f_F03a = true /\ has_fault_unknown_input_type w_f_F03b = true
  /\ has_fault_undeclared_variable w_f_F04a = true /\ has_fault_undeclared_variable w_f_F04b = true
  /\ has_fault_undeclared_variable w_f_F04f = true
  /\ has_fault_unknown_attribute w_f_F05a = true
  /\ has_fault_literal_missing_attribute w_f_F06a = true /\ has_fault_literal_unknown_attribute w_f_F07a = true
  /\ has_fault_duplicate_struct w_f_F10a = true /\ has_fault_duplicate_task w_f_F11a = true
  /\ has_fault_duplicate_attribute w_f_F12a = true /\ has_fault_duplicate_task_input w_f_F13a = true
  /\ has_fault_duplicate_call_output w_f_F13b = true
  /\ has_fault_no_start_task w_f_F14a = true /\ has_fault_undeclared_task_output w_f_F15a = true
  /\ has_fault_wrong_arity w_f_F16a = true /\ has_fault_wrong_arity w_f_F16b = true
  /\ has_fault_wrong_arity w_f_F16c = true /\ has_fault_wrong_arity w_f_F16d = true
  /\ has_fault_wrong_arity w_f_F16e = true
  /\ has_fault_bad_parallel_loop w_f_F20a = true /\ has_fault_bad_parallel_loop w_f_F20b = true
  /\ has_fault_bad_parallel_loop w_f_F20c = true /\ has_fault_bad_parallel_loop w_f_F20d = true
  /\ has_fault_recursive_call w_D8_self_recursion = true /\ has_fault_recursive_call w_mutual_recursion = true
  /\ has_fault_recursive_call w_recursion_through_parallel = true
  /\ has_fault_recursive_call w_recursion_through_parloop = true
  /\ has_fault_unknown_task w_D9_unknown_task_in_parallel_loop = true
  /\ has_fault_wrong_arity w_parloop_wrong_arity = true
  /\ has_fault_bad_limit w_D10_undeclared_limit = true /\ has_fault_bad_limit w_limit_unknown_attribute = true
  /\ has_fault_bad_limit w_limit_string = true
  /\ has_fault_nested_array_literal w_D28_nested_array_element = true.
Proof. vm_compute. repeat split; reflexivity. Qed.

(* and none of them holds of the fault-free example *)
Lemma fault_predicates_false_on_good :
  has_fault_unknown_task w_good_small = false /\ has_fault_unknown_struct_literal w_good_small = false
  /\ has_fault_unknown_output_type w_good_small = false /\ has_fault_unknown_attribute_type w_good_small = false
  /\ has_fault_unknown_input_type w_good_small = false /\ has_fault_undeclared_variable w_good_small = false
  /\ has_fault_unknown_attribute w_good_small = false /\ has_fault_duplicate_struct w_good_small = false
  /\ has_fault_duplicate_task w_good_small = false /\ has_fault_duplicate_attribute w_good_small = false
  /\ has_fault_duplicate_task_input w_good_small = false /\ has_fault_duplicate_call_output w_good_small = false
  /\ has_fault_no_start_task w_good_small = false /\ has_fault_undeclared_task_output w_good_small = false
  /\ has_fault_wrong_arity w_good_small = false /\ has_fault_bad_parallel_loop w_good_small = false
  /\ has_fault_literal_missing_attribute w_good_small = false
  /\ has_fault_literal_unknown_attribute w_good_small = false
  /\ has_fault_recursive_call w_good_small = false /\ has_fault_bad_limit w_good_small = false
  /\ has_fault_nested_array_literal w_good_small = false.
Proof. vm_compute. repeat split; reflexivity. Qed.

(* for every AST of the grammar's shape "not accepted" is "reported with at least one message" *)
Lemma reported_from_grammar : forall p,
  from_grammar p = true -> validate p <> Ok [] -> reported p.
Proof. intros p Hg. exact (not_accepted_reported p (from_grammar_verdict p Hg)). Qed.
