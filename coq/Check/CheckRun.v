(* CheckRun.v — glue for the harness: a flat, machine-readable rendering of the result of
   CheckModel.validate (numbers only), evaluated with vm_compute on generated programs.
   Definitions only. *)
From PFDL Require Import Base Syntax.
From PFDL.Check Require Import CheckModel.

Definition ekind_code (k : ekind) : nat :=
  match k with
  | KDupStruct => 0 | KDupTask => 1 | KDupAttr => 2 | KDupTaskIn => 3 | KDupCallOut => 4
  | KArrayLen => 5 | KUnknownType => 6 | KNoStartTask => 7 | KUnknownTaskOut => 8
  | KOutTypeMismatch => 9 | KInTypeMismatch => 10 | KInLen => 11 | KOutLen => 12
  | KUnknownVarInput => 13 | KNoAttribute => 14 | KNotAStruct => 15 | KUnknownVariable => 16
  | KUnknownStruct => 17 | KUnknownAttrInLit => 18 | KWrongTypeStruct => 19
  | KWrongTypePrim => 20 | KWrongTypeArray => 21 | KArrayElem => 22 | KArrayLength => 23
  | KMissingAttr => 24 | KParLoop => 25 | KNotBoolean => 26 | KCmpTypes => 27 | KArith => 28
  | KUnknownTask => 29 | KIndexMismatch => 30 | KLimitNotNumber => 31 | KRecursion => 32 | KNestedArray => 33
  end.

(* (constructor number, i, path, j) *)
Definition ctx_code (c : ctx) : nat * nat * list nat * nat :=
  match c with
  | CFile => (0, 0, [], 0)
  | CNone => (1, 0, [], 0)
  | CStruct i => (2, i, [], 0)
  | CStructAttr i j => (3, i, [], j)
  | CTask i => (4, i, [], 0)
  | CTaskIn i => (5, i, [], 0)
  | CTaskInParam i j => (6, i, [], j)
  | CTaskOut i => (7, i, [], 0)
  | CStmt i pi => (8, i, pi, 0)
  | CStmtIn i pi => (9, i, pi, 0)
  | CStmtOutParam i pi j => (10, i, pi, j)
  | CLit i pi k => (11, i, pi, k)
  | CLitJson i pi k => (12, i, pi, k)
  end.

Definition exn_code (k : exn) : nat :=
  match k with
  | KeyError => 0 | TypeError => 1 | AttributeError => 2 | ValueError => 3
  | ZeroDivisionError => 4 | RecursionError => 5 | IndexError => 6
  end.

(* (status, exception code, messages): status 0 = Ok, 1 = Exn, 2 = Fuel, 3 = Unsupported *)
Definition run_validate (p : program) : nat * nat * list (nat * (nat * nat * list nat * nat)) :=
  match validate p with
  | Ok es => (0, 0, map (fun e => (ekind_code (fst e), ctx_code (snd e))) es)
  | Exn k => (1, exn_code k, [])
  | Fuel => (2, 0, [])
  | Unsupported => (3, 0, [])
  end.
