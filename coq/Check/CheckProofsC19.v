(* CheckProofsC19.v — where the reported context references point.

   ctx_at ti pi c    : c is a context object of the statement at path pi of task ti (its
                       first line, its "In" line, one of its output definitions, the name
                       line or the opening brace of one of its struct literals);
   ctx_under ti pi c : c is a context object of that statement or of a statement nested in it.

   Every message printed while a statement is checked carries a context reference under
   that statement; combined with the descent lemma: a faulty sub-statement at any depth is
   reported with a reference that lies inside that sub-statement, i.e. inside the smallest
   statement containing the offending construct.  (Lines: the printer's line map sends
   ctx_under references into the line span of the statement; that half is checked by the
   correspondence slice, not proved.) *)
From PFDL Require Import Base Syntax.
From PFDL.Check Require Import CheckModel CheckProofsBase CheckProofsC16 CheckProofsC10.

Definition ctx_at (ti : nat) (pi : list nat) (c : ctx) : Prop :=
  c = CStmt ti pi \/ c = CStmtIn ti pi \/ (exists j, c = CStmtOutParam ti pi j)
  \/ (exists k, c = CLit ti pi k) \/ (exists k, c = CLitJson ti pi k).

Definition ctx_under (ti : nat) (pi : list nat) (c : ctx) : Prop :=
  exists rel, ctx_at ti (pi ++ rel) c.

Lemma ctx_at_under : forall ti pi c, ctx_at ti pi c -> ctx_under ti pi c.
Proof. intros ti pi c H. exists []. rewrite app_nil_r. exact H. Qed.

Lemma ctx_under_app : forall ti pi rel c, ctx_under ti (pi ++ rel) c -> ctx_under ti pi c.
Proof. intros ti pi rel c [r H]. exists (rel ++ r). rewrite app_assoc. exact H. Qed.

(* all messages of a result carry a context satisfying Q *)
Definition errs_in (Q : ctx -> Prop) (r : chk) : Prop :=
  forall b es, r = Ok (b, es) -> forall e, In e es -> Q (snd e).

Lemma errs_in_weaken : forall (Q Q' : ctx -> Prop) r, (forall c, Q c -> Q' c) -> errs_in Q r -> errs_in Q' r.
Proof. intros Q Q' r H Hr b es Hb e He. apply H. eapply Hr; eassumption. Qed.

Lemma errs_in_ok_true : forall Q, errs_in Q ok_true.
Proof. intros Q b es H e He. inversion H; subst. destruct He. Qed.

Lemma errs_in_fail1 : forall (Q : ctx -> Prop) k c, Q c -> errs_in Q (fail1 k c).
Proof. intros Q k c Hc b es H e He. inversion H; subst. destruct He as [<-|[]]. exact Hc. Qed.

Lemma errs_in_not_ok : forall Q (r : chk), (forall x, r <> Ok x) -> errs_in Q r.
Proof. intros Q r H b es Hr. exfalso. exact (H _ Hr). Qed.

Lemma errs_in_band : forall Q a b, errs_in Q a -> errs_in Q b -> errs_in Q (band a b).
Proof.
  intros Q a b Ha Hb v es H e He. apply band_ok in H.
  destruct H as (x & e1 & y & e2 & H1 & H2 & _ & Hes). subst es.
  apply in_app_or in He. destruct He; [eapply Ha | eapply Hb]; eassumption.
Qed.

Lemma errs_in_andthen : forall Q a b, errs_in Q a -> errs_in Q b -> errs_in Q (andthen a b).
Proof.
  intros Q a b Ha Hb v es H e He. apply andthen_ok in H.
  destruct H as (x & e1 & H1 & [(_ & _ & Hes) | (_ & e2 & H2 & Hes)]); subst es.
  - eapply Ha; eassumption.
  - apply in_app_or in He. destruct He; [eapply Ha | eapply Hb]; eassumption.
Qed.

Lemma errs_in_forall_from : forall Q A (f : nat -> A -> chk) xs i,
  (forall j x, In x xs -> errs_in Q (f j x)) -> errs_in Q (forall_from f i xs).
Proof.
  intros Q A f xs. induction xs as [|x r IH]; intros i H.
  - apply errs_in_ok_true.
  - rewrite forall_from_cons. apply errs_in_band.
    + apply H. left. reflexivity.
    + apply IH. intros. apply H. right. assumption.
Qed.

Ltac ein :=
  repeat match goal with
  | |- errs_in _ ok_true => apply errs_in_ok_true
  | |- errs_in _ (Ok (true, [])) => apply errs_in_ok_true
  | |- errs_in _ (fail1 _ _) => apply errs_in_fail1
  | |- errs_in _ (Exn _) => apply errs_in_not_ok; intros; discriminate
  | |- errs_in _ Fuel => apply errs_in_not_ok; intros; discriminate
  | |- errs_in _ Unsupported => apply errs_in_not_ok; intros; discriminate
  | |- errs_in _ (band _ _) => apply errs_in_band
  | |- errs_in _ (andthen _ _) => apply errs_in_andthen
  | |- errs_in _ (if ?c then _ else _) => destruct c eqn:?
  | |- errs_in _ (match ?x with _ => _ end) => destruct x eqn:?
  end.

Section Ctx.
  Variable E : env.

  Lemma ctx_check_vardef : forall (Q : ctx -> Prop) t c, Q c -> errs_in Q (check_vardef E t c).
  Proof. intros. unfold check_vardef. ein. assumption. Qed.

  Lemma ctx_caa_loop : forall (Q : ctx -> Prop) c es pred, Q c -> errs_in Q (caa_loop E c pred es).
  Proof.
    intros Q c es. induction es as [|e rest IH]; intros pred Hc; cbn [caa_loop].
    - ein.
    - destruct e; try (apply IH; exact Hc).
      destruct (assoc n (sd_attrs pred)) as [ty|]; [|ein; assumption].
      destruct rest as [|e2 rest2]; [ein|].
      destruct ty as [p|p l]; destruct (is_index e2); try solve [ein; assumption];
        (destruct (struct_of_prim E p); [apply IH; exact Hc | solve [ein; assumption]]).
  Qed.

  Lemma ctx_check_attribute_access : forall (Q : ctx -> Prop) T c v es,
    Q c -> errs_in Q (check_attribute_access E T c v es).
  Proof.
    intros. unfold check_attribute_access.
    destruct (assoc v (td_vars T)) as [[p|p l]|]; [|solve [ein; assumption]|solve [ein; assumption]].
    destruct (struct_of_prim E p); [apply ctx_caa_loop; assumption | solve [ein; assumption]].
  Qed.

  Lemma ctx_check_expression : forall (Q : ctx -> Prop) T c e, Q c -> errs_in Q (check_expression E T c e).
  Proof.
    intros Q T c e Hc. induction e; cbn [check_expression]; try solve [ein]; try assumption.
    - unfold check_single_path. apply errs_in_andthen; [apply ctx_check_attribute_access; assumption|].
      destruct (get_type_of_variable_list E T v p) as [[[| | |s]|p0 l]|]; ein; assumption.
    - destruct (is_cmp o); [|destruct (is_arith o)].
      + destruct (expression_is_number E T e1 && expression_is_number E T e2); [ein|].
        destruct (expression_is_string E T e1 && expression_is_string E T e2); ein; assumption.
      + destruct (expression_is_number E T e1 && expression_is_number E T e2); ein; assumption.
      + apply errs_in_andthen; assumption.
  Qed.

  Lemma ctx_check_limit : forall (Q : ctx -> Prop) T c lim, Q c -> errs_in Q (check_limit E T c lim).
  Proof.
    intros Q T c lim Hc. unfold check_limit. destruct lim; [ein|].
    apply errs_in_andthen; [apply ctx_check_attribute_access; assumption|].
    destruct (expression_is_number E T (EPath v p)); ein; assumption.
  Qed.

  Lemma ctx_check_missing : forall (Q : ctx -> Prop) c defattrs fs, Q c -> errs_in Q (check_missing c defattrs fs).
  Proof.
    intros Q c defattrs fs Hc. induction defattrs as [|[a t] r IH]; cbn [check_missing]; ein; assumption.
  Qed.

  Lemma ctx_arr_wrap : forall (Q : ctx -> Prop) (arr : chk) k c,
    Q c -> errs_in Q arr ->
    errs_in Q (match arr with
               | Ok (true, es) => Ok (true, es)
               | Ok (false, es) => Ok (false, es ++ [(k, c)])
               | Fuel => Fuel | Exn x => Exn x | Unsupported => Unsupported
               end).
  Proof.
    intros Q arr k c Hc Ha. destruct arr as [[[|] es]| |x|]; try (apply errs_in_not_ok; intros; discriminate).
    - exact Ha.
    - intros b es' H e He. inversion H; subst. apply in_app_or in He. destruct He as [He|[<-|[]]].
      + eapply Ha; [reflexivity | exact He].
      + exact Hc.
  Qed.

  (* messages about a literal carry the literal's name line or its opening brace *)
  Definition Qc (v : pv) : Prop :=
    forall (Q : ctx -> Prop) jctx ictx def id, Q jctx -> Q ictx -> errs_in Q (check_attr_type E jctx ictx def id v).
  Definition Pc (v : pv) : Prop :=
    Qc v /\ match v with PVStruct fs => Forall (fun kv => Qc (snd kv)) fs | _ => True end.

  Lemma ctx_check_attr_type_strong : forall v, Pc v.
  Proof.
    intro v. induction v using pv_ind'; unfold Pc; (split; [|try exact I]);
      try (intros Q jctx ictx def id Hj Hi; cbn [check_attr_type];
           destruct (assoc id (sd_attrs def)) as [[p|p len]|]; try solve [ein; assumption]).
    - destruct (struct_of_prim E p) as [sd'|]; [|solve [ein; assumption]].
      apply errs_in_band; [apply ctx_check_missing; assumption|].
      clear - H Hj. induction fs as [|[id' v'] r IHr]; [ein|].
      inversion H; subst. apply errs_in_band; [|apply IHr; assumption].
      destruct (has_key id' (sd_attrs sd')); [apply H2; assumption | ein; assumption].
    - clear - H. eapply Forall_impl; [|exact H]. intros a Ha. apply Ha.
    - apply ctx_arr_wrap; [assumption|].
      generalize (length vs) as n. intro n.
      induction vs as [|value r IHr]; [ein; assumption|].
      inversion H; subst. apply errs_in_andthen.
      + destruct value; try solve [ein].
        destruct (struct_of_prim E p) as [sd'|]; [|solve [ein; assumption]].
        apply errs_in_band; [apply ctx_check_missing; assumption|].
        destruct H2 as [_ H2]. clear - H2 Hj. induction fs as [|[id' v'] r2 IHr2]; [ein|].
        inversion H2; subst. apply errs_in_band; [|apply IHr2; assumption].
        destruct (has_key id' (sd_attrs sd')); [apply H1; assumption | ein; assumption].
      + destruct (check_type_of_value E value (Some p) p); [apply IHr; assumption | ein; assumption].
  Qed.

  Lemma ctx_check_literal : forall (Q : ctx -> Prop) ictx jctx s j,
    Q ictx -> Q jctx -> errs_in Q (check_literal E ictx jctx s j).
  Proof.
    intros Q ictx jctx s j Hi Hj. unfold check_literal.
    destruct (parse_json j); try (apply errs_in_not_ok; intros; discriminate).
    destruct (find_struct E s) as [sd|]; [|ein; assumption].
    apply errs_in_band; [apply ctx_check_missing; assumption|].
    apply errs_in_forall_from. intros i kv _.
    destruct (has_key (fst kv) (sd_attrs sd)); [|ein; assumption].
    apply (proj1 (ctx_check_attr_type_strong (snd kv))); assumption.
  Qed.

  Lemma ctx_check_call_parameters : forall T ti pi ins outs,
    errs_in (ctx_at ti pi) (check_call_parameters E T ti pi ins outs).
  Proof.
    intros. unfold check_call_parameters. apply errs_in_band.
    - destruct ins as [|p0 r0]; [ein|]. unfold check_call_inputs. apply errs_in_forall_from.
      intros k x _. unfold check_input_param. destruct x.
      + destruct (has_key v (td_vars T)); ein. left. reflexivity.
      + apply ctx_check_attribute_access. right. left. reflexivity.
      + apply ctx_check_literal.
        * right. right. right. left. eauto.
        * right. right. right. right. eauto.
    - destruct (call_outs outs) eqn:Ho; [ein|]. unfold check_call_outputs. rewrite Ho.
      apply errs_in_forall_from. intros. apply ctx_check_vardef. left. reflexivity.
  Qed.

  Lemma ctx_forall2 : forall Q A B (f : A -> B -> chk) l1 l2,
    (forall x y, errs_in Q (f x y)) -> errs_in Q (forall2_chk f l1 l2).
  Proof.
    intros Q A B f l1. induction l1 as [|x r IH]; intros l2 Hf; destruct l2; cbn [forall2_chk]; try solve [ein].
    apply errs_in_band; [apply Hf | apply IH; assumption].
  Qed.

  Lemma ctx_check_task_call : forall T ti pi c,
    errs_in (ctx_at ti pi) (check_task_call E T ti pi c).
  Proof.
    intros. unfold check_task_call.
    destruct (has_key (c_name c) (e_tasks E)); [|ein; left; reflexivity].
    destruct (task_reaches E (length (e_tasks E)) (c_name c) (td_name T)); [ein; left; reflexivity|].
    apply errs_in_andthen; [apply ctx_check_call_parameters|].
    unfold check_call_matches. destruct (find_tdef E (c_name c)) as [called|]; [|ein].
    apply errs_in_andthen.
    - unfold check_length_match. ein; left; reflexivity.
    - apply errs_in_band; apply ctx_forall2; intros.
      + unfold check_input_matches. ein; left; reflexivity.
      + unfold check_output_matches. ein; left; reflexivity.
  Qed.

  (* every message printed while the statement at pi is checked points into that statement *)
  Lemma ctx_check_stmt : forall T s pi,
    errs_in (ctx_under (td_idx T) pi) (check_stmt E T pi s).
  Proof.
    intros T s. induction s using stmt_ind'; intro pi; cbn [check_stmt].
    - eapply errs_in_weaken; [apply ctx_at_under | apply ctx_check_call_parameters].
    - eapply errs_in_weaken; [apply ctx_at_under | apply ctx_check_task_call].
    - apply errs_in_forall_from. intros j c _.
      eapply errs_in_weaken; [|apply ctx_check_task_call].
      intros c0 Hc0. apply (ctx_under_app _ pi [j]). apply ctx_at_under. exact Hc0.
    - apply errs_in_band.
      + apply errs_in_forall_from. intros j x Hin. rewrite Forall_forall in H.
        eapply errs_in_weaken; [|apply (H x Hin)]. intros c0 Hc0. apply (ctx_under_app _ pi [j]). exact Hc0.
      + apply ctx_check_expression. apply ctx_at_under. left. reflexivity.
    - destruct par; (apply errs_in_band; [apply ctx_check_limit; apply ctx_at_under; left; reflexivity|]).
      + destruct b as [|s0 [|s1 r]]; try (ein; apply ctx_at_under; left; reflexivity).
        destruct s0; try (ein; apply ctx_at_under; left; reflexivity).
        eapply errs_in_weaken; [|apply ctx_check_task_call].
        intros c0 Hc0. apply (ctx_under_app _ pi [0]). apply ctx_at_under. exact Hc0.
      + apply errs_in_forall_from. intros j x Hin. rewrite Forall_forall in H.
        eapply errs_in_weaken; [|apply (H x Hin)]. intros c0 Hc0. apply (ctx_under_app _ pi [j]). exact Hc0.
    - apply errs_in_band; [|apply errs_in_band].
      + apply errs_in_forall_from. intros j x Hin. rewrite Forall_forall in H.
        eapply errs_in_weaken; [|apply (H x Hin)]. intros c0 Hc0. apply (ctx_under_app _ pi [0; j]). exact Hc0.
      + apply errs_in_forall_from. intros j x Hin. rewrite Forall_forall in H0.
        eapply errs_in_weaken; [|apply (H0 x Hin)]. intros c0 Hc0. apply (ctx_under_app _ pi [1; j]). exact Hc0.
      + apply ctx_check_expression. apply ctx_at_under. left. reflexivity.
  Qed.

  (* C19 for statements: the statement at pi ++ rel (any depth inside s) is found invalid
     => among the messages printed for s there is one that points into pi ++ rel *)
  Theorem fault_located : forall T s rel s' pi b es,
    visible_sub s rel s' ->
    check_stmt E T pi s = Ok (b, es) ->
    (forall b' es', check_stmt E T (pi ++ rel) s' = Ok (b', es') -> b' = false) ->
    exists e, In e es /\ ctx_under (td_idx T) (pi ++ rel) (snd e).
  Proof.
    intros T s rel s' pi b es Hv Hc Hbad.
    destruct (descent E T s rel s' Hv pi b es Hc) as (b' & es' & Hc' & Hincl & _).
    pose proof (Hbad _ _ Hc') as Hb. subst b'.
    pose proof (proj2 (good_check_stmt E T s' (pi ++ rel)) _ _ Hc') as Hcons.
    destruct es' as [|e0 r0].
    - exfalso. assert (false = true) by (apply Hcons; reflexivity). discriminate.
    - exists e0. split.
      + apply Hincl. left. reflexivity.
      + eapply (ctx_check_stmt T s' (pi ++ rel)); [exact Hc' | left; reflexivity].
  Qed.

  (* every message of a task points into that task: one of its statements, its In line or
     its Out line *)
  Definition ctx_in_task (ti : nat) (c : ctx) : Prop :=
    (exists pi, ctx_under ti pi c) \/ c = CTaskIn ti \/ c = CTaskOut ti.

  Lemma ctx_check_task : forall T, errs_in (ctx_in_task (td_idx T)) (check_task E T).
  Proof.
    intro T. unfold check_task. apply errs_in_band; [|apply errs_in_band].
    - unfold check_statements. apply errs_in_forall_from. intros j s _.
      eapply errs_in_weaken; [|apply ctx_check_stmt]. intros c Hc. left. eauto.
    - unfold check_task_inputs. apply errs_in_forall_from. intros. apply ctx_check_vardef. right. left. reflexivity.
    - unfold check_task_outputs. apply errs_in_forall_from. intros.
      destruct (has_key x (td_vars T)); ein. right. right. reflexivity.
  Qed.

  (* the checker never prints a message without a position (line 0) *)
  Definition has_position (c : ctx) : Prop := c <> CNone.

  Lemma ctx_under_has_position : forall ti pi c, ctx_under ti pi c -> has_position c.
  Proof.
    intros ti pi c [rel H]. unfold ctx_at in H. unfold has_position.
    destruct H as [->|[->|[[j ->]|[[k ->]|[k ->]]]]]; discriminate.
  Qed.

  Lemma position_validate_process : errs_in has_position (validate_process E).
  Proof.
    unfold validate_process. apply errs_in_band.
    - unfold check_structs. apply errs_in_forall_from. intros j kv _.
      unfold check_struct_def. apply errs_in_forall_from. intros. apply ctx_check_vardef.
      unfold has_position. discriminate.
    - unfold check_tasks.
      assert (Ht : errs_in has_position
                (forall_from (fun (_ : nat) (kv : name * tdef) => check_task E (snd kv)) 0 (e_tasks E))).
      { apply errs_in_forall_from. intros j kv _.
        eapply errs_in_weaken; [|apply ctx_check_task].
        intros c Hc. destruct Hc as [[pi Hc]|[Hc|Hc]];
          [eapply ctx_under_has_position; exact Hc | subst c; unfold has_position; discriminate
           | subst c; unfold has_position; discriminate]. }
      destruct (forall_from _ 0 (e_tasks E)) as [[valid es]| |k|]; try (apply errs_in_not_ok; intros; discriminate).
      destruct (has_key production_task (e_tasks E)); [exact Ht|].
      intros b es' H e He. inversion H; subst. apply in_app_or in He. destruct He as [He|[<-|[]]].
      + eapply Ht; [reflexivity | exact He].
      + discriminate.
  Qed.
End Ctx.

(* the missing start task is reported for the file as a whole (line 1) *)
Theorem no_start_task_reported_at_file : forall p es,
  has_fault_no_start_task p = true -> validate p = Ok es -> In (KNoStartTask, CFile) es.
Proof.
  intros p es Hf Hv. unfold validate in Hv.
  destruct (validate_process (visit_env p)) as [[b es0]| |k|] eqn:Hp; try discriminate.
  injection Hv as <-. apply in_or_app. right.
  unfold validate_process in Hp. apply band_ok in Hp.
  destruct Hp as (x & e1 & y & e2 & H1 & H2 & _ & ->). apply in_or_app. right.
  unfold check_tasks in H2.
  destruct (forall_from _ 0 (e_tasks (visit_env p))) as [[valid es1]| |k|]; try discriminate.
  destruct (has_key production_task (e_tasks (visit_env p))) eqn:Hk.
  - exfalso. unfold visit_env in Hk. cbn [e_tasks] in Hk.
    apply has_key_dedup_first in Hk. rewrite map_fst_indexed in Hk.
    unfold has_fault_no_start_task in Hf. rewrite Hk in Hf. discriminate.
  - injection H2 as _ <-. apply in_or_app. right. left. reflexivity.
Qed.

(* explicit forms for Properties/C19.v *)
Theorem stmt_messages_point_into_statement : forall E T s pi b es e,
  check_stmt E T pi s = Ok (b, es) -> In e es -> ctx_under (td_idx T) pi (snd e).
Proof. intros E T s pi b es e H He. exact (ctx_check_stmt E T s pi b es H e He). Qed.

Theorem task_messages_point_into_task : forall E T b es e,
  check_task E T = Ok (b, es) -> In e es -> ctx_in_task (td_idx T) (snd e).
Proof. intros E T b es e H He. exact (ctx_check_task E T b es H e He). Qed.

Theorem checker_messages_have_position : forall E b es e,
  validate_process E = Ok (b, es) -> In e es -> snd e <> CNone.
Proof. intros E b es e H He. exact (position_validate_process E b es H e He). Qed.

(* ---- the visitor's messages all carry the definition they are about ---- *)
Lemma arraylen_errs_position : forall (mk : nat -> ctx) l e,
  (forall j, mk j <> CNone) -> In e (arraylen_errs mk l) -> snd e <> CNone.
Proof.
  intros mk l e Hmk He. unfold arraylen_errs in He. apply in_flat_map in He.
  destruct He as ([j [k t]] & _ & He). cbn [fst snd] in He.
  destruct t as [p0|p0 [| |v]]; cbn in He; try contradiction. destruct He as [<-|[]]. apply Hmk.
Qed.

Lemma outs_visit_errs_position : forall ti pi outs e,
  In e (outs_visit_errs ti pi outs) -> snd e <> CNone.
Proof.
  intros ti pi outs e He. unfold outs_visit_errs in He. apply in_app_or in He. destruct He as [He|He].
  - eapply arraylen_errs_position; [|exact He]. intro j. discriminate.
  - apply in_map_iff in He. destruct He as (j & <- & _). discriminate.
Qed.

Lemma lit_visit_errs_position : forall ti pi ins e,
  In e (lit_visit_errs ti pi ins) -> snd e <> CNone.
Proof.
  intros ti pi ins e He. unfold lit_visit_errs in He. apply in_flat_map in He.
  destruct He as ([k x] & _ & He). cbn [fst snd] in He. destruct x as [| |s j]; try destruct He.
  apply repeat_spec in He. subst e. discriminate.
Qed.

Lemma concat_from_in : forall f l i e, In e (concat_from f i l) -> exists j x, In x l /\ In e (f j x).
Proof.
  intros f l. induction l as [|y r IH]; intros i e H; [destruct H|].
  cbn in H. apply in_app_or in H. destruct H as [H|H].
  - exists i, y. split; [left; reflexivity | exact H].
  - destruct (IH _ _ H) as (j & x & Hx & He). exists j, x. split; [right; exact Hx | exact He].
Qed.

Lemma stmt_visit_errs_position : forall ti s pi e,
  In e (stmt_visit_errs ti pi s) -> snd e <> CNone.
Proof.
  intros ti s. induction s using stmt_ind'; intros pi er He; rewrite stmt_visit_errs_unfold in He.
  - apply in_app_or in He. destruct He as [He|He];
      [eapply lit_visit_errs_position | eapply outs_visit_errs_position]; eassumption.
  - apply in_app_or in He. destruct He as [He|He];
      [eapply lit_visit_errs_position | eapply outs_visit_errs_position]; eassumption.
  - apply in_flat_map in He. destruct He as ([j c] & Hin & He). cbn [fst snd] in He.
    apply in_app_or in He. destruct He as [He|He];
      [eapply lit_visit_errs_position | eapply outs_visit_errs_position]; exact He.
  - destruct (concat_from_in _ _ _ _ He) as (j & x & Hx & Hex). rewrite Forall_forall in H.
    eapply H; [exact Hx | exact Hex].
  - destruct (concat_from_in _ _ _ _ He) as (j & x & Hx & Hex). rewrite Forall_forall in H.
    eapply H; [exact Hx | exact Hex].
  - apply in_app_or in He. destruct He as [He|He].
    + destruct (concat_from_in _ _ _ _ He) as (j & x & Hx & Hex). rewrite Forall_forall in H.
      eapply H; [exact Hx | exact Hex].
    + destruct (concat_from_in _ _ _ _ He) as (j & x & Hx & Hex). rewrite Forall_forall in H0.
      eapply H0; [exact Hx | exact Hex].
Qed.

Lemma in_index_from_inv : forall A (l : list A) i j x, In (j, x) (index_from i l) -> In x l.
Proof.
  intros A l. induction l as [|y r IH]; intros i j x H; [destruct H|].
  destruct H as [H|H]; [injection H as _ <-; left; reflexivity | right; eapply IH; exact H].
Qed.

Lemma visit_errs_position : forall p e, In e (visit_errs p) -> snd e <> CNone.
Proof.
  intros p e He. unfold visit_errs in He.
  apply in_app_or in He. destruct He as [He|He].
  { apply in_flat_map in He. destruct He as ([i s] & _ & He). cbn [fst snd] in He.
    unfold struct_visit_errs in He. apply in_app_or in He. destruct He as [He|He].
    - eapply arraylen_errs_position; [|exact He]. intro j. discriminate.
    - apply in_map_iff in He. destruct He as (j & <- & _). discriminate. }
  apply in_app_or in He. destruct He as [He|He].
  { apply in_map_iff in He. destruct He as (j & <- & _). discriminate. }
  apply in_app_or in He. destruct He as [He|He].
  2:{ apply in_map_iff in He. destruct He as (j & <- & _). discriminate. }
  apply in_flat_map in He. destruct He as ([i t] & _ & He). cbn [fst snd] in He.
  unfold task_visit_errs in He. apply in_app_or in He. destruct He as [He|He].
  { eapply arraylen_errs_position; [|exact He]. intro j. discriminate. }
  apply in_app_or in He. destruct He as [He|He].
  { apply in_map_iff in He. destruct He as (j & <- & _). discriminate. }
  rewrite body_visit_errs_concat in He.
  destruct (concat_from_in _ _ _ _ He) as (j & x & _ & Hex).
  eapply stmt_visit_errs_position. exact Hex.
Qed.

(* no reported line lies outside the file: every message of every program has a position *)
Theorem every_message_has_a_position : forall p es e,
  validate p = Ok es -> In e es -> snd e <> CNone.
Proof.
  intros p es e Hv He. unfold validate in Hv.
  destruct (validate_process (visit_env p)) as [[b es0]| |k|] eqn:Hp; try discriminate.
  injection Hv as <-. apply in_app_or in He. destruct He as [He|He].
  - apply visit_errs_position with (p := p). exact He.
  - eapply checker_messages_have_position; eassumption.
Qed.
