(* CheckProofsBase.v — induction principles for the nested types and the algebra of the
   check combinators (band / andthen / forall_from). *)
From PFDL Require Import Base Syntax.
From PFDL.Check Require Import CheckModel.

(* ------------------------------------------------------------------------------ *)
(* induction principles                                                            *)
(* ------------------------------------------------------------------------------ *)
Section StmtInd.
  Variable P : stmt -> Prop.
  Variable Hsvc : forall n ins outs, P (SService n ins outs).
  Variable Hcall : forall c, P (SCall c).
  Variable Hpar : forall cs, P (SParallel cs).
  Variable Hwhile : forall e b, Forall P b -> P (SWhile e b).
  Variable Hcount : forall par v l b, Forall P b -> P (SCount par v l b).
  Variable Hcond : forall e p f, Forall P p -> Forall P f -> P (SCond e p f).

  Fixpoint stmt_ind' (s : stmt) : P s :=
    let go := fix go (l : list stmt) : Forall P l :=
                match l with
                | [] => Forall_nil P
                | x :: r => Forall_cons x (stmt_ind' x) (go r)
                end in
    match s with
    | SService n ins outs => Hsvc n ins outs
    | SCall c => Hcall c
    | SParallel cs => Hpar cs
    | SWhile e b => Hwhile e b (go b)
    | SCount par v l b => Hcount par v l b (go b)
    | SCond e p f => Hcond e p f (go p) (go f)
    end.
End StmtInd.

Section PvInd.
  Variable P : pv -> Prop.
  Variable Hnum : P PVNum.
  Variable Hbool : P PVBool.
  Variable Hstr : P PVStr.
  Variable Hstruct : forall fs, Forall (fun kv => P (snd kv)) fs -> P (PVStruct fs).
  Variable Harr : forall vs, Forall P vs -> P (PVArray vs).

  Fixpoint pv_ind' (v : pv) : P v :=
    match v with
    | PVNum => Hnum
    | PVBool => Hbool
    | PVStr => Hstr
    | PVStruct fs =>
      Hstruct fs ((fix go (l : list (name * pv)) : Forall (fun kv => P (snd kv)) l :=
                  match l with
                  | [] => Forall_nil _
                  | (k, x) :: r => Forall_cons (k, x) (pv_ind' x) (go r)
                  end) fs)
    | PVArray vs =>
      Harr vs ((fix go (l : list pv) : Forall P l :=
               match l with
               | [] => Forall_nil _
               | x :: r => Forall_cons x (pv_ind' x) (go r)
               end) vs)
    end.
End PvInd.

(* ------------------------------------------------------------------------------ *)
(* inversion of the combinators                                                    *)
(* ------------------------------------------------------------------------------ *)
Lemma band_ok : forall a b v es,
  band a b = Ok (v, es) ->
  exists x e1 y e2, a = Ok (x, e1) /\ b = Ok (y, e2) /\ v = x && y /\ es = e1 ++ e2.
Proof.
  intros a b v es H. unfold band in H.
  destruct a as [[x e1]| |k|]; try discriminate.
  destruct b as [[y e2]| |k|]; try discriminate.
  inversion H; subst. exists x, e1, y, e2. auto.
Qed.

Lemma andthen_ok : forall a b v es,
  andthen a b = Ok (v, es) ->
  exists x e1, a = Ok (x, e1) /\
    ((x = false /\ v = false /\ es = e1) \/
     (x = true /\ exists e2, b = Ok (v, e2) /\ es = e1 ++ e2)).
Proof.
  intros a b v es H. unfold andthen in H.
  destruct a as [[x e1]| |k|]; try discriminate.
  destruct x.
  - destruct b as [[y e2]| |k|]; try discriminate.
    inversion H; subst. exists true, e1. split; auto. right. split; auto. exists e2. auto.
  - inversion H; subst. exists false, es. split; auto.
Qed.

Lemma forall_from_cons : forall A (f : nat -> A -> chk) i x r,
  forall_from f i (x :: r) = band (f i x) (forall_from f (S i) r).
Proof. reflexivity. Qed.

(* every element's check succeeded, its messages are among the messages of the loop, and
   the loop is valid only if the element is *)
Lemma forall_from_nth : forall A (f : nat -> A -> chk) xs i v es j x,
  forall_from f i xs = Ok (v, es) ->
  nth_error xs j = Some x ->
  exists b e, f (i + j) x = Ok (b, e) /\ incl e es /\ (v = true -> b = true).
Proof.
  intros A f xs. induction xs as [|y r IH]; intros i v es j x H Hn.
  - destruct j; discriminate.
  - rewrite forall_from_cons in H. apply band_ok in H.
    destruct H as (b1 & e1 & b2 & e2 & H1 & H2 & Hv & Hes). subst.
    destruct j as [|j'].
    + cbn in Hn. inversion Hn; subst. exists b1, e1. rewrite Nat.add_0_r.
      split; [assumption|]. split.
      * apply incl_appl, incl_refl.
      * intro Hb. apply andb_true_iff in Hb. tauto.
    + cbn in Hn. destruct (IH (S i) b2 e2 j' x H2 Hn) as (b & e & Hf & Hi & Hb).
      exists b, e. replace (i + S j') with (S i + j') by lia.
      split; [assumption|]. split.
      * apply incl_appr. assumption.
      * intro Hv. apply andb_true_iff in Hv. tauto.
Qed.

(* ------------------------------------------------------------------------------ *)
(* "the returned flag says whether a message was printed"                          *)
(* ------------------------------------------------------------------------------ *)
Definition cons (r : chk) : Prop :=
  forall b es, r = Ok (b, es) -> (b = true <-> es = []).

Lemma cons_ok_true : cons ok_true.
Proof. intros b es H. inversion H. tauto. Qed.

Lemma cons_fail1 : forall k c, cons (fail1 k c).
Proof. intros k c b es H. inversion H. split; discriminate. Qed.

Lemma cons_exn : forall k, cons (Exn k).
Proof. intros k b es H. discriminate. Qed.

Lemma cons_fuel : cons Fuel.
Proof. intros b es H. discriminate. Qed.

Lemma cons_unsupported : cons Unsupported.
Proof. intros b es H. discriminate. Qed.

Lemma cons_band : forall a b, cons a -> cons b -> cons (band a b).
Proof.
  intros a b Ha Hb v es H. apply band_ok in H.
  destruct H as (x & e1 & y & e2 & H1 & H2 & Hv & Hes).
  specialize (Ha _ _ H1). specialize (Hb _ _ H2). subst v es.
  rewrite andb_true_iff. split.
  - intros [Hx Hy]. apply Ha in Hx. apply Hb in Hy. subst. reflexivity.
  - intro Happ. apply app_eq_nil in Happ. tauto.
Qed.

Lemma cons_andthen : forall a b, cons a -> cons b -> cons (andthen a b).
Proof.
  intros a b Ha Hb v es H. apply andthen_ok in H.
  destruct H as (x & e1 & H1 & [(Hx & Hv & Hes) | (Hx & e2 & H2 & Hes)]).
  - specialize (Ha _ _ H1). subst x v es. split; [discriminate|].
    intro He. apply Ha in He. discriminate.
  - specialize (Ha _ _ H1). specialize (Hb _ _ H2). subst x es.
    assert (He1 : e1 = []) by (apply Ha; reflexivity). subst e1. cbn. exact Hb.
Qed.

Lemma cons_forall_from : forall A (f : nat -> A -> chk) xs i,
  Forall (fun x => forall j, cons (f j x)) xs -> cons (forall_from f i xs).
Proof.
  intros A f xs. induction xs as [|x r IH]; intros i HF.
  - apply cons_ok_true.
  - rewrite forall_from_cons. inversion HF; subst. apply cons_band; auto.
Qed.

Lemma cons_forall_from_all : forall A (f : nat -> A -> chk) xs i,
  (forall j x, cons (f j x)) -> cons (forall_from f i xs).
Proof.
  intros. apply cons_forall_from. apply Forall_forall. intros; auto.
Qed.

(* ------------------------------------------------------------------------------ *)
(* "never out of fuel": the model has no fuel parameter at all                     *)
(* ------------------------------------------------------------------------------ *)
Definition nofuel {A} (r : res A) : Prop := r <> Fuel.

Lemma nofuel_band : forall a b, nofuel a -> nofuel b -> nofuel (band a b).
Proof.
  intros a b Ha Hb. unfold band, nofuel in *.
  destruct a as [[x e1]| |k|]; try congruence.
  destruct b as [[y e2]| |k|]; congruence.
Qed.

Lemma nofuel_andthen : forall a b, nofuel a -> nofuel b -> nofuel (andthen a b).
Proof.
  intros a b Ha Hb. unfold andthen, nofuel in *.
  destruct a as [[[|] e1]| |k|]; try congruence.
  destruct b as [[y e2]| |k|]; congruence.
Qed.

Lemma nofuel_forall_from : forall A (f : nat -> A -> chk) xs i,
  Forall (fun x => forall j, nofuel (f j x)) xs -> nofuel (forall_from f i xs).
Proof.
  intros A f xs. induction xs as [|x r IH]; intros i HF.
  - cbn. unfold nofuel, ok_true. congruence.
  - rewrite forall_from_cons. inversion HF; subst. apply nofuel_band; auto.
Qed.

Lemma nofuel_forall_from_all : forall A (f : nat -> A -> chk) xs i,
  (forall j x, nofuel (f j x)) -> nofuel (forall_from f i xs).
Proof.
  intros. apply nofuel_forall_from. apply Forall_forall. intros; auto.
Qed.
