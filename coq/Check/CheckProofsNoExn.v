(* CheckProofsNoExn.v — no Python exception escapes the validator model, for every AST of the
   shape the grammar produces ([from_grammar], Guards.v: attribute paths start with a field
   and put an index only after a field; struct literals are JSON objects).  The lookups that
   remain unguarded in the code (check_if_input_parameter_matches: "At this point it is known
   that the variable chain is valid, so dont check again") are reached only after a successful
   check_attribute_access, which makes every key present. *)
From PFDL Require Import Base Syntax.
From PFDL.Check Require Import CheckModel CheckProofsBase CheckProofsC16 Typing Guards.

(* neither a Python exception nor "outside the model" *)
Definition bad {A} (r : res A) : bool :=
  match r with Exn _ | Unsupported => true | _ => false end.
Definition noexn {A} (r : res A) : Prop := bad r = false.

Lemma noexn_ok : forall A (a : A), noexn (Ok a).
Proof. reflexivity. Qed.

Lemma noexn_band : forall a b, noexn a -> noexn b -> noexn (band a b).
Proof.
  intros a b Ha Hb. unfold band, noexn in *.
  destruct a as [[x e1]| |k1|]; try discriminate; try reflexivity.
  destruct b as [[y e2]| |k2|]; try discriminate; reflexivity.
Qed.

Lemma noexn_andthen : forall a b,
  noexn a -> (forall e, a = Ok (true, e) -> noexn b) -> noexn (andthen a b).
Proof.
  intros a b Ha Hb. unfold andthen, noexn in *.
  destruct a as [[[|] e1]| |k1|]; try discriminate; try reflexivity.
  specialize (Hb e1 eq_refl).
  destruct b as [[y e2]| |k2|]; try discriminate; reflexivity.
Qed.

Lemma noexn_forall_from : forall A (f : nat -> A -> chk) xs i,
  Forall (fun x => forall j, noexn (f j x)) xs -> noexn (forall_from f i xs).
Proof.
  intros A f xs. induction xs as [|x r IH]; intros i HF.
  - apply noexn_ok.
  - rewrite forall_from_cons. inversion HF; subst. apply noexn_band; auto.
Qed.

Lemma noexn_forall_from_in : forall A (f : nat -> A -> chk) xs i,
  (forall j x, In x xs -> noexn (f j x)) -> noexn (forall_from f i xs).
Proof.
  intros. apply noexn_forall_from. apply Forall_forall. intros; auto.
Qed.

Lemma noexn_fail1 : forall k c, noexn (fail1 k c).
Proof. intros. apply noexn_ok. Qed.

Lemma noexn_ok_true : noexn ok_true.
Proof. apply noexn_ok. Qed.

#[export] Hint Resolve noexn_ok noexn_fail1 noexn_ok_true : noexn.

Section NoExn.
  Variable E : env.

  Lemma noexn_check_vardef : forall t c, noexn (check_vardef E t c).
  Proof. intros. unfold check_vardef. destruct (variable_type_exists E _); auto with noexn. Qed.

  Lemma noexn_check_structs : noexn (check_structs E).
  Proof.
    unfold check_structs. apply noexn_forall_from_in. intros j x _.
    unfold check_struct_def. apply noexn_forall_from_in. intros. apply noexn_check_vardef.
  Qed.

  (* ---- attribute access, expressions, limits: total ------------------------------ *)
  Lemma noexn_caa_loop : forall c es pred, noexn (caa_loop E c pred es).
  Proof.
    intros c es. induction es as [|e rest IH]; intro pred; cbn [caa_loop].
    - auto with noexn.
    - destruct e; try apply IH.
      destruct (assoc n (sd_attrs pred)) as [ty|]; [|auto with noexn].
      destruct rest as [|e2 rest2]; [auto with noexn|].
      destruct ty as [p|p l]; destruct (is_index e2); auto with noexn;
        (destruct (struct_of_prim E p); [apply IH | auto with noexn]).
  Qed.

  Lemma noexn_check_attribute_access : forall T c v es, noexn (check_attribute_access E T c v es).
  Proof.
    intros. unfold check_attribute_access.
    destruct (assoc v (td_vars T)) as [[p|p l]|]; auto with noexn.
    destruct (struct_of_prim E p); [apply noexn_caa_loop | auto with noexn].
  Qed.

  Lemma noexn_check_expression : forall T c e, noexn (check_expression E T c e).
  Proof.
    intros T c e. induction e; cbn [check_expression]; auto with noexn.
    - unfold check_single_path. apply noexn_andthen; [apply noexn_check_attribute_access|].
      intros _ _. destruct (get_type_of_variable_list E T v p) as [[[| | |s]|p0 l]|]; auto with noexn.
    - destruct (is_cmp o); [|destruct (is_arith o)].
      + destruct (expression_is_number E T e1 && expression_is_number E T e2); [auto with noexn|].
        destruct (expression_is_string E T e1 && expression_is_string E T e2); auto with noexn.
      + destruct (expression_is_number E T e1 && expression_is_number E T e2); auto with noexn.
      + apply noexn_andthen; [assumption | intros _ _; assumption].
  Qed.

  Lemma noexn_check_limit : forall T c lim, noexn (check_limit E T c lim).
  Proof.
    intros T c lim. unfold check_limit. destruct lim; [auto with noexn|].
    apply noexn_andthen; [apply noexn_check_attribute_access|]. intros _ _.
    destruct (expression_is_number E T (EPath v p)); auto with noexn.
  Qed.

  (* ---- struct literals --------------------------------------------------------- *)
  Lemma noexn_check_missing : forall c defattrs fs, noexn (check_missing c defattrs fs).
  Proof.
    intros c defattrs fs. induction defattrs as [|[a t] r IH]; cbn [check_missing]; auto with noexn.
    destruct (has_key a fs); auto with noexn.
  Qed.

  Lemma noexn_arr_wrap : forall (arr : chk) x,
    noexn arr ->
    noexn (match arr with
           | Ok (true, es) => Ok (true, es)
           | Ok (false, es) => Ok (false, es ++ [x])
           | Fuel => Fuel | Exn k => Exn k | Unsupported => Unsupported
           end).
  Proof.
    intros arr x Hn. unfold noexn in *. destruct arr as [[[|] es]| |k1|]; try discriminate; reflexivity.
  Qed.

  (* every call of check_for_wrong_attribute_type_in_struct is behind the unknown-attribute test *)
  Definition Qv (v : pv) : Prop :=
    forall jctx ictx def id, has_key id (sd_attrs def) = true -> noexn (check_attr_type E jctx ictx def id v).
  Definition Pv (v : pv) : Prop :=
    Qv v /\ match v with
            | PVStruct fs => Forall (fun kv => Qv (snd kv)) fs
            | _ => True
            end.

  Lemma noexn_fields : forall jctx sd' fs,
    Forall (fun kv => Qv (snd kv)) fs ->
    noexn ((fix go (l : list (name * pv)) : chk :=
              match l with
              | [] => ok_true
              | (id', v') :: r =>
                band (if has_key id' (sd_attrs sd') then check_attr_type E jctx jctx sd' id' v'
                      else fail1 KUnknownAttrInLit jctx) (go r)
              end) fs).
  Proof.
    intros jctx sd' fs H. induction fs as [|[id' v'] r IHr]; [auto with noexn|].
    inversion H; subst. apply noexn_band; [|apply IHr; assumption].
    destruct (has_key id' (sd_attrs sd')) eqn:Hk; [apply H2; exact Hk | auto with noexn].
  Qed.

  Lemma noexn_check_attr_type_strong : forall v, Pv v.
  Proof.
    intro v. induction v using pv_ind'; unfold Pv; (split; [|try exact I]);
      try (intros jctx ictx def id Hk; cbn [check_attr_type]; unfold has_key in Hk;
           destruct (assoc id (sd_attrs def)) as [[p|p len]|]; try discriminate;
           try solve [destruct (struct_of_prim E p); auto with noexn;
                      destruct (check_type_of_value E _ None p); auto with noexn]).
    - destruct (struct_of_prim E p) as [sd'|];
        [|destruct (check_type_of_value E _ None p); auto with noexn].
      apply noexn_band; [apply noexn_check_missing|]. apply noexn_fields.
      eapply Forall_impl; [|exact H]. intros a Ha. apply Ha.
    - clear - H. eapply Forall_impl; [|exact H]. intros a Ha. apply Ha.
    - apply noexn_arr_wrap.
      generalize (length vs) as n. intro n.
      induction vs as [|value r IHr].
      + destruct (array_length_correct n len); auto with noexn.
      + inversion H; subst. apply noexn_andthen.
        * destruct value; auto with noexn.
          destruct (struct_of_prim E p) as [sd'|]; [|auto with noexn].
          apply noexn_band; [apply noexn_check_missing|]. apply noexn_fields. apply H2.
        * intros _ _. destruct (check_type_of_value E value (Some p) p); [|auto with noexn].
          apply IHr; assumption.
  Qed.

  Lemma noexn_check_literal : forall ictx jctx s fs, noexn (check_literal E ictx jctx s (JObj fs)).
  Proof.
    intros ictx jctx s fs. unfold check_literal. cbn [parse_json].
    destruct (find_struct E s) as [sd|]; [|auto with noexn].
    apply noexn_band; [apply noexn_check_missing|].
    apply noexn_forall_from_in. intros i kv Hin.
    destruct (has_key (fst kv) (sd_attrs sd)) eqn:Hk; [|auto with noexn].
    apply (proj1 (noexn_check_attr_type_strong (snd kv))). exact Hk.
  Qed.

  (* ---- calls ---------------------------------------------------------------------- *)
  Lemma last_cons : forall A (l : list A) a d, last (a :: l) d = last l a.
  Proof.
    intros A l. induction l as [|b r IH]; intros a d; [reflexivity|].
    change (last (a :: b :: r) d) with (last (b :: r) d). rewrite IH. symmetry. apply IH.
  Qed.

  Lemma ipm_walk_cons2 : forall cur e e2 rest2,
    ipm_walk E cur (e :: e2 :: rest2) =
    match attr_of cur e with
    | None => Exn KeyError
    | Some (TArray p _) =>
      match struct_of_prim E p with
      | None => Exn KeyError
      | Some sd => ipm_walk E sd rest2
      end
    | Some (TPlain p) =>
      match struct_of_prim E p with
      | None => Exn KeyError
      | Some sd => ipm_walk E sd (e2 :: rest2)
      end
    end.
  Proof. reflexivity. Qed.

  (* after a successful check_attribute_access on a path of the grammar's shape the walk of
     check_if_input_parameter_matches finds every key *)
  Lemma caa_true_ipm_ok : forall n es sd c errs prev,
    length es <= n ->
    caa_loop E c sd es = Ok (true, errs) ->
    match es with [] => is_index prev = true | e :: _ => is_index e = false end ->
    no_double_index es = true ->
    exists cur, ipm_walk E sd es = Ok cur /\
                (is_index (last es prev) = true \/ exists t, attr_of cur (last es prev) = Some t).
  Proof.
    induction n as [|n IH]; intros es sd c errs prev Hlen Hc Hhead Hnd.
    - destruct es; [|cbn in Hlen; lia]. exists sd. split; [reflexivity|]. left. exact Hhead.
    - destruct es as [|e [|e2 rest2]].
      + exists sd. split; [reflexivity|]. left. exact Hhead.
      + destruct e; try discriminate. cbn in Hc.
        exists sd. split; [reflexivity|]. right. cbn [last attr_of].
        destruct (assoc n0 (sd_attrs sd)); [eauto | discriminate].
      + destruct e; try discriminate.
        rewrite ipm_walk_cons2. cbn [attr_of].
        change (last (PF n0 :: e2 :: rest2) prev) with (last (e2 :: rest2) prev).
        cbn [caa_loop] in Hc.
        destruct (assoc n0 (sd_attrs sd)) as [ty|]; [|discriminate].
        assert (Hnd2 : no_double_index (e2 :: rest2) = true).
        { cbn [no_double_index] in Hnd. apply andb_true_iff in Hnd. apply Hnd. }
        destruct ty as [p|p l]; destruct (is_index e2) eqn:Hi2; try discriminate.
        * (* plain attribute followed by a field *)
          destruct (struct_of_prim E p) as [sd'|]; [|discriminate].
          apply (IH (e2 :: rest2) sd' c errs prev); [cbn in *; lia | exact Hc | exact Hi2 | exact Hnd2].
        * (* array attribute followed by an index: the index is skipped *)
          destruct (struct_of_prim E p) as [sd'|]; [|discriminate].
          rewrite last_cons.
          assert (Hc' : caa_loop E c sd' rest2 = Ok (true, errs)).
          { destruct e2; try discriminate; exact Hc. }
          apply (IH rest2 sd' c errs e2); [cbn in *; lia | exact Hc' | | ].
          -- destruct rest2 as [|e3 r3]; [exact Hi2|].
             cbn [no_double_index] in Hnd2. apply andb_true_iff in Hnd2. destruct Hnd2 as [Hx _].
             rewrite Hi2 in Hx. cbn in Hx. destruct (is_index e3); [discriminate | reflexivity].
          -- destruct rest2 as [|e3 r3]; [reflexivity|].
             cbn [no_double_index] in Hnd2. apply andb_true_iff in Hnd2. apply Hnd2.
  Qed.

  Lemma noexn_check_input_matches : forall T ti pi p defined c errs,
    match p with
    | PPath v es => grammar_path es = true /\ check_attribute_access E T c v es = Ok (true, errs)
    | _ => True
    end ->
    noexn (check_input_matches E T ti pi p defined).
  Proof.
    intros T ti pi p defined c errs Hp. unfold check_input_matches.
    destruct p as [v|v es|s j].
    - destruct (assoc v (td_vars T)); [destruct (vtype_eqb v0 defined)|]; auto with noexn.
    - destruct Hp as [Hg Hc]. unfold check_attribute_access in Hc.
      destruct (assoc v (td_vars T)) as [[p|p l]|]; try discriminate.
      destruct (struct_of_prim E p) as [sd|]; [|discriminate].
      unfold grammar_path in Hg. destruct es as [|e rest]; [discriminate|]. destruct e; try discriminate.
      destruct (caa_true_ipm_ok (length (PF n :: rest)) (PF n :: rest) sd c errs (PF v)
                                (le_n _) Hc eq_refl Hg) as (cur & Hw & Hl).
      rewrite Hw. destruct Hl as [Hl | [t Ht]].
      + rewrite Hl. destruct (given_differs _ defined); auto with noexn.
      + destruct (is_index (last (PF n :: rest) (PF v))).
        * destruct (given_differs _ defined); auto with noexn.
        * rewrite Ht. destruct (given_differs _ defined); auto with noexn.
    - destruct (vtype_eqb _ defined); auto with noexn.
  Qed.

  Lemma noexn_forall2 : forall A B (f : A -> B -> chk) l1 l2,
    (forall x y, In x l1 -> noexn (f x y)) -> noexn (forall2_chk f l1 l2).
  Proof.
    intros A B f l1. induction l1 as [|x r IH]; intros l2 Hf; destruct l2; cbn [forall2_chk]; auto with noexn.
    apply noexn_band.
    - apply Hf. left. reflexivity.
    - apply IH. intros. apply Hf. right. assumption.
  Qed.

  Lemma forall_from_true_in : forall A (f : nat -> A -> chk) xs i es x,
    forall_from f i xs = Ok (true, es) -> In x xs -> exists j e, f j x = Ok (true, e).
  Proof.
    intros A f xs i es x H Hin. apply In_nth_error in Hin. destruct Hin as [j Hj].
    destruct (forall_from_nth _ f xs i true es j x H Hj) as (b & e & Hf & _ & Hb).
    exists (i + j), e. rewrite Hf. rewrite (Hb eq_refl). reflexivity.
  Qed.

  Lemma has_key_assoc : forall V k (d : list (name * V)),
    has_key k d = true -> exists v, assoc k d = Some v.
  Proof. intros V k d H. unfold has_key in H. destruct (assoc k d); [eauto | discriminate]. Qed.

  Definition params_shaped (ins : list param) : Prop := forallb param_from_grammar ins = true.

  Lemma noexn_check_call_parameters : forall T ti pi ins outs,
    params_shaped ins -> noexn (check_call_parameters E T ti pi ins outs).
  Proof.
    intros T ti pi ins outs Hs. unfold check_call_parameters. apply noexn_band.
    - destruct ins as [|p0 r0]; [auto with noexn|]. unfold check_call_inputs.
      apply noexn_forall_from_in. intros j x Hin.
      unfold params_shaped in Hs. rewrite forallb_forall in Hs. specialize (Hs x Hin).
      unfold check_input_param. destruct x.
      + destruct (has_key v (td_vars T)); auto with noexn.
      + apply noexn_check_attribute_access.
      + destruct j0; try discriminate. apply noexn_check_literal.
    - destruct (call_outs outs) eqn:Ho; [auto with noexn|]. unfold check_call_outputs. rewrite Ho.
      apply noexn_forall_from_in. intros. apply noexn_check_vardef.
  Qed.

  Lemma noexn_check_task_call : forall T ti pi c,
    params_shaped (c_ins c) -> noexn (check_task_call E T ti pi c).
  Proof.
    intros T ti pi c Hs. unfold check_task_call.
    destruct (has_key (c_name c) (e_tasks E)) eqn:Hk; [|auto with noexn].
    destruct (task_reaches E (length (e_tasks E)) (c_name c) (td_name T)); [auto with noexn|].
    apply noexn_andthen; [apply noexn_check_call_parameters; exact Hs|].
    intros e He. unfold check_call_matches, find_tdef.
    destruct (has_key_assoc _ _ _ Hk) as [called Hcalled]. rewrite Hcalled.
    apply noexn_andthen.
    - unfold check_length_match.
      destruct (negb _); [auto with noexn|]. destruct (negb _); auto with noexn.
    - intros _ _. apply noexn_band.
      + apply noexn_forall2. intros p def Hin.
        destruct p as [v|v es|s j].
        * apply (noexn_check_input_matches T ti pi (PVar v) (snd def) CFile []). exact I.
        * unfold check_call_parameters in He. apply band_ok in He.
          destruct He as (x & e1 & y & e2 & H1 & _ & Hxy & _).
          symmetry in Hxy. apply andb_true_iff in Hxy. destruct Hxy as [Hx _]. subst x.
          destruct (c_ins c) as [|p0 r0] eqn:Hins; [destruct Hin|].
          unfold check_call_inputs in H1.
          destruct (forall_from_true_in _ _ _ _ _ _ H1 Hin) as (j & e' & Hj).
          cbn [check_input_param] in Hj.
          unfold params_shaped in Hs. rewrite forallb_forall in Hs. specialize (Hs _ Hin).
          cbn [param_from_grammar] in Hs.
          apply (noexn_check_input_matches T ti pi (PPath v es) (snd def) (CStmtIn ti pi) e').
          split; [exact Hs | exact Hj].
        * apply (noexn_check_input_matches T ti pi (PLit s j) (snd def) CFile []). exact I.
      + apply noexn_forall2. intros o out_name _. unfold check_output_matches.
        destruct (assoc out_name (td_vars called)); [destruct (vtype_eqb _ _)|]; auto with noexn.
  Qed.

  (* ---- statements, tasks ---------------------------------------------------------- *)
  Lemma noexn_check_stmt : forall T s pi,
    stmt_params_all param_from_grammar s = true -> noexn (check_stmt E T pi s).
  Proof.
    intros T s. induction s using stmt_ind'; intros pi Hs; cbn [check_stmt stmt_params_all] in *.
    - apply noexn_check_call_parameters. exact Hs.
    - apply noexn_check_task_call. exact Hs.
    - apply noexn_forall_from_in. intros j c Hin. apply noexn_check_task_call.
      rewrite forallb_forall in Hs. apply Hs. exact Hin.
    - apply noexn_band; [|apply noexn_check_expression].
      apply noexn_forall_from. rewrite Forall_forall in H. apply Forall_forall. intros x Hin j.
      rewrite forallb_forall in Hs. apply H; auto.
    - destruct par; (apply noexn_band; [apply noexn_check_limit|]).
      + destruct b as [|s0 [|s1 r]]; [auto with noexn | | destruct s0; auto with noexn].
        destruct s0; auto with noexn.
        apply noexn_check_task_call. cbn in Hs. rewrite andb_true_r in Hs. exact Hs.
      + apply noexn_forall_from. rewrite Forall_forall in H. apply Forall_forall. intros x Hin j.
        rewrite forallb_forall in Hs. apply H; auto.
    - apply andb_true_iff in Hs. destruct Hs as [Hp Hf].
      apply noexn_band; [|apply noexn_band; [|apply noexn_check_expression]].
      + apply noexn_forall_from. rewrite Forall_forall in H. apply Forall_forall. intros x Hin j.
        rewrite forallb_forall in Hp. apply H; auto.
      + apply noexn_forall_from. rewrite Forall_forall in H0. apply Forall_forall. intros x Hin j.
        rewrite forallb_forall in Hf. apply H0; auto.
  Qed.

  Lemma noexn_check_task : forall T,
    forallb (stmt_params_all param_from_grammar) (td_body T) = true -> noexn (check_task E T).
  Proof.
    intros T Hs. unfold check_task. apply noexn_band; [|apply noexn_band].
    - unfold check_statements. apply noexn_forall_from_in. intros j s Hin.
      rewrite forallb_forall in Hs. apply noexn_check_stmt; auto.
    - unfold check_task_inputs. apply noexn_forall_from_in. intros. apply noexn_check_vardef.
    - unfold check_task_outputs. apply noexn_forall_from_in. intros.
      destruct (has_key x (td_vars T)); auto with noexn.
  Qed.
End NoExn.

Lemma in_dedup_first : forall V (l : list (name * V)) seen kv, In kv (dedup_first seen l) -> In kv l.
Proof.
  intros V l. induction l as [|[k v] r IH]; intros seen kv H; [destruct H|]. cbn [dedup_first] in H.
  destruct (mem k seen); [right; eapply IH; exact H|].
  destruct H as [H|H]; [left; exact H | right; eapply IH; exact H].
Qed.

Lemma in_e_tasks_body : forall p kv, In kv (e_tasks (visit_env p)) ->
  exists t, In t (p_tasks p) /\ td_body (snd kv) = t_body t.
Proof.
  intros p kv H. cbn [visit_env e_tasks] in H. apply in_dedup_first in H.
  apply in_map_iff in H. destruct H as ([i t] & <- & Hin). exists t. split; [|reflexivity].
  clear - Hin. revert Hin. generalize 0. induction (p_tasks p) as [|x r IH]; intros n Hin; [destruct Hin|].
  destruct Hin as [Heq|Hin]; [injection Heq as _ <-; left; reflexivity | right; eapply IH; exact Hin].
Qed.

Theorem from_grammar_verdict : forall p,
  from_grammar p = true -> exists es, validate p = Ok es.
Proof.
  intros p Hg. set (E := visit_env p).
  assert (Hn : noexn (validate_process E)).
  { unfold validate_process. apply noexn_band; [apply noexn_check_structs|].
    unfold check_tasks.
    assert (Hn : noexn (forall_from (fun (_ : nat) (kv : name * tdef) => check_task E (snd kv)) 0 (e_tasks E))).
    { apply noexn_forall_from_in. intros j kv Hin. apply noexn_check_task.
      destruct (in_e_tasks_body p kv Hin) as (t & Ht & Hb). rewrite Hb.
      unfold from_grammar in Hg. rewrite forallb_forall in Hg. apply Hg. exact Ht. }
    unfold noexn in *.
    destruct (forall_from _ 0 (e_tasks E)) as [[valid es]| |k1|]; try discriminate; try reflexivity.
    destruct (has_key production_task (e_tasks E)); reflexivity. }
  pose proof (proj1 (CheckProofsC16.good_validate_process E)) as Hf. unfold nofuel in Hf.
  unfold validate. fold E. unfold noexn in Hn.
  destruct (validate_process E) as [[b es]| |k1|]; try discriminate; try congruence.
  eauto.
Qed.

Theorem from_grammar_no_exception : forall p,
  from_grammar p = true -> forall k, validate p <> Exn k.
Proof.
  intros p Hg k. destruct (from_grammar_verdict p Hg) as [es Hes]. rewrite Hes. discriminate.
Qed.
