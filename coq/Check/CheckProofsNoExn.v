(* CheckProofsNoExn.v — under the guard [crash_free] (Guards.v) no Python exception escapes
   the validator model: every unguarded lookup of the code is reached only with a key that
   is present.  The guard excludes exactly the crash shapes D11a–D11d (each of which has a
   _refuted witness in Properties/C16.v). *)
From PFDL Require Import Base Syntax.
From PFDL.Check Require Import CheckModel CheckProofsBase CheckProofsC16 Typing Guards.

(* neither a Python exception nor "outside the model" *)
Definition bad {A} (r : res A) : bool :=
  match r with Exn _ | Unsupported => true | _ => false end.
Definition noexn {A} (r : res A) : Prop := bad r = false.

Lemma noexn_ok : forall A (a : A), noexn (Ok a).
Proof. reflexivity. Qed.

Lemma noexn_band : forall a b, noexn a -> noexn b -> noexn (band a b).
Proof.
  intros a b Ha Hb. unfold band, noexn in *.
  destruct a as [[x e1]| |k1|]; try discriminate; try reflexivity.
  destruct b as [[y e2]| |k2|]; try discriminate; reflexivity.
Qed.

Lemma noexn_andthen : forall a b,
  noexn a -> (forall e, a = Ok (true, e) -> noexn b) -> noexn (andthen a b).
Proof.
  intros a b Ha Hb. unfold andthen, noexn in *.
  destruct a as [[[|] e1]| |k1|]; try discriminate; try reflexivity.
  specialize (Hb e1 eq_refl).
  destruct b as [[y e2]| |k2|]; try discriminate; reflexivity.
Qed.

Lemma noexn_forall_from : forall A (f : nat -> A -> chk) xs i,
  Forall (fun x => forall j, noexn (f j x)) xs -> noexn (forall_from f i xs).
Proof.
  intros A f xs. induction xs as [|x r IH]; intros i HF.
  - apply noexn_ok.
  - rewrite forall_from_cons. inversion HF; subst. apply noexn_band; auto.
Qed.

Lemma noexn_forall_from_in : forall A (f : nat -> A -> chk) xs i,
  (forall j x, In x xs -> noexn (f j x)) -> noexn (forall_from f i xs).
Proof.
  intros. apply noexn_forall_from. apply Forall_forall. intros; auto.
Qed.

Lemma noexn_fail1 : forall k c, noexn (fail1 k c).
Proof. intros. apply noexn_ok. Qed.

Lemma noexn_ok_true : noexn ok_true.
Proof. apply noexn_ok. Qed.

#[export] Hint Resolve noexn_ok noexn_fail1 noexn_ok_true : noexn.

Section NoExn.
  Variable E : env.

  (* ---- check_if_variable_definition_is_valid, structs ------------------------- *)
  Lemma noexn_check_vardef : forall t c, noexn (check_vardef E t c).
  Proof. intros. unfold check_vardef. destruct (variable_type_exists E _); auto with noexn. Qed.

  Lemma noexn_check_structs : noexn (check_structs E).
  Proof.
    unfold check_structs. apply noexn_forall_from_in. intros j x _.
    unfold check_struct_def. apply noexn_forall_from_in. intros. apply noexn_check_vardef.
  Qed.

  (* ---- attribute access ------------------------------------------------------- *)
  Lemma noexn_caa_loop : forall c es pred,
    access_safe_loop E pred es = true -> noexn (caa_loop E c pred es).
  Proof.
    intros c es. induction es as [|e rest IH]; intros pred Hs; cbn [caa_loop].
    - auto with noexn.
    - cbn [access_safe_loop] in Hs. destruct e; try (apply IH; exact Hs).
      destruct (assoc n (sd_attrs pred)) as [ty|]; [|auto with noexn].
      destruct rest as [|e2 rest2]; [auto with noexn|].
      destruct e2; destruct ty as [p|p l]; try discriminate;
        (destruct (struct_of_prim E p); [apply IH; exact Hs | first [discriminate | auto with noexn]]).
  Qed.

  Lemma noexn_check_attribute_access : forall T c v es,
    access_safe E T v es = true -> noexn (check_attribute_access E T c v es).
  Proof.
    intros T c v es Hs. unfold access_safe in Hs. apply andb_true_iff in Hs. destruct Hs as [_ Hs].
    unfold check_attribute_access.
    destruct (assoc v (td_vars T)) as [[p|p l]|]; try discriminate; auto with noexn.
    destruct (struct_of_prim E p); [apply noexn_caa_loop; exact Hs | auto with noexn].
  Qed.

  (* L1: a successful access check along field names only makes the type lookup succeed *)
  Lemma caa_true_gtvl_ok : forall es sd c e1 errs,
    caa_loop E c sd (e1 :: es) = Ok (true, errs) ->
    forallb (fun e => negb (is_index e)) (e1 :: es) = true ->
    exists t, gtvl_loop E sd e1 es = Ok t.
  Proof.
    induction es as [|e2 rest IH]; intros sd c e1 errs Hc Hf.
    - cbn in Hf. destruct e1; try discriminate. cbn in Hc. cbn [gtvl_loop attr_of].
      destruct (assoc n (sd_attrs sd)) as [ty|]; [eauto | discriminate].
    - cbn [forallb] in Hf. apply andb_true_iff in Hf. destruct Hf as [H1 Hf].
      destruct e1; try discriminate.
      assert (H2 : is_index e2 = false).
      { cbn [forallb] in Hf. apply andb_true_iff in Hf. destruct Hf as [H2 _].
        destruct (is_index e2); [discriminate | reflexivity]. }
      destruct e2; try discriminate.
      cbn [caa_loop] in Hc. cbn [gtvl_loop attr_of].
      destruct (assoc n (sd_attrs sd)) as [ty|]; [|discriminate].
      destruct ty as [p|p l]; [|discriminate].
      cbn [struct_of_type].
      destruct (struct_of_prim E p) as [sd'|]; [|discriminate].
      cbn [rbind]. eapply IH; [exact Hc | exact Hf].
  Qed.

  Lemma noexn_check_single_path : forall T c v es,
    cond_path_safe E T v es = true -> noexn (check_single_path E T c v es).
  Proof.
    intros T c v es Hs. unfold cond_path_safe in Hs. apply andb_true_iff in Hs. destruct Hs as [Ha Hf].
    unfold check_single_path. apply noexn_andthen.
    - apply noexn_check_attribute_access. exact Ha.
    - intros e He.
      assert (Hok : exists t, get_type_of_variable_list E T v es = Ok t).
      { unfold access_safe in Ha. apply andb_true_iff in Ha. destruct Ha as [Hg _].
        unfold check_attribute_access in He. unfold get_type_of_variable_list.
        destruct (assoc v (td_vars T)) as [[p|p l]|]; try discriminate.
        cbn [struct_of_type].
        destruct (struct_of_prim E p) as [sd|]; [|discriminate]. cbn [rbind].
        destruct es as [|e1 rest]; [discriminate|].
        eapply caa_true_gtvl_ok; eauto. }
      destruct Hok as [t Ht]. rewrite Ht.
      destruct t as [[| | |s]|p l]; auto with noexn.
  Qed.

  (* L2: a plain chain makes the type lookup succeed *)
  Lemma plain_chain_gtvl_ok : forall es cur last,
    plain_chain E cur last es = true -> exists t, gtvl_loop E cur last es = Ok t.
  Proof.
    induction es as [|e rest IH]; intros cur last Hp; cbn [plain_chain gtvl_loop] in *.
    - destruct (attr_of cur last); [eauto | discriminate].
    - destruct (attr_of cur last) as [[p|p l]|]; try discriminate.
      cbn [struct_of_type]. destruct (struct_of_prim E p) as [sd|]; [|discriminate].
      cbn [rbind]. apply IH. exact Hp.
  Qed.

  Lemma plain_path_gtvl_ok : forall T v es,
    plain_path E T v es = true -> exists t, get_type_of_variable_list E T v es = Ok t.
  Proof.
    intros T v es Hp. unfold plain_path in Hp. unfold get_type_of_variable_list.
    destruct (assoc v (td_vars T)) as [[p|p l]|]; try discriminate.
    cbn [struct_of_type]. destruct (struct_of_prim E p) as [sd|]; [|discriminate]. cbn [rbind].
    destruct es as [|e rest].
    - unfold has_key in Hp. destruct (assoc v (sd_attrs sd)); [eauto | discriminate].
    - apply plain_chain_gtvl_ok. exact Hp.
  Qed.

  Lemma operand_safe_is_number : forall T e,
    operand_safe E T e = true -> exists b, expression_is_number E T e = Ok b.
  Proof.
    intros T e. induction e; intro Hs; cbn [operand_safe expression_is_number] in *; eauto; try discriminate.
    - destruct (plain_path_gtvl_ok _ _ _ Hs) as [t Ht]. rewrite Ht. cbn [rbind]. eauto.
    - apply andb_true_iff in Hs. destruct Hs as [H1 H2].
      destruct (IHe1 H1) as [b1 Hb1]. destruct (IHe2 H2) as [b2 Hb2].
      rewrite Hb1, Hb2. unfold rand. cbn [rbind]. destruct b1; eauto.
  Qed.

  Lemma operand_safe_is_string : forall T e,
    operand_safe E T e = true -> exists b, expression_is_string E T e = Ok b.
  Proof.
    intros T e Hs. destruct e; cbn [operand_safe expression_is_string] in *; eauto.
    destruct (plain_path_gtvl_ok _ _ _ Hs) as [t Ht]. rewrite Ht. cbn [rbind]. eauto.
  Qed.

  Lemma rand_ok : forall a b x y, a = Ok x -> b = Ok y -> exists z, rand a b = Ok z.
  Proof. intros a b x y -> ->. unfold rand. cbn [rbind]. destruct x; eauto. Qed.

  Lemma noexn_check_expression : forall T c e,
    expr_safe E T e = true -> noexn (check_expression E T c e).
  Proof.
    intros T c e. unfold expr_safe.
    induction e; intro Hs; apply andb_true_iff in Hs; destruct Hs as [Ho Hp];
      cbn [check_expression expr_operands_safe expr_paths_safe] in *; auto with noexn.
    - apply noexn_check_single_path. exact Hp.
    - apply IHe. rewrite Ho, Hp. reflexivity.
    - apply IHe. rewrite Ho, Hp. reflexivity.
    - destruct (is_cmp o) eqn:Hcmp; [|destruct (is_arith o) eqn:Har]; cbn [orb] in *.
      + apply andb_true_iff in Ho. destruct Ho as [Hl Hr].
        destruct (operand_safe_is_number _ _ Hl) as [bl Hbl].
        destruct (operand_safe_is_number _ _ Hr) as [br Hbr].
        destruct (rand_ok _ _ _ _ Hbl Hbr) as [z Hz]. rewrite Hz. cbn [lift_bool].
        destruct z; [auto with noexn|].
        destruct (operand_safe_is_string _ _ Hl) as [sl Hsl].
        destruct (operand_safe_is_string _ _ Hr) as [sr Hsr].
        destruct (rand_ok _ _ _ _ Hsl Hsr) as [z2 Hz2]. rewrite Hz2. cbn [lift_bool].
        destruct z2; auto with noexn.
      + apply andb_true_iff in Ho. destruct Ho as [Hl Hr].
        destruct (operand_safe_is_number _ _ Hl) as [bl Hbl].
        destruct (operand_safe_is_number _ _ Hr) as [br Hbr].
        destruct (rand_ok _ _ _ _ Hbl Hbr) as [z Hz]. rewrite Hz. cbn [lift_bool].
        destruct z; auto with noexn.
      + apply andb_true_iff in Ho. destruct Ho as [Hol Hor].
        apply andb_true_iff in Hp. destruct Hp as [Hpl Hpr].
        apply noexn_andthen.
        * apply IHe1. rewrite Hol, Hpl. reflexivity.
        * intros _ _. apply IHe2. rewrite Hor, Hpr. reflexivity.
  Qed.

  (* ---- struct literals --------------------------------------------------------- *)
  Lemma noexn_check_missing : forall c defattrs fs, noexn (check_missing c defattrs fs).
  Proof.
    intros c defattrs fs. induction defattrs as [|[a t] r IH]; cbn [check_missing]; auto with noexn.
    destruct (has_key a fs); auto with noexn.
  Qed.

  Lemma noexn_arr_wrap : forall (arr : chk) x,
    noexn arr ->
    noexn (match arr with
           | Ok (true, es) => Ok (true, es)
           | Ok (false, es) => Ok (false, es ++ [x])
           | Fuel => Fuel | Exn k => Exn k | Unsupported => Unsupported
           end).
  Proof.
    intros arr x Hn. unfold noexn in *. destruct arr as [[[|] es]| |k1|]; try discriminate; reflexivity.
  Qed.

  Definition Qv (v : pv) : Prop :=
    forall jctx ictx def id, value_safe E def id v = true -> noexn (check_attr_type E jctx ictx def id v).
  Definition Pv (v : pv) : Prop :=
    Qv v /\ match v with
            | PVStruct fs => Forall (fun kv => Qv (snd kv)) fs
            | _ => True
            end.

  Lemma noexn_check_attr_type_strong : forall v, Pv v.
  Proof.
    intro v. induction v using pv_ind'; unfold Pv; (split; [|try exact I]);
      try (intros jctx ictx def id Hs; cbn [check_attr_type value_safe] in *;
           destruct (assoc id (sd_attrs def)) as [[p|p len]|]; try discriminate;
           try solve [destruct (struct_of_prim E p); auto with noexn;
                      destruct (check_type_of_value E _ None p); auto with noexn]).
    (* PVStruct under a struct-typed attribute *)
    - destruct (struct_of_prim E p) as [sd'|];
        [|destruct (check_type_of_value E _ None p); auto with noexn].
      clear - H Hs. induction fs as [|[id' v'] r IHr]; [auto with noexn|].
      inversion H; subst. apply andb_true_iff in Hs. destruct Hs as [Hs1 Hs2].
      apply noexn_band; [apply H2; exact Hs1 | apply IHr; assumption].
    - clear - H. eapply Forall_impl; [|exact H]. intros a Ha. apply Ha.
    (* PVArray under an array-typed attribute *)
    - apply noexn_arr_wrap.
      generalize (length vs) as n. intro n.
      induction vs as [|value r IHr].
      + destruct (array_length_correct n len); auto with noexn.
      + inversion H; subst. apply andb_true_iff in Hs. destruct Hs as [Hs1 Hs2].
        apply noexn_andthen.
        * destruct value; auto with noexn.
          destruct (struct_of_prim E p) as [sd'|]; [|auto with noexn].
          apply noexn_band; [apply noexn_check_missing|].
          destruct H2 as [_ H2]. clear - H2 Hs1.
          induction fs as [|[id' v'] r2 IHr2]; [auto with noexn|].
          inversion H2; subst. apply andb_true_iff in Hs1. destruct Hs1 as [Ha Hb].
          apply noexn_band; [|apply IHr2; assumption].
          destruct (has_key id' (sd_attrs sd')); [apply H1; exact Ha | auto with noexn].
        * intros _ _. destruct (check_type_of_value E value (Some p) p); [|auto with noexn].
          apply IHr; assumption.
  Qed.

  Lemma noexn_check_attr_type : forall v jctx ictx def id,
    value_safe E def id v = true -> noexn (check_attr_type E jctx ictx def id v).
  Proof. intro v. exact (proj1 (noexn_check_attr_type_strong v)). Qed.

  Lemma noexn_check_literal : forall ictx jctx s j,
    literal_safe E s j = true -> noexn (check_literal E ictx jctx s j).
  Proof.
    intros ictx jctx s j Hs. unfold literal_safe in Hs. unfold check_literal.
    destruct (parse_json j); try discriminate.
    destruct (find_struct E s) as [sd|]; [|auto with noexn].
    apply noexn_band; [apply noexn_check_missing|].
    apply noexn_forall_from_in. intros i kv Hin.
    rewrite forallb_forall in Hs. specialize (Hs kv Hin).
    destruct (has_key (fst kv) (sd_attrs sd)); [|auto with noexn].
    apply noexn_check_attr_type. exact Hs.
  Qed.

  (* ---- calls ---------------------------------------------------------------------- *)
  Lemma last_cons : forall A (l : list A) a d, last (a :: l) d = last l a.
  Proof.
    intros A l. induction l as [|b r IH]; intros a d; [reflexivity|].
    change (last (a :: b :: r) d) with (last (b :: r) d). rewrite IH. symmetry. apply IH.
  Qed.

  Lemma ipm_walk_cons2 : forall cur e e2 rest2,
    ipm_walk E cur (e :: e2 :: rest2) =
    match attr_of cur e with
    | None => Exn KeyError
    | Some (TArray p _) =>
      match struct_of_prim E p with
      | None => Exn KeyError
      | Some sd => ipm_walk E sd rest2
      end
    | Some (TPlain p) =>
      match struct_of_prim E p with
      | None => Exn KeyError
      | Some sd => ipm_walk E sd (e2 :: rest2)
      end
    end.
  Proof. reflexivity. Qed.

  (* L3 ("At this point it is known that the variable chain is valid, so dont check
     again"): after a successful check_attribute_access on a path of the grammar's shape
     the walk of check_if_input_parameter_matches finds every key *)
  Lemma caa_true_ipm_ok : forall n es sd c errs prev,
    length es <= n ->
    caa_loop E c sd es = Ok (true, errs) ->
    match es with [] => is_index prev = true | e :: _ => is_index e = false end ->
    no_double_index es = true ->
    exists cur, ipm_walk E sd es = Ok cur /\
                (is_index (last es prev) = true \/ exists t, attr_of cur (last es prev) = Some t).
  Proof.
    induction n as [|n IH]; intros es sd c errs prev Hlen Hc Hhead Hnd.
    - destruct es; [|cbn in Hlen; lia]. exists sd. split; [reflexivity|]. left. exact Hhead.
    - destruct es as [|e [|e2 rest2]].
      + exists sd. split; [reflexivity|]. left. exact Hhead.
      + destruct e; try discriminate. cbn in Hc.
        exists sd. split; [reflexivity|]. right. cbn [last attr_of].
        destruct (assoc n0 (sd_attrs sd)); [eauto | discriminate].
      + destruct e; try discriminate.
        rewrite ipm_walk_cons2. cbn [attr_of].
        change (last (PF n0 :: e2 :: rest2) prev) with (last (e2 :: rest2) prev).
        cbn [caa_loop] in Hc.
        destruct (assoc n0 (sd_attrs sd)) as [ty|]; [|discriminate].
        assert (Hnd2 : no_double_index (e2 :: rest2) = true).
        { cbn [no_double_index] in Hnd. apply andb_true_iff in Hnd. apply Hnd. }
        destruct e2.
        * (* field after field *)
          destruct ty as [p|p l]; [|discriminate].
          destruct (struct_of_prim E p) as [sd'|]; [|discriminate].
          apply (IH (PF n1 :: rest2) sd' c errs prev); [cbn in *; lia | exact Hc | reflexivity | exact Hnd2].
        * destruct ty as [p|p l]; [discriminate|].
          destruct (struct_of_prim E p) as [sd'|]; [|discriminate].
          rewrite last_cons.
          apply (IH rest2 sd' c errs (PIdxVar v)); [cbn in *; lia | exact Hc | | ].
          -- destruct rest2 as [|e3 r3]; [reflexivity|].
             cbn [no_double_index] in Hnd2. apply andb_true_iff in Hnd2. destruct Hnd2 as [Hx _].
             cbn in Hx. destruct (is_index e3); [discriminate | reflexivity].
          -- destruct rest2 as [|e3 r3]; [reflexivity|].
             cbn [no_double_index] in Hnd2. apply andb_true_iff in Hnd2. apply Hnd2.
        * destruct ty as [p|p l]; [discriminate|].
          destruct (struct_of_prim E p) as [sd'|]; [|discriminate].
          rewrite last_cons.
          apply (IH rest2 sd' c errs (PIdxLit k)); [cbn in *; lia | exact Hc | | ].
          -- destruct rest2 as [|e3 r3]; [reflexivity|].
             cbn [no_double_index] in Hnd2. apply andb_true_iff in Hnd2. destruct Hnd2 as [Hx _].
             cbn in Hx. destruct (is_index e3); [discriminate | reflexivity].
          -- destruct rest2 as [|e3 r3]; [reflexivity|].
             cbn [no_double_index] in Hnd2. apply andb_true_iff in Hnd2. apply Hnd2.
        * destruct ty as [p|p l]; [discriminate|].
          destruct (struct_of_prim E p) as [sd'|]; [|discriminate].
          rewrite last_cons.
          apply (IH rest2 sd' c errs PIdxNone); [cbn in *; lia | exact Hc | | ].
          -- destruct rest2 as [|e3 r3]; [reflexivity|].
             cbn [no_double_index] in Hnd2. apply andb_true_iff in Hnd2. destruct Hnd2 as [Hx _].
             cbn in Hx. destruct (is_index e3); [discriminate | reflexivity].
          -- destruct rest2 as [|e3 r3]; [reflexivity|].
             cbn [no_double_index] in Hnd2. apply andb_true_iff in Hnd2. apply Hnd2.
  Qed.

  Lemma noexn_check_input_matches : forall T ti pi p defined c errs,
    match p with
    | PPath v es => grammar_path es = true /\ check_attribute_access E T c v es = Ok (true, errs)
    | _ => True
    end ->
    noexn (check_input_matches E T ti pi p defined).
  Proof.
    intros T ti pi p defined c errs Hp. unfold check_input_matches.
    destruct p as [v|v es|s j].
    - destruct (assoc v (td_vars T)); [destruct (vtype_eqb v0 defined)|]; auto with noexn.
    - destruct Hp as [Hg Hc]. unfold check_attribute_access in Hc.
      destruct (assoc v (td_vars T)) as [[p|p l]|]; try discriminate.
      cbn [struct_of_type]. destruct (struct_of_prim E p) as [sd|]; [|discriminate].
      unfold grammar_path in Hg. destruct es as [|e rest]; [discriminate|]. destruct e; try discriminate.
      destruct (caa_true_ipm_ok (length (PF n :: rest)) (PF n :: rest) sd c errs (PF v)
                                (le_n _) Hc eq_refl Hg) as (cur & Hw & Hl).
      rewrite Hw. destruct Hl as [Hl | [t Ht]].
      + rewrite Hl. destruct (given_differs _ defined); auto with noexn.
      + destruct (is_index (last (PF n :: rest) (PF v))).
        * destruct (given_differs _ defined); auto with noexn.
        * rewrite Ht. destruct (given_differs _ defined); auto with noexn.
    - destruct (vtype_eqb _ defined); auto with noexn.
  Qed.

  Lemma noexn_forall2 : forall A B (f : A -> B -> chk) l1 l2,
    (forall x y, In x l1 -> noexn (f x y)) -> noexn (forall2_chk f l1 l2).
  Proof.
    intros A B f l1. induction l1 as [|x r IH]; intros l2 Hf; destruct l2; cbn [forall2_chk]; auto with noexn.
    apply noexn_band.
    - apply Hf. left. reflexivity.
    - apply IH. intros. apply Hf. right. assumption.
  Qed.

  Lemma forall_from_true_in : forall A (f : nat -> A -> chk) xs i es x,
    forall_from f i xs = Ok (true, es) -> In x xs -> exists j e, f j x = Ok (true, e).
  Proof.
    intros A f xs i es x H Hin. apply In_nth_error in Hin. destruct Hin as [j Hj].
    destruct (forall_from_nth _ f xs i true es j x H Hj) as (b & e & Hf & _ & Hb).
    exists (i + j), e. rewrite Hf. rewrite (Hb eq_refl). reflexivity.
  Qed.

  Lemma has_key_assoc : forall V k (d : list (name * V)),
    has_key k d = true -> exists v, assoc k d = Some v.
  Proof. intros V k d H. unfold has_key in H. destruct (assoc k d); [eauto | discriminate]. Qed.

  Definition params_safe (T : tdef) (ins : list param) : Prop :=
    forallb (param_access_safe E T) ins = true /\ forallb (param_literal_safe E) ins = true.

  Lemma noexn_check_call_parameters : forall T ti pi ins outs,
    params_safe T ins -> noexn (check_call_parameters E T ti pi ins outs).
  Proof.
    intros T ti pi ins outs [Ha Hl]. unfold check_call_parameters. apply noexn_band.
    - destruct ins as [|p0 r0]; [auto with noexn|]. unfold check_call_inputs.
      apply noexn_forall_from_in. intros j x Hin.
      rewrite forallb_forall in Ha, Hl. specialize (Ha x Hin). specialize (Hl x Hin).
      unfold check_input_param. destruct x.
      + destruct (has_key v (td_vars T)); auto with noexn.
      + apply noexn_check_attribute_access. exact Ha.
      + apply noexn_check_literal. exact Hl.
    - destruct (call_outs outs) eqn:Ho; [auto with noexn|]. unfold check_call_outputs. rewrite Ho.
      apply noexn_forall_from_in. intros. apply noexn_check_vardef.
  Qed.

  Lemma noexn_check_task_call : forall T ti pi c,
    params_safe T (c_ins c) -> noexn (check_task_call E T ti pi c).
  Proof.
    intros T ti pi c Hs. unfold check_task_call.
    destruct (has_key (c_name c) (e_tasks E)) eqn:Hk; [|auto with noexn].
    apply noexn_andthen; [apply noexn_check_call_parameters; exact Hs|].
    intros e He. unfold check_call_matches, find_tdef.
    destruct (has_key_assoc _ _ _ Hk) as [called Hcalled]. rewrite Hcalled.
    apply noexn_andthen.
    - unfold check_length_match.
      destruct (negb _); [auto with noexn|]. destruct (negb _); auto with noexn.
    - intros _ _. apply noexn_band.
      + apply noexn_forall2. intros p def Hin.
        destruct p as [v|v es|s j].
        * apply (noexn_check_input_matches T ti pi (PVar v) (snd def) CFile []). exact I.
        * (* the path passed check_attribute_access inside check_call_parameters *)
          unfold check_call_parameters in He. apply band_ok in He.
          destruct He as (x & e1 & y & e2 & H1 & _ & Hxy & _).
          symmetry in Hxy. apply andb_true_iff in Hxy. destruct Hxy as [Hx _]. subst x.
          destruct (c_ins c) as [|p0 r0] eqn:Hins; [destruct Hin|].
          unfold check_call_inputs in H1.
          destruct (forall_from_true_in _ _ _ _ _ _ H1 Hin) as (j & e' & Hj).
          cbn [check_input_param] in Hj.
          destruct Hs as [Ha _]. rewrite forallb_forall in Ha. specialize (Ha _ Hin).
          cbn [param_access_safe] in Ha. unfold access_safe in Ha. apply andb_true_iff in Ha.
          apply (noexn_check_input_matches T ti pi (PPath v es) (snd def) (CStmtIn ti pi) e').
          split; [apply Ha | exact Hj].
        * apply (noexn_check_input_matches T ti pi (PLit s j) (snd def) CFile []). exact I.
      + apply noexn_forall2. intros o out_name _. unfold check_output_matches.
        destruct (assoc out_name (td_vars called)); [destruct (vtype_eqb _ _)|]; auto with noexn.
  Qed.

  (* ---- statements, tasks ---------------------------------------------------------- *)
  Lemma forallb_Forall : forall A (f : A -> bool) l, forallb f l = true -> Forall (fun x => f x = true) l.
  Proof. intros A f l H. apply Forall_forall. apply forallb_forall. exact H. Qed.

  Lemma noexn_check_stmt : forall T s pi,
    stmt_all (expr_operands_safe E T) (fun _ => true) s = true ->
    stmt_all (expr_paths_safe E T) (param_access_safe E T) s = true ->
    stmt_all (fun _ => true) (param_literal_safe E) s = true ->
    noexn (check_stmt E T pi s).
  Proof.
    intros T s. induction s using stmt_ind'; intros pi H1 H2 H3; cbn [check_stmt stmt_all] in *.
    - apply noexn_check_call_parameters. split; assumption.
    - apply noexn_check_task_call. split; assumption.
    - apply noexn_forall_from_in. intros j c Hin. apply noexn_check_task_call.
      rewrite forallb_forall in H2, H3. split; [apply H2 | apply H3]; assumption.
    - apply andb_true_iff in H1, H2, H3. destruct H1 as [H1 H1e], H2 as [H2 H2e], H3 as [H3 _].
      apply noexn_band.
      + apply noexn_forall_from. rewrite Forall_forall in H. apply Forall_forall. intros x Hin j.
        rewrite forallb_forall in H1, H2, H3. apply H; auto.
      + apply noexn_check_expression. unfold expr_safe. rewrite H1e, H2e. reflexivity.
    - destruct par.
      + destruct (is_single_call b); auto with noexn.
      + apply noexn_forall_from. rewrite Forall_forall in H. apply Forall_forall. intros x Hin j.
        rewrite forallb_forall in H1, H2, H3. apply H; auto.
    - apply andb_true_iff in H1, H2, H3. destruct H1 as [H1 H1e], H2 as [H2 H2e], H3 as [H3 _].
      apply andb_true_iff in H1, H2, H3. destruct H1 as [H1p H1f], H2 as [H2p H2f], H3 as [H3p H3f].
      apply noexn_band; [|apply noexn_band].
      + apply noexn_forall_from. rewrite Forall_forall in H. apply Forall_forall. intros x Hin j.
        rewrite forallb_forall in H1p, H2p, H3p. apply H; auto.
      + apply noexn_forall_from. rewrite Forall_forall in H0. apply Forall_forall. intros x Hin j.
        rewrite forallb_forall in H1f, H2f, H3f. apply H0; auto.
      + apply noexn_check_expression. unfold expr_safe. rewrite H1e, H2e. reflexivity.
  Qed.

  Lemma noexn_check_task : forall T,
    task_all (expr_operands_safe E) (fun _ _ => true) T = true ->
    task_all (expr_paths_safe E) (param_access_safe E) T = true ->
    task_all (fun _ _ => true) (fun _ => param_literal_safe E) T = true ->
    noexn (check_task E T).
  Proof.
    intros T H1 H2 H3. unfold task_all in *. unfold check_task. apply noexn_band; [|apply noexn_band].
    - unfold check_statements. apply noexn_forall_from_in. intros j s Hin.
      rewrite forallb_forall in H1, H2, H3. apply noexn_check_stmt; auto.
    - unfold check_task_inputs. apply noexn_forall_from_in. intros. apply noexn_check_vardef.
    - unfold check_task_outputs. apply noexn_forall_from_in. intros.
      destruct (has_key x (td_vars T)); auto with noexn.
  Qed.
End NoExn.

Theorem crash_free_verdict : forall p,
  crash_free p = true -> exists es, validate p = Ok es.
Proof.
  intros p Hcf. unfold crash_free in Hcf.
  apply andb_true_iff in Hcf. destruct Hcf as [Hcf H3].
  apply andb_true_iff in Hcf. destruct Hcf as [H1 H2].
  unfold g_operands, g_access, g_literal, prog_all in *.
  set (E := visit_env p) in *.
  assert (Hn : noexn (validate_process E)).
  { unfold validate_process. apply noexn_band; [apply noexn_check_structs|].
    unfold check_tasks.
    assert (Hn : noexn (forall_from (fun (_ : nat) (kv : name * tdef) => check_task E (snd kv)) 0 (e_tasks E))).
    { apply noexn_forall_from_in. intros j kv Hin.
      rewrite forallb_forall in H1, H2, H3. apply noexn_check_task; auto. }
    unfold noexn in *.
    destruct (forall_from _ 0 (e_tasks E)) as [[valid es]| |k1|]; try discriminate; try reflexivity.
    destruct (has_key production_task (e_tasks E)); reflexivity. }
  pose proof (proj1 (CheckProofsC16.good_validate_process E)) as Hf. unfold nofuel in Hf.
  unfold validate. fold E. unfold noexn in Hn.
  destruct (validate_process E) as [[b es]| |k1|]; try discriminate; try congruence.
  eauto.
Qed.

Theorem crash_free_no_exception : forall p,
  crash_free p = true -> forall k, validate p <> Exn k.
Proof.
  intros p Hcf k. destruct (crash_free_verdict p Hcf) as [es Hes]. rewrite Hes. discriminate.
Qed.
