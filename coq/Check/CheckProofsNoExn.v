(* CheckProofsNoExn.v — under the guard [crash_free] (Guards.v) no Python exception escapes
   the validator model: every unguarded lookup of the code is reached only with a key that
   is present.  The guard excludes exactly the crash shapes D11a–D11d (each of which has a
   _refuted witness in Properties/C16.v). *)
From PFDL Require Import Base Syntax.
From PFDL.Check Require Import CheckModel CheckProofsBase Typing Guards.

Definition noexn {A} (r : res A) : Prop := forall k, r <> Exn k.

Lemma noexn_ok : forall A (a : A), noexn (Ok a).
Proof. intros A a k. discriminate. Qed.

Lemma noexn_band : forall a b, noexn a -> noexn b -> noexn (band a b).
Proof.
  intros a b Ha Hb k. unfold band.
  destruct a as [[x e1]| |k1|]; try discriminate; [|exfalso; exact (Ha k1 eq_refl)].
  destruct b as [[y e2]| |k2|]; try discriminate. exfalso; exact (Hb k2 eq_refl).
Qed.

Lemma noexn_andthen : forall a b,
  noexn a -> (forall e, a = Ok (true, e) -> noexn b) -> noexn (andthen a b).
Proof.
  intros a b Ha Hb k. unfold andthen.
  destruct a as [[[|] e1]| |k1|]; try discriminate; [|exfalso; exact (Ha k1 eq_refl)].
  specialize (Hb e1 eq_refl).
  destruct b as [[y e2]| |k2|]; try discriminate. exfalso; exact (Hb k2 eq_refl).
Qed.

Lemma noexn_forall_from : forall A (f : nat -> A -> chk) xs i,
  Forall (fun x => forall j, noexn (f j x)) xs -> noexn (forall_from f i xs).
Proof.
  intros A f xs. induction xs as [|x r IH]; intros i HF.
  - apply noexn_ok.
  - rewrite forall_from_cons. inversion HF; subst. apply noexn_band; auto.
Qed.

Lemma noexn_forall_from_in : forall A (f : nat -> A -> chk) xs i,
  (forall j x, In x xs -> noexn (f j x)) -> noexn (forall_from f i xs).
Proof.
  intros. apply noexn_forall_from. apply Forall_forall. intros; auto.
Qed.

Lemma noexn_fail1 : forall k c, noexn (fail1 k c).
Proof. intros. apply noexn_ok. Qed.

Lemma noexn_ok_true : noexn ok_true.
Proof. apply noexn_ok. Qed.

#[export] Hint Resolve noexn_ok noexn_fail1 noexn_ok_true : noexn.

Section NoExn.
  Variable E : env.

  (* ---- check_if_variable_definition_is_valid, structs ------------------------- *)
  Lemma noexn_check_vardef : forall t c, noexn (check_vardef E t c).
  Proof. intros. unfold check_vardef. destruct (variable_type_exists E _); auto with noexn. Qed.

  Lemma noexn_check_structs : noexn (check_structs E).
  Proof.
    unfold check_structs. apply noexn_forall_from_in. intros j x _.
    unfold check_struct_def. apply noexn_forall_from_in. intros. apply noexn_check_vardef.
  Qed.

  (* ---- attribute access ------------------------------------------------------- *)
  Lemma noexn_caa_loop : forall c es pred,
    access_safe_loop E pred es = true -> noexn (caa_loop E c pred es).
  Proof.
    intros c es. induction es as [|e rest IH]; intros pred Hs; cbn [caa_loop].
    - auto with noexn.
    - cbn [access_safe_loop] in Hs. destruct e; try (apply IH; exact Hs).
      destruct (assoc n (sd_attrs pred)) as [ty|]; [|auto with noexn].
      destruct rest as [|e2 rest2]; [auto with noexn|].
      destruct e2; destruct ty as [p|p l]; try discriminate;
        (destruct (struct_of_prim E p); [apply IH; exact Hs | first [discriminate | auto with noexn]]).
  Qed.

  Lemma noexn_check_attribute_access : forall T c v es,
    access_safe E T v es = true -> noexn (check_attribute_access E T c v es).
  Proof.
    intros T c v es Hs. unfold access_safe in Hs. apply andb_true_iff in Hs. destruct Hs as [_ Hs].
    unfold check_attribute_access.
    destruct (assoc v (td_vars T)) as [[p|p l]|]; try discriminate; auto with noexn.
    destruct (struct_of_prim E p); [apply noexn_caa_loop; exact Hs | auto with noexn].
  Qed.

  (* L1: a successful access check along field names only makes the type lookup succeed *)
  Lemma caa_true_gtvl_ok : forall es sd c e1 errs,
    caa_loop E c sd (e1 :: es) = Ok (true, errs) ->
    forallb (fun e => negb (is_index e)) (e1 :: es) = true ->
    exists t, gtvl_loop E sd e1 es = Ok t.
  Proof.
    induction es as [|e2 rest IH]; intros sd c e1 errs Hc Hf.
    - cbn in Hf. destruct e1; try discriminate. cbn in Hc. cbn [gtvl_loop attr_of].
      destruct (assoc n (sd_attrs sd)) as [ty|]; [eauto | discriminate].
    - cbn [forallb] in Hf. apply andb_true_iff in Hf. destruct Hf as [H1 Hf].
      destruct e1; try discriminate.
      assert (H2 : is_index e2 = false).
      { cbn [forallb] in Hf. apply andb_true_iff in Hf. destruct Hf as [H2 _].
        destruct (is_index e2); [discriminate | reflexivity]. }
      destruct e2; try discriminate.
      cbn [caa_loop] in Hc. cbn [gtvl_loop attr_of].
      destruct (assoc n (sd_attrs sd)) as [ty|]; [|discriminate].
      destruct ty as [p|p l]; [|discriminate].
      cbn [struct_of_type].
      destruct (struct_of_prim E p) as [sd'|]; [|discriminate].
      cbn [rbind]. eapply IH; [exact Hc | exact Hf].
  Qed.

  Lemma noexn_check_single_path : forall T c v es,
    cond_path_safe E T v es = true -> noexn (check_single_path E T c v es).
  Proof.
    intros T c v es Hs. unfold cond_path_safe in Hs. apply andb_true_iff in Hs. destruct Hs as [Ha Hf].
    unfold check_single_path. apply noexn_andthen.
    - apply noexn_check_attribute_access. exact Ha.
    - intros e He.
      assert (Hok : exists t, get_type_of_variable_list E T v es = Ok t).
      { unfold access_safe in Ha. apply andb_true_iff in Ha. destruct Ha as [Hg _].
        unfold check_attribute_access in He. unfold get_type_of_variable_list.
        destruct (assoc v (td_vars T)) as [[p|p l]|]; try discriminate.
        cbn [struct_of_type].
        destruct (struct_of_prim E p) as [sd|]; [|discriminate]. cbn [rbind].
        destruct es as [|e1 rest]; [discriminate|].
        eapply caa_true_gtvl_ok; eauto. }
      destruct Hok as [t Ht]. rewrite Ht.
      destruct t as [[| | |s]|p l]; auto with noexn.
  Qed.

  (* L2: a plain chain makes the type lookup succeed *)
  Lemma plain_chain_gtvl_ok : forall es cur last,
    plain_chain E cur last es = true -> exists t, gtvl_loop E cur last es = Ok t.
  Proof.
    induction es as [|e rest IH]; intros cur last Hp; cbn [plain_chain gtvl_loop] in *.
    - destruct (attr_of cur last); [eauto | discriminate].
    - destruct (attr_of cur last) as [[p|p l]|]; try discriminate.
      cbn [struct_of_type]. destruct (struct_of_prim E p) as [sd|]; [|discriminate].
      cbn [rbind]. apply IH. exact Hp.
  Qed.

  Lemma plain_path_gtvl_ok : forall T v es,
    plain_path E T v es = true -> exists t, get_type_of_variable_list E T v es = Ok t.
  Proof.
    intros T v es Hp. unfold plain_path in Hp. unfold get_type_of_variable_list.
    destruct (assoc v (td_vars T)) as [[p|p l]|]; try discriminate.
    cbn [struct_of_type]. destruct (struct_of_prim E p) as [sd|]; [|discriminate]. cbn [rbind].
    destruct es as [|e rest].
    - unfold has_key in Hp. destruct (assoc v (sd_attrs sd)); [eauto | discriminate].
    - apply plain_chain_gtvl_ok. exact Hp.
  Qed.

  Lemma operand_safe_is_number : forall T e,
    operand_safe E T e = true -> exists b, expression_is_number E T e = Ok b.
  Proof.
    intros T e. induction e; intro Hs; cbn [operand_safe expression_is_number] in *; eauto; try discriminate.
    - destruct (plain_path_gtvl_ok _ _ _ Hs) as [t Ht]. rewrite Ht. cbn [rbind]. eauto.
    - apply andb_true_iff in Hs. destruct Hs as [H1 H2].
      destruct (IHe1 H1) as [b1 Hb1]. destruct (IHe2 H2) as [b2 Hb2].
      rewrite Hb1, Hb2. unfold rand. cbn [rbind]. destruct b1; eauto.
  Qed.

  Lemma operand_safe_is_string : forall T e,
    operand_safe E T e = true -> exists b, expression_is_string E T e = Ok b.
  Proof.
    intros T e Hs. destruct e; cbn [operand_safe expression_is_string] in *; eauto.
    destruct (plain_path_gtvl_ok _ _ _ Hs) as [t Ht]. rewrite Ht. cbn [rbind]. eauto.
  Qed.

  Lemma rand_ok : forall a b x y, a = Ok x -> b = Ok y -> exists z, rand a b = Ok z.
  Proof. intros a b x y -> ->. unfold rand. cbn [rbind]. destruct x; eauto. Qed.

  Lemma noexn_check_expression : forall T c e,
    expr_safe E T e = true -> noexn (check_expression E T c e).
  Proof.
    intros T c e. unfold expr_safe.
    induction e; intro Hs; apply andb_true_iff in Hs; destruct Hs as [Ho Hp];
      cbn [check_expression expr_operands_safe expr_paths_safe] in *; auto with noexn.
    - apply noexn_check_single_path. exact Hp.
    - apply IHe. rewrite Ho, Hp. reflexivity.
    - apply IHe. rewrite Ho, Hp. reflexivity.
    - destruct (is_cmp o) eqn:Hcmp; [|destruct (is_arith o) eqn:Har]; cbn [orb] in *.
      + apply andb_true_iff in Ho. destruct Ho as [Hl Hr].
        destruct (operand_safe_is_number _ _ Hl) as [bl Hbl].
        destruct (operand_safe_is_number _ _ Hr) as [br Hbr].
        destruct (rand_ok Hbl Hbr) as [z Hz]. rewrite Hz. cbn [lift_bool].
        destruct z; [auto with noexn|].
        destruct (operand_safe_is_string _ _ Hl) as [sl Hsl].
        destruct (operand_safe_is_string _ _ Hr) as [sr Hsr].
        destruct (rand_ok Hsl Hsr) as [z2 Hz2]. rewrite Hz2. cbn [lift_bool].
        destruct z2; auto with noexn.
      + apply andb_true_iff in Ho. destruct Ho as [Hl Hr].
        destruct (operand_safe_is_number _ _ Hl) as [bl Hbl].
        destruct (operand_safe_is_number _ _ Hr) as [br Hbr].
        destruct (rand_ok Hbl Hbr) as [z Hz]. rewrite Hz. cbn [lift_bool].
        destruct z; auto with noexn.
      + apply andb_true_iff in Ho. destruct Ho as [Hol Hor].
        apply andb_true_iff in Hp. destruct Hp as [Hpl Hpr].
        apply noexn_andthen.
        * apply IHe1. rewrite Hol, Hpl. reflexivity.
        * intros _ _. apply IHe2. rewrite Hor, Hpr. reflexivity.
  Qed.
End NoExn.
