(* CheckRefuted.v — witnesses by computation: the crash sites (one program per unguarded
   lookup), the accepted catalogued errors, the false rejections, and the examples showing
   that the guards of the _partial theorems are inhabited by a non-trivial program. *)
From PFDL Require Import Base Syntax.
From PFDL.Check Require Import CheckModel CheckProofsC16 Typing Guards Witnesses.

(* ---- a non-trivial program inside every guard ------------------------------------- *)
(* w_good_small: two structs with nested struct and arrays, a called task with inputs and an
   output, a counting loop with an indexed parameter, a Condition with And / ! / + / <, a
   struct literal with nested struct and arrays, a Parallel block and a parallel loop *)
Lemma good_small_in_all_guards :
  wf_dec w_good_small = true /\ crash_free w_good_small = true /\ validate w_good_small = Ok []
  /\ has_recursion w_good_small = false /\ sh_parloop_call w_good_small = false
  /\ has_bad_limit w_good_small = false /\ sh_bad_literal w_good_small = false
  /\ sh_bad_guard w_good_small = false /\ sh_string_eq w_good_small = false.
Proof. vm_compute. repeat split; reflexivity. Qed.

(* ---- C16: each crash site ----------------------------------------------------------- *)
Lemma crash_undeclared_operand : validate w_D11a_undeclared_operand = Exn KeyError.
Proof. vm_compute. reflexivity. Qed.
Lemma crash_unknown_attribute_operand : validate w_unknown_attribute_operand = Exn KeyError.
Proof. vm_compute. reflexivity. Qed.
Lemma crash_not_operand : validate w_D11a_not_operand = Exn KeyError.
Proof. vm_compute. reflexivity. Qed.
Lemma crash_array_element_in_guard : validate w_D11a_array_element_in_guard = Exn TypeError.
Proof. vm_compute. reflexivity. Qed.
Lemma crash_array_element_as_condition : validate w_array_element_as_condition = Exn TypeError.
Proof. vm_compute. reflexivity. Qed.
Lemma crash_index_on_struct_attribute : validate w_D11c_index_on_struct_attribute = Exn AttributeError.
Proof. vm_compute. reflexivity. Qed.
Lemma crash_field_after_array : validate w_field_after_array = Exn TypeError.
Proof. vm_compute. reflexivity. Qed.
Lemma crash_array_variable_path : validate w_array_variable_path = Exn TypeError.
Proof. vm_compute. reflexivity. Qed.
Lemma crash_primitive_array_element : validate w_D11c_primitive_array_element = Exn KeyError.
Proof. vm_compute. reflexivity. Qed.
Lemma crash_nested_literal_key : validate w_D11d_unknown_key_in_nested_literal = Exn KeyError.
Proof. vm_compute. reflexivity. Qed.

Lemma not_always_a_verdict : ~ C16_always_a_verdict.
Proof.
  intro H. destruct (H w_D11a_undeclared_operand) as [es Hes].
  rewrite crash_undeclared_operand in Hes. discriminate.
Qed.

(* the guard excludes each of them *)
Lemma crash_witnesses_outside_guard :
  crash_free w_D11a_undeclared_operand = false /\ crash_free w_unknown_attribute_operand = false
  /\ crash_free w_D11a_not_operand = false /\ crash_free w_D11a_array_element_in_guard = false
  /\ crash_free w_array_element_as_condition = false /\ crash_free w_D11c_index_on_struct_attribute = false
  /\ crash_free w_field_after_array = false /\ crash_free w_array_variable_path = false
  /\ crash_free w_D11c_primitive_array_element = false
  /\ crash_free w_D11d_unknown_key_in_nested_literal = false.
Proof. vm_compute. repeat split; reflexivity. Qed.

(* ---- C10: catalogued errors that are accepted --------------------------------------- *)
Lemma accepted_self_recursion : has_recursion w_D8_self_recursion = true /\ validate w_D8_self_recursion = Ok [].
Proof. vm_compute. split; reflexivity. Qed.
Lemma accepted_mutual_recursion : has_recursion w_mutual_recursion = true /\ validate w_mutual_recursion = Ok [].
Proof. vm_compute. split; reflexivity. Qed.
Lemma accepted_recursion_through_parallel :
  has_recursion w_recursion_through_parallel = true /\ validate w_recursion_through_parallel = Ok [].
Proof. vm_compute. split; reflexivity. Qed.
Lemma accepted_recursion_through_parloop :
  has_recursion w_recursion_through_parloop = true /\ validate w_recursion_through_parloop = Ok [].
Proof. vm_compute. split; reflexivity. Qed.
Lemma accepted_unknown_task_in_parloop :
  sh_parloop_call w_D9_unknown_task_in_parallel_loop = true /\ validate w_D9_unknown_task_in_parallel_loop = Ok [].
Proof. vm_compute. split; reflexivity. Qed.
Lemma accepted_wrong_arity_in_parloop :
  sh_parloop_call w_parloop_wrong_arity = true /\ validate w_parloop_wrong_arity = Ok [].
Proof. vm_compute. split; reflexivity. Qed.
Lemma accepted_undeclared_limit : has_bad_limit w_D10_undeclared_limit = true /\ validate w_D10_undeclared_limit = Ok [].
Proof. vm_compute. split; reflexivity. Qed.
Lemma accepted_unknown_attribute_limit :
  has_bad_limit w_limit_unknown_attribute = true /\ validate w_limit_unknown_attribute = Ok [].
Proof. vm_compute. split; reflexivity. Qed.
Lemma accepted_string_limit : has_bad_limit w_limit_string = true /\ validate w_limit_string = Ok [].
Proof. vm_compute. split; reflexivity. Qed.
Lemma accepted_missing_nested_attribute :
  sh_bad_literal w_D12a_missing_attribute_in_nested_literal = true
  /\ validate w_D12a_missing_attribute_in_nested_literal = Ok [].
Proof. vm_compute. split; reflexivity. Qed.
Lemma accepted_number_in_struct_array :
  sh_bad_literal w_D12a_number_in_struct_array = true /\ validate w_D12a_number_in_struct_array = Ok [].
Proof. vm_compute. split; reflexivity. Qed.
Lemma accepted_string_condition :
  sh_bad_guard w_D12b_string_as_condition = true /\ validate w_D12b_string_as_condition = Ok [].
Proof. vm_compute. split; reflexivity. Qed.
Lemma accepted_number_under_and :
  sh_bad_guard w_D12b_number_under_and = true /\ validate w_D12b_number_under_and = Ok [].
Proof. vm_compute. split; reflexivity. Qed.
Lemma accepted_not_number : sh_bad_guard w_not_number = true /\ validate w_not_number = Ok [].
Proof. vm_compute. split; reflexivity. Qed.
Lemma accepted_bool_in_arithmetic :
  sh_bad_guard w_bool_literal_in_arithmetic = true /\ validate w_bool_literal_in_arithmetic = Ok [].
Proof. vm_compute. split; reflexivity. Qed.
Lemma accepted_number_condition : sh_bad_guard w_number_as_condition = true /\ validate w_number_as_condition = Ok [].
Proof. vm_compute. split; reflexivity. Qed.

(* ---- C11: well-formed programs that are not accepted --------------------------------- *)
Lemma wf_rejected_string_equality :
  wf_dec w_D20_string_equality = true /\ validate w_D20_string_equality = Ok [(KNotBoolean, CStmt 0 [1])].
Proof. vm_compute. split; reflexivity. Qed.
Lemma wf_crash_array_element_in_guard :
  wf_dec w_D11a_array_element_in_guard = true /\ validate w_D11a_array_element_in_guard = Exn TypeError.
Proof. vm_compute. split; reflexivity. Qed.
Lemma wf_crash_primitive_array_element :
  wf_dec w_D11c_primitive_array_element = true /\ validate w_D11c_primitive_array_element = Exn KeyError.
Proof. vm_compute. split; reflexivity. Qed.
Lemma wf_crash_array_element_as_condition :
  wf_dec w_array_element_as_condition = true /\ validate w_array_element_as_condition = Exn TypeError.
Proof. vm_compute. split; reflexivity. Qed.

(* ---- C19: a message without a position ------------------------------------------------ *)
Lemma arraylen_without_line : validate w_D21_array_length_by_name = Ok [(KArrayLen, CNone)].
Proof. vm_compute. reflexivity. Qed.

(* ---- a fault deep inside is reported, with the position of the call ------------------- *)
Lemma unknown_task_reported_at_its_position :
  validate w_unknown_task = Ok [(KUnknownTask, CStmt 0 [1; 0; 0; 1])].
Proof. vm_compute. reflexivity. Qed.

(* ---- the conjunctions stated in Properties/C10.v --------------------------------------- *)
Lemma recursion_accepted_all :
  (has_recursion w_D8_self_recursion = true /\ validate w_D8_self_recursion = Ok [])
  /\ (has_recursion w_mutual_recursion = true /\ validate w_mutual_recursion = Ok [])
  /\ (has_recursion w_recursion_through_parallel = true /\ validate w_recursion_through_parallel = Ok [])
  /\ (has_recursion w_recursion_through_parloop = true /\ validate w_recursion_through_parloop = Ok []).
Proof.
  exact (conj accepted_self_recursion (conj accepted_mutual_recursion
        (conj accepted_recursion_through_parallel accepted_recursion_through_parloop))).
Qed.

Lemma parallel_loop_call_accepted_all :
  (sh_parloop_call w_D9_unknown_task_in_parallel_loop = true /\ validate w_D9_unknown_task_in_parallel_loop = Ok [])
  /\ (sh_parloop_call w_parloop_wrong_arity = true /\ validate w_parloop_wrong_arity = Ok []).
Proof. exact (conj accepted_unknown_task_in_parloop accepted_wrong_arity_in_parloop). Qed.

Lemma loop_limit_accepted_all :
  (has_bad_limit w_D10_undeclared_limit = true /\ validate w_D10_undeclared_limit = Ok [])
  /\ (has_bad_limit w_limit_unknown_attribute = true /\ validate w_limit_unknown_attribute = Ok [])
  /\ (has_bad_limit w_limit_string = true /\ validate w_limit_string = Ok []).
Proof. exact (conj accepted_undeclared_limit (conj accepted_unknown_attribute_limit accepted_string_limit)). Qed.

Lemma literal_accepted_all :
  (sh_bad_literal w_D12a_missing_attribute_in_nested_literal = true
   /\ validate w_D12a_missing_attribute_in_nested_literal = Ok [])
  /\ (sh_bad_literal w_D12a_number_in_struct_array = true /\ validate w_D12a_number_in_struct_array = Ok []).
Proof. exact (conj accepted_missing_nested_attribute accepted_number_in_struct_array). Qed.

Lemma guard_type_accepted_all :
  (sh_bad_guard w_D12b_string_as_condition = true /\ validate w_D12b_string_as_condition = Ok [])
  /\ (sh_bad_guard w_D12b_number_under_and = true /\ validate w_D12b_number_under_and = Ok [])
  /\ (sh_bad_guard w_not_number = true /\ validate w_not_number = Ok [])
  /\ (sh_bad_guard w_bool_literal_in_arithmetic = true /\ validate w_bool_literal_in_arithmetic = Ok [])
  /\ (sh_bad_guard w_number_as_condition = true /\ validate w_number_as_condition = Ok []).
Proof.
  exact (conj accepted_string_condition (conj accepted_number_under_and (conj accepted_not_number
        (conj accepted_bool_in_arithmetic accepted_number_condition)))).
Qed.

Lemma raises_instead_of_reporting_all :
  validate w_D11a_undeclared_operand = Exn KeyError
  /\ validate w_unknown_attribute_operand = Exn KeyError
  /\ validate w_D11c_index_on_struct_attribute = Exn AttributeError
  /\ validate w_D11d_unknown_key_in_nested_literal = Exn KeyError.
Proof.
  exact (conj crash_undeclared_operand (conj crash_unknown_attribute_operand
        (conj crash_index_on_struct_attribute crash_nested_literal_key))).
Qed.

(* ---- C19 ------------------------------------------------------------------------------- *)
From PFDL.Check Require Import CheckProofsC19.
Lemma not_every_message_has_a_position : ~ C19_every_message_has_a_position.
Proof.
  intro H. apply (H w_D21_array_length_by_name _ (KArrayLen, CNone) arraylen_without_line).
  - left. reflexivity.
  - reflexivity.
Qed.

Lemma lenvar_guard_inhabited : sh_lenvar w_good_small = false /\ sh_lenvar w_D21_array_length_by_name = true.
Proof. vm_compute. split; reflexivity. Qed.

(* ---- C09 ------------------------------------------------------------------------------- *)
From PFDL.Check Require Import CheckProofsC09.
Lemma accepted_not_sched_safe :
  (validate w_D8_self_recursion = Ok [] /\ sched_safe w_D8_self_recursion = false)
  /\ (validate w_D9_unknown_task_in_parallel_loop = Ok [] /\ sched_safe w_D9_unknown_task_in_parallel_loop = false)
  /\ (validate w_D10_undeclared_limit = Ok [] /\ sched_safe w_D10_undeclared_limit = false)
  /\ (validate w_D12b_string_as_condition = Ok [] /\ sched_safe w_D12b_string_as_condition = false).
Proof. vm_compute. repeat split; reflexivity. Qed.

Lemma not_accepted_is_sched_safe : ~ C09_accepted_is_sched_safe.
Proof.
  intro H. destruct accepted_not_sched_safe as [[Ha Hs] _]. rewrite (H _ Ha) in Hs. discriminate.
Qed.

Lemma sched_safe_inhabited : validate w_good_small = Ok [] /\ sched_safe w_good_small = true
                             /\ sched_safe_unchecked w_good_small = true.
Proof. vm_compute. repeat split; reflexivity. Qed.

(* ---- C11 ------------------------------------------------------------------------------- *)
From PFDL.Check Require Import TypingProofs CheckProofsC11.
Lemma not_wf_accepted : ~ C11_wf_accepted.
Proof.
  intro H. destruct wf_rejected_string_equality as [Hwf Hv].
  apply wf_dec_correct in Hwf. rewrite (H _ Hwf) in Hv. discriminate.
Qed.

Lemma c11_guard_inhabited :
  wf_dec w_good_small = true /\ c11_guard w_good_small = true /\ crash_free w_good_small = true
  /\ sh_string_eq w_good_small = false.
Proof. vm_compute. repeat split; reflexivity. Qed.

Lemma c11_witnesses_outside_guard :
  c11_guard w_D20_string_equality = false /\ c11_guard w_D20_parenthesised_string_operand = false
  /\ c11_guard w_D11a_array_element_in_guard = false /\ c11_guard w_D11c_primitive_array_element = false
  /\ c11_guard w_array_element_as_condition = false.
Proof. vm_compute. repeat split; reflexivity. Qed.

Lemma wf_rejected_parenthesised_string :
  wf_dec w_D20_parenthesised_string_operand = true
  /\ validate w_D20_parenthesised_string_operand = Ok [(KCmpTypes, CStmt 0 [1])].
Proof. vm_compute. split; reflexivity. Qed.
