(* CheckRefuted.v — witnesses by computation: what is still refuted of the faithful model
   (guard typing D12b, false rejections D24 / D25), the repaired defects now yielding a
   report (D8–D12a, D21), the AST shape the theorems need, and the examples showing that the
   guards of the _partial theorems are inhabited by a non-trivial program. *)
From PFDL Require Import Base Syntax.
From PFDL.Check Require Import CheckModel CheckProofsC16 CheckProofsC10 CheckProofsC19 CheckProofsC09
     CheckProofsC11 Typing TypingProofs Guards Witnesses.

(* ---- a non-trivial program inside every guard ------------------------------------- *)
(* w_good_small: two structs with nested struct and arrays, a called task with inputs and an
   output, a counting loop with an indexed parameter, a Condition with And / ! / + / <, a
   struct literal with nested struct and arrays, a Parallel block and a parallel loop *)
Lemma good_small_in_all_guards :
  wf_dec w_good_small = true /\ from_grammar w_good_small = true /\ validate w_good_small = Ok []
  /\ c11_guard w_good_small = true /\ sh_bad_guard w_good_small = false
  /\ sh_string_eq w_good_small = false /\ sh_array_element w_good_small = false
  /\ sched_safe w_good_small = true /\ guards_typed w_good_small = true.
Proof. vm_compute. repeat split; reflexivity. Qed.

(* ---- the hypothesis on the AST shape is needed: an index directly after the variable (which
   the grammar cannot produce) passes check_attribute_access and raises in the unguarded walk
   of check_if_input_parameter_matches ---- *)
Lemma nongrammar_ast_raises :
  from_grammar w_nongrammar_path = false /\ validate w_nongrammar_path = Exn KeyError.
Proof. vm_compute. split; reflexivity. Qed.

(* ---- repaired: the former crash sites now report (D11a, D11c, D11d) ------------------- *)
Lemma former_crash_sites_report :
  validate w_D11a_undeclared_operand = Ok [(KCmpTypes, CStmt 0 [1])]
  /\ validate w_unknown_attribute_operand = Ok [(KCmpTypes, CStmt 0 [1])]
  /\ validate w_D11a_not_operand = Ok [(KCmpTypes, CStmt 0 [1])]
  /\ validate w_D11c_index_on_struct_attribute = Ok [(KIndexMismatch, CStmtIn 0 [1])]
  /\ validate w_field_after_array = Ok [(KIndexMismatch, CStmtIn 0 [1])]
  /\ validate w_array_variable_path = Ok [(KUnknownVariable, CStmtIn 0 [1])]
  /\ validate w_D11d_unknown_key_in_nested_literal = Ok [(KUnknownAttrInLit, CLitJson 0 [0] 0)].
Proof. vm_compute. repeat split; reflexivity. Qed.

(* ---- repaired: formerly accepted catalogue entries are reported (D8, D9, D10, D12a) ---- *)
Lemma formerly_accepted_now_reported :
  validate w_D8_self_recursion = Ok [(KRecursion, CStmt 1 [1])]
  /\ validate w_mutual_recursion = Ok [(KRecursion, CStmt 1 [1]); (KRecursion, CStmt 2 [0])]
  /\ validate w_recursion_through_parallel = Ok [(KRecursion, CStmt 1 [1; 0])]
  /\ validate w_recursion_through_parloop = Ok [(KRecursion, CStmt 1 [1; 0])]
  /\ validate w_D9_unknown_task_in_parallel_loop = Ok [(KUnknownTask, CStmt 0 [1; 0])]
  /\ validate w_parloop_wrong_arity = Ok [(KInLen, CStmt 0 [1; 0])]
  /\ validate w_D10_undeclared_limit = Ok [(KUnknownVariable, CStmt 0 [1])]
  /\ validate w_limit_unknown_attribute = Ok [(KNoAttribute, CStmt 0 [1])]
  /\ validate w_limit_string = Ok [(KLimitNotNumber, CStmt 0 [1])]
  /\ validate w_D12a_missing_attribute_in_nested_literal = Ok [(KMissingAttr, CLitJson 0 [0] 0)]
  /\ validate w_D12a_number_in_struct_array
     = Ok [(KArrayElem, CLitJson 0 [0] 0); (KWrongTypeArray, CLit 0 [0] 0)]
  /\ validate w_D28_nested_array_element = Ok [(KNestedArray, CLitJson 0 [0] 0)].
Proof. vm_compute. repeat split; reflexivity. Qed.

(* ---- C10 / C09: still accepted — guards are not type checked as a whole (D12b) ----------- *)
Lemma guard_type_accepted_all :
  (sh_bad_guard w_D12b_string_as_condition = true /\ validate w_D12b_string_as_condition = Ok [])
  /\ (sh_bad_guard w_D12b_number_under_and = true /\ validate w_D12b_number_under_and = Ok [])
  /\ (sh_bad_guard w_not_number = true /\ validate w_not_number = Ok [])
  /\ (sh_bad_guard w_bool_literal_in_arithmetic = true /\ validate w_bool_literal_in_arithmetic = Ok [])
  /\ (sh_bad_guard w_number_as_condition = true /\ validate w_number_as_condition = Ok []).
Proof. vm_compute. repeat split; reflexivity. Qed.

Lemma not_accepted_guards_typed : ~ C09_accepted_guards_typed.
Proof.
  intro H. assert (Hv : validate w_D12b_string_as_condition = Ok []) by (vm_compute; reflexivity).
  specialize (H _ Hv). vm_compute in H. discriminate.
Qed.

(* ---- C11: well-formed programs that are rejected (D24, D25) ----------------------------- *)
Lemma wf_rejected_string_equality :
  wf_dec w_D24_string_equality = true /\ validate w_D24_string_equality = Ok [(KNotBoolean, CStmt 0 [1])].
Proof. vm_compute. split; reflexivity. Qed.
Lemma wf_rejected_parenthesised_string :
  wf_dec w_D24_parenthesised_string_operand = true
  /\ validate w_D24_parenthesised_string_operand = Ok [(KCmpTypes, CStmt 0 [1])].
Proof. vm_compute. split; reflexivity. Qed.
Lemma wf_rejected_array_element_in_guard :
  wf_dec w_D25_array_element_in_guard = true
  /\ validate w_D25_array_element_in_guard = Ok [(KCmpTypes, CStmt 0 [1])].
Proof. vm_compute. split; reflexivity. Qed.
Lemma wf_rejected_array_element_as_condition :
  wf_dec w_array_element_as_condition = true
  /\ validate w_array_element_as_condition = Ok [(KNotBoolean, CStmt 0 [1])].
Proof. vm_compute. split; reflexivity. Qed.
Lemma wf_rejected_array_element_as_limit :
  wf_dec w_D25_array_element_as_limit = true
  /\ validate w_D25_array_element_as_limit = Ok [(KLimitNotNumber, CStmt 0 [1])].
Proof. vm_compute. split; reflexivity. Qed.
Lemma wf_rejected_primitive_array_element :
  wf_dec w_D25_primitive_array_element = true
  /\ validate w_D25_primitive_array_element = Ok [(KNotAStruct, CStmtIn 0 [1])].
Proof. vm_compute. split; reflexivity. Qed.

Lemma not_wf_accepted : ~ C11_wf_accepted.
Proof.
  intro H. destruct wf_rejected_string_equality as [Hwf Hv].
  apply wf_dec_correct in Hwf. rewrite (H _ Hwf) in Hv. discriminate.
Qed.

Lemma c11_witnesses_outside_guard :
  c11_guard w_D24_string_equality = false /\ c11_guard w_D24_parenthesised_string_operand = false
  /\ c11_guard w_D25_array_element_in_guard = false /\ c11_guard w_array_element_as_condition = false
  /\ c11_guard w_D25_array_element_as_limit = false /\ c11_guard w_D25_primitive_array_element = false.
Proof. vm_compute. repeat split; reflexivity. Qed.

(* ---- C19: the array-length message now carries the line of the definition (D21) --------- *)
Lemma arraylen_with_position : validate w_D21_array_length_by_name = Ok [(KArrayLen, CStructAttr 2 1)].
Proof. vm_compute. reflexivity. Qed.

(* a fault deep inside is reported with the position of the call *)
Lemma unknown_task_reported_at_its_position :
  validate w_unknown_task = Ok [(KUnknownTask, CStmt 0 [1; 0; 0; 1])].
Proof. vm_compute. reflexivity. Qed.
