(* Properties C20 and C17 on the FAITHFUL model (NetModel.v: scheduler.py's notification step
   notify_user with its live callback list, the recording execution engine, the observers'
   LOG_EVENT entries), for execution engines that do not complete services from inside
   notifications ([quiet_env]; the hostile mutation of delivered lists is arbitrary).
   For such engines the log of every API call is a concatenation of notification groups --
   every function registered for the kind exactly once, in registration order, same entity;
   then one entry per attached observer in attachment order, same entity and identifier; the
   order-finished flag exactly on the finished notification of productionTask -- and oracle
   queries.  Without [quiet_env] the "same entity" part is false
   (NetIds.second_listener_duplicates, NetIds.observer_duplicates); what remains true for EVERY
   engine is the nesting structure [WF] and the counts (section 6).  Only statements proved in
   NetShape.v / NetIds.v. *)
From PFDL Require Import Examples.
From PFDL Require Import RefC01 RefMonitors NetModel NetRun NetC08 NetQuiescent NetIds RefShape NetShape.

(* ---- 1. the quiet engine ---- *)
Theorem C20n_engine_reacts_quiet :
  forall tasks env, quiet_env env ->
  forall f k ai s a,
    nth_error (ns_apis s) ai = Some a ->
    engine_reacts tasks env (S f) k ai s = Ok (tt, qeff env k ai a s).
Proof. exact engine_reacts_quiet. Qed.
Print Assumptions C20n_engine_reacts_quiet.

Theorem C20n_engine_never_fires :
  forall env, quiet_env env ->
  forall sfe k ai s a,
    nth_error (ns_apis s) ai = Some a ->
    er_body env sfe k ai s = Ok (tt, qeff env k ai a s).
Proof. exact er_body_quiet. Qed.
Print Assumptions C20n_engine_never_fires.

(* ---- 2. one notification ---- *)
Theorem C20n_notify_user_shape :
  forall tasks env, quiet_env env ->
  forall f k ai flag s u s',
    notify_user tasks env f k ai flag s = Ok (u, s') ->
    exists a, nth_error (ns_apis s) ai = Some a /\
      ns_log s' = rev (render_fns (ec_mutate env) (notif_of s k a) (ns_running s) (listeners_of k (ns_ls s))
                       ++ render_obs k (a_name a) (ident_nat (a_uuid a)) flag (ns_obs s)) ++ ns_log s /\
      ns_running s' = (if flag then false else ns_running s) /\
      qsame ai s s'.
Proof. exact notify_user_shape. Qed.
Print Assumptions C20n_notify_user_shape.

Theorem C20n_notify_user_is_pure :
  forall tasks env, quiet_env env ->
  forall f k ai flag s u s',
    notify_user tasks env f k ai flag s = Ok (u, s') ->
    (exists a, nth_error (ns_apis s) ai = Some a) /\ s' = nu_pure env k ai flag s.
Proof. exact notify_user_quiet. Qed.
Print Assumptions C20n_notify_user_is_pure.

Theorem C20n_notify_user_total :
  forall tasks env, quiet_env env ->
  forall f k ai flag s a,
    nth_error (ns_apis s) ai = Some a ->
    notify_user tasks env (S (S f)) k ai flag s = Ok (tt, nu_pure env k ai flag s).
Proof. exact notify_user_total. Qed.
Print Assumptions C20n_notify_user_total.

(* the group of the registered functions *)
Theorem C20n_group_functions :
  forall m n r L, flat_map fn_of (render_fns m n r L) = L.
Proof. exact render_fns_functions. Qed.
Print Assumptions C20n_group_functions.

Theorem C20n_group_same_entity :
  forall m n r L,
    Forall (fun e => exists l n', e = ENotif l n' r /\ same_entity n n') (render_fns m n r L).
Proof. exact render_fns_entity. Qed.
Print Assumptions C20n_group_same_entity.

Theorem C20n_group_no_mutation :
  forall n r L, render_fns 0 n r L = map (fun l => ENotif l n r) L.
Proof. exact render_fns_0. Qed.
Print Assumptions C20n_group_no_mutation.

Theorem C20n_group_finished :
  forall m n r L,
    n_kind n = TF \/ n_kind n = SF -> render_fns m n r L = map (fun l => ENotif l n r) L.
Proof. exact render_fns_finished. Qed.
Print Assumptions C20n_group_finished.

Theorem C20n_group_up_to_function_0 :
  forall m n r L1 L2,
    ~ In 0 L1 -> ~ In 0 L2 ->
    render_fns m n r (L1 ++ 0 :: L2) =
    map (fun l => ENotif l n r) L1 ++ ENotif 0 n r :: map (fun l => ENotif l (mutate_notif m n) r) L2.
Proof. exact render_fns_split. Qed.
Print Assumptions C20n_group_up_to_function_0.

Theorem C20n_group :
  forall m ls obs n flag r,
    exists fns os,
      nrender m ls obs (NNot n flag r) = fns ++ os /\
      flat_map fn_of fns = listeners_of (n_kind n) ls /\
      List.length fns = List.length (listeners_of (n_kind n) ls) /\
      Forall (fun e => exists l n', e = ENotif l n' r /\ same_entity n n') fns /\
      os = map (fun o => EObs o (n_kind n) (n_name n) (n_id n) flag) obs.
Proof. exact C20_group. Qed.
Print Assumptions C20n_group.

Theorem C20n_group_params :
  forall m ls obs n flag r,
    NoDup ls ->
    let L := listeners_of (n_kind n) ls in
    (m = 0 \/ n_kind n = TF \/ n_kind n = SF \/ ~ In 0 L ->
     nrender m ls obs (NNot n flag r) = render ls obs (ANot n flag r)) /\
    (In 0 L -> exists L1 L2, L = L1 ++ 0 :: L2 /\ ~ In 0 L1 /\ ~ In 0 L2 /\
                             nrender m ls obs (NNot n flag r) =
                             (map (fun l => ENotif l n r) L1 ++ ENotif 0 n r
                                  :: map (fun l => ENotif l (mutate_notif m n) r) L2)
                             ++ map (fun o => EObs o (n_kind n) (n_name n) (n_id n) flag) obs).
Proof. exact C20_group_params. Qed.
Print Assumptions C20n_group_params.

(* ---- 3. the mutual block, the API, scripts ---- *)
Theorem C20n_frame_rule :
  forall R, qframe R ->
  forall tasks env, quiet_env env ->
    (forall er, quiet_er env er -> nu_ok R (nu_body er)) ->
    forall f,
      fpres R (evaluate tasks env f) /\
      (forall c, fpres R (run_cb tasks env f c)) /\
      (forall a, fpres R (on_task_started tasks env f a)) /\
      (forall a, fpres R (on_service_started tasks env f a)) /\
      (forall a, fpres R (on_service_finished tasks env f a)) /\
      (forall a, fpres R (on_task_finished tasks env f a)) /\
      nu_ok R (notify_user tasks env f) /\
      (forall ev, fpres R (sched_fire_event tasks env f ev)) /\
      (forall ev, fpres R (logic_fire_event tasks env f ev)).
Proof. intros R W tasks env Q H f. exact (qframe_block W tasks env Q H f). Qed.
Print Assumptions C20n_frame_rule.

Theorem C20n_fire_event_shape :
  forall tasks env, quiet_env env ->
  forall f ev s b s',
    sched_fire_event tasks env f ev s = Ok (b, s') ->
    ns_ls s' = ns_ls s /\ ns_obs s' = ns_obs s /\
    exists evs, ns_log s' = rev (flat_map (nrender (ec_mutate env) (ns_ls s) (ns_obs s)) evs) ++ ns_log s
                /\ Forall nflag_ok evs /\ run_trace (ns_running s) evs (ns_running s').
Proof. exact sched_fire_event_shape. Qed.
Print Assumptions C20n_fire_event_shape.

Theorem C20n_evaluate_shape :
  forall tasks env, quiet_env env ->
  forall f s u s',
    evaluate tasks env f s = Ok (u, s') -> NShape (ec_mutate env) s s'.
Proof. exact evaluate_shape. Qed.
Print Assumptions C20n_evaluate_shape.

Theorem C20n_api_call_shape :
  forall tasks env, quiet_env env ->
  forall f s c b s',
    net_api_call tasks env f s c = Ok (b, s') ->
    ncall_shape (ec_mutate env) (ns_ls s) (ns_obs s) (ns_running s) c (net_observe b s')
    /\ ns_ls s' = next_ls (ns_ls s) c /\ ns_obs s' = next_obs (ns_obs s) c.
Proof. exact net_api_shape. Qed.
Print Assumptions C20n_api_call_shape.

Theorem C20n_net_shape_run :
  forall tasks env, quiet_env env ->
  forall f cs s tr,
    net_run_script tasks env f s cs = Ok tr ->
    nshape_run (ec_mutate env) (ns_ls s) (ns_obs s) (ns_running s) cs tr.
Proof. exact net_shape_run. Qed.
Print Assumptions C20n_net_shape_run.

Theorem C20n_run_net_shape :
  forall c tr,
    quiet_env (env_of c) -> run_net c = Ok tr ->
    nshape_run (rc_mutate c) default_listeners [] false (rc_script c) tr.
Proof. exact run_net_shape. Qed.
Print Assumptions C20n_run_net_shape.

Theorem C20n_quiet_case :
  forall c, quiet_case c = true -> quiet_env (env_of c).
Proof. exact quiet_case_env. Qed.
Print Assumptions C20n_quiet_case.

(* no mutation: RefShape's rendering and RefShape's statement *)
Theorem C20n_render_no_mutation :
  forall ls obs evs,
    flat_map (nrender 0 ls obs) evs = flat_map (render ls obs) (map to_aev evs).
Proof. exact nrender_0_log. Qed.
Print Assumptions C20n_render_no_mutation.

Theorem C20n_fire_event_shape_no_mutation :
  forall tasks env f ev s b s',
    quiet_env env -> ec_mutate env = 0 ->
    sched_fire_event tasks env f ev s = Ok (b, s') ->
    ns_ls s' = ns_ls s /\ ns_obs s' = ns_obs s /\
    exists evs : list aev, ns_log s' = rev (flat_map (render (ns_ls s) (ns_obs s)) evs) ++ ns_log s.
Proof. exact sched_fire_event_shape_0. Qed.
Print Assumptions C20n_fire_event_shape_no_mutation.

Theorem C20n_evaluate_shape_no_mutation :
  forall tasks env f s u s',
    quiet_env env -> ec_mutate env = 0 ->
    evaluate tasks env f s = Ok (u, s') ->
    ns_ls s' = ns_ls s /\ ns_obs s' = ns_obs s /\
    exists evs : list aev, ns_log s' = rev (flat_map (render (ns_ls s) (ns_obs s)) evs) ++ ns_log s.
Proof. exact evaluate_shape_0. Qed.
Print Assumptions C20n_evaluate_shape_no_mutation.

Theorem C20n_net_shape_run_ref :
  forall tasks env f cs s tr,
    quiet_env env -> ec_mutate env = 0 ->
    (forall k, In (k, 0) (ns_ls s)) ->
    net_run_script tasks env f s cs = Ok tr ->
    Forall root_named (flat_map cr_log tr) ->
    shape_run (ns_ls s) (ns_obs s) cs tr.
Proof. exact net_shape_run_ref. Qed.
Print Assumptions C20n_net_shape_run_ref.

Theorem C20n_run_net_shape_ref :
  forall c tr,
    quiet_env (env_of c) -> rc_mutate c = 0 -> run_net c = Ok tr ->
    Forall root_named (flat_map cr_log tr) ->
    shape_run default_listeners [] (rc_script c) tr.
Proof. exact run_net_shape_ref. Qed.
Print Assumptions C20n_run_net_shape_ref.

Theorem C20n_run_net_shape_ref_checked :
  forall c tr,
    quiet_case c = true -> rc_mutate c = 0 -> run_net c = Ok tr ->
    forallb root_namedb (flat_map cr_log tr) = true ->
    shape_run default_listeners [] (rc_script c) tr.
Proof. exact run_net_shape_ref_checked. Qed.
Print Assumptions C20n_run_net_shape_ref_checked.

(* ---- 4. C20 and C17 read off the shape ---- *)
Theorem C20n_registered_function_once_per_notification :
  forall m ls obs l k evs,
    NoDup ls -> In (k, l) ls -> seen l k (flat_map (nrender m ls obs) evs) = told k evs.
Proof. exact seen_registered. Qed.
Print Assumptions C20n_registered_function_once_per_notification.

Theorem C20n_unregistered_function_never :
  forall m ls obs l k evs,
    ~ In (k, l) ls -> seen l k (flat_map (nrender m ls obs) evs) = [].
Proof. exact seen_unregistered. Qed.
Print Assumptions C20n_unregistered_function_never.

Theorem C17n_attached_observer_once_per_notification :
  forall m ls obs o evs,
    count_occ Nat.eq_dec obs o = 1 -> obs_of o (flat_map (nrender m ls obs) evs) = announced evs.
Proof. exact obs_of_attached. Qed.
Print Assumptions C17n_attached_observer_once_per_notification.

Theorem C17n_detached_observer_never :
  forall m ls obs o evs,
    ~ In o obs -> obs_of o (flat_map (nrender m ls obs) evs) = [].
Proof. exact obs_of_detached. Qed.
Print Assumptions C17n_detached_observer_never.

Theorem C17n_observer_matches_function :
  forall m ls obs o l k evs,
    NoDup ls -> In (k, l) ls -> count_occ Nat.eq_dec obs o = 1 ->
    map ent_obs (filter (of_kind k) (obs_of o (flat_map (nrender m ls obs) evs))) =
    map ent_fn (seen l k (flat_map (nrender m ls obs) evs)).
Proof. exact observer_matches_function. Qed.
Print Assumptions C17n_observer_matches_function.

Theorem C17n_announced_flag :
  forall evs, Forall nflag_ok evs ->
    Forall (fun x => let '(k, nm, _, f) := x in f = nkind_eqb k TF && Nat.eqb nm production_task) (announced evs).
Proof. exact announced_flag. Qed.
Print Assumptions C17n_announced_flag.

Theorem C20n_C17n_api_call :
  forall tasks env, quiet_env env ->
  forall f s c b s',
    NoDup (ns_ls s) ->
    net_api_call tasks env f s c = Ok (b, s') ->
    let log := cr_log (net_observe b s') in
    exists evs,
      log = flat_map (nrender (ec_mutate env) (ns_ls s) (ns_obs s)) evs /\
      Forall nflag_ok evs /\
      (forall k l, In (k, l) (ns_ls s) -> seen l k log = told k evs) /\
      (forall k l, ~ In (k, l) (ns_ls s) -> seen l k log = []) /\
      (forall o, count_occ Nat.eq_dec (ns_obs s) o = 1 -> obs_of o log = announced evs) /\
      (forall o, ~ In o (ns_obs s) -> obs_of o log = []).
Proof. exact net_call_C20_C17. Qed.
Print Assumptions C20n_C17n_api_call.

Theorem C20n_same_sequence :
  forall tasks env, quiet_env env ->
  forall f cs s tr k l l',
    NoDup (ns_ls s) -> In (k, l) (ns_ls s) -> In (k, l') (ns_ls s) ->
    net_run_script tasks env f s cs = Ok tr ->
    seen l k (flat_map cr_log tr) = seen l' k (flat_map cr_log tr).
Proof. exact net_C20_same_sequence. Qed.
Print Assumptions C20n_same_sequence.

Theorem C20n_run_net_same_sequence :
  forall c tr regs rest k l,
    quiet_env (env_of c) -> rc_script c = regs ++ rest ->
    forallb is_admin regs = true ->
    In (k, l) (fold_left next_ls regs default_listeners) ->
    run_net c = Ok tr ->
    seen l k (flat_map cr_log tr) = seen 0 k (flat_map cr_log tr).
Proof. exact run_net_same_sequence. Qed.
Print Assumptions C20n_run_net_same_sequence.

Theorem C17n_observer_matches_function_history :
  forall tasks env, quiet_env env ->
  forall f cs s tr k l o,
    NoDup (ns_ls s) -> In (k, l) (ns_ls s) -> count_occ Nat.eq_dec (ns_obs s) o = 1 ->
    forallb (fun c => negb (touches o c)) cs = true ->
    net_run_script tasks env f s cs = Ok tr ->
    map ent_obs (filter (of_kind k) (obs_of o (flat_map cr_log tr))) =
    map ent_fn (seen l k (flat_map cr_log tr)).
Proof. exact net_C17_observer_matches_function. Qed.
Print Assumptions C17n_observer_matches_function_history.

Theorem C17n_flag_history :
  forall tasks env, quiet_env env ->
  forall f cs s tr,
    net_run_script tasks env f s cs = Ok tr ->
    Forall (fun e => match e with
                     | EObs _ k nm _ flag => flag = nkind_eqb k TF && Nat.eqb nm production_task
                     | _ => True end) (flat_map cr_log tr).
Proof. exact net_C17_flag. Qed.
Print Assumptions C17n_flag_history.

(* ---- 5. non-vacuity; the contrast without quiet_env ---- *)
Theorem C20n_inhabited :
  exists tr, run_net ex_quiet = Ok tr /\
             nshape_run 1 default_listeners [] false (rc_script ex_quiet) tr /\
             List.length tr = 19 /\ existsb cr_final tr = true /\
             map cr_ret tr = [true; true; true; true; false; true; true; true; true; true; true; true; true; true;
                              true; true; true; true; false] /\
             let log := flat_map cr_log tr in
             List.length (seen 0 SS log) = 11 /\ seen 5 SS log = seen 0 SS log /\
             delivered_to 5 log = map (hostile 1) (delivered_to 0 log) /\
             List.length (seen 0 TF log) = 5 /\ seen 6 TF log = skipn 2 (seen 0 TF log) /\
             List.length (obs_of 7 log) = 16 /\ List.length (obs_of 8 log) = 18 /\
             existsb (fun x => let '(_, _, _, f) := x in f) (obs_of 8 log) = true.
Proof. exact shape_inhabited. Qed.
Print Assumptions C20n_inhabited.

Theorem C20n_inhabited_quiet : quiet_env (env_of ex_quiet).
Proof. exact ex_quiet_env. Qed.
Print Assumptions C20n_inhabited_quiet.

Theorem C20n_monitors_on_examples :
  (exists tr, run_net ex_quiet = Ok tr /\
              holds_C20 (rc_script ex_quiet) tr = false /\ holds_C17 (rc_script ex_quiet) tr = false) /\
  (exists tr, run_net ex_quiet0 = Ok tr /\
              holds_C20 (rc_script ex_quiet0) tr = true /\ holds_C17 (rc_script ex_quiet0) tr = true /\
              shape_run default_listeners [] (rc_script ex_quiet0) tr).
Proof. exact monitors_on_examples. Qed.
Print Assumptions C20n_monitors_on_examples.

(* proved fragments about the executable monitors (engines that do not mutate) *)
Theorem C20n_monitor_partial :
  forall tasks env, quiet_env env -> ec_mutate env = 0 ->
  forall f cs s tr,
    lst_all (ns_ls s) ->
    net_run_script tasks env f s cs = Ok tr ->
    Forall call_nodup tr ->
    c20_run (ns_ls s) cs tr = true.
Proof. exact net_C20_monitor_partial. Qed.
Print Assumptions C20n_monitor_partial.

Theorem C17n_monitor_partial :
  forall tasks env, quiet_env env -> ec_mutate env = 0 ->
  forall f cs s tr,
    lst_all (ns_ls s) ->
    net_run_script tasks env f s cs = Ok tr ->
    Forall call_nodup tr -> Forall root_named (flat_map cr_log tr) ->
    c17_run (ns_obs s) cs tr = true.
Proof. exact net_C17_monitor_partial. Qed.
Print Assumptions C17n_monitor_partial.

Theorem C20n_C17n_run_net_monitors_partial :
  forall c tr,
    quiet_env (env_of c) -> rc_mutate c = 0 -> run_net c = Ok tr ->
    Forall call_nodup tr ->
    holds_C20 (rc_script c) tr = true /\
    (Forall root_named (flat_map cr_log tr) -> holds_C17 (rc_script c) tr = true).
Proof. exact run_net_monitors_partial. Qed.
Print Assumptions C20n_C17n_run_net_monitors_partial.

Theorem C20n_C17n_run_net_monitors_from_C07 :
  forall c tr,
    quiet_env (env_of c) -> rc_mutate c = 0 -> run_net c = Ok tr ->
    holds_C07 (rc_script c) tr = true ->
    holds_C20 (rc_script c) tr = true /\
    (Forall root_named (flat_map cr_log tr) -> holds_C17 (rc_script c) tr = true).
Proof. exact run_net_monitors_from_C07. Qed.
Print Assumptions C20n_C17n_run_net_monitors_from_C07.

(* with re-entrant completions a second registered function is told the NEXT instance's
   identifier (NetIds) ... *)
Theorem C20n_second_listener_duplicates :
  exists tr, run_net second_listener_case = Ok tr /\
             sids_of 0 SS (flat_map cr_log tr) = [0; 1] /\
             sids_of 1 SS (flat_map cr_log tr) = [1; 1].
Proof. exact second_listener_duplicates. Qed.
Print Assumptions C20n_second_listener_duplicates.

Theorem C17n_observer_duplicates :
  exists tr, run_net observer_case = Ok tr /\
             sids SS (flat_map cr_log tr) = [0; 1] /\ obs_ids SS (flat_map cr_log tr) = [1; 1].
Proof. exact observer_duplicates. Qed.
Print Assumptions C17n_observer_duplicates.

Theorem C20n_second_listener_not_quiet : ~ quiet_env (env_of second_listener_case).
Proof. exact second_listener_not_quiet. Qed.
Print Assumptions C20n_second_listener_not_quiet.

(* ... so the statements above are false for arbitrary engines *)
Theorem C20n_false_without_quiet :
  ~ (forall tasks env f cs s tr k l l',
        NoDup (ns_ls s) -> In (k, l) (ns_ls s) -> In (k, l') (ns_ls s) ->
        net_run_script tasks env f s cs = Ok tr ->
        seen l k (flat_map cr_log tr) = seen l' k (flat_map cr_log tr)).
Proof. exact C20_same_sequence_all_engines_false. Qed.
Print Assumptions C20n_false_without_quiet.

Theorem C17n_false_without_quiet :
  ~ (forall tasks env f cs s tr k l o,
        NoDup (ns_ls s) -> In (k, l) (ns_ls s) -> count_occ Nat.eq_dec (ns_obs s) o = 1 ->
        forallb (fun c => negb (touches o c)) cs = true ->
        net_run_script tasks env f s cs = Ok tr ->
        map ent_obs (filter (of_kind k) (obs_of o (flat_map cr_log tr))) =
        map ent_fn (seen l k (flat_map cr_log tr))).
Proof. exact C17_observer_matches_all_engines_false. Qed.
Print Assumptions C17n_false_without_quiet.

(* ---- 6. what remains true for EVERY engine (re-entrant completions included) ---- *)
Theorem C20n_all_engines_frame_rule :
  forall R, qframe R ->
  forall tasks env,
    (forall sfe, (forall e, fpres R (sfe e)) -> forall k a, fpres R (er_body env sfe k a)) ->
    (forall er, (forall k a, fpres R (er k a)) -> nu_ok R (nu_body er)) ->
    forall f,
      fpres R (evaluate tasks env f) /\
      (forall c, fpres R (run_cb tasks env f c)) /\
      (forall a, fpres R (on_task_started tasks env f a)) /\
      (forall a, fpres R (on_service_started tasks env f a)) /\
      (forall a, fpres R (on_service_finished tasks env f a)) /\
      (forall a, fpres R (on_task_finished tasks env f a)) /\
      nu_ok R (notify_user tasks env f) /\
      (forall k a, fpres R (engine_reacts tasks env f k a)) /\
      (forall ev, fpres R (sched_fire_event tasks env f ev)) /\
      (forall ev, fpres R (logic_fire_event tasks env f ev)).
Proof. exact gframe_block. Qed.
Print Assumptions C20n_all_engines_frame_rule.

Theorem C20n_all_engines_fire_event :
  forall tasks env f ev s b s',
    sched_fire_event tasks env f ev s = Ok (b, s') ->
    ns_ls s' = ns_ls s /\ ns_obs s' = ns_obs s /\
    exists seg, ns_log s' = rev seg ++ ns_log s /\ WF (ns_ls s) (ns_obs s) seg.
Proof. exact sched_fire_event_gshape. Qed.
Print Assumptions C20n_all_engines_fire_event.

Theorem C20n_all_engines_api_call :
  forall tasks env f s c b s',
    net_api_call tasks env f s c = Ok (b, s') ->
    WF (ns_ls s) (ns_obs s) (cr_log (net_observe b s'))
    /\ ns_ls s' = next_ls (ns_ls s) c /\ ns_obs s' = next_obs (ns_obs s) c.
Proof. exact net_api_wf. Qed.
Print Assumptions C20n_all_engines_api_call.

Theorem C20n_all_engines_script :
  forall tasks env f cs s tr,
    net_run_script tasks env f s cs = Ok tr -> wf_run (ns_ls s) (ns_obs s) cs tr.
Proof. exact net_wf_run. Qed.
Print Assumptions C20n_all_engines_script.

Theorem C20n_all_engines_run_net :
  forall c tr, run_net c = Ok tr -> wf_run default_listeners [] (rc_script c) tr.
Proof. exact run_net_wf. Qed.
Print Assumptions C20n_all_engines_run_net.

Theorem C20n_C17n_all_engines_counts :
  forall ls obs seg k,
    WF ls obs seg -> NoDup ls ->
    exists g, (forall l, In (k, l) ls -> cnt l k seg = g) /\
              (forall l, ~ In (k, l) ls -> cnt l k seg = 0) /\
              (forall o, ocnt o k seg = count_occ Nat.eq_dec obs o * g).
Proof. exact WF_counts. Qed.
Print Assumptions C20n_C17n_all_engines_counts.

Theorem C20n_all_engines_same_count :
  forall tasks env f cs s tr k l l',
    NoDup (ns_ls s) -> In (k, l) (ns_ls s) -> In (k, l') (ns_ls s) ->
    net_run_script tasks env f s cs = Ok tr ->
    cnt l k (flat_map cr_log tr) = cnt l' k (flat_map cr_log tr).
Proof. exact net_C20_same_count_all_engines. Qed.
Print Assumptions C20n_all_engines_same_count.

Theorem C17n_all_engines_observer_count :
  forall tasks env f cs s tr k l o,
    NoDup (ns_ls s) -> In (k, l) (ns_ls s) -> count_occ Nat.eq_dec (ns_obs s) o = 1 ->
    forallb (fun c => negb (touches o c)) cs = true ->
    net_run_script tasks env f s cs = Ok tr ->
    ocnt o k (flat_map cr_log tr) = cnt l k (flat_map cr_log tr).
Proof. exact net_C17_observer_count_all_engines. Qed.
Print Assumptions C17n_all_engines_observer_count.

Theorem C20n_C17n_counts_on_counterexamples :
  (exists tr, run_net second_listener_case = Ok tr /\
              wf_run default_listeners [] (rc_script second_listener_case) tr /\
              cnt 0 SS (flat_map cr_log tr) = 2 /\ cnt 1 SS (flat_map cr_log tr) = 2 /\
              seen 0 SS (flat_map cr_log tr) <> seen 1 SS (flat_map cr_log tr)) /\
  (exists tr, run_net observer_case = Ok tr /\
              wf_run default_listeners [] (rc_script observer_case) tr /\
              cnt 0 SS (flat_map cr_log tr) = 2 /\ ocnt 7 SS (flat_map cr_log tr) = 2).
Proof. exact counts_on_counterexamples. Qed.
Print Assumptions C20n_C17n_counts_on_counterexamples.
