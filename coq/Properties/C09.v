(* C09 — Validation is sound: accepted programs schedule without internal errors.
   This file contains only the property theorems of the *static half*: what acceptance by the
   validator guarantees about the program text (Check/CheckProofsC09.v).  The run-time half
   (a sched_safe program is unfolded, turned into a net and driven to completion without a
   Python exception, for every completion order and well-typed values) is the interface to
   the RefSem / NetModel development (C01): its hypothesis is [sched_safe p = true].
   The behaviour of accepted programs at run time is exercised by the correspondence slice
   (accepted members of the well-formed family, of every single-fault mutant and of the
   near-valid variants are driven to the end).

   History: recursion (D8), the call inside a parallel loop (D9) and loop limits (D10) were not
   checked; they were repaired in /repo and the former C09_accepted_is_sched_safe_refuted is now
   the theorem C09_accepted_is_sched_safe. *)
From PFDL Require Import Base Syntax.
From PFDL.Check Require Import CheckModel CheckProofsC10 CheckProofsC09 CheckRefuted Typing Guards Witnesses.

(* Acceptance implies, for every program: productionTask exists; every task call — at any
   nesting, in Parallel blocks and in parallel loops — names a defined task with the right
   number of inputs and outputs; parallel loops consist of one task call; variable parameters
   are declared; no task call leads back to the calling task (the unfolding is finite); loop
   limits resolve to a number. *)
Theorem C09_accepted_is_sched_safe : forall p, validate p = Ok [] -> sched_safe p = true.
Proof. exact accepted_sched_safe. Qed.
Print Assumptions C09_accepted_is_sched_safe.

(* the entry point of the unfolding exists *)
Theorem C09_accepted_has_production_task : forall p,
  validate p = Ok [] -> exists t, find_task production_task (p_tasks p) = Some t.
Proof. exact accepted_has_production_task. Qed.
Print Assumptions C09_accepted_has_production_task.

(* What acceptance still does not guarantee (known finding D12b): that guards are boolean
   expressions.  A string literal as condition is accepted and raises TypeError at run time. *)
Theorem C09_accepted_guards_typed_refuted : ~ C09_accepted_guards_typed.
Proof. exact not_accepted_guards_typed. Qed.
Print Assumptions C09_accepted_guards_typed_refuted.

Theorem C09_guard_inhabited :
  wf_dec w_good_small = true /\ from_grammar w_good_small = true /\ validate w_good_small = Ok []
  /\ c11_guard w_good_small = true /\ sh_bad_guard w_good_small = false
  /\ sh_string_eq w_good_small = false /\ sh_array_element w_good_small = false
  /\ sched_safe w_good_small = true /\ guards_typed w_good_small = true.
Proof. exact good_small_in_all_guards. Qed.
Print Assumptions C09_guard_inhabited.
