(* C09 — Validation is sound: accepted programs schedule without internal errors.
   This file contains only the property theorems of the *static half*: what acceptance by the
   validator guarantees about the program text (Check/CheckProofsC09.v).  The run-time half
   (a sched_safe program is unfolded, turned into a net and driven to completion without a
   Python exception, for every completion order and well-typed values) is the interface to
   the RefSem / NetModel development (C01): its hypothesis is [sched_safe p = true].
   The behaviour of accepted programs at run time is exercised by the correspondence slice
   (accepted members of the well-formed family, of every single-fault mutant and of the
   near-valid variants are driven to the end). *)
From PFDL Require Import Base Syntax.
From PFDL.Check Require Import CheckModel CheckProofsC10 CheckProofsC09 CheckRefuted Typing Guards Witnesses.

(* Full statement: acceptance implies everything the scheduler needs (sched_safe).  False of
   the faithful model: recursion (D8), the call inside a parallel loop (D9), loop limits (D10)
   and the type of guards (D12b) are not checked. *)
Theorem C09_accepted_is_sched_safe_refuted : ~ C09_accepted_is_sched_safe.
Proof. exact not_accepted_is_sched_safe. Qed.
Print Assumptions C09_accepted_is_sched_safe_refuted.

Theorem C09_refuted_witnesses :
  (validate w_D8_self_recursion = Ok [] /\ sched_safe w_D8_self_recursion = false)
  /\ (validate w_D9_unknown_task_in_parallel_loop = Ok [] /\ sched_safe w_D9_unknown_task_in_parallel_loop = false)
  /\ (validate w_D10_undeclared_limit = Ok [] /\ sched_safe w_D10_undeclared_limit = false)
  /\ (validate w_D12b_string_as_condition = Ok [] /\ sched_safe w_D12b_string_as_condition = false).
Proof. exact accepted_not_sched_safe. Qed.
Print Assumptions C09_refuted_witnesses.

(* What acceptance does guarantee, for every program: productionTask exists; every task call
   the validator looks at (any nesting of loops and conditions, Parallel blocks) names a
   defined task with the right number of inputs and outputs; parallel loops consist of one
   task call; variable parameters are declared. *)
Theorem C09_accepted_is_sched_safe_checked : forall p, validate p = Ok [] -> sched_safe_checked p = true.
Proof. exact accepted_sched_safe_checked. Qed.
Print Assumptions C09_accepted_is_sched_safe_checked.

(* Under the executable guard "none of the four unchecked shapes occurs" acceptance implies
   sched_safe. *)
Theorem C09_accepted_is_sched_safe_partial : forall p,
  sched_safe_unchecked p = true -> validate p = Ok [] -> sched_safe p = true.
Proof. exact accepted_sched_safe_partial. Qed.
Print Assumptions C09_accepted_is_sched_safe_partial.

(* the entry point of the unfolding exists *)
Theorem C09_accepted_has_production_task : forall p,
  validate p = Ok [] -> exists t, find_task production_task (p_tasks p) = Some t.
Proof. exact accepted_has_production_task. Qed.
Print Assumptions C09_accepted_has_production_task.

Theorem C09_guard_inhabited : validate w_good_small = Ok [] /\ sched_safe w_good_small = true
                              /\ sched_safe_unchecked w_good_small = true.
Proof. exact sched_safe_inhabited. Qed.
Print Assumptions C09_guard_inhabited.
