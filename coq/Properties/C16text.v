(* C16 at the level of the program TEXT — the step below Properties/C16.v.

   Properties/C16.v quantifies over ASTs and needs the hypothesis [from_grammar p] ("attribute
   paths have the shape the grammar gives them and struct literals are JSON objects: the parser
   guarantees it").  Here the hypothesis is discharged by the parser, and the theorems quantify
   over EVERY list of characters [cs] (UTF-8 bytes) and every interning of names [intern]:

     validate_text intern cs  =  CharLexer.lex -> Denter.denter_init -> recursive-descent parser
                                 -> CheckModel.validate                       (TextPipeline.v)

   mirrors utils/parsing_utils.py::parse_string: a token recognition error or a syntax error is
   (at least) one message and no Process, the visitor and the semantic checker do not run;
   otherwise the visitor's and the checker's messages are what [CheckModel.validate] returns.
   This file contains only the property theorems; definitions: TextPipeline.v; proofs:
   TextPipelineFuel.v (the parser never runs out of fuel) and TextPipelineProofs.v.

   What is NOT modelled at this level: ANTLR's error recovery (the model stops at the first
   syntax error and has the single message MSyntax; the implementation goes on and may print
   several), the wording of messages, JSON string escapes (docs/front_component.md 7.5).  The
   correspondence check (harness/kind_c16text.py) compares the verdict, "printed something" and
   "no Process" on generated, mutated and random texts. *)
From PFDL Require Import Base Syntax TextPipeline TextPipelineFuel TextPipelineProofs.
From PFDL.Front Require Import CharLexer FrontEnd.
From PFDL.Check Require Import CheckModel Guards.
From Coq Require Import Ascii List.
Import ListNotations.

(* (1) The parser discharges the hypothesis of C16_always_a_verdict / C16_no_exception: every
   AST the front end builds from a text — any characters, any interning — has the grammar's
   shape.  (By induction along the fuelled rules of Front/Parser.v: parameters are built in one
   place, as PVar, as PPath with a path read by the rule (DOT NAME array?)+, or as PLit with
   the result of the rule json_object.) *)
Theorem C16_parser_output_from_grammar : forall intern cs p,
  front_end_chars intern cs = FOk p -> from_grammar p = true.
Proof. exact parser_output_from_grammar. Qed.
Print Assumptions C16_parser_output_from_grammar.

(* the same for every token list, and for the front end on the line representation of C12 *)
Theorem C16_parse_tokens_from_grammar : forall ts p,
  parse_tokens ts = FOk p -> from_grammar p = true.
Proof. exact parse_tokens_from_grammar. Qed.
Print Assumptions C16_parse_tokens_from_grammar.

Theorem C16_front_end_from_grammar : forall t p,
  front_end t = FOk p -> from_grammar p = true.
Proof. exact front_end_from_grammar. Qed.
Print Assumptions C16_front_end_from_grammar.

(* hence, with C16_always_a_verdict: whatever text the front end accepts, validation of its AST
   returns a list of messages *)
Theorem C16_accepted_text_has_verdict : forall intern cs p,
  front_end_chars intern cs = FOk p -> exists es, validate p = Ok es.
Proof.
  intros intern cs p H. apply CheckProofsNoExn.from_grammar_verdict.
  exact (parser_output_from_grammar intern cs p H).
Qed.
Print Assumptions C16_accepted_text_has_verdict.

(* the statement-level rules of the text pipeline are those of Front/Parser.v: instantiated
   with Parser.top_expr and Parser.json_norm they are convertible with them *)
Theorem C16_text_parser_is_the_C12_parser : forall T nl,
  gparse_program top_expr json_norm T nl = parse_program T nl.
Proof. exact gparse_program_agrees. Qed.
Print Assumptions C16_text_parser_is_the_C12_parser.

(* (2) A verdict for EVERY text: validation of any list of characters returns, with the list of
   messages it printed.  No exception, no fuel exhausted (the parser runs with the fuel
   FrontEnd.fuel_for computes from the number of tokens: 4 + 2 * |tokens|), nothing outside
   the model.  No hypothesis. *)
Theorem C16_text_always_a_verdict : forall intern cs,
  exists ms, validate_text intern cs = Ok ms.
Proof. exact validate_text_verdict. Qed.
Print Assumptions C16_text_always_a_verdict.

Theorem C16_text_no_exception : forall intern cs k, validate_text intern cs <> Exn k.
Proof. exact validate_text_no_exception. Qed.
Print Assumptions C16_text_no_exception.

Theorem C16_text_terminates : forall intern cs,
  validate_text intern cs <> Fuel /\ validate_text intern cs <> Unsupported.
Proof. intros intern cs. split; [apply validate_text_no_fuel | apply validate_text_supported]. Qed.
Print Assumptions C16_text_terminates.

(* the parser alone: for every text it builds an AST or reports a syntax error *)
Theorem C16_text_parses_or_syntax_error : forall intern cs,
  parse_text intern cs = FSyntax \/ exists p, parse_text intern cs = FOk p.
Proof. exact parse_text_cases. Qed.
Print Assumptions C16_text_parses_or_syntax_error.

(* (3) The verdict is "valid" exactly when no message was printed. *)
Theorem C16_text_valid_iff_no_message : forall intern cs,
  text_valid intern cs = true <-> validate_text intern cs = Ok [].
Proof. exact text_valid_iff_no_message. Qed.
Print Assumptions C16_text_valid_iff_no_message.

Theorem C16_text_verdict_iff_no_message : forall intern cs ms,
  validate_text intern cs = Ok ms -> (text_valid intern cs = true <-> ms = []).
Proof. exact text_valid_iff. Qed.
Print Assumptions C16_text_verdict_iff_no_message.

(* a syntax error — a token recognition error included — is a message: the text is invalid
   and there is no Process *)
Theorem C16_text_syntax_error_invalid : forall intern cs,
  parse_text intern cs = FSyntax ->
  validate_text intern cs = Ok [MSyntax] /\ text_valid intern cs = false
  /\ text_has_process intern cs = false.
Proof. exact syntax_error_invalid. Qed.
Print Assumptions C16_text_syntax_error_invalid.

(* a character outside the language (168 of the 256 byte values) that is preceded by no '#' and
   no quote makes every text invalid *)
Theorem C16_text_illegal_character_invalid : forall intern pre c post,
  illegal c = true ->
  forallb (fun x => negb (Ascii.eqb x "#") && negb (Ascii.eqb x ch_quote))%bool pre = true ->
  validate_text intern (pre ++ c :: post) = Ok [MSyntax].
Proof. exact illegal_character_invalid. Qed.
Print Assumptions C16_text_illegal_character_invalid.

(* a text is valid exactly when it parses and the validator accepts its AST; the messages of a
   text that parses are the validator's messages for its AST *)
Theorem C16_text_valid_spec : forall intern cs,
  text_valid intern cs = true <-> exists p, parse_text intern cs = FOk p /\ accepted p = true.
Proof. exact text_valid_spec. Qed.
Print Assumptions C16_text_valid_spec.

Theorem C16_text_messages : forall intern cs p,
  parse_text intern cs = FOk p ->
  exists es, validate p = Ok es /\ validate_text intern cs = Ok (map MCheck es).
Proof. exact text_messages. Qed.
Print Assumptions C16_text_messages.

(* (4) Non-vacuity: concrete texts, as characters. *)
(* a valid program (struct, comment, blank line, struct literal over four lines, call output,
   a While loop with the guard  target.x < 10 And !(target.y == 0)) *)
Theorem C16_text_example_valid :
  validate_text example_names example_valid_text = Ok []
  /\ text_valid example_names example_valid_text = true.
Proof. exact example_valid_text_valid. Qed.
Print Assumptions C16_text_example_valid.

(* a text that parses and has three semantic errors *)
Theorem C16_text_example_semantic_errors :
  validate_text example_names example_semantic_text
  = Ok [MCheck (KMissingAttr, CLit 0 [0] 0); MCheck (KUnknownAttrInLit, CLit 0 [0] 0);
        MCheck (KCmpTypes, CStmt 0 [1])]
  /\ text_valid example_names example_semantic_text = false
  /\ text_has_process example_names example_semantic_text = true.
Proof. exact example_semantic_text_invalid. Qed.
Print Assumptions C16_text_example_semantic_errors.

(* a text with the illegal character '$' *)
Theorem C16_text_example_illegal_character :
  validate_text example_names example_illegal_text = Ok [MSyntax]
  /\ text_valid example_names example_illegal_text = false
  /\ text_has_process example_names example_illegal_text = false.
Proof. exact example_illegal_text_invalid. Qed.
Print Assumptions C16_text_example_illegal_character.

(* eighteen arbitrary bytes (control characters, brackets, "Task", NUL, a lone quote, a
   two-byte UTF-8 character) and a truncation of the valid text *)
Theorem C16_text_example_random_bytes :
  validate_text example_names example_bytes = Ok [MSyntax]
  /\ text_valid example_names example_bytes = false
  /\ validate_text example_names example_truncated = Ok [MSyntax].
Proof.
  destruct example_bytes_invalid as [H1 H2].
  split; [exact H1 | split; [exact H2 | exact example_truncated_invalid]].
Qed.
Print Assumptions C16_text_example_random_bytes.

(* the two places where the text pipeline keeps what Front/Parser.v gives up or drops:
   a lone string literal as guard (Parser: FUnsupported; parse_string and the text pipeline:
   valid), and a list inside a list in a struct literal (Parser.json_norm drops the inner list,
   so the validator sees nothing wrong in that AST; parse_string and the text pipeline: one
   message) *)
Theorem C16_text_example_lone_string_guard :
  front_end_chars example_names example_lone_string = FUnsupported
  /\ validate_text example_names example_lone_string = Ok [].
Proof. exact example_lone_string_valid. Qed.
Print Assumptions C16_text_example_lone_string_guard.

Theorem C16_text_example_nested_array :
  (exists p, front_end_chars example_names example_nested_array = FOk p /\ validate p = Ok [])
  /\ validate_text example_names example_nested_array = Ok [MCheck (KNestedArray, CLitJson 0 [0] 0)].
Proof. exact example_nested_array_reported. Qed.
Print Assumptions C16_text_example_nested_array.

(* Where the implementation leaves the model: the interpreter's recursion limit is not modelled.
   300 times '!' before the guard 'true' — a text of 357 characters.  The model answers valid, as
   the theorems above say it must answer something.  The real parse_string raised RecursionError
   on it (finding D29-deep-nesting-raises: Python's limit of 1000 frames is reached by the
   generated parser / the visitor at about 246 nested prefix operators or parentheses — the exact
   number depends on the depth of the caller's stack —, 325 nested objects, 488 nested lists);
   since the repair 6d2e0d4 it prints "The program is nested too deeply" and answers invalid.
   Texts with more than 100 levels are judged on the implementation alone by the check. *)
Theorem C16_text_example_deep_nesting :
  List.length (example_deep_not 300) = 357
  /\ validate_text example_names (example_deep_not 300) = Ok [].
Proof. exact example_deep_not_valid. Qed.
Print Assumptions C16_text_example_deep_nesting.
