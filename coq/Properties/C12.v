(* C12 — The parsed model is a faithful image of the source text.
   This file contains only the property theorems; proofs are in Front/*Proofs.v and
   Gen/ObligationsFront.v.  Status of the full statement: see docs/front_component.md. *)
From PFDL.Front Require Import Denter DenterProofs.

(* Layout the language treats as insignificant does not change what the parser sees: for
   ALL texts (lists of physical lines) that satisfy the executable well-formedness
   predicate [layout_ok], the token stream produced by the lexer's denter (the lexemes
   with the synthesised INDENT / DEDENT / NL tokens) is the [skeleton] of the text's
   structure [canon] = the significant lines with their nesting depth, where the depth is
   the rank of the line's indentation among the open indentations.  Indentation widths,
   blank and comment-only lines (with any indentation), trailing blanks, trailing
   comments, LF vs CR LF, a missing final newline, trailing blank lines and line breaks
   inside struct literals do not occur in [canon]. *)
Theorem C12_denter_skeleton :
  forall t ds, canon t = Some ds -> denter t = skeleton ds.
Proof. exact denter_skeleton. Qed.
Print Assumptions C12_denter_skeleton.

Theorem C12_denter_layout_independent :
  forall t1 t2, layout_ok t1 = true -> layout_ok t2 = true -> canon t1 = canon t2 ->
                denter t1 = denter t2.
Proof. exact denter_layout_independent. Qed.
Print Assumptions C12_denter_layout_independent.
