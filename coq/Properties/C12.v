(* C12 — The parsed model is a faithful image of the source text.
   This file contains only the property theorems; proofs are in Front/*Proofs.v,
   Front/RoundTrip.v and Gen/ObligationsFront.v.  What is modelled and what is not:
   docs/front_component.md. *)
From PFDL.Front Require Import Lexemes Render Denter DenterProofs ParserProofs RoundTrip LayoutProofs.
From PFDL.Gen Require Import Keywords Precedence ObligationsFront.
From Coq Require Import String List.

(* Round trip, all layouts.  For EVERY text t — a list of physical lines with arbitrary
   indentation widths (also different ones per block), blank and comment-only lines
   anywhere and with any indentation, trailing blanks and comments, LF or CR LF per line,
   with or without a final newline, struct literals broken over several lines — whose
   structure [canon t] (significant lines with nesting depth = rank of their indentation
   among the open ones) is the line forest of the program p, the front end (the lexer's
   denter, the parser for PFDLParser.g4 with the precedence levels of the generated parser,
   the tree visitor's checks) returns exactly p: the same structs, tasks, statements in
   order and nesting, parameters in order, literals, expression trees, types and array
   lengths.  p ranges over all programs satisfying the executable guard [names_ok]
   (non-empty blocks, well-shaped attribute paths, struct literals that are objects with
   distinct keys and no list directly inside a list, expressions in the normal form of the
   generated parser's level table, no duplicate definitions, integer array lengths in
   definitions); [example_names_ok] inhabits the guard. *)
Theorem C12_roundtrip_canon :
  forall t p, names_ok p = true -> canon t = Some (flatten 0 (forest_of p)) -> front_end t = FOk p.
Proof. exact roundtrip_canon. Qed.
Print Assumptions C12_roundtrip_canon.

(* The same for the printer [render]: for every layout L of the family [layout] (any
   indentation step per nesting depth, LF or CR LF, trailing blanks, trailing comments, blank
   and comment-only lines before every line and at the end, with or without final newline)
   and every program p of the guard, parsing the printed program gives p back.
   [example_layout_wf] and [example_names_ok] inhabit the guards. *)
Theorem C12_roundtrip :
  forall L p, layout_wf L = true -> names_ok p = true -> front_end (render L p) = FOk p.
Proof. exact roundtrip_render. Qed.
Print Assumptions C12_roundtrip.

(* every rendered text has the structure of the program *)
Theorem C12_render_structure :
  forall L p, layout_wf L = true -> canon (render L p) = Some (flatten 0 (forest_of p)).
Proof. exact canon_render. Qed.
Print Assumptions C12_render_structure.

(* Layout independence of the token stream the parser sees, for ALL texts satisfying the
   executable predicate [layout_ok] (also those that are not programs). *)
Theorem C12_denter_skeleton :
  forall t ds, canon t = Some ds -> denter t = skeleton ds.
Proof. exact denter_skeleton. Qed.
Print Assumptions C12_denter_skeleton.

Theorem C12_denter_layout_independent :
  forall t1 t2, layout_ok t1 = true -> layout_ok t2 = true -> canon t1 = canon t2 ->
                denter t1 = denter t2.
Proof. exact denter_layout_independent. Qed.
Print Assumptions C12_denter_layout_independent.

(* Expressions, for ANY table of precedence levels: the precedence-climbing parser reads
   back every expression tree that is in the table's normal form. *)
Theorem C12_expr_roundtrip_any_table : forall T nlv e f r,
  expr_ok T nlv e = true -> layout_head r -> length (toks_expr e) < f ->
  parse_expr T nlv (expr_fuel f) 0 (map DTok (toks_expr e) ++ r) = FOk (e, r).
Proof. exact expr_roundtrip_any_table. Qed.
Print Assumptions C12_expr_roundtrip_any_table.

(* Known finding D14 in the model: with the levels of the generated parser '8 / 2 * 2 == 8'
   is read as 8 / (2 * 2) == 8; with the levels the property states as (8 / 2) * 2 == 8. *)
Theorem C12_standard_precedence_refuted :
  front_end d14_text
    = FOk (d14_prog (EBin OEq (EBin ODiv (ENum 8) (EBin OMul (ENum 2) (ENum 2))) (ENum 8)))
  /\ front_end_standard d14_text
    = FOk (d14_prog (EBin OEq (EBin OMul (EBin ODiv (ENum 8) (ENum 2)) (ENum 2)) (ENum 8))).
Proof. exact standard_precedence_refuted. Qed.
Print Assumptions C12_standard_precedence_refuted.

(* The tables of the model are the tables of the current source (regenerated on every run). *)
Theorem C12_precedence_levels_are_source_levels :
  expression_levels_from_source = impl_levels /\ not_level_from_source = impl_not_level
  /\ paren_level_from_source = impl_paren_level /\ binop_tokens_from_source = impl_binop_tokens.
Proof. exact (conj expression_levels_tied (conj not_level_tied (conj paren_level_tied binop_tokens_tied))). Qed.
Print Assumptions C12_precedence_levels_are_source_levels.

Theorem C12_lexer_rules_are_source_rules :
  lexer_rules_from_source = lexer_rules /\ denter_ignore_eof_from_source = denter_ignore_eof.
Proof. exact (conj lexer_rules_tied denter_ignore_eof_tied). Qed.
Print Assumptions C12_lexer_rules_are_source_rules.
