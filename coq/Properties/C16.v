(* C16 — Validation always returns a verdict and the verdict matches the error output.
   This file contains only the property theorems; the model is Check/CheckModel.v (mirror of
   pfdl_tree_visitor.py + semantic_error_checker.py + parse_string), the proofs are in
   Check/CheckProofsC16.v, Check/CheckProofsNoExn.v and Check/CheckRefuted.v.

   The theorems quantify over ASTs (syntactically valid programs).  Arbitrary strings (lexer,
   parser, json.loads) are exercised by the fuzz slice of the check only and are NOT covered
   by a theorem: C16 is partial in that respect.

   History: the unguarded lookups of the validator (ten crash sites, findings D11a, D11c,
   D11d) were repaired in /repo; the former `C16_refuted_<site>` witnesses are now reports
   (C16_former_crash_sites_report) and the guard crash_free is gone. *)
From PFDL Require Import Base Syntax.
From PFDL.Check Require Import CheckModel CheckProofsC16 CheckProofsNoExn CheckProofsC09 CheckRefuted Typing Guards Witnesses.

(* The verdict of parse_string is "valid" exactly when no message was printed. *)
Theorem C16_verdict_iff_no_message : forall p es,
  validate p = Ok es -> (accepted p = true <-> es = []).
Proof. exact verdict_iff_no_message. Qed.
Print Assumptions C16_verdict_iff_no_message.

(* The flag returned by SemanticErrorChecker.validate_process (and by every check_* method
   it is made of) is True exactly when the checker printed nothing — for every Process
   object, whenever it returns at all. *)
Theorem C16_checker_flag_matches_output : forall E b es,
  validate_process E = Ok (b, es) -> (b = true <-> es = []).
Proof. exact validate_process_flag_matches_output. Qed.
Print Assumptions C16_checker_flag_matches_output.

(* Validation terminates: the model is structurally recursive and has no fuel parameter. *)
Theorem C16_terminates : forall p, validate p <> Fuel.
Proof. exact validate_never_out_of_fuel. Qed.
Print Assumptions C16_terminates.

(* A verdict for every program: for every AST of the shape the grammar produces (attribute
   paths start with ".field" and put an index only after a field, struct literals are JSON
   objects — from_grammar, Guards.v) validation returns a list of messages; no exception
   escapes.  The lookups that are still unguarded in check_if_input_parameter_matches are
   reached only after check_attribute_access succeeded, which makes every key present. *)
Theorem C16_always_a_verdict : forall p,
  from_grammar p = true -> exists es, validate p = Ok es.
Proof. exact from_grammar_verdict. Qed.
Print Assumptions C16_always_a_verdict.

Theorem C16_no_exception : forall p,
  from_grammar p = true -> forall k, validate p <> Exn k.
Proof. exact from_grammar_no_exception. Qed.
Print Assumptions C16_no_exception.

(* the hypothesis is about the AST, not about the program text: the parser guarantees it; it
   cannot be dropped (an index directly after the variable, which no text produces) and it is
   inhabited by a non-trivial program *)
Theorem C16_ast_shape_needed :
  from_grammar w_nongrammar_path = false /\ validate w_nongrammar_path = Exn KeyError.
Proof. exact nongrammar_ast_raises. Qed.
Print Assumptions C16_ast_shape_needed.

Theorem C16_guard_inhabited :
  wf_dec w_good_small = true /\ from_grammar w_good_small = true /\ validate w_good_small = Ok []
  /\ c11_guard w_good_small = true /\ sh_bad_guard w_good_small = false
  /\ sh_string_eq w_good_small = false /\ sh_array_element w_good_small = false
  /\ sched_safe w_good_small = true /\ guards_typed w_good_small = true.
Proof. exact good_small_in_all_guards. Qed.
Print Assumptions C16_guard_inhabited.

(* the former crash sites: undeclared / unknown-attribute / '!' operand, index on a struct
   attribute, field after an array, path from an array variable, unknown key in a nested
   literal — each now yields exactly one message at the offending statement *)
Theorem C16_former_crash_sites_report :
  validate w_D11a_undeclared_operand = Ok [(KCmpTypes, CStmt 0 [1])]
  /\ validate w_unknown_attribute_operand = Ok [(KCmpTypes, CStmt 0 [1])]
  /\ validate w_D11a_not_operand = Ok [(KCmpTypes, CStmt 0 [1])]
  /\ validate w_D11c_index_on_struct_attribute = Ok [(KIndexMismatch, CStmtIn 0 [1])]
  /\ validate w_field_after_array = Ok [(KIndexMismatch, CStmtIn 0 [1])]
  /\ validate w_array_variable_path = Ok [(KUnknownVariable, CStmtIn 0 [1])]
  /\ validate w_D11d_unknown_key_in_nested_literal = Ok [(KUnknownAttrInLit, CLitJson 0 [0] 0)].
Proof. exact former_crash_sites_report. Qed.
Print Assumptions C16_former_crash_sites_report.
