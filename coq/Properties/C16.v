(* C16 — Validation always returns a verdict and the verdict matches the error output.
   This file contains only the property theorems; the model is Check/CheckModel.v (mirror
   of pfdl_tree_visitor.py + semantic_error_checker.py + parse_string), the proofs are in
   Check/CheckProofsC16.v, Check/CheckProofsNoExn.v and Check/CheckRefuted.v.

   The theorems quantify over all ASTs (all syntactically valid programs).  Arbitrary
   strings (lexer/parser robustness) are exercised by the fuzz slice of the check only and
   are NOT covered by a theorem: C16 is partial in that respect. *)
From PFDL Require Import Base Syntax.
From PFDL.Check Require Import CheckModel CheckProofsC16 CheckProofsNoExn CheckRefuted Typing Guards Witnesses.

(* The verdict of parse_string is "valid" exactly when no message was printed. *)
Theorem C16_verdict_iff_no_message : forall p es,
  validate p = Ok es -> (accepted p = true <-> es = []).
Proof. exact verdict_iff_no_message. Qed.
Print Assumptions C16_verdict_iff_no_message.

(* The flag returned by SemanticErrorChecker.validate_process (and by every check_* method
   it is made of) is True exactly when the checker printed nothing — for every Process
   object, whenever it returns at all. *)
Theorem C16_checker_flag_matches_output : forall E b es,
  validate_process E = Ok (b, es) -> (b = true <-> es = []).
Proof. exact validate_process_flag_matches_output. Qed.
Print Assumptions C16_checker_flag_matches_output.

(* Validation terminates: the model is structurally recursive and has no fuel parameter. *)
Theorem C16_terminates : forall p, validate p <> Fuel.
Proof. exact validate_never_out_of_fuel. Qed.
Print Assumptions C16_terminates.

(* Full statement: a verdict for every program.  It is false of the faithful model … *)
Theorem C16_always_a_verdict_refuted : ~ C16_always_a_verdict.
Proof. exact not_always_a_verdict. Qed.
Print Assumptions C16_always_a_verdict_refuted.

(* … one witness per unguarded lookup (DESIGN §8 D11; known findings D11a, D11c, D11d): *)
Theorem C16_refuted_undeclared_operand : validate w_D11a_undeclared_operand = Exn KeyError.
Proof. exact crash_undeclared_operand. Qed.
Print Assumptions C16_refuted_undeclared_operand.
Theorem C16_refuted_unknown_attribute_operand : validate w_unknown_attribute_operand = Exn KeyError.
Proof. exact crash_unknown_attribute_operand. Qed.
Print Assumptions C16_refuted_unknown_attribute_operand.
Theorem C16_refuted_not_operand : validate w_D11a_not_operand = Exn KeyError.
Proof. exact crash_not_operand. Qed.
Print Assumptions C16_refuted_not_operand.
Theorem C16_refuted_array_element_in_guard : validate w_D11a_array_element_in_guard = Exn TypeError.
Proof. exact crash_array_element_in_guard. Qed.
Print Assumptions C16_refuted_array_element_in_guard.
Theorem C16_refuted_array_element_as_condition : validate w_array_element_as_condition = Exn TypeError.
Proof. exact crash_array_element_as_condition. Qed.
Print Assumptions C16_refuted_array_element_as_condition.
Theorem C16_refuted_index_on_struct_attribute : validate w_D11c_index_on_struct_attribute = Exn AttributeError.
Proof. exact crash_index_on_struct_attribute. Qed.
Print Assumptions C16_refuted_index_on_struct_attribute.
Theorem C16_refuted_field_after_array : validate w_field_after_array = Exn TypeError.
Proof. exact crash_field_after_array. Qed.
Print Assumptions C16_refuted_field_after_array.
Theorem C16_refuted_array_variable_path : validate w_array_variable_path = Exn TypeError.
Proof. exact crash_array_variable_path. Qed.
Print Assumptions C16_refuted_array_variable_path.
Theorem C16_refuted_primitive_array_element : validate w_D11c_primitive_array_element = Exn KeyError.
Proof. exact crash_primitive_array_element. Qed.
Print Assumptions C16_refuted_primitive_array_element.
Theorem C16_refuted_nested_literal_key : validate w_D11d_unknown_key_in_nested_literal = Exn KeyError.
Proof. exact crash_nested_literal_key. Qed.
Print Assumptions C16_refuted_nested_literal_key.

(* … and true under the executable guard crash_free (Guards.v), which excludes exactly those
   shapes: operands of comparison/arithmetic operators are '!'-free and their paths are chains
   of plain struct attributes; attribute paths put an index only after an array of structs and
   a field only after a struct; nested literal objects only use keys of their definition. *)
Theorem C16_always_a_verdict_partial : forall p,
  crash_free p = true -> exists es, validate p = Ok es.
Proof. exact crash_free_verdict. Qed.
Print Assumptions C16_always_a_verdict_partial.

Theorem C16_no_exception_partial : forall p,
  crash_free p = true -> forall k, validate p <> Exn k.
Proof. exact crash_free_no_exception. Qed.
Print Assumptions C16_no_exception_partial.

(* the guard is inhabited by a non-trivial program (all statement kinds, nested struct
   literal, indexed parameters, And / ! / + / <), and every crash witness lies outside it *)
Theorem C16_guard_inhabited :
  wf_dec w_good_small = true /\ crash_free w_good_small = true /\ validate w_good_small = Ok []
  /\ has_recursion w_good_small = false /\ sh_parloop_call w_good_small = false
  /\ has_bad_limit w_good_small = false /\ sh_bad_literal w_good_small = false
  /\ sh_bad_guard w_good_small = false /\ sh_string_eq w_good_small = false.
Proof. exact good_small_in_all_guards. Qed.
Print Assumptions C16_guard_inhabited.

Theorem C16_guard_excludes_the_witnesses :
  crash_free w_D11a_undeclared_operand = false /\ crash_free w_unknown_attribute_operand = false
  /\ crash_free w_D11a_not_operand = false /\ crash_free w_D11a_array_element_in_guard = false
  /\ crash_free w_array_element_as_condition = false /\ crash_free w_D11c_index_on_struct_attribute = false
  /\ crash_free w_field_after_array = false /\ crash_free w_array_variable_path = false
  /\ crash_free w_D11c_primitive_array_element = false
  /\ crash_free w_D11d_unknown_key_in_nested_literal = false.
Proof. exact crash_witnesses_outside_guard. Qed.
Print Assumptions C16_guard_excludes_the_witnesses.
