(* Property C01 — every order runs to completion exactly when all its services are done.
   This file contains only statements proved elsewhere (RefC01.v) and their assumptions.

   The monitor [holds_C01] (Monitors.v) demands of a trace (one record per API call):
   the production task is reported started at most once and finished exactly once, in the
   very call after which no announced service is outstanding and in no earlier call;
   from the accepted start up to that call the scheduler reports running = true and a
   non-empty set of awaited completions whose size is the number of announced, unfinished
   services; from then on running = false, nothing awaited, the order final; [running]
   sampled inside every notification is true; nothing is notified before the start or
   after the end. *)
From PFDL Require Import RefSem RunCase Monitors RefC01 Examples.

(* for every unfolded program body, every value oracle, every choice of services that are
   completed from inside their own service-started notification, every amount of fuel and
   every script of API calls (start, completion of ANY identifier — awaited, duplicate,
   unknown, premature, late —, junk events, registrations, observer attach/detach) *)
Theorem C01_reference_semantics :
  forall (orc : oracle) (imm : nat -> bool) (body : list xstmt) (fuel : nat)
         (script : list apicall) (tr : list callrec),
    run_script orc imm fuel body sched0 script = Ok tr -> holds_C01 tr = true.
Proof. exact C01_ref. Qed.
Print Assumptions C01_reference_semantics.

(* the same, for source programs (call-tree unfolding included) *)
Theorem C01_programs : forall (c : runcase) (tr : list callrec), run_ref c = Ok tr -> holds_C01 tr = true.
Proof. exact C01_ref_programs. Qed.
Print Assumptions C01_programs.

(* the hypothesis is inhabited by a non-trivial run (all statement kinds, 16 API calls
   including premature, duplicate and junk events) that reaches the final state *)
Theorem C01_nonvacuous :
  exists tr, run_ref ex_case = Ok tr /\ existsb (fun r => cr_final r) tr = true /\ holds_C01 tr = true.
Proof. exact C01_ref_nonvacuous. Qed.
Print Assumptions C01_nonvacuous.
