(* Property C04, context part — a guard (Condition, While loop, loop limit) is evaluated in the
   context of the task instance that contains it, at the moment the Condition / loop is
   reached.  This file contains only statements proved in RefC04.v.

   (1) C04ctx_reference_semantics — for every unfolded program body, value oracle, choice of
       immediately completed services, fuel and script of API calls (start, completion of
       any identifier, junk, registrations, attach / detach): the executable monitor
       [holds_C04q] accepts the trace.  The monitor walks what function 0 was told and the
       oracle queries, in order, over all calls; it keeps the list of open task instances
       (pushed at task-started, popped at the matching task-finished, a finish of an instance
       that is not open is rejected) and demands at every query EQuery v ctx that ctx is open.
   (2) C04ctx_monitor_meaning / C04ctx_open_at_query — what acceptance means declaratively:
       before every query, in the whole history, more task-started than task-finished
       notifications for the instance named as context were delivered, in particular one
       task-started notification with that identifier precedes the query.
   (3) C04ctx_decision_at_that_moment — one evaluation: the decision is [decide] on the
       oracle's answers numbered from the current count of oracle calls; exactly the variable
       occurrences of the expression are logged, in order, with the context handed in; the
       count advances by their number.  C04ctx_decision_is_local: no other answer of the
       oracle matters.  C04ctx_limit_at_that_moment: the same for loop limits.
       C04ctx_call_counter / C04ctx_history_counter: the count of oracle calls equals the
       number of queries logged, per call and over whole histories — the k-th query of the
       history is the k-th oracle call.
   (4) C04ctx_call_query_blocks / C04ctx_history_query_blocks — the queries of every call are
       the concatenation of complete evaluations: each block lists the variable occurrences
       ([expr_vars]) of one guard or the variable of one loop limit of the program
       ([gblocks]), in order, all asked in one and the same context.
   (5) C04ctx_innermost_reference_semantics / C04ctx_innermost_programs — the context is the
       INNERMOST instance, as far as a trace can show it: the executable monitor [holds_C04n]
       demands that the first entry of function 0 or of the oracle after a query in context c,
       in the same call, is another query in context c, a task-started / service-started
       notification of a statement whose enclosing instance is c, or the task-finished
       notification of c itself — never a notification of a statement of another instance
       (C04ctx_innermost_meaning).  Proved for every program whose Parallel branches and
       parallel-loop bodies are task calls ([pwf]; what the grammar allows), hence for every
       source program through the call-tree unfolding (C04ctx_unfold_wellformed).  A guard
       renamed to the open PARENT instance is rejected by this monitor
       (C04ctx_parent_context_rejected).  Without the hypothesis the statement is FALSE in the
       reference semantics (C04ctx_innermost_needs_call_branches: a Condition as a sibling
       branch of a waiting call).
   What remains invisible in a trace (which guard of the block a query belongs to) is fixed by
   the reference semantics itself: start_stmt / loop_test / deliver hand the identifier of
   the enclosing instance to decide_m / read_limit, and XCall runs its body with the fresh
   identifier it announced.  The correspondence check compares the context identifiers of
   all queries with the implementation (projection P_C04). *)
From PFDL Require Import RefSem RunCase Monitors Examples RefC04.

Theorem C04ctx_reference_semantics :
  forall (orc : oracle) (imm : nat -> bool) (body : list xstmt) (fuel : nat)
         (script : list apicall) (tr : list callrec),
    run_script orc imm fuel body sched0 script = Ok tr -> holds_C04q tr = true.
Proof. exact C04_query_context_ref. Qed.
Print Assumptions C04ctx_reference_semantics.

Theorem C04ctx_programs :
  forall (c : runcase) (tr : list callrec), run_ref c = Ok tr -> mon_C04q c tr = true.
Proof. exact C04_query_context_programs. Qed.
Print Assumptions C04ctx_programs.

Theorem C04ctx_monitor_meaning :
  forall tr pre v ctx post,
    holds_C04q tr = true ->
    concat (map cr_log tr) = pre ++ EQuery v ctx :: post ->
    tcount TF ctx pre < tcount TS ctx pre.
Proof. exact holds_C04q_meaning. Qed.
Print Assumptions C04ctx_monitor_meaning.

Theorem C04ctx_open_at_query :
  forall orc imm body fuel script tr pre v ctx post,
    run_script orc imm fuel body sched0 script = Ok tr ->
    concat (map cr_log tr) = pre ++ EQuery v ctx :: post ->
    tcount TF ctx pre < tcount TS ctx pre /\
    exists n r, In (ENotif 0 n r) pre /\ n_kind n = TS /\ n_id n = ctx.
Proof. exact C04_context_open_at_query. Qed.
Print Assumptions C04ctx_open_at_query.

Theorem C04ctx_decision_at_that_moment :
  forall (orc : oracle) e ctx g b g',
    decide_m orc e ctx g = Ok (b, g') ->
    decide expected_ops orc e (g_q g) = Ok (b, g_q g')
    /\ g_q g' = g_q g + List.length (expr_vars e)
    /\ g_log g' = rev (map (fun v => EQuery v ctx) (expr_vars e)) ++ g_log g.
Proof. exact decide_m_spec. Qed.
Print Assumptions C04ctx_decision_at_that_moment.

Theorem C04ctx_decision_is_local :
  forall (orc orc' : oracle) e ctx g,
    (forall i v, nth_error (expr_vars e) i = Some v -> orc' (g_q g + i) v = orc (g_q g + i) v) ->
    decide_m orc' e ctx g = decide_m orc e ctx g.
Proof. exact decide_m_moment. Qed.
Print Assumptions C04ctx_decision_is_local.

Theorem C04ctx_limit_at_that_moment :
  forall (orc : oracle) l ctx g n g',
    read_limit orc l ctx g = Ok (n, g') ->
    match l with
    | LimInt k => n = Z.of_nat k /\ g' = g
    | LimPath v p =>
      exists x q, orc (g_q g) v = Some x /\ resolve x p = Ok (VNum q) /\ Qden q = 1%positive /\ n = Qnum q
                  /\ g_q g' = S (g_q g) /\ g_log g' = EQuery v ctx :: g_log g
    end.
Proof. exact read_limit_spec. Qed.
Print Assumptions C04ctx_limit_at_that_moment.

Theorem C04ctx_call_counter :
  forall orc imm body fuel s c b s',
    api_call orc imm fuel body s c = Ok (b, s') ->
    g_q (sc_g s') = g_q (sc_g s) + List.length (queries_of (cr_log (observe b s'))).
Proof. exact api_call_query_count. Qed.
Print Assumptions C04ctx_call_counter.

Theorem C04ctx_history_counter :
  forall orc imm body fuel script s tr,
    run_script orc imm fuel body s script = Ok tr ->
    exists s', end_sched orc imm body fuel s script = Ok s' /\
               g_q (sc_g s') = g_q (sc_g s) + List.length (all_queries tr).
Proof. exact run_query_count. Qed.
Print Assumptions C04ctx_history_counter.

Theorem C04ctx_call_query_blocks :
  forall orc imm body fuel s c b s',
    api_call orc imm fuel body s c = Ok (b, s') ->
    exists items, queries_of (cr_log (observe b s')) = flat_map item_q items
                  /\ Forall (fun it => In (fst it) (flat_map gblocks body)) items.
Proof. exact api_call_query_blocks. Qed.
Print Assumptions C04ctx_call_query_blocks.

Theorem C04ctx_history_query_blocks :
  forall orc imm body fuel script s tr,
    run_script orc imm fuel body s script = Ok tr ->
    Forall (fun r => exists items, queries_of (cr_log r) = flat_map item_q items
                                   /\ Forall (fun it => In (fst it) (flat_map gblocks body)) items) tr.
Proof. exact run_query_blocks. Qed.
Print Assumptions C04ctx_history_query_blocks.

(* the hypothesis is inhabited by a run through all statement kinds that reaches the end of
   the order and asks the oracle 7 times (loop limits, a Condition, a While loop re-tested in
   later calls) *)
Theorem C04ctx_nonvacuous :
  exists tr, run_ref ex_case = Ok tr /\ existsb (fun r => cr_final r) tr = true
             /\ List.length (all_queries tr) = 7 /\ holds_C04q tr = true.
Proof. exact C04_query_context_nonvacuous. Qed.
Print Assumptions C04ctx_nonvacuous.

(* a guard inside a called task names the called instance (1), the Condition after the call
   names the production task's instance (0) *)
Theorem C04ctx_nested_example :
  exists tr, run_script ex_nested_orc (fun _ => false) 100 ex_nested_body sched0 ex_nested_script = Ok tr
             /\ map (fun r => queries_of (cr_log r)) tr = [[(9, 1)]; [(9, 1)]; [(9, 1); (9, 0)]; []]
             /\ existsb (fun r => cr_final r) tr = true
             /\ holds_C04q tr = true.
Proof. exact ex_nested_runs. Qed.
Print Assumptions C04ctx_nested_example.

(* the monitor is not trivial: a query renamed to a finished instance is rejected *)
Theorem C04ctx_tampered_rejected :
  match run_ref ex_case with
  | Ok tr => holds_C04q tr = true /\ holds_C04q (retag_trace 1 tr) = false
  | _ => False
  end.
Proof. exact tampered_finished_context_rejected. Qed.
Print Assumptions C04ctx_tampered_rejected.

(* ==== the context is the innermost instance ==== *)
Theorem C04ctx_innermost_reference_semantics :
  forall (orc : oracle) (imm : nat -> bool) (body : list xstmt) (fuel : nat)
         (script : list apicall) (tr : list callrec),
    forallb pwf body = true ->
    run_script orc imm fuel body sched0 script = Ok tr -> holds_C04n tr = true.
Proof. exact C04_query_innermost_ref. Qed.
Print Assumptions C04ctx_innermost_reference_semantics.

Theorem C04ctx_unfold_wellformed :
  forall tasks fuel body, unfold_program tasks fuel = Ok body -> forallb pwf body = true.
Proof. exact unfold_program_pwf. Qed.
Print Assumptions C04ctx_unfold_wellformed.

Theorem C04ctx_innermost_programs :
  forall (c : runcase) (tr : list callrec), run_ref c = Ok tr -> holds_C04n tr = true.
Proof. exact C04_query_innermost_programs. Qed.
Print Assumptions C04ctx_innermost_programs.

Theorem C04ctx_innermost_meaning :
  forall tr r pre v c mid e post,
    holds_C04n tr = true -> In r tr ->
    cr_log r = pre ++ EQuery v c :: mid ++ e :: post ->
    forallb (fun e => negb (relevant e)) mid = true ->
    match e with
    | EQuery _ c' => c' = c
    | ENotif 0 n _ => n_ok c n = true
    | _ => True
    end.
Proof. exact holds_C04n_meaning. Qed.
Print Assumptions C04ctx_innermost_meaning.

Theorem C04ctx_innermost_nonvacuous :
  match run_ref ex_case with
  | Ok tr => forallb pwf ex_body = true /\ holds_C04n tr = true
  | _ => False
  end.
Proof. exact ex_case_innermost. Qed.
Print Assumptions C04ctx_innermost_nonvacuous.

Theorem C04ctx_parent_context_rejected :
  match run_script ex_nested_orc (fun _ => false) 100 ex_nested_body sched0 ex_nested_script with
  | Ok tr => forallb pwf ex_nested_body = true /\ holds_C04n tr = true
             /\ holds_C04q (retag_trace 0 tr) = true /\ holds_C04n (retag_trace 0 tr) = false
  | _ => False
  end.
Proof. exact nested_parent_context_rejected. Qed.
Print Assumptions C04ctx_parent_context_rejected.

Theorem C04ctx_innermost_needs_call_branches :
  match run_script ex_nested_orc (fun _ => false) 100 ex_mixed_parallel_body sched0 [AStart] with
  | Ok tr => forallb pwf ex_mixed_parallel_body = false /\ holds_C04q tr = true /\ holds_C04n tr = false
  | _ => False
  end.
Proof. exact innermost_needs_call_branches. Qed.
Print Assumptions C04ctx_innermost_needs_call_branches.

(* both monitors on every source program (for the harness: mon_C04ctx) *)
Theorem C04ctx_monitors_programs :
  forall (c : runcase) (tr : list callrec), run_ref c = Ok tr -> mon_C04ctx c tr = true.
Proof. exact C04_context_monitors_programs. Qed.
Print Assumptions C04ctx_monitors_programs.
