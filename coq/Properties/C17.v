(* Property C17 — observers get a log mirroring the notifications; order-finished flagged
   once.  Statements proved in RefShape.v and RefC01.v (reference semantics), nothing else.

   [shape_run] (see Properties/C20.v) gives: after the registered functions of a
   notification, every attached observer, in attachment order, gets one entry naming the same
   entity kind, name and identifier; [flag_ok] gives: the order-finished flag is set exactly on
   the production task's finished notification; attach appends, detach removes the first
   occurrence, both log nothing.  With the C01 theorem (the production task is reported
   finished exactly once and nothing is notified afterwards) exactly one entry per observer
   carries the flag and it is the last one.
   Not modelled: the PETRI_NET notices (checked on the implementation by the harness), and
   the relative order of observer entries under re-entrant completions (the property's
   quantifier excludes them; the net model exhibits the difference). *)
From PFDL Require Import RefSem RunCase Monitors RefShape RefC01.

Theorem C17_log_shape :
  forall orc imm body fuel cs tr,
    run_script orc imm fuel body sched0 cs = Ok tr ->
    shape_run default_listeners [] cs tr.
Proof. intros orc imm body fuel cs tr H. exact (shape_run_ref orc imm body fuel cs sched0 tr H). Qed.
Print Assumptions C17_log_shape.

Theorem C17_production_task_finished_once_and_last :
  forall orc imm body fuel cs tr,
    run_script orc imm fuel body sched0 cs = Ok tr -> holds_C01 tr = true.
Proof. exact C01_ref. Qed.
Print Assumptions C17_production_task_finished_once_and_last.
