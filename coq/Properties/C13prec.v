(* Property C13, precedence clause — "multiplication and division bind tighter than addition and
   subtraction, these tighter than comparisons, And tighter than Or, operators of equal rank
   associate to the left".  This file contains only statements proved in Front/PrecedenceProofs.v.

   The generated parser's level table (Gen/Precedence.v, regenerated from PFDLParser.py: '*' 9,
   '/' 8, '-' 7, '+' 6) splits the two arithmetic ranks.  Consequences, all proved:
   - ranks that the property orders strictly are ordered correctly (C13_generated_keeps_rank_order);
     every single operator associates to the left under both tables (C13_left_assoc_both_tables);
     for two operators a o1 b o2 c the tables agree except for '/' then '*' and '+' then '-'
     (C13_two_ops_*, C13_grouping_agrees_except, C13_equal_rank_generated);
   - for EVERY expression e in the normal form of the stated table the generated parser reads the
     text of e as [regen e] ((x/y)*z regrouped to x/(y*z), (x+y)-z to x+(y-z)), the stated
     parser reads it as e (C13_gen_reads_regen); whole programs: C13_front_end_reads;
   - C13_partial / C13_front_end_partial: without the two adjacencies ([no_div_then_mul],
     [no_add_then_sub]) both parsers return the same tree; the guards are exact
     (C13_guard_exact, C13_front_end_guard_exact, C13_regrouping_identity_iff_guards);
   - C13_value_partial / C13_front_end_value_partial: without x/y*z the trees may differ
     (x+y-z) but value, truth value and the scheduler's decision are equal;
   - FALSE as stated (finding D14): C13_precedence_tree_statement_refuted,
     C13_precedence_value_statement_refuted; minimal counterexample 8 / 2 * 2 (value 2 instead
     of 8): C13_standard_precedence_refuted; in general x/y*z differs in value whenever
     x, y, z <> 0 and z*z <> 1 (C13_div_mul_values_differ, C13_div_then_mul_refuted; the side
     conditions are necessary: C13_div_mul_agree_at_zero, C13_div_mul_agree_at_one);
   - the guards are inhabited by expressions mixing all operators (C13_guarded_example_*,
     C13_example_program_guarded, C13_precedence_program_ok).
   Not proved: parser soundness for arbitrary token strings (the theorems range over the texts of
   expressions in the stated table's normal form, the domain of the C12 round trip). *)
From PFDL Require Import Expr ExprProofs.
From PFDL.Front Require Import Lexemes Render Denter DenterProofs ParserProofs RoundTrip LayoutProofs PrecedenceProofs.
From PFDL.Gen Require Import Precedence ObligationsFront.

Theorem C13_tables_named :
  generated_levels = expression_levels_from_source /\ generated_levels = impl_levels
  /\ generated_not_level = impl_not_level /\ stated_levels = standard_levels
  /\ (forall o, level_of standard_levels o = Some (lvS o, S (lvS o)))
  /\ (forall o, level_of impl_levels o = Some (lvG o, S (lvG o))).
Proof. exact (conj eq_refl (conj (proj1 generated_levels_are_impl) (conj (proj2 generated_levels_are_impl) (conj eq_refl (conj level_std level_gen))))). Qed.
Print Assumptions C13_tables_named.

Theorem C13_standard_table_is_the_stated_order :
  lvS OMul = lvS ODiv /\ lvS OAdd = lvS OSub /\ lvS OAdd < lvS OMul /\ lvS OLt < lvS OAdd
  /\ lvS OLt = lvS OLe /\ lvS OLt = lvS OGt /\ lvS OLt = lvS OGe /\ lvS OLt = lvS OEq /\ lvS OLt = lvS ONe
  /\ impl_not_level <= lvS OLt /\ lvS OAnd < impl_not_level /\ lvS OOr < lvS OAnd
  /\ forall o, rhsS o = S (lvS o).
Proof. exact standard_table_is_the_stated_order. Qed.
Print Assumptions C13_standard_table_is_the_stated_order.

Theorem C13_generated_table_splits_levels :
  lvG ODiv < lvG OMul /\ lvG OAdd < lvG OSub /\ lvG OSub < lvG ODiv /\ lvG OLt < lvG OAdd
  /\ (forall o, lvG o <= lvS o <= S (lvG o))
  /\ (forall o, lvG o <> lvS o <-> o = ODiv \/ o = OAdd).
Proof. exact generated_table_splits_levels. Qed.
Print Assumptions C13_generated_table_splits_levels.

Theorem C13_generated_keeps_rank_order : forall o1 o2, lvS o1 < lvS o2 -> lvG o1 < lvG o2.
Proof. exact generated_keeps_rank_order. Qed.
Print Assumptions C13_generated_keeps_rank_order.

Theorem C13_regrouping_keeps_text : forall e, toks_expr (regen e) = toks_expr e.
Proof. exact toks_regen. Qed.
Print Assumptions C13_regrouping_keeps_text.

Theorem C13_regrouping_identity_iff_guards :
  forall e, regen e = e <-> no_div_then_mul e && no_add_then_sub e = true.
Proof. exact regen_id_iff. Qed.
Print Assumptions C13_regrouping_identity_iff_guards.

Theorem C13_regrouped_tree_is_generated_normal : forall e p p',
  normal standard_levels impl_not_level p e = true -> below p p' ->
  normal impl_levels impl_not_level p' (regen e) = true.
Proof. exact normal_regen. Qed.
Print Assumptions C13_regrouped_tree_is_generated_normal.

Theorem C13_gen_reads_regen : forall e f r,
  expr_ok standard_levels impl_not_level e = true -> layout_head r -> length (toks_expr e) < f ->
  parse_expr impl_levels impl_not_level (expr_fuel f) 0 (map DTok (toks_expr e) ++ r) = FOk (regen e, r)
  /\ parse_expr standard_levels impl_not_level (expr_fuel f) 0 (map DTok (toks_expr e) ++ r) = FOk (e, r).
Proof. exact gen_reads_regen. Qed.
Print Assumptions C13_gen_reads_regen.

Theorem C13_partial : forall e f r,
  expr_ok standard_levels impl_not_level e = true ->
  no_div_then_mul e = true -> no_add_then_sub e = true ->
  layout_head r -> length (toks_expr e) < f ->
  parse_expr impl_levels impl_not_level (expr_fuel f) 0 (map DTok (toks_expr e) ++ r) = FOk (e, r)
  /\ parse_expr standard_levels impl_not_level (expr_fuel f) 0 (map DTok (toks_expr e) ++ r) = FOk (e, r).
Proof. exact PrecedenceProofs.C13_partial. Qed.
Print Assumptions C13_partial.

Theorem C13_guard_exact : forall e f r,
  expr_ok standard_levels impl_not_level e = true -> layout_head r -> length (toks_expr e) < f ->
  (parse_expr impl_levels impl_not_level (expr_fuel f) 0 (map DTok (toks_expr e) ++ r)
   = parse_expr standard_levels impl_not_level (expr_fuel f) 0 (map DTok (toks_expr e) ++ r)
   <-> no_div_then_mul e && no_add_then_sub e = true).
Proof. exact PrecedenceProofs.C13_guard_exact. Qed.
Print Assumptions C13_guard_exact.

Theorem C13_normal_gen_iff_guard : forall e p p',
  normal standard_levels impl_not_level p e = true -> below p p' ->
  (normal impl_levels impl_not_level p' e = true <-> no_div_then_mul e && no_add_then_sub e = true).
Proof. exact normal_gen_iff_guard. Qed.
Print Assumptions C13_normal_gen_iff_guard.

Theorem C13_unmixed_agree : forall e f r,
  expr_ok standard_levels impl_not_level e = true ->
  no_op OMul e = true \/ no_op ODiv e = true ->
  no_op OAdd e = true \/ no_op OSub e = true ->
  layout_head r -> length (toks_expr e) < f ->
  parse_expr impl_levels impl_not_level (expr_fuel f) 0 (map DTok (toks_expr e) ++ r) = FOk (e, r)
  /\ parse_expr standard_levels impl_not_level (expr_fuel f) 0 (map DTok (toks_expr e) ++ r) = FOk (e, r).
Proof. exact PrecedenceProofs.C13_unmixed_agree. Qed.
Print Assumptions C13_unmixed_agree.

Theorem C13_ref_num_respects_Qeq : forall rho o l l' r r',
  oQeq (ref_num rho l) (ref_num rho l') -> oQeq (ref_num rho r) (ref_num rho r') ->
  oQeq (ref_num rho (EBin o l r)) (ref_num rho (EBin o l' r')).
Proof. exact ref_num_congr. Qed.
Print Assumptions C13_ref_num_respects_Qeq.

Theorem C13_ref_bool_respects_Qeq : forall rho o l l' r r',
  oQeq (ref_num rho l) (ref_num rho l') -> oQeq (ref_num rho r) (ref_num rho r') ->
  ref_bool rho l = ref_bool rho l' -> ref_bool rho r = ref_bool rho r' ->
  ref_bool rho (EBin o l r) = ref_bool rho (EBin o l' r').
Proof. exact ref_bool_congr. Qed.
Print Assumptions C13_ref_bool_respects_Qeq.

Theorem C13_regen_value : forall rho e, no_div_then_mul e = true ->
  oQeq (ref_num rho (regen e)) (ref_num rho e) /\ ref_bool rho (regen e) = ref_bool rho e.
Proof. exact regen_value. Qed.
Print Assumptions C13_regen_value.

Theorem C13_value_partial : forall e f r,
  expr_ok standard_levels impl_not_level e = true -> no_div_then_mul e = true ->
  layout_head r -> length (toks_expr e) < f ->
  exists e',
    parse_expr impl_levels impl_not_level (expr_fuel f) 0 (map DTok (toks_expr e) ++ r) = FOk (e', r)
    /\ parse_expr standard_levels impl_not_level (expr_fuel f) 0 (map DTok (toks_expr e) ++ r) = FOk (e, r)
    /\ forall rho,
         oQeq (ref_num rho e') (ref_num rho e) /\ ref_bool rho e' = ref_bool rho e
         /\ forall b k, ref_bool rho e = Some b ->
              exists k', decide expected_ops (fun _ v => rho v) e' k = Ok (b, k').
Proof. exact PrecedenceProofs.C13_value_partial. Qed.
Print Assumptions C13_value_partial.

Theorem C13_div_mul_differ_Q : forall a b c : Q,
  ~ (a == 0)%Q -> ~ (b == 0)%Q -> ~ (c == 0)%Q -> ~ (c * c == 1)%Q -> ~ (a / (b * c) == a / b * c)%Q.
Proof. exact div_mul_differ_Q. Qed.
Print Assumptions C13_div_mul_differ_Q.

Theorem C13_div_mul_agree_at_zero : forall b c : Q, (0 / (b * c) == 0 / b * c)%Q.
Proof. exact div_mul_agree_at_zero. Qed.
Print Assumptions C13_div_mul_agree_at_zero.

Theorem C13_div_mul_agree_at_one : forall a b c : Q,
  ~ (b == 0)%Q -> (c * c == 1)%Q -> (a / (b * c) == a / b * c)%Q.
Proof. exact div_mul_agree_at_one. Qed.
Print Assumptions C13_div_mul_agree_at_one.

Theorem C13_div_mul_values_differ : forall rho x y z a b c,
  ref_num rho x = Some a -> ref_num rho y = Some b -> ref_num rho z = Some c ->
  ~ (a == 0)%Q -> ~ (b == 0)%Q -> ~ (c == 0)%Q -> ~ (c * c == 1)%Q ->
  exists u v,
    ref_num rho (EBin ODiv x (EBin OMul y z)) = Some u
    /\ ref_num rho (EBin OMul (EBin ODiv x y) z) = Some v
    /\ ~ (u == v)%Q
    /\ ref_bool rho (EBin OEq (EBin OMul (EBin ODiv x y) z) (ENum v)) = Some true
    /\ ref_bool rho (EBin OEq (EBin ODiv x (EBin OMul y z)) (ENum v)) = Some false.
Proof. exact div_mul_values_differ. Qed.
Print Assumptions C13_div_mul_values_differ.

Theorem C13_div_then_mul_refuted : forall x y z f r rho a b c,
  expr_ok standard_levels impl_not_level (EBin OMul (EBin ODiv x y) z) = true ->
  no_div_then_mul x = true -> no_div_then_mul y = true -> no_div_then_mul z = true ->
  layout_head r -> length (toks_expr (EBin OMul (EBin ODiv x y) z)) < f ->
  ref_num rho x = Some a -> ref_num rho y = Some b -> ref_num rho z = Some c ->
  ~ (a == 0)%Q -> ~ (b == 0)%Q -> ~ (c == 0)%Q -> ~ (c * c == 1)%Q ->
  exists e' u v,
    parse_expr impl_levels impl_not_level (expr_fuel f) 0
      (map DTok (toks_expr (EBin OMul (EBin ODiv x y) z)) ++ r) = FOk (e', r)
    /\ parse_expr standard_levels impl_not_level (expr_fuel f) 0
         (map DTok (toks_expr (EBin OMul (EBin ODiv x y) z)) ++ r)
       = FOk (EBin OMul (EBin ODiv x y) z, r)
    /\ ref_num rho e' = Some u /\ ref_num rho (EBin OMul (EBin ODiv x y) z) = Some v /\ ~ (u == v)%Q.
Proof. exact PrecedenceProofs.C13_div_then_mul_refuted. Qed.
Print Assumptions C13_div_then_mul_refuted.

Theorem C13_standard_precedence_refuted :
  parse_expr impl_levels impl_not_level (expr_fuel 6) 0
    (map DTok (TInt 8 :: OpSlash :: TInt 2 :: OpStar :: TInt 2 :: nil) ++ DNL :: nil)
    = FOk (EBin ODiv (ENum 8) (EBin OMul (ENum 2) (ENum 2)), DNL :: nil)
  /\ parse_expr standard_levels impl_not_level (expr_fuel 6) 0
       (map DTok (TInt 8 :: OpSlash :: TInt 2 :: OpStar :: TInt 2 :: nil) ++ DNL :: nil)
    = FOk (EBin OMul (EBin ODiv (ENum 8) (ENum 2)) (ENum 2), DNL :: nil)
  /\ (forall rho, oQeq (ref_num rho (EBin ODiv (ENum 8) (EBin OMul (ENum 2) (ENum 2)))) (Some 2%Q)
                  /\ oQeq (ref_num rho (EBin OMul (EBin ODiv (ENum 8) (ENum 2)) (ENum 2))) (Some 8%Q))
  /\ ~ (2 == 8)%Q
  /\ (forall rho,
        ref_bool rho (EBin OEq (EBin ODiv (ENum 8) (EBin OMul (ENum 2) (ENum 2))) (ENum 8)) = Some false
        /\ ref_bool rho (EBin OEq (EBin OMul (EBin ODiv (ENum 8) (ENum 2)) (ENum 2)) (ENum 8)) = Some true).
Proof. exact PrecedenceProofs.C13_standard_precedence_refuted. Qed.
Print Assumptions C13_standard_precedence_refuted.

Theorem C13_add_then_sub_trees_differ :
  parse_expr impl_levels impl_not_level (expr_fuel 6) 0
    (map DTok (TInt 1 :: OpPlus :: TInt 2 :: OpMinus :: TInt 3 :: nil) ++ DNL :: nil)
    = FOk (EBin OAdd (ENum 1) (EBin OSub (ENum 2) (ENum 3)), DNL :: nil)
  /\ parse_expr standard_levels impl_not_level (expr_fuel 6) 0
       (map DTok (TInt 1 :: OpPlus :: TInt 2 :: OpMinus :: TInt 3 :: nil) ++ DNL :: nil)
    = FOk (EBin OSub (EBin OAdd (ENum 1) (ENum 2)) (ENum 3), DNL :: nil)
  /\ (forall rho, oQeq (ref_num rho (EBin OAdd (ENum 1) (EBin OSub (ENum 2) (ENum 3)))) (Some 0%Q)
                  /\ oQeq (ref_num rho (EBin OSub (EBin OAdd (ENum 1) (ENum 2)) (ENum 3))) (Some 0%Q)).
Proof. exact add_then_sub_trees_differ. Qed.
Print Assumptions C13_add_then_sub_trees_differ.

Theorem C13_precedence_tree_statement_refuted :
  ~ (forall e f r, expr_ok standard_levels impl_not_level e = true -> layout_head r ->
       length (toks_expr e) < f ->
       parse_expr impl_levels impl_not_level (expr_fuel f) 0 (map DTok (toks_expr e) ++ r) = FOk (e, r)).
Proof. exact PrecedenceProofs.C13_precedence_tree_statement_refuted. Qed.
Print Assumptions C13_precedence_tree_statement_refuted.

Theorem C13_precedence_value_statement_refuted :
  ~ (forall e f r, expr_ok standard_levels impl_not_level e = true -> layout_head r ->
       length (toks_expr e) < f ->
       exists e', parse_expr impl_levels impl_not_level (expr_fuel f) 0 (map DTok (toks_expr e) ++ r) = FOk (e', r)
                  /\ forall rho, ref_bool rho e' = ref_bool rho e).
Proof. exact PrecedenceProofs.C13_precedence_value_statement_refuted. Qed.
Print Assumptions C13_precedence_value_statement_refuted.

Theorem C13_two_ops_any_table : forall T o1 o2 lv1 rhs1 lv2 rhs2 a b c f r,
  level_of T o1 = Some (lv1, rhs1) -> level_of T o2 = Some (lv2, rhs2) ->
  atomic a = true -> atomic b = true -> atomic c = true ->
  layout_head r -> length (toks_expr (EBin o2 (EBin o1 a b) c)) < f ->
  parse_expr T impl_not_level (expr_fuel f) 0 (map DTok (toks_expr (EBin o2 (EBin o1 a b) c)) ++ r)
  = FOk (if lv2 <? rhs1 then EBin o2 (EBin o1 a b) c else EBin o1 a (EBin o2 b c), r).
Proof. exact two_ops_any_table. Qed.
Print Assumptions C13_two_ops_any_table.

Theorem C13_two_ops_stated : forall o1 o2 a b c f r,
  atomic a = true -> atomic b = true -> atomic c = true ->
  layout_head r -> length (toks_expr (EBin o2 (EBin o1 a b) c)) < f ->
  parse_expr standard_levels impl_not_level (expr_fuel f) 0 (map DTok (toks_expr (EBin o2 (EBin o1 a b) c)) ++ r)
  = FOk (if groups_left_stated o1 o2 then EBin o2 (EBin o1 a b) c else EBin o1 a (EBin o2 b c), r).
Proof. exact two_ops_stated. Qed.
Print Assumptions C13_two_ops_stated.

Theorem C13_two_ops_generated : forall o1 o2 a b c f r,
  atomic a = true -> atomic b = true -> atomic c = true ->
  layout_head r -> length (toks_expr (EBin o2 (EBin o1 a b) c)) < f ->
  parse_expr impl_levels impl_not_level (expr_fuel f) 0 (map DTok (toks_expr (EBin o2 (EBin o1 a b) c)) ++ r)
  = FOk (if groups_left_generated o1 o2 then EBin o2 (EBin o1 a b) c else EBin o1 a (EBin o2 b c), r).
Proof. exact two_ops_generated. Qed.
Print Assumptions C13_two_ops_generated.

Theorem C13_grouping_agrees_except : forall o1 o2,
  groups_left_generated o1 o2 = groups_left_stated o1 o2
  <-> ~ ((o1 = ODiv /\ o2 = OMul) \/ (o1 = OAdd /\ o2 = OSub)).
Proof. exact grouping_agrees_except. Qed.
Print Assumptions C13_grouping_agrees_except.

Theorem C13_left_assoc_both_tables : forall o a b c f r,
  atomic a = true -> atomic b = true -> atomic c = true ->
  layout_head r -> length (toks_expr (EBin o (EBin o a b) c)) < f ->
  parse_expr impl_levels impl_not_level (expr_fuel f) 0 (map DTok (toks_expr (EBin o (EBin o a b) c)) ++ r)
    = FOk (EBin o (EBin o a b) c, r)
  /\ parse_expr standard_levels impl_not_level (expr_fuel f) 0 (map DTok (toks_expr (EBin o (EBin o a b) c)) ++ r)
    = FOk (EBin o (EBin o a b) c, r).
Proof. exact left_assoc_both_tables. Qed.
Print Assumptions C13_left_assoc_both_tables.

Theorem C13_equal_rank_generated : forall o1 o2 a b c f r,
  lvS o1 = lvS o2 ->
  atomic a = true -> atomic b = true -> atomic c = true ->
  layout_head r -> length (toks_expr (EBin o2 (EBin o1 a b) c)) < f ->
  parse_expr standard_levels impl_not_level (expr_fuel f) 0 (map DTok (toks_expr (EBin o2 (EBin o1 a b) c)) ++ r)
    = FOk (EBin o2 (EBin o1 a b) c, r)
  /\ parse_expr impl_levels impl_not_level (expr_fuel f) 0 (map DTok (toks_expr (EBin o2 (EBin o1 a b) c)) ++ r)
    = FOk (if binop_eqb o1 ODiv && binop_eqb o2 OMul || binop_eqb o1 OAdd && binop_eqb o2 OSub
           then EBin o1 a (EBin o2 b c) else EBin o2 (EBin o1 a b) c, r).
Proof. exact equal_rank_generated. Qed.
Print Assumptions C13_equal_rank_generated.

Theorem C13_front_ends_are_instances :
  (forall t, front_end t = front_end_with impl_levels t)
  /\ (forall t, front_end_standard t = front_end_with standard_levels t).
Proof. exact (conj front_end_is_generated front_end_standard_is_stated). Qed.
Print Assumptions C13_front_ends_are_instances.

Theorem C13_front_end_any_table : forall T t p,
  prog_ok T impl_not_level p = true -> canon t = Some (flatten 0 (forest_of p)) ->
  front_end_with T t = FOk p.
Proof. exact front_end_any_table. Qed.
Print Assumptions C13_front_end_any_table.

Theorem C13_front_end_reads : forall t p,
  prog_ok standard_levels impl_not_level p = true -> canon t = Some (flatten 0 (forest_of p)) ->
  front_end_standard t = FOk p /\ front_end t = FOk (regen_prog p).
Proof. exact PrecedenceProofs.C13_front_end_reads. Qed.
Print Assumptions C13_front_end_reads.

Theorem C13_front_end_partial : forall t p,
  prog_ok standard_levels impl_not_level p = true -> prog_guard p = true ->
  canon t = Some (flatten 0 (forest_of p)) ->
  front_end t = FOk p /\ front_end_standard t = FOk p.
Proof. exact PrecedenceProofs.C13_front_end_partial. Qed.
Print Assumptions C13_front_end_partial.

Theorem C13_front_end_guard_exact : forall t p,
  prog_ok standard_levels impl_not_level p = true -> canon t = Some (flatten 0 (forest_of p)) ->
  (front_end t = front_end_standard t <-> prog_guard p = true).
Proof. exact PrecedenceProofs.C13_front_end_guard_exact. Qed.
Print Assumptions C13_front_end_guard_exact.

Theorem C13_front_end_render_partial : forall L p,
  layout_wf L = true -> prog_ok standard_levels impl_not_level p = true -> prog_guard p = true ->
  front_end (render L p) = FOk p /\ front_end_standard (render L p) = FOk p.
Proof. exact PrecedenceProofs.C13_front_end_render_partial. Qed.
Print Assumptions C13_front_end_render_partial.

Theorem C13_front_end_value_partial : forall t p,
  prog_ok standard_levels impl_not_level p = true ->
  forallb no_div_then_mul (prog_exprs p) = true ->
  canon t = Some (flatten 0 (forest_of p)) ->
  exists p',
    front_end t = FOk p' /\ front_end_standard t = FOk p
    /\ Forall2 (fun e' e => forall rho,
                  oQeq (ref_num rho e') (ref_num rho e) /\ ref_bool rho e' = ref_bool rho e
                  /\ forall b k, ref_bool rho e = Some b ->
                       exists k', decide expected_ops (fun _ v => rho v) e' k = Ok (b, k'))
               (prog_exprs p') (prog_exprs p).
Proof. exact PrecedenceProofs.C13_front_end_value_partial. Qed.
Print Assumptions C13_front_end_value_partial.

Theorem C13_guarded_example_ok :
  expr_ok standard_levels impl_not_level guarded_example = true
  /\ no_div_then_mul guarded_example = true /\ no_add_then_sub guarded_example = true.
Proof. exact guarded_example_ok. Qed.
Print Assumptions C13_guarded_example_ok.

Theorem C13_guarded_example_mixes_operators :
  no_op OMul guarded_example = false /\ no_op ODiv guarded_example = false
  /\ no_op OAdd guarded_example = false /\ no_op OSub guarded_example = false
  /\ no_op OLt guarded_example = false /\ no_op OEq guarded_example = false
  /\ no_op OAnd guarded_example = false /\ no_op OOr guarded_example = false.
Proof. exact (conj eq_refl (conj eq_refl (conj eq_refl (conj eq_refl (conj eq_refl (conj eq_refl (conj eq_refl eq_refl))))))). Qed.
Print Assumptions C13_guarded_example_mixes_operators.

Theorem C13_add_sub_example_ok :
  expr_ok standard_levels impl_not_level add_sub_example = true
  /\ no_div_then_mul add_sub_example = true /\ no_add_then_sub add_sub_example = false
  /\ regen add_sub_example <> add_sub_example
  /\ no_op OMul add_sub_example = false /\ no_op ODiv add_sub_example = false.
Proof. exact (conj (proj1 add_sub_example_ok) (conj (proj1 (proj2 add_sub_example_ok)) (conj (proj1 (proj2 (proj2 add_sub_example_ok))) (conj (proj1 (proj2 (proj2 (proj2 add_sub_example_ok)))) (conj eq_refl eq_refl))))). Qed.
Print Assumptions C13_add_sub_example_ok.

Theorem C13_example_program_guarded :
  prog_ok standard_levels impl_not_level example_program = true /\ prog_guard example_program = true
  /\ length (prog_exprs example_program) = 2.
Proof. exact example_program_guarded. Qed.
Print Assumptions C13_example_program_guarded.

Theorem C13_precedence_program_ok :
  prog_ok standard_levels impl_not_level precedence_program = true
  /\ forallb no_div_then_mul (prog_exprs precedence_program) = true
  /\ prog_guard precedence_program = false
  /\ prog_exprs precedence_program = guarded_example :: add_sub_example :: nil.
Proof. exact precedence_program_ok. Qed.
Print Assumptions C13_precedence_program_ok.

Theorem C13_guards_fail_needs_two_operators : forall e,
  no_div_then_mul e && no_add_then_sub e = false -> 2 <= bin_count e.
Proof. exact guards_fail_two_ops. Qed.
Print Assumptions C13_guards_fail_needs_two_operators.

Theorem C13_one_operator_agree : forall e f r,
  expr_ok standard_levels impl_not_level e = true -> bin_count e <= 1 ->
  layout_head r -> length (toks_expr e) < f ->
  parse_expr impl_levels impl_not_level (expr_fuel f) 0 (map DTok (toks_expr e) ++ r) = FOk (e, r)
  /\ parse_expr standard_levels impl_not_level (expr_fuel f) 0 (map DTok (toks_expr e) ++ r) = FOk (e, r).
Proof. exact PrecedenceProofs.C13_one_operator_agree. Qed.
Print Assumptions C13_one_operator_agree.
