(* Property C17, the clause about observers that attach / detach RE-ENTRANTLY, from inside
   update(), while Scheduler.notify is iterating (RefShape.v / NetShape.v cover attach / detach
   between API calls).  Model: ObsDispatch.v ([dispatch_fixed] = the loop of scheduler.py:
   copy of the list + membership test at every turn; [dispatch_live] = the loop before commit
   20b97d8; [dispatch_snapshot] = copy without membership test).  All observer lists (also with
   an observer attached several times) and all reaction functions; detach of an observer that
   is not attached (ValueError in Python) is outside the model.  Only statements proved in
   ObsDispatchProofs.v. *)
From Coq Require Import List Arith.
From PFDL Require Import ObsDispatch ObsDispatchProofs.
Import ListNotations.

(* ---- (a) a detached observer receives nothing further: whoever is updated was attached when
   the notification started and is attached at the moment of its update ([state_at] = the
   starting list with the actions of the observers updated before it applied in order) ---- *)
Theorem C17o_detached_get_nothing :
  forall react l u1 o u2,
    fst (dispatch_fixed react l) = u1 ++ o :: u2 ->
    In o l /\ In o (state_at react l u1).
Proof. exact fixed_detached_get_nothing. Qed.
Print Assumptions C17o_detached_get_nothing.

(* ---- (b) nobody is skipped ---- *)
Theorem C17o_nobody_skipped :
  forall react l o,
    In o l -> (forall p, ~ In (Detach o) (react p)) -> In o (fst (dispatch_fixed react l)).
Proof. exact fixed_nobody_skipped. Qed.
Print Assumptions C17o_nobody_skipped.

(* sharp form: the observer at position |l1| of the starting list is updated exactly if it is
   attached when its turn comes *)
Theorem C17o_turn_updated :
  forall react l1 o l2,
    let l := l1 ++ o :: l2 in
    let u1 := fst (dispatch_fixed_go react l1 l) in
    In o (state_at react l u1) ->
    exists u2, fst (dispatch_fixed react l) = u1 ++ o :: u2.
Proof. exact fixed_turn_updated. Qed.
Print Assumptions C17o_turn_updated.

Theorem C17o_turn_left_out :
  forall react l1 o l2,
    let l := l1 ++ o :: l2 in
    let u1 := fst (dispatch_fixed_go react l1 l) in
    ~ In o (state_at react l u1) ->
    fst (dispatch_fixed react l) = u1 ++ fst (dispatch_fixed_go react l2 (state_at react l u1)).
Proof. exact fixed_turn_left_out. Qed.
Print Assumptions C17o_turn_left_out.

(* in attachment order *)
Theorem C17o_updated_in_order :
  forall react l, subseq (fst (dispatch_fixed react l)) l.
Proof. exact fixed_updated_in_order. Qed.
Print Assumptions C17o_updated_in_order.

(* exactly once *)
Theorem C17o_exactly_once :
  forall react l o,
    NoDup l -> In o l -> (forall p, ~ In (Detach o) (react p)) ->
    count_occ Nat.eq_dec (fst (dispatch_fixed react l)) o = 1.
Proof. exact fixed_exactly_once. Qed.
Print Assumptions C17o_exactly_once.

Theorem C17o_as_often_as_attached :
  forall react l o,
    (forall p, ~ In (Attach o) (react p)) -> (forall p, ~ In (Detach o) (react p)) ->
    count_occ Nat.eq_dec (fst (dispatch_fixed react l)) o = count_occ Nat.eq_dec l o
    /\ count_occ Nat.eq_dec (snd (dispatch_fixed react l)) o = count_occ Nat.eq_dec l o.
Proof. exact fixed_as_often_as_attached. Qed.
Print Assumptions C17o_as_often_as_attached.

(* ---- (c) an observer attached during the notification is not updated in it (the loop runs
   over the copy) but is attached afterwards ---- *)
Theorem C17o_attached_during_not_updated :
  forall react l o, ~ In o l -> ~ In o (fst (dispatch_fixed react l)).
Proof. exact fixed_attached_during_not_updated. Qed.
Print Assumptions C17o_attached_during_not_updated.

Theorem C17o_attached_during_is_attached_after :
  forall react l u1 p u2 a1 x a2,
    fst (dispatch_fixed react l) = u1 ++ p :: u2 ->
    react p = a1 ++ Attach x :: a2 ->
    ~ In (Detach x) a2 -> (forall q, In q u2 -> ~ In (Detach x) (react q)) ->
    In x (snd (dispatch_fixed react l)).
Proof. exact fixed_attached_during_is_attached_after. Qed.
Print Assumptions C17o_attached_during_is_attached_after.

(* ---- (d) the list afterwards: all actions applied in order ---- *)
Theorem C17o_final_list :
  forall react l,
    snd (dispatch_fixed react l) = apply_actions (flat_map react (fst (dispatch_fixed react l))) l.
Proof. exact fixed_final_list. Qed.
Print Assumptions C17o_final_list.

(* ---- sequences of notifications with attach / detach in between ---- *)
Theorem C17o_one_entry_per_notification :
  forall D react steps k l,
    length (fst (run_notifs D react k steps l)) = notifications steps.
Proof. exact run_notifs_length. Qed.
Print Assumptions C17o_one_entry_per_notification.

Theorem C17o_never_detached_always_updated :
  forall react o steps k l,
    In o l -> ~ In (Ext (Detach o)) steps -> (forall p k, ~ In (Detach o) (react p k)) ->
    Forall (fun u => In o u) (fst (run_notifs dispatch_fixed react k steps l))
    /\ In o (snd (run_notifs dispatch_fixed react k steps l)).
Proof. exact run_fixed_never_detached. Qed.
Print Assumptions C17o_never_detached_always_updated.

Theorem C17o_count_preserved :
  forall react o steps k l,
    ~ In (Ext (Attach o)) steps -> ~ In (Ext (Detach o)) steps ->
    (forall p k, ~ In (Attach o) (react p k)) -> (forall p k, ~ In (Detach o) (react p k)) ->
    Forall (fun u => count_occ Nat.eq_dec u o = count_occ Nat.eq_dec l o)
           (fst (run_notifs dispatch_fixed react k steps l))
    /\ count_occ Nat.eq_dec (snd (run_notifs dispatch_fixed react k steps l)) o
       = count_occ Nat.eq_dec l o.
Proof. exact run_fixed_count. Qed.
Print Assumptions C17o_count_preserved.

(* attached (once) throughout: receives the notifications k, k+1, ... exactly once each, in order *)
Theorem C17o_receives_all_in_order :
  forall react o steps k l,
    count_occ Nat.eq_dec l o = 1 ->
    ~ In (Ext (Attach o)) steps -> ~ In (Ext (Detach o)) steps ->
    (forall p k, ~ In (Attach o) (react p k)) -> (forall p k, ~ In (Detach o) (react p k)) ->
    received o k (fst (run_notifs dispatch_fixed react k steps l)) = seq k (notifications steps).
Proof. exact run_fixed_receives_all_in_order. Qed.
Print Assumptions C17o_receives_all_in_order.

(* ---- the two other loops ---- *)
(* before the fix: an observer detaches itself, the next one (attached, detached by nobody)
   misses the entry (finding D27) *)
Theorem C17o_dispatch_live_skips_refuted :
  ~ (forall fuel react l u l',
        dispatch_live fuel react l = Some (u, l') ->
        forall o, In o l -> (forall p, ~ In (Detach o) (react p)) -> In o u).
Proof. exact dispatch_live_skips_refuted. Qed.
Print Assumptions C17o_dispatch_live_skips_refuted.

Theorem C17o_dispatch_live_total_refuted : ~ nobody_skipped (dispatch_live_total 5).
Proof. exact dispatch_live_total_refuted. Qed.
Print Assumptions C17o_dispatch_live_total_refuted.

Theorem C17o_dispatch_live_skips_after_detach_earlier :
  dispatch_live 5 (fun o => if Nat.eqb o 2 then [Detach 1] else []) [1; 2; 3] = Some ([1; 2], [2; 3])
  /\ dispatch_fixed (fun o => if Nat.eqb o 2 then [Detach 1] else []) [1; 2; 3] = ([1; 2; 3], [2; 3]).
Proof. exact dispatch_live_skips_after_detach_earlier. Qed.
Print Assumptions C17o_dispatch_live_skips_after_detach_earlier.

(* copy without membership test: an observer whose detach has returned is still updated *)
Theorem C17o_dispatch_snapshot_refuted : ~ detached_get_nothing dispatch_snapshot.
Proof. exact dispatch_snapshot_refuted. Qed.
Print Assumptions C17o_dispatch_snapshot_refuted.

Theorem C17o_snapshot_updates_everybody :
  forall react l, fst (dispatch_snapshot react l) = l.
Proof. exact snapshot_updates_everybody. Qed.
Print Assumptions C17o_snapshot_updates_everybody.

(* the old loop is right as long as no observer reacts *)
Theorem C17o_live_eq_fixed_when_quiet :
  forall react l,
    (forall o, In o l -> react o = []) ->
    dispatch_live (S (length l)) react l = Some (dispatch_fixed react l).
Proof. exact live_eq_fixed_when_quiet. Qed.
Print Assumptions C17o_live_eq_fixed_when_quiet.

(* ... and as long as observers only detach observers attached AFTER them (every observer
   attached once, nobody attaches): the defect needs a detach at or before the loop's position *)
Theorem C17o_live_eq_fixed_when_detaching_later_only :
  forall react l,
    NoDup l ->
    (forall o, In o l -> forall a, In a (react o) ->
       exists x, a = Detach x /\ exists l1 l2, l = l1 ++ o :: l2 /\ In x l2) ->
    dispatch_live (S (length l)) react l = Some (dispatch_fixed react l).
Proof. exact live_eq_fixed_when_detaching_later_only. Qed.
Print Assumptions C17o_live_eq_fixed_when_detaching_later_only.
