(* RefinementTransfer — what the refinement theorem (Properties/Refinement.v) transfers to the
   FAITHFUL net model: on the fragment (test identifiers; engine without reactions, immediate
   completions or mutation; programs of services / task calls / Parallel / Condition / While; any
   script; any oracle), a successful run of the net model with ANY fuel yields exactly the trace
   of the reference semantics, hence the monitors that accept every reference trace accept the
   net model's trace.  Still assumed: [run_ref c = Ok tr], i.e. the reference run succeeds
   (it may not: a While loop may exhaust default_fuel, the oracle may answer a Condition with a
   value of the wrong type); no totality lemma for run_ref is available.
   Statements proved in Refine/Transfer.v, nothing else here. *)
From PFDL Require Import NetModel NetRun RunCase Monitors.
From PFDL.Refine Require Import Main Transfer.
From PFDL.Properties Require Import Refinement.

Theorem run_net_f_monotone : forall f f' c tr, f <= f' -> run_net_f f c = Ok tr -> run_net_f f' c = Ok tr.
Proof. exact run_net_f_fuel_mono. Qed.
Print Assumptions run_net_f_monotone.

Theorem net_trace_is_ref_trace :
  forall c, in_fragment c = true -> forall tr, run_ref c = Ok tr ->
  (exists f0, forall f, f0 <= f -> run_net_f f c = Ok tr) /\
  (forall f tr1, run_net_f f c = Ok tr1 -> tr1 = tr) /\
  (forall tr1, run_net c = Ok tr1 -> tr1 = tr).
Proof.
  intros c Hin tr Href.
  exact (conj (Transfer.net_trace_is_ref_trace c Hin tr Href)
              (conj (net_trace_unique c Hin tr Href) (run_net_is_ref_trace c Hin tr Href))).
Qed.
Print Assumptions net_trace_is_ref_trace.

(* any property of all reference traces holds of the net model's traces on the fragment *)
Theorem net_transfer : forall (P : runcase -> list callrec -> Prop),
    (forall c tr, run_ref c = Ok tr -> P c tr) ->
    forall c, in_fragment c = true -> forall tr, run_ref c = Ok tr ->
    forall f tr1, run_net_f f c = Ok tr1 -> P c tr1.
Proof. exact Transfer.net_transfer. Qed.
Print Assumptions net_transfer.

Theorem net_C01_fragment : forall c tr tr1 f, in_fragment c = true -> run_ref c = Ok tr -> run_net_f f c = Ok tr1 ->
    holds_C01 tr1 = true.
Proof. exact Transfer.net_C01_fragment. Qed.
Print Assumptions net_C01_fragment.

Theorem net_C04ctx_fragment : forall c tr tr1 f, in_fragment c = true -> run_ref c = Ok tr -> run_net_f f c = Ok tr1 ->
    mon_C04ctx c tr1 = true.
Proof. exact Transfer.net_C04ctx_fragment. Qed.
Print Assumptions net_C04ctx_fragment.

Theorem net_C07_fragment : forall c tr tr1 f, in_fragment c = true -> run_ref c = Ok tr -> run_net_f f c = Ok tr1 ->
    holds_C07 (rc_script c) tr1 = true.
Proof. exact Transfer.net_C07_fragment. Qed.
Print Assumptions net_C07_fragment.

Theorem net_C08_fragment : forall c tr tr1 f, in_fragment c = true -> run_ref c = Ok tr -> run_net_f f c = Ok tr1 ->
    mon_C08 c tr1 = true.
Proof. exact Transfer.net_C08_fragment. Qed.
Print Assumptions net_C08_fragment.

Theorem net_C14_fragment : forall c tr tr1 f, in_fragment c = true -> run_ref c = Ok tr -> run_net_f f c = Ok tr1 ->
    mon_C14 c tr1 = true.
Proof. exact Transfer.net_C14_fragment. Qed.
Print Assumptions net_C14_fragment.

Theorem net_C17_fragment : forall c tr tr1 f, in_fragment c = true -> run_ref c = Ok tr -> run_net_f f c = Ok tr1 ->
    mon_C17 c tr1 = true.
Proof. exact Transfer.net_C17_fragment. Qed.
Print Assumptions net_C17_fragment.

Theorem net_C20_fragment : forall c tr tr1 f, in_fragment c = true -> run_ref c = Ok tr -> run_net_f f c = Ok tr1 ->
    mon_C20 c tr1 = true.
Proof. exact Transfer.net_C20_fragment. Qed.
Print Assumptions net_C20_fragment.

(* instance: the While-loop case of Properties/Refinement.v, run on the net model with its
   standard fuel; the hypotheses are discharged by evaluation *)
Example exw_net_monitors : exists tr1, run_net exw_case = Ok tr1 /\
    holds_C01 tr1 = true /\ holds_C07 (rc_script exw_case) tr1 = true /\ mon_C04ctx exw_case tr1 = true /\
    mon_C08 exw_case tr1 = true /\ mon_C14 exw_case tr1 = true /\ mon_C17 exw_case tr1 = true /\ mon_C20 exw_case tr1 = true.
Proof.
  destruct exw_runs as (tr & Href & _ & _ & Hnet). exists tr. split; [exact Hnet|].
  rewrite run_net_f_is_run_net in Hnet.
  split; [exact (Transfer.net_C01_fragment _ _ _ _ exw_in_fragment Href Hnet)|].
  split; [exact (Transfer.net_C07_fragment _ _ _ _ exw_in_fragment Href Hnet)|].
  split; [exact (Transfer.net_C04ctx_fragment _ _ _ _ exw_in_fragment Href Hnet)|].
  split; [exact (Transfer.net_C08_fragment _ _ _ _ exw_in_fragment Href Hnet)|].
  split; [exact (Transfer.net_C14_fragment _ _ _ _ exw_in_fragment Href Hnet)|].
  split; [exact (Transfer.net_C17_fragment _ _ _ _ exw_in_fragment Href Hnet)|].
  exact (Transfer.net_C20_fragment _ _ _ _ exw_in_fragment Href Hnet).
Qed.
Print Assumptions exw_net_monitors.
