(* Property C18 — behaviour is independent of configuration and of other scheduler
   instances.  PARTIAL: statement proved in RefC18.v, nothing else.
   Proved (reference semantics, all programs / histories): two scheduler instances driven by
   one arbitrarily interleaved history behave exactly like the two instances driven
   separately - an event addressed to one never affects the other; the models are functions
   of the case, so a repeated run is identical.
   NOT expressible in a Gallina model, and therefore only exercised on the implementation by
   the configuration sweep of the check (harness/kind_config.py): state shared through the
   Python runtime (module-level or class-level attributes, mutable default arguments),
   program passed as text vs. as a file path, drawing side effects, identifier mode,
   attached observers. *)
From PFDL Require Import RefSem RunCase Monitors RefC18.

Theorem C18_two_schedulers_independent_partial :
  forall orcA orcB immA immB bodyA bodyB fuel cs sA sB tr,
    run_two orcA orcB immA immB bodyA bodyB fuel sA sB cs = Ok tr ->
    run_script orcA immA fuel bodyA sA (proj_calls true cs) = Ok (proj_recs true tr) /\
    run_script orcB immB fuel bodyB sB (proj_calls false cs) = Ok (proj_recs false tr).
Proof. exact two_schedulers_independent. Qed.
Print Assumptions C18_two_schedulers_independent_partial.
