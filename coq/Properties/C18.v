(* Property C18 — behaviour is independent of configuration and of other scheduler
   instances.  PARTIAL: statement proved in RefC18.v, nothing else.
   Proved (reference semantics, all programs / histories): two scheduler instances driven by
   one arbitrarily interleaved history behave exactly like the two instances driven
   separately - an event addressed to one never affects the other; the models are functions
   of the case, so a repeated run is identical.
   NOT expressible in a Gallina model, and therefore only exercised on the implementation by
   the configuration sweep of the check (harness/kind_config.py): state shared through the
   Python runtime (module-level or class-level attributes, mutable default arguments),
   program passed as text vs. as a file path, drawing side effects, identifier mode,
   attached observers. *)
From PFDL Require Import RefSem RunCase Monitors RefC18 RefObs.

Theorem C18_two_schedulers_independent_partial :
  forall orcA orcB immA immB bodyA bodyB fuel cs sA sB tr,
    run_two orcA orcB immA immB bodyA bodyB fuel sA sB cs = Ok tr ->
    run_script orcA immA fuel bodyA sA (proj_calls true cs) = Ok (proj_recs true tr) /\
    run_script orcB immB fuel bodyB sB (proj_calls false cs) = Ok (proj_recs false tr).
Proof. exact two_schedulers_independent. Qed.
Print Assumptions C18_two_schedulers_independent_partial.

(* ==== observers and additional listeners do not influence the order (RefObs.v) ==== *)
(* ---- two-run simulation of the seven interpreter functions, up to observers ---- *)
Theorem C18_start_stmt_obs :
  forall orc imm f ctx ie s g1 g2,
    obs_eq g1 g2 -> res_rel (start_stmt orc imm f ctx ie s g1) (start_stmt orc imm f ctx ie s g2).
Proof. exact start_stmt_obs. Qed.
Print Assumptions C18_start_stmt_obs.

Theorem C18_run_block_obs :
  forall orc imm f ctx ie ss i g1 g2,
    obs_eq g1 g2 -> res_rel (run_block orc imm f ctx ie ss i g1) (run_block orc imm f ctx ie ss i g2).
Proof. exact run_block_obs. Qed.
Print Assumptions C18_run_block_obs.

Theorem C18_start_list_obs :
  forall orc imm f ctx l g1 g2,
    obs_eq g1 g2 -> res_rel (start_list orc imm f ctx l g1) (start_list orc imm f ctx l g2).
Proof. exact start_list_obs. Qed.
Print Assumptions C18_start_list_obs.

Theorem C18_loop_test_obs :
  forall orc imm f ctx ie s k g1 g2,
    obs_eq g1 g2 -> res_rel (loop_test orc imm f ctx ie s k g1) (loop_test orc imm f ctx ie s k g2).
Proof. exact loop_test_obs. Qed.
Print Assumptions C18_loop_test_obs.

Theorem C18_deliver_obs :
  forall orc imm f ctx ie s st id g1 g2,
    obs_eq g1 g2 ->
    res_rel (deliver orc imm f ctx ie s st id g1) (deliver orc imm f ctx ie s st id g2).
Proof. exact deliver_obs. Qed.
Print Assumptions C18_deliver_obs.

Theorem C18_deliver_block_obs :
  forall orc imm f ctx ie ss i sti id g1 g2,
    obs_eq g1 g2 ->
    res_rel (deliver_block orc imm f ctx ie ss i sti id g1) (deliver_block orc imm f ctx ie ss i sti id g2).
Proof. exact deliver_block_obs. Qed.
Print Assumptions C18_deliver_block_obs.

Theorem C18_deliver_list_obs :
  forall orc imm f ctx l sts id g1 g2,
    obs_eq g1 g2 ->
    res_rel (deliver_list orc imm f ctx l sts id g1) (deliver_list orc imm f ctx l sts id g2).
Proof. exact deliver_list_obs. Qed.
Print Assumptions C18_deliver_list_obs.

(* ---- whole histories: erasing attach / detach ---- *)
Theorem C18_observers_do_not_influence :
  forall orc imm body fuel cs tr,
    run_script orc imm fuel body sched0 cs = Ok tr ->
    run_script orc imm fuel body sched0 (erase_obs_calls cs) = Ok (erase_obs_recs cs tr).
Proof. exact observers_do_not_influence. Qed.
Print Assumptions C18_observers_do_not_influence.

Theorem C18_observers_do_not_influence_from :
  forall orc imm body fuel cs s1 s2 tr,
    sc_root s1 = sc_root s2 -> obs_eq (sc_g s1) (sc_g s2) -> g_obs (sc_g s2) = [] ->
    run_script orc imm fuel body s1 cs = Ok tr ->
    run_script orc imm fuel body s2 (erase_obs_calls cs) = Ok (erase_obs_recs cs tr).
Proof. exact observers_do_not_influence_from. Qed.
Print Assumptions C18_observers_do_not_influence_from.

Theorem C18_same_up_to_observers :
  forall orc imm body fuel cs1 cs2 tr1 tr2,
    erase_obs_calls cs1 = erase_obs_calls cs2 ->
    run_script orc imm fuel body sched0 cs1 = Ok tr1 ->
    run_script orc imm fuel body sched0 cs2 = Ok tr2 ->
    erase_obs_recs cs1 tr1 = erase_obs_recs cs2 tr2.
Proof. exact same_up_to_observers. Qed.
Print Assumptions C18_same_up_to_observers.

Theorem C18_erased_trace_has_no_observer_entries :
  forall cs tr, Forall (fun r => strip (cr_log r) = cr_log r) (erase_obs_recs cs tr).
Proof. exact erase_obs_recs_clean. Qed.
Print Assumptions C18_erased_trace_has_no_observer_entries.

(* ---- additional registered functions ---- *)
Theorem C18_start_stmt_lst :
  forall orc imm f ctx ie s g1 g2,
    lst_eq g1 g2 -> res_rel_l (start_stmt orc imm f ctx ie s g1) (start_stmt orc imm f ctx ie s g2).
Proof. exact start_stmt_lst. Qed.
Print Assumptions C18_start_stmt_lst.

Theorem C18_deliver_block_lst :
  forall orc imm f ctx ie ss i sti id g1 g2,
    lst_eq g1 g2 ->
    res_rel_l (deliver_block orc imm f ctx ie ss i sti id g1) (deliver_block orc imm f ctx ie ss i sti id g2).
Proof. exact deliver_block_lst. Qed.
Print Assumptions C18_deliver_block_lst.

Theorem C18_extra_listeners_do_not_influence :
  forall orc imm body fuel cs tr,
    run_script orc imm fuel body sched0 cs = Ok tr ->
    run_script orc imm fuel body sched0 (erase_reg_calls cs) = Ok (erase_reg_recs cs tr).
Proof. exact extra_listeners_do_not_influence. Qed.
Print Assumptions C18_extra_listeners_do_not_influence.

Theorem C18_extra_listeners_do_not_influence_from :
  forall orc imm body fuel cs s1 s2 tr,
    sc_root s1 = sc_root s2 -> lst_eq (sc_g s1) (sc_g s2) -> only0 (g_ls (sc_g s2)) ->
    run_script orc imm fuel body s1 cs = Ok tr ->
    run_script orc imm fuel body s2 (erase_reg_calls cs) = Ok (erase_reg_recs cs tr).
Proof. exact extra_listeners_do_not_influence_from. Qed.
Print Assumptions C18_extra_listeners_do_not_influence_from.

Theorem C18_same_up_to_extra_listeners :
  forall orc imm body fuel cs1 cs2 tr1 tr2,
    erase_reg_calls cs1 = erase_reg_calls cs2 ->
    run_script orc imm fuel body sched0 cs1 = Ok tr1 ->
    run_script orc imm fuel body sched0 cs2 = Ok tr2 ->
    erase_reg_recs cs1 tr1 = erase_reg_recs cs2 tr2.
Proof. exact same_up_to_extra_listeners. Qed.
Print Assumptions C18_same_up_to_extra_listeners.

Theorem C18_function0_view_independent :
  forall orc imm body fuel cs tr,
    run_script orc imm fuel body sched0 cs = Ok tr ->
    run_script orc imm fuel body sched0 (erase_reg_calls (erase_obs_calls cs))
    = Ok (erase_reg_recs (erase_obs_calls cs) (erase_obs_recs cs tr)).
Proof. exact function0_view_independent. Qed.
Print Assumptions C18_function0_view_independent.

Theorem C18_run_block_lst :
  forall orc imm f ctx ie ss i g1 g2,
    lst_eq g1 g2 -> res_rel_l (run_block orc imm f ctx ie ss i g1) (run_block orc imm f ctx ie ss i g2).
Proof. exact run_block_lst. Qed.
Print Assumptions C18_run_block_lst.

Theorem C18_start_list_lst :
  forall orc imm f ctx l g1 g2,
    lst_eq g1 g2 -> res_rel_l (start_list orc imm f ctx l g1) (start_list orc imm f ctx l g2).
Proof. exact start_list_lst. Qed.
Print Assumptions C18_start_list_lst.

Theorem C18_loop_test_lst :
  forall orc imm f ctx ie s k g1 g2,
    lst_eq g1 g2 -> res_rel_l (loop_test orc imm f ctx ie s k g1) (loop_test orc imm f ctx ie s k g2).
Proof. exact loop_test_lst. Qed.
Print Assumptions C18_loop_test_lst.

Theorem C18_deliver_lst :
  forall orc imm f ctx ie s st id g1 g2,
    lst_eq g1 g2 ->
    res_rel_l (deliver orc imm f ctx ie s st id g1) (deliver orc imm f ctx ie s st id g2).
Proof. exact deliver_lst. Qed.
Print Assumptions C18_deliver_lst.

Theorem C18_deliver_list_lst :
  forall orc imm f ctx l sts id g1 g2,
    lst_eq g1 g2 ->
    res_rel_l (deliver_list orc imm f ctx l sts id g1) (deliver_list orc imm f ctx l sts id g2).
Proof. exact deliver_list_lst. Qed.
Print Assumptions C18_deliver_list_lst.

(* ---- all outcomes (success, out of fuel, exception, unsupported) ---- *)
Theorem C18_observers_do_not_influence_total :
  forall orc imm body fuel cs,
    detach_ok [] cs ->
    run_script orc imm fuel body sched0 (erase_obs_calls cs)
    = res_map (erase_obs_recs cs) (run_script orc imm fuel body sched0 cs).
Proof. exact observers_do_not_influence_total. Qed.
Print Assumptions C18_observers_do_not_influence_total.

Theorem C18_observers_cannot_break :
  forall orc imm body fuel cs tr',
    detach_ok [] cs ->
    run_script orc imm fuel body sched0 (erase_obs_calls cs) = Ok tr' ->
    exists tr, run_script orc imm fuel body sched0 cs = Ok tr /\ tr' = erase_obs_recs cs tr.
Proof. exact observers_cannot_break. Qed.
Print Assumptions C18_observers_cannot_break.

Theorem C18_extra_listeners_do_not_influence_total :
  forall orc imm body fuel cs,
    run_script orc imm fuel body sched0 (erase_reg_calls cs)
    = res_map (erase_reg_recs cs) (run_script orc imm fuel body sched0 cs).
Proof. exact extra_listeners_do_not_influence_total. Qed.
Print Assumptions C18_extra_listeners_do_not_influence_total.
