(* Properties/Monitors.v — the executable monitors of Monitors.v (the ones the harness applies
   to the implementation's traces) accept every trace of the reference semantics: a monitor
   verdict False on an implementation trace is never an artefact of the monitor rejecting
   behaviour the reference semantics itself shows.  This file contains only statements
   proved in RefMonitors.v. *)
From PFDL Require Import RefSem RunCase Examples RefMonitors.
From PFDL Require Monitors.

(* C08: return value of a completion = membership in the reported awaited list; rejected
   completions / junk / repeated starts leave log, running, awaited, final unchanged; an
   accepted completion is no longer awaited; acceptance judged against what was announced
   to function 0 (service-started opens, service-finished closes) *)
Theorem C08_monitor_ref :
  forall orc imm body f cs tr,
    run_script orc imm f body sched0 cs = Ok tr -> Monitors.holds_C08 imm cs tr = true.
Proof. exact RefMonitors.C08_monitor_ref. Qed.
Print Assumptions C08_monitor_ref.

(* C14: lifecycle monitor + accepted completions carry an announced, unfinished identifier *)
Theorem C14_monitor_ref :
  forall orc imm body f cs tr,
    run_script orc imm f body sched0 cs = Ok tr -> Monitors.holds_C14 cs tr = true.
Proof. exact RefMonitors.C14_monitor_ref. Qed.
Print Assumptions C14_monitor_ref.

Theorem accepted_announced_monitor_ref :
  forall orc imm body f cs tr,
    run_script orc imm f body sched0 cs = Ok tr -> Monitors.accepted_announced [] cs tr = true.
Proof. exact RefMonitors.accepted_announced_monitor_ref. Qed.
Print Assumptions accepted_announced_monitor_ref.

(* C20: every registered function is invoked once per notification, in registration order *)
Theorem C20_monitor_ref :
  forall orc imm body f cs tr,
    run_script orc imm f body sched0 cs = Ok tr -> Monitors.holds_C20 cs tr = true.
Proof. exact RefMonitors.C20_monitor_ref. Qed.
Print Assumptions C20_monitor_ref.

(* C17: every attached observer receives one entry per notification, after the functions *)
Theorem C17_monitor_ref :
  forall orc imm body f cs tr,
    run_script orc imm f body sched0 cs = Ok tr -> Monitors.holds_C17 cs tr = true.
Proof. exact RefMonitors.C17_monitor_ref. Qed.
Print Assumptions C17_monitor_ref.

(* the fact behind the grouping monitors: within one call no notification is repeated *)
Theorem ref_call_nodup :
  forall orc imm body f cs tr,
    run_script orc imm f body sched0 cs = Ok tr -> Forall call_nodup tr.
Proof. exact RefMonitors.ref_call_nodup. Qed.
Print Assumptions ref_call_nodup.

(* the same for the `run` cases of the harness *)
Theorem C08_monitor_ref_programs :
  forall (c : runcase) tr, run_ref c = Ok tr -> Monitors.mon_C08 c tr = true.
Proof. exact RefMonitors.C08_monitor_ref_programs. Qed.
Print Assumptions C08_monitor_ref_programs.

Theorem C14_monitor_ref_programs :
  forall (c : runcase) tr, run_ref c = Ok tr -> Monitors.mon_C14 c tr = true.
Proof. exact RefMonitors.C14_monitor_ref_programs. Qed.
Print Assumptions C14_monitor_ref_programs.

Theorem C20_monitor_ref_programs :
  forall (c : runcase) tr, run_ref c = Ok tr -> Monitors.mon_C20 c tr = true.
Proof. exact RefMonitors.C20_monitor_ref_programs. Qed.
Print Assumptions C20_monitor_ref_programs.

Theorem C17_monitor_ref_programs :
  forall (c : runcase) tr, run_ref c = Ok tr -> Monitors.mon_C17 c tr = true.
Proof. exact RefMonitors.C17_monitor_ref_programs. Qed.
Print Assumptions C17_monitor_ref_programs.

(* the harness' verdict field "monitor on the model's trace" is constantly true *)
Theorem judge_model_accepts :
  forall mon,
    (forall c tr, run_ref c = Ok tr -> mon c tr = true) ->
    forall p c impl, Monitors.v_mon_model (Monitors.judge_with p mon c impl) = true.
Proof. exact RefMonitors.judge_model_accepts. Qed.
Print Assumptions judge_model_accepts.

(* the hypotheses are inhabited *)
Theorem monitors_ref_nonvacuous :
  exists tr, run_ref ex_case = Ok tr /\ existsb (fun r => cr_final r) tr = true
             /\ existsb (fun r => negb (cr_ret r)) tr = true
             /\ Monitors.mon_C08 ex_case tr = true /\ Monitors.mon_C14 ex_case tr = true
             /\ Monitors.mon_C20 ex_case tr = true /\ Monitors.mon_C17 ex_case tr = true.
Proof. exact RefMonitors.monitors_ref_nonvacuous. Qed.
Print Assumptions monitors_ref_nonvacuous.

(* all six monitors of Monitors.v accept every reference trace *)
Theorem monitors_ref_all :
  forall orc imm body f cs tr,
    run_script orc imm f body sched0 cs = Ok tr ->
    Monitors.holds_C01 tr = true /\ Monitors.holds_C07 cs tr = true /\ Monitors.holds_C08 imm cs tr = true
    /\ Monitors.holds_C14 cs tr = true /\ Monitors.holds_C17 cs tr = true /\ Monitors.holds_C20 cs tr = true.
Proof. exact RefMonitors.monitors_ref_all. Qed.
Print Assumptions monitors_ref_all.

(* and they are not trivially true: tampered copies of a reference trace are rejected *)
Theorem C08_rejects_wrong_return :
  Monitors.mon_C08 ex_case ex_trace = true
  /\ Monitors.mon_C08 ex_case (upd 0 (set_ret true) ex_trace) = false.
Proof. exact RefMonitors.C08_rejects_wrong_return. Qed.
Print Assumptions C08_rejects_wrong_return.

Theorem C14_rejects_unannounced :
  Monitors.holds_C14 (rc_script ex_case) ex_trace = true
  /\ Monitors.accepted_announced [] (upd 2 (fun _ => AFinish 99) (rc_script ex_case)) ex_trace = false.
Proof. exact RefMonitors.C14_rejects_unannounced. Qed.
Print Assumptions C14_rejects_unannounced.

Theorem C20_rejects_double_invocation :
  Monitors.mon_C20 ex_case ex_trace = true
  /\ Monitors.mon_C20 ex_case
       (upd 1 (set_log (fun l => match l with e :: t => e :: e :: t | [] => [] end)) ex_trace) = false.
Proof. exact RefMonitors.C20_rejects_double_invocation. Qed.
Print Assumptions C20_rejects_double_invocation.

Theorem C17_rejects_stray_observer_entry :
  Monitors.mon_C17 ex_case ex_trace = true
  /\ Monitors.mon_C17 ex_case (upd 1 (set_log (fun l => l ++ [EObs 7 TS 0 0 false])) ex_trace) = false.
Proof. exact RefMonitors.C17_rejects_stray_observer_entry. Qed.
Print Assumptions C17_rejects_stray_observer_entry.
