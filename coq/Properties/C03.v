(* Property C03 — Parallel blocks fork all branches at once and join before continuing.
   This file contains only statements proved elsewhere (RefDen.v, RefC01.v).

   What is proved, and for what:
   (1) C03_sync_partial — for EVERY program, oracle (valuation sequence), registration /
       observer configuration and fuel, under the schedule in which every service is reported
       finished from inside its own service-started notification, the interpreter issues
       exactly the denotation [den_*] of RefDen.v.  The clause of the denotation that states
       this property:
         [den_stmt] on XParallel / [den_list]: every branch of the block is started (task-started) within the same call, in source order, the same task may occur several times; what follows the block comes after the last branch's task-finished.
       PARTIAL: one schedule family (the fully re-entrant one), all programs and valuations.
   (2) C03_all_schedules_no_stall — for ALL schedules and histories the order completes
       exactly when nothing is outstanding (C01): no wake-up is lost and nothing is deferred
       to a later event.
   For the remaining schedules the behaviour stated by this property is the definition of the
   reference semantics (RefSem.v: deliver / deliver_block / deliver_list / loop_test), which
   the correspondence check compares with the implementation and with the net model on every
   run (all completion orders of generated programs, incl. re-entrant ones). *)
From PFDL Require Import RefSem RunCase Monitors RefShape RefDen RefC01 RefBase RefProgress RefConfluence.

Theorem C03_sync_partial :
  forall orc body fuel (s : sched) b s',
    sc_root s = None ->
    api_call orc itrue fuel body s AStart = Ok (b, s') ->
    exists evs mid q',
      cr_log (observe b s') = flat_map (render (g_ls (sc_g s)) (g_obs (sc_g s))) evs
      /\ den_block orc fuel [] body 0 (g_q (sc_g s)) = Ok (mid, q')
      /\ map erase evs = DN TS production_task root_site [] :: mid ++ [DN TF production_task root_site []]
      /\ cr_final (observe b s') = true /\ cr_running (observe b s') = false.
Proof. exact sync_order. Qed.
Print Assumptions C03_sync_partial.

Theorem C03_all_schedules_no_stall :
  forall orc imm body fuel script tr,
    run_script orc imm fuel body sched0 script = Ok tr -> holds_C01 tr = true.
Proof. exact C01_ref. Qed.
Print Assumptions C03_all_schedules_no_stall.

(* ==== ALL schedules (RefConfluence.v) ==== *)
(* all schedules, counter-free oracle: the history of a completed order is a permutation of the
   denotation, and no event ever occurs more often than in the denotation (every Parallel: all branches' events, exactly once each) *)
Theorem C03_confluence :
  forall orc imm fuel body script tr,
    counter_free orc ->
    run_script orc imm fuel body sched0 script = Ok tr ->
    (exists r, In r tr /\ cr_final r = true) ->
    exists F mid q',
      den_block orc F [] body 0 0 = Ok (mid, q') /\
      Permutation.Permutation
        (trace_devs tr)
        (DN TS production_task root_site [] :: mid ++ [DN TF production_task root_site []]).
Proof. exact confluence. Qed.
Print Assumptions C03_confluence.

Theorem C03_confluence_count :
  forall orc imm fuel body script tr F mid q' (p : dev -> bool),
    counter_free orc ->
    run_script orc imm fuel body sched0 script = Ok tr ->
    (exists r, In r tr /\ cr_final r = true) ->
    den_block orc F [] body 0 0 = Ok (mid, q') ->
    List.length (filter p (trace_devs tr)) =
    List.length (filter p (DN TS production_task root_site [] :: mid ++ [DN TF production_task root_site []])).
Proof. exact confluence_count. Qed.
Print Assumptions C03_confluence_count.

Theorem C03_confluence_prefix_count :
  forall orc imm fuel body script tr F mid q' (p : dev -> bool),
    counter_free orc ->
    run_script orc imm fuel body sched0 script = Ok tr ->
    den_block orc F [] body 0 0 = Ok (mid, q') ->
    List.length (filter p (trace_devs tr)) <=
    List.length (filter p (DN TS production_task root_site [] :: mid ++ [DN TF production_task root_site []])).
Proof. exact confluence_prefix_count. Qed.
Print Assumptions C03_confluence_prefix_count.
