(* C10 (second part) — fault classes about *types*: arguments and outputs of task calls (F17),
   operands of guards and loop limits (F04 / F05 / F18 as far as they are reported), values in
   struct literals at any depth (F08 / F09, nested F06 / F07) and the deeper steps of attribute
   paths (F05e–h).  This file contains only the property theorems; model: Check/CheckModel.v;
   proofs and the definitions of the predicates: Check/CheckProofsC10b.v; programs of the
   examples: Check/WitnessesC10b.v (generated from harness/faults.py).

   Shape of every theorem, as in C10.v: [has_fault_k p = true -> validate p <> Ok []], where
   has_fault_k = fault_somewhere (a decidable defect of a statement node): the node may be any
   statement of any task, at any depth inside loop bodies, Passed / Failed branches, and the
   task call that is the body of a parallel loop (descent lemma, C10_descent).

   The predicates compute the type of a path by [walk_ty] (field steps through struct types,
   index steps through array types) and not by the validator's own lookups.

   What the predicates cover (definitions in CheckProofsC10b.v):
   - has_fault_argument_type: a task call (plain, in a Parallel block, body of a parallel loop)
     of a defined task whose k-th argument has a type ([arg_type]: the declared type of a
     variable; the type of a path, also through array elements; the struct named by a literal)
     different from the type of the k-th declared input — positional; array types differ also
     when only their lengths differ.
   - has_fault_output_type: the type a task call declares for its k-th output differs from the
     type the k-th returned variable has in the called task.
   - has_fault_guard_operand: the guard of a While loop or a Condition contains, below And Or !
     == != and parentheses, (a) a path where a boolean is required that does not resolve
     (undeclared variable, unknown attribute at any step, impossible step) or whose type is
     string, a struct or an array, or (b) a comparison < <= > >= whose operands are neither both
     numbers nor both strings, or (c) an arithmetic operation with an operand that is not a
     number; an operand is a number when all its leaves (through parentheses and binary
     operators) are number literals, paths of type number — or boolean literals; an operand
     containing ! is not.
   - has_fault_limit_type: the limit of a counting loop (parallel or not) is a path that does
     not resolve or is not of type number.
   - has_fault_literal_value: a literal of a defined struct has an attribute whose value is not
     a value of the declared type, recursively: wrong primitive class; no struct / no list where
     one is declared; a nested struct with a missing, an unknown or an ill-typed attribute; a list
     whose length differs from a declared length (an empty list included) or with an ill-typed
     element — at any depth of nested structs and arrays of structs.
   - has_fault_array_length_by_name (F03f): an array whose length is given by a name.
   - has_fault_path_step: a path parameter whose variable is declared and is an array or no
     struct, or with an impossible step: unknown attribute at the 1st / 2nd / 3rd … step, a
     further step after an attribute that is no struct, an index on an attribute that is no
     array, a field directly after an array attribute.

   NOT reported today and therefore not covered (finding D12b, still open; witnesses:
   C10_F18_guard_type_refuted in C10.v and C10_equality_operand_types_refuted below): a literal
   or a number as condition, numbers under And Or !, a boolean literal in arithmetic, operands of
   different types under == !=, a comparison used as a number. *)
From PFDL Require Import Base Syntax.
From PFDL.Check Require Import CheckModel CheckProofsC10 CheckProofsC10b Guards Witnesses WitnessesC10b.

(* ---- the lifting used when the local lemma needs that process.structs is keyed by name ---- *)
Theorem C10_local_fault_anywhere_rejected_at : forall (P : env -> tdef -> stmt -> bool) p,
  (forall T pi s b es, P (visit_env p) T s = true -> check_stmt (visit_env p) T pi s = Ok (b, es) -> b = false) ->
  fault_somewhere P p = true -> validate p <> Ok [].
Proof. exact fault_somewhere_rejected_at. Qed.
Print Assumptions C10_local_fault_anywhere_rejected_at.

(* ---- class 1: arguments of task calls (F17a–e, g, h) and outputs (F17f) --------------------- *)
Theorem C10_F17_argument_type : forall p, has_fault_argument_type p = true -> validate p <> Ok [].
Proof. exact argument_type_rejected. Qed.
Print Assumptions C10_F17_argument_type.
Theorem C10_F17_output_type : forall p, has_fault_output_type p = true -> validate p <> Ok [].
Proof. exact output_type_rejected. Qed.
Print Assumptions C10_F17_output_type.

(* ---- class 2: operands of guards (F04c,d,g F05b,c,i F18a,b,c,i,k–p,r) and limits
   (F04e F05d F18f,q,s) ------------------------------------------------------------------------ *)
Theorem C10_F18_guard_operand : forall p, has_fault_guard_operand p = true -> validate p <> Ok [].
Proof. exact guard_operand_rejected. Qed.
Print Assumptions C10_F18_guard_operand.
Theorem C10_F18_limit_type : forall p, has_fault_limit_type p = true -> validate p <> Ok [].
Proof. exact limit_type_rejected. Qed.
Print Assumptions C10_F18_limit_type.

(* ---- class 3: values in struct literals (F08a–o, F09a–i, F06b,c, F07b,c) -------------------- *)
Theorem C10_F08_literal_value : forall p, has_fault_literal_value p = true -> validate p <> Ok [].
Proof. exact literal_value_rejected. Qed.
Print Assumptions C10_F08_literal_value.

(* ---- class 4: deeper path steps as parameter (F05e–h); in guards and limits a path with an
   impossible step has no type and is covered by class 2 ---------------------------------------- *)
Theorem C10_F05_path_step : forall p, has_fault_path_step p = true -> validate p <> Ok [].
Proof. exact path_step_rejected. Qed.
Print Assumptions C10_F05_path_step.
Theorem C10_F05_path_step_has_no_type : forall E T v es p sd,
  assoc v (td_vars T) = Some (TPlain p) -> struct_of_prim E p = Some sd ->
  bad_step E sd es = true -> path_ty E T v es = None.
Proof. exact path_step_has_no_type. Qed.
Print Assumptions C10_F05_path_step_has_no_type.

Theorem C10_F05_path_step_in_guard : forall E T v es p sd pr,
  assoc v (td_vars T) = Some (TPlain p) -> struct_of_prim E p = Some sd -> bad_step E sd es = true ->
  bool_path_fault E T v es = true /\ path_is E T pr v es = false.
Proof. exact path_step_in_guard. Qed.
Print Assumptions C10_F05_path_step_in_guard.

(* ---- F03f: an array length given by a name — in a struct attribute, a task input, or an output
   of a service / task call in any statement (parallel-loop bodies included) ---------------------- *)
Theorem C10_F03_array_length_by_name : forall p,
  has_fault_array_length_by_name p = true -> validate p <> Ok [].
Proof. exact array_length_by_name_rejected. Qed.
Print Assumptions C10_F03_array_length_by_name.
Theorem C10_F03_array_length_by_name_examples :
  has_fault_array_length_by_name w_D21_array_length_by_name = true
  /\ has_fault_array_length_by_name wb_len_by_name_input = true
  /\ has_fault_array_length_by_name wb_len_by_name_output = true
  /\ has_fault_array_length_by_name wb_good_small = false
  /\ validate wb_len_by_name_input = Ok [(KArrayLen, CTaskInParam 2 0)]
  /\ validate wb_len_by_name_output = Ok [(KArrayLen, CStmtOutParam 0 [1; 0] 0); (KOutTypeMismatch, CStmt 0 [1; 0])].
Proof. exact array_length_by_name_examples. Qed.
Print Assumptions C10_F03_array_length_by_name_examples.

(* ---- the predicates are inhabited: every catalogue entry of these classes satisfies the
   predicate of its class (fault nested in a loop and a Failed branch; wb_parloop_* in the body of
   a parallel loop, wb_parallel_* in a Parallel block), and they are false of the fault-free
   example ------------------------------------------------------------------------------------- *)
Theorem C10_type_fault_predicates_inhabited :
  has_fault_argument_type wb_f_F17a = true /\ has_fault_argument_type wb_f_F17b = true
  /\ has_fault_argument_type wb_f_F17c = true /\ has_fault_argument_type wb_f_F17d = true
  /\ has_fault_argument_type wb_f_F17e = true /\ has_fault_argument_type wb_f_F17g = true
  /\ has_fault_argument_type wb_f_F17h = true /\ has_fault_argument_type wb_parloop_arg_mismatch = true
  /\ has_fault_argument_type wb_parallel_arg_mismatch = true /\ has_fault_output_type wb_f_F17f = true
  /\ has_fault_guard_operand wb_f_F04c = true /\ has_fault_guard_operand wb_f_F04d = true
  /\ has_fault_guard_operand wb_f_F04g = true /\ has_fault_guard_operand wb_f_F05b = true
  /\ has_fault_guard_operand wb_f_F05c = true /\ has_fault_guard_operand wb_f_F05i = true
  /\ has_fault_guard_operand wb_f_F18a = true /\ has_fault_guard_operand wb_f_F18b = true
  /\ has_fault_guard_operand wb_f_F18c = true /\ has_fault_guard_operand wb_f_F18i = true
  /\ has_fault_guard_operand wb_f_F18k = true /\ has_fault_guard_operand wb_f_F18l = true
  /\ has_fault_guard_operand wb_f_F18m = true /\ has_fault_guard_operand wb_f_F18n = true
  /\ has_fault_guard_operand wb_f_F18o = true /\ has_fault_guard_operand wb_f_F18p = true
  /\ has_fault_guard_operand wb_f_F18r = true /\ has_fault_limit_type wb_f_F04e = true
  /\ has_fault_limit_type wb_f_F05d = true /\ has_fault_limit_type wb_f_F18f = true
  /\ has_fault_limit_type wb_f_F18q = true /\ has_fault_limit_type wb_f_F18s = true
  /\ has_fault_literal_value wb_f_F08a = true /\ has_fault_literal_value wb_f_F08b = true
  /\ has_fault_literal_value wb_f_F08c = true /\ has_fault_literal_value wb_f_F08d = true
  /\ has_fault_literal_value wb_f_F08e = true /\ has_fault_literal_value wb_f_F08f = true
  /\ has_fault_literal_value wb_f_F08g = true /\ has_fault_literal_value wb_f_F08h = true
  /\ has_fault_literal_value wb_f_F08i = true /\ has_fault_literal_value wb_f_F08j = true
  /\ has_fault_literal_value wb_f_F08k = true /\ has_fault_literal_value wb_f_F08l = true
  /\ has_fault_literal_value wb_f_F08m = true /\ has_fault_literal_value wb_f_F08n = true
  /\ has_fault_literal_value wb_f_F08o = true /\ has_fault_literal_value wb_f_F09a = true
  /\ has_fault_literal_value wb_f_F09b = true /\ has_fault_literal_value wb_f_F09c = true
  /\ has_fault_literal_value wb_f_F09d = true /\ has_fault_literal_value wb_f_F09e = true
  /\ has_fault_literal_value wb_f_F09f = true /\ has_fault_literal_value wb_f_F09g = true
  /\ has_fault_literal_value wb_f_F09h = true /\ has_fault_literal_value wb_f_F09i = true
  /\ has_fault_literal_value wb_f_F06b = true /\ has_fault_literal_value wb_f_F06c = true
  /\ has_fault_literal_value wb_f_F07b = true /\ has_fault_literal_value wb_f_F07c = true
  /\ has_fault_literal_value wb_parloop_literal_value = true /\ has_fault_path_step wb_f_F05e = true
  /\ has_fault_path_step wb_f_F05f = true /\ has_fault_path_step wb_f_F05g = true
  /\ has_fault_path_step wb_f_F05h = true /\ has_fault_path_step wb_parloop_path_step = true.
Proof. exact type_fault_predicates_inhabited. Qed.
Print Assumptions C10_type_fault_predicates_inhabited.

Theorem C10_type_fault_predicates_false_on_good :
  has_fault_argument_type wb_good_small = false /\ has_fault_output_type wb_good_small = false
  /\ has_fault_guard_operand wb_good_small = false /\ has_fault_limit_type wb_good_small = false
  /\ has_fault_literal_value wb_good_small = false /\ has_fault_path_step wb_good_small = false.
Proof. exact type_fault_predicates_false_on_good. Qed.
Print Assumptions C10_type_fault_predicates_false_on_good.

Theorem C10_type_faults_reported_at_their_position :
  validate wb_f_F17b = Ok [(KInTypeMismatch, CStmt 0 [0; 0; 1; 1])]
  /\ validate wb_f_F17f = Ok [(KOutTypeMismatch, CStmt 0 [0; 0; 1; 1])]
  /\ validate wb_f_F18c = Ok [(KCmpTypes, CStmt 0 [0; 0; 1; 1])]
  /\ validate wb_f_F18s = Ok [(KLimitNotNumber, CStmt 0 [0; 0; 1; 1])]
  /\ validate wb_f_F08n = Ok [(KArrayElem, CLitJson 0 [0; 0; 1; 1] 0); (KWrongTypeArray, CLitJson 0 [0; 0; 1; 1] 0);
                             (KWrongTypeArray, CLit 0 [0; 0; 1; 1] 0)]
  /\ validate wb_f_F09e = Ok [(KArrayLength, CLitJson 0 [0; 0; 1; 1] 0); (KWrongTypeArray, CLit 0 [0; 0; 1; 1] 0)]
  /\ validate wb_f_F05g = Ok [(KNoAttribute, CStmtIn 0 [0; 0; 1; 1])]
  /\ validate wb_parloop_arg_mismatch = Ok [(KInTypeMismatch, CStmt 0 [1; 0])]
  /\ validate wb_parallel_arg_mismatch = Ok [(KInTypeMismatch, CStmt 0 [1; 1])]
  /\ validate wb_parloop_path_step = Ok [(KNoAttribute, CStmtIn 0 [1; 0])].
Proof. exact type_faults_reported_at_their_position. Qed.
Print Assumptions C10_type_faults_reported_at_their_position.

(* ---- still false of the faithful model (known finding D12b) --------------------------------- *)
Theorem C10_equality_operand_types_refuted :
  (sh_bad_guard wb_eq_number_string = true /\ validate wb_eq_number_string = Ok [])
  /\ (sh_bad_guard wb_ne_number_boolean = true /\ validate wb_ne_number_boolean = Ok [])
  /\ (sh_bad_guard wb_comparison_as_number = true /\ validate wb_comparison_as_number = Ok []).
Proof. exact equality_operand_types_accepted. Qed.
Print Assumptions C10_equality_operand_types_refuted.
