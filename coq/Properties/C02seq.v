(* Property C02, sequencing part, ALL schedules — "each time a block is executed each of its
   statements is executed exactly once, in source order, and nothing belonging to a statement
   is started while an earlier statement of the same block is still in progress; when a
   statement completes the next statement's first notification is issued during that same
   scheduler call".  This file contains only statements proved in RefC02.v and
   Refine/TransferC02.v.

   The executable monitor (MonitorsSeq.v) reads what function 0 was told.  Per task instance
   ([n_ctx]) it keeps the statements in progress (by site: task name + index path in the
   source program) and the position of the statement started last, and demands
     (d) a statement is started in an open instance, its site lies in the task of the instance;
     (a) whatever is in progress in the instance when a statement is started is an EARLIER branch
         of the same Parallel or another instance of the same parallel loop (never a sibling
         statement of a block, never a statement of an enclosing / other block);
     (b) consecutive starts of an instance are in source order: where the positions diverge
         the index grows and the point of divergence is not a Condition, unless the common prefix
         lies in a loop (a new iteration); the same position again only if a proper prefix is a
         loop, or as the next instance of a parallel loop;
     (c) no deferral: a statement is started only in a call in which its instance was started or a
         statement of the instance finished earlier in that call, and at the end of every call
         every open task instance has a statement in progress;
     (e) a finished notification names a statement in progress; when a task instance is reported
         finished none of its statements is in progress.
   [holds_C02seq_with K] takes a classification K of index paths (loop / Condition / Parallel /
   parallel loop); [mon_C02seq c] instantiates it with [kind_at] computed from the SOURCE program
   of the case; [holds_C02seq] is program-free (every non-empty common prefix may be a loop, any
   two task calls with the same parent may be parallel siblings) and is implied by every
   [holds_C02seq_with K].

   (1) C02seq_reference_semantics / _free — every oracle, set of immediately completed services,
       fuel, script of API calls, every body whose sites are the positions of its statements
       under K ([sited_body]: the guard; it also says Parallel branches / parallel-loop bodies
       are task calls): the monitor accepts the trace of run_script.
   (2) C02seq_unfold_sited — the call-tree unfolding of every source program is sited under
       [kind_at] of that program; C02seq_programs / C02seq_programs_free — hence every trace of
       run_ref is accepted by [mon_C02seq] (what the check applies to the implementation's
       traces) and by [holds_C02seq].
   (3) C02seq_needs_sited / C02seq_needs_call_branches — without the guard the statement is
       FALSE in the reference semantics (evaluated witnesses); C02seq_guard_inhabited.
   (4) C02seq_monitor_meaning / _with / C02seq_run_meaning — what acceptance means, with the
       monitor's bookkeeping written as a check-free function of the history
       ([hist], [summ]); C02seq_marks_sound / C02seq_in_progress_sound characterise that
       bookkeeping by the notifications of the history.
   (5) rejected traces: two siblings in progress together, order swapped, a statement started
       twice, a start deferred to a later call (hand-written two-statement traces), and
       tampered copies of the reference trace of Examples.ex_case (which itself is accepted).
   (6) C02seq_net_fragment — on the fragment of the refinement theorem the FAITHFUL net model's
       trace is accepted.
   Outside the monitor (not visible in a trace): that NO statement is skipped (a Condition with an
   empty branch, a loop with zero iterations and a skipped statement look alike; the order
   completes only when nothing is outstanding: C01) — covered under the re-entrant schedule by
   C02_sync_partial and up to permutation by confluence (Properties/C02.v), and by the literal
   comparison of traces with the reference semantics on every generated case. *)
From PFDL Require Import RefSem RunCase Monitors MonitorsSeq Examples RefC04 RefC02 NetRun.
From PFDL.Refine Require Import Main TransferC02.

Theorem C02seq_reference_semantics :
  forall (K : name -> list nat -> skind) (orc : oracle) (imm : nat -> bool) (body : list xstmt)
         (fuel : nat) (script : list apicall) (tr : list callrec),
    sited_body K body ->
    run_script orc imm fuel body sched0 script = Ok tr -> holds_C02seq_with K tr = true.
Proof. exact C02_seq_with_ref. Qed.
Print Assumptions C02seq_reference_semantics.

Theorem C02seq_reference_semantics_free :
  forall (K : name -> list nat -> skind) (orc : oracle) (imm : nat -> bool) (body : list xstmt)
         (fuel : nat) (script : list apicall) (tr : list callrec),
    sited_body K body ->
    run_script orc imm fuel body sched0 script = Ok tr -> holds_C02seq tr = true.
Proof. exact C02_seq_ref. Qed.
Print Assumptions C02seq_reference_semantics_free.

Theorem C02seq_with_implies_free :
  forall (K : name -> list nat -> skind) (tr : list callrec),
    holds_C02seq_with K tr = true -> holds_C02seq tr = true.
Proof. exact C02seq_with_free. Qed.
Print Assumptions C02seq_with_implies_free.

Theorem C02seq_unfold_sited :
  forall (tasks : list task) (f : nat) (body : list xstmt),
    unfold_program tasks f = Ok body -> sited_body (kind_at tasks) body.
Proof. exact unfold_program_sited. Qed.
Print Assumptions C02seq_unfold_sited.

Theorem C02seq_programs :
  forall (c : runcase) (tr : list callrec), run_ref c = Ok tr -> mon_C02seq c tr = true.
Proof. exact C02_seq_programs. Qed.
Print Assumptions C02seq_programs.

Theorem C02seq_programs_free :
  forall (c : runcase) (tr : list callrec), run_ref c = Ok tr -> holds_C02seq tr = true.
Proof. exact C02_seq_free_programs. Qed.
Print Assumptions C02seq_programs_free.

(* ---- the guard ---- *)
Theorem C02seq_guard_inhabited : sited_body (kind_at (p_tasks (rc_prog ex_case))) ex_body.
Proof. exact ex_case_sited. Qed.
Print Assumptions C02seq_guard_inhabited.

Theorem C02seq_needs_sited :
  match run_script (fun _ _ => None) (fun _ => true) 20 ex_unsited_body sched0 [AStart] with
  | Ok tr => holds_C02seq tr = false
  | _ => False
  end.
Proof. exact C02_seq_needs_sited_refuted. Qed.
Print Assumptions C02seq_needs_sited.

Theorem C02seq_needs_call_branches :
  match run_script ex_nested_orc (fun _ => false) 100 ex_mixed_parallel_body sched0 [AStart] with
  | Ok tr => holds_C02seq tr = false
  | _ => False
  end.
Proof. exact C02_seq_needs_call_branches_refuted. Qed.
Print Assumptions C02seq_needs_call_branches.

(* ---- what acceptance means ---- *)
Theorem C02seq_run_meaning :
  forall (sib : name -> bool -> list nat -> bool -> list nat -> bool)
         (sok : name -> list nat -> list nat -> bool)
         (tr pre : list callrec) (r : callrec) (post : list callrec) (a : list notif) (n : notif) (b : list notif),
    seq_run sib sok seq0 tr = true -> tr = pre ++ r :: post -> call_notifs r = a ++ n :: b ->
    let H := fold_left summ a (new_call (hist seq0 pre)) in
    (forall c, n_ctx n = Some c ->
               (n_kind n = TS -> start_tests sib sok H true n c) /\
               (n_kind n = SS -> start_tests sib sok H false n c)) /\
    (n_kind n = TF -> In (oi_of n) (sq_tasks H) /\ has_kid (n_id n) (summ H n) = false) /\
    (n_kind n = SF -> In (oi_of n) (sq_svcs H)) /\
    seq_settled (fold_left summ (call_notifs r) (new_call (hist seq0 pre))) = true.
Proof. exact seq_run_meaning. Qed.
Print Assumptions C02seq_run_meaning.

Theorem C02seq_monitor_meaning :
  forall (tr pre : list callrec) (r : callrec) (post : list callrec) (a : list notif) (n : notif)
         (b : list notif) (c : nat),
    holds_C02seq tr = true -> tr = pre ++ r :: post -> call_notifs r = a ++ n :: b ->
    n_kind n = TS \/ n_kind n = SS -> n_ctx n = Some c ->
    let H := fold_left summ a (new_call (hist seq0 pre)) in
    (exists x, In x a /\ touches c x) /\
    (forall otk o, In o (ssel otk H) -> oi_ctx o = Some c ->
                   st_task (oi_site o) = st_task (n_site n) /\
                   sib_free otk (opath o) (nkind_eqb (n_kind n) TS) (st_path (n_site n)) = true) /\
    (forall t, assoc c (sq_last H) = Some t -> ok_free t (st_path (n_site n)) = true) /\
    (exists o, In o (sq_tasks H) /\ oi_id o = c /\ oi_name o = st_task (n_site n)).
Proof. exact holds_C02seq_meaning. Qed.
Print Assumptions C02seq_monitor_meaning.

Theorem C02seq_monitor_meaning_with :
  forall (K : name -> list nat -> skind) (tr pre : list callrec) (r : callrec) (post : list callrec)
         (a : list notif) (n : notif) (b : list notif) (c : nat),
    holds_C02seq_with K tr = true -> tr = pre ++ r :: post -> call_notifs r = a ++ n :: b ->
    n_kind n = TS \/ n_kind n = SS -> n_ctx n = Some c ->
    let H := fold_left summ a (new_call (hist seq0 pre)) in
    let tn := st_task (n_site n) in
    (exists x, In x a /\ touches c x) /\
    (forall otk o, In o (ssel otk H) -> oi_ctx o = Some c ->
                   st_task (oi_site o) = tn /\
                   sibK (K tn) otk (opath o) (nkind_eqb (n_kind n) TS) (st_path (n_site n)) = true) /\
    (forall t, assoc c (sq_last H) = Some t -> okK (K tn) t (st_path (n_site n)) = true) /\
    (exists o, In o (sq_tasks H) /\ oi_id o = c /\ oi_name o = tn).
Proof. exact holds_C02seq_with_meaning. Qed.
Print Assumptions C02seq_monitor_meaning_with.

Theorem C02seq_marks_sound :
  forall (a : list notif) (S : seqst) (c : nat),
    In c (sq_act (fold_left summ a S)) -> In c (sq_act S) \/ exists x, In x a /\ touches c x.
Proof. exact act_sound. Qed.
Print Assumptions C02seq_marks_sound.

Theorem C02seq_in_progress_sound :
  forall (a : list notif) (S : seqst) (tk : bool) (o : open_inst),
    In o (ssel tk (fold_left summ a S)) ->
    In o (ssel tk S) \/ exists x, In x a /\ n_kind x = (if tk then TS else SS) /\ oi_of x = o.
Proof. exact opens_sound. Qed.
Print Assumptions C02seq_in_progress_sound.

(* the tests on positions, spelled out *)
Theorem C02seq_sibling_test :
  forall (K : list nat -> skind) (otk : bool) (op : list nat) (ntk : bool) (np : list nat),
    sibK K otk op ntk np = true ->
    otk = true /\ ntk = true /\
    exists q i j, op = q ++ [i] /\ np = q ++ [j] /\ ((K q = Kparloop /\ i = j) \/ (K q = Kpar /\ i < j)).
Proof. exact sibK_inv. Qed.
Print Assumptions C02seq_sibling_test.

(* ---- accepted and rejected traces ---- *)
Theorem C02seq_example_accepted :
  List.length seq_ex_trace = 16 /\ mon_C02seq ex_case seq_ex_trace = true /\ holds_C02seq seq_ex_trace = true.
Proof. exact ex_case_seq_accepted. Qed.
Print Assumptions C02seq_example_accepted.

Theorem C02seq_rejects_siblings_together :
  holds_C02seq [mkrec [nroot TS; nsvc SS 1 [0] 0; nsvc SS 2 [1] 1]] = false.
Proof. exact siblings_together_rejected. Qed.
Print Assumptions C02seq_rejects_siblings_together.

Theorem C02seq_rejects_order_swapped :
  holds_C02seq [mkrec [nroot TS; nsvc SS 2 [1] 0];
                mkrec [nsvc SF 2 [1] 0; nsvc SS 1 [0] 1]] = false.
Proof. exact order_swapped_rejected. Qed.
Print Assumptions C02seq_rejects_order_swapped.

Theorem C02seq_rejects_started_twice :
  holds_C02seq [mkrec [nroot TS; nsvc SS 1 [0] 0];
                mkrec [nsvc SF 1 [0] 0; nsvc SS 1 [0] 1]] = false.
Proof. exact started_twice_rejected. Qed.
Print Assumptions C02seq_rejects_started_twice.

Theorem C02seq_rejects_deferred_start :
  holds_C02seq [mkrec [nroot TS; nsvc SS 1 [0] 0];
                mkrec [nsvc SF 1 [0] 0];
                mkrec [nsvc SS 2 [1] 1]] = false
  /\ holds_C02seq [mkrec [nroot TS; nsvc SS 1 [0] 0];
                   mkrec [nsvc SF 1 [0] 0]] = false.
Proof. exact deferred_start_rejected. Qed.
Print Assumptions C02seq_rejects_deferred_start.

Theorem C02seq_rejects_overlap_in_example :
  mon_C02seq ex_case (upd_nth 4 (map_notifs swap_last2) seq_ex_trace) = false
  /\ holds_C02seq (upd_nth 4 (map_notifs swap_last2) seq_ex_trace) = false.
Proof. exact ex_case_overlap_rejected. Qed.
Print Assumptions C02seq_rejects_overlap_in_example.

Theorem C02seq_rejects_branch_statement_twice :
  mon_C02seq ex_case (resite_trace [4; 5] [3; 0; 0] seq_ex_trace) = false
  /\ holds_C02seq (resite_trace [4; 5] [3; 0; 0] seq_ex_trace) = true.
Proof. exact ex_case_branch_twice_rejected. Qed.
Print Assumptions C02seq_rejects_branch_statement_twice.

Theorem C02seq_rejects_order_in_example :
  mon_C02seq ex_case (resite_trace [0] [7] seq_ex_trace) = false
  /\ holds_C02seq (resite_trace [0] [7] seq_ex_trace) = false.
Proof. exact ex_case_order_rejected. Qed.
Print Assumptions C02seq_rejects_order_in_example.

(* ---- the faithful net model, on the fragment of the refinement theorem ---- *)
Theorem C02seq_net_fragment :
  forall c tr tr1 f, in_fragment c = true -> run_ref c = Ok tr -> run_net_f f c = Ok tr1 ->
    mon_C02seq c tr1 = true.
Proof. exact net_C02seq_fragment. Qed.
Print Assumptions C02seq_net_fragment.

Theorem C02seq_net_fragment_free :
  forall c tr tr1 f, in_fragment c = true -> run_ref c = Ok tr -> run_net_f f c = Ok tr1 ->
    holds_C02seq tr1 = true.
Proof. exact net_C02seq_free_fragment. Qed.
Print Assumptions C02seq_net_fragment_free.
