(* C12 at the level of characters — the step below Properties/C12.v: from the characters of
   a text to the lexemes.  This file contains only the property theorems; the model is
   Front/CharLexer.v (the lexer of PFDLLexer.g4, rule by rule, with ANTLR's longest-match /
   first-rule / mode-stack discipline) and Front/CharRender.v (printing the line
   representation as characters), the proofs are in Front/CharLexerProofs.v and
   Gen/ObligationsCharLexer.v.  What is modelled and what is not: docs/front_component.md §7. *)
From PFDL.Front Require Import CharLexer CharRender CharLexerProofs CharModesProofs Denter DenterProofs Render.
From PFDL.Gen Require Import Keywords ObligationsCharLexer.
From Coq Require Import Ascii String List.

(* (a) For EVERY text t of the line representation, every interning of names [intern] and
   every way [sty] of spelling what the line representation leaves open (names, numbers,
   blanks between lexemes, trailing blanks as spaces / tabs, comment texts) that satisfy the
   executable predicate [text_ok] — every lexeme stands in the lexer mode it belongs to
   (default mode outside, JSON mode inside '{' ... '}'), no struct literal is open at the end
   of the text, no lone quote; identifiers are [a-z]/[A-Z] followed by [a-zA-Z0-9_]*, are no
   keyword and intern to their name; INTEGER spellings are digits denoting the value; FLOAT
   spellings match digits '.' digits and NUMBER spellings match the JSON number rule, and
   denote the value; string contents contain no quote and no backslash; between two lexemes
   there are only blanks, at least one where the second would otherwise be absorbed into the
   first (identifier characters after a word, a digit or '.' after an INTEGER, a digit after
   a FLOAT, '=' after '<' '>' '!', a digit / '.' / 'e' / 'E' after a NUMBER); trailing blanks
   are blanks of the recorded number and, on a line without lexemes, do not begin with a
   space; comments have the recorded length and contain no LF, and a comment inside a struct
   literal is not empty unless a CR follows — lexing the CHARACTERS of the printed text gives
   exactly [raw_tokens t], and the column of the first token that is not an NL is
   [first_column] of the lines whenever the text has a lexeme.
   [example_text_ok], [example_text2_ok] inhabit the guard. *)
Theorem C12_lex_render :
  forall intern sty t, text_ok intern sty t = true ->
    exists col, lex intern (render_chars sty t) = LexOk (raw_tokens t) col
                /\ (has_lexeme t = true -> col = first_column (logical_lines t)).
Proof. exact lex_render. Qed.
Print Assumptions C12_lex_render.

(* The round trip of C12 from characters: composition with C12_roundtrip. *)
Theorem C12_roundtrip_chars :
  forall intern sty L p,
    layout_wf L = true -> names_ok p = true -> nonempty_program p = true ->
    text_ok intern sty (render L p) = true ->
    front_end_chars intern (render_chars sty (render L p)) = FOk p.
Proof. exact roundtrip_chars. Qed.
Print Assumptions C12_roundtrip_chars.

(* [text_ok] = [text_modes_ok] (lines only: every lexeme in its lexer mode) && [text_style_ok]
   (characters only: spellings, blanks, comments), and the first half holds for every printed
   program of the guard: *)
Theorem C12_render_modes :
  forall L p, layout_wf L = true -> names_ok p = true -> text_modes_ok (render L p) = true.
Proof. exact render_modes. Qed.
Print Assumptions C12_render_modes.

(* ... so the round trip from characters needs character-level side conditions only.
   [example_text_style_ok] inhabits the guard. *)
Theorem C12_roundtrip_chars_style :
  forall intern sty L p,
    layout_wf L = true -> names_ok p = true -> nonempty_program p = true ->
    text_style_ok intern sty (render L p) = true ->
    front_end_chars intern (render_chars sty (render L p)) = FOk p.
Proof. exact roundtrip_chars_style. Qed.
Print Assumptions C12_roundtrip_chars_style.

(* ... the guard [nonempty_program] is exact: for the empty program and the text "   " the
   statement fails on the faithful model (and in the code), because DenterHelper looks at the
   column of EOF *)
Theorem C12_roundtrip_chars_full_refuted : ~ C12_roundtrip_chars_full.
Proof. exact roundtrip_chars_full_refuted. Qed.
Print Assumptions C12_roundtrip_chars_full_refuted.

(* (b) EVERY text: the lexemes the lexer matches tile the input up to the place of the error
   (nothing is consumed unmatched) ... *)
Theorem C12_lexer_consumes_only_matches :
  forall cs ls e, scan_all cs = (ls, e) ->
    (texts ls ++ match e with Some rest => rest | None => nil end)%list = cs.
Proof. exact scan_covers. Qed.
Print Assumptions C12_lexer_consumes_only_matches.

(* ... and a character outside the language (one of the 168 byte values in no rule's
   alphabet, Gen/ObligationsCharLexer.legal_characters) at a position that the lexer does not
   read as part of a comment or string literal makes it report an error at or before that
   position. *)
Theorem C12_lex_rejects_illegal :
  forall intern cs k c,
    nth_error cs k = Some c -> illegal c = true ->
    match covering (fst (scan_all cs)) k with Some r => free_text_rule r = false | None => True end ->
    exists ts off, lex intern cs = LexError ts off /\ off <= k.
Proof. exact lex_rejects_illegal. Qed.
Print Assumptions C12_lex_rejects_illegal.

(* the same with a guard that does not mention the lexer: no '#' and no quote before it *)
Theorem C12_lex_rejects_illegal_plain :
  forall intern pre c post,
    illegal c = true ->
    forallb (fun x => negb (Ascii.eqb x "#") && negb (Ascii.eqb x ch_quote))%bool pre = true ->
    exists ts off, lex intern (pre ++ c :: post)%list = LexError ts off /\ off <= length pre.
Proof. exact lex_rejects_illegal_plain. Qed.
Print Assumptions C12_lex_rejects_illegal_plain.

(* a lexer error makes the text invalid *)
Theorem C12_illegal_character_not_accepted :
  forall intern pre c post,
    illegal c = true ->
    forallb (fun x => negb (Ascii.eqb x "#") && negb (Ascii.eqb x ch_quote))%bool pre = true ->
    front_end_chars intern (pre ++ c :: post)%list = FSyntax.
Proof. exact illegal_not_accepted. Qed.
Print Assumptions C12_illegal_character_not_accepted.

(* (c) insignificant layout at character level: printed texts with the same structure give
   the same result — indentation widths, blank and comment-only lines, comment texts,
   trailing blanks, CR LF / LF, final newline, blanks between lexemes, spaces or tabs *)
Theorem C12_chars_layout_insensitive :
  forall intern s1 s2 t1 t2,
    text_ok intern s1 t1 = true -> text_ok intern s2 t2 = true ->
    has_lexeme t1 = true -> has_lexeme t2 = true ->
    layout_ok t1 = true -> layout_ok t2 = true -> canon t1 = canon t2 ->
    front_end_chars intern (render_chars s1 t1) = front_end_chars intern (render_chars s2 t2).
Proof. exact chars_layout_insensitive. Qed.
Print Assumptions C12_chars_layout_insensitive.

(* the rules of the character-level lexer are the rules of the current grammar file *)
Theorem C12_char_rules_are_source_rules :
  char_rule_sources = lexer_rules_from_source.
Proof. exact char_rules_tied. Qed.
Print Assumptions C12_char_rules_are_source_rules.
