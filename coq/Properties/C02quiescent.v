From PFDL Require Import NetModel NetRun NetC08 NetQuiescent.

(* ==== headline: run to quiescence, for every net state, with or without run-time generation ==== *)

(* when evaluate_petri_net returns, no transition of the net is enabled *)
Theorem C02q_evaluate_leaves_nothing_enabled :
  forall tasks env f s u s',
    evaluate tasks env f s = Ok (u, s') ->
    forall t, In t (ns_trans s') -> enabled s' t = false.
Proof. exact evaluate_all_quiescent. Qed.
Print Assumptions C02q_evaluate_leaves_nothing_enabled.

(* an accepted event (fire_event returned True): nothing is enabled when it returns *)
Theorem C02q_accepted_event_leaves_nothing_enabled :
  forall tasks env f ev s s',
    sched_fire_event tasks env f ev s = Ok (true, s') ->
    forall t, In t (ns_trans s') -> enabled s' t = false.
Proof. exact sched_fire_event_true_quiescent. Qed.
Print Assumptions C02q_accepted_event_leaves_nothing_enabled.

Theorem C02q_fire_event_keeps_quiescent :
  forall tasks env f ev s b s',
    sched_fire_event tasks env f ev s = Ok (b, s') -> quiescent s -> quiescent s'.
Proof. exact sched_fire_event_keeps_quiescent. Qed.
Print Assumptions C02q_fire_event_keeps_quiescent.

Theorem C02q_accepted_finish_leaves_nothing_enabled :
  forall tasks env f s id s',
    net_api_call tasks env f s (AFinish id) = Ok (true, s') ->
    forall t, In t (ns_trans s') -> enabled s' t = false.
Proof. exact api_finish_accepted_quiescent. Qed.
Print Assumptions C02q_accepted_finish_leaves_nothing_enabled.

Theorem C02q_accepted_start_leaves_nothing_enabled :
  forall tasks env f s b s',
    existsb (event_eqb EvStart) (ns_awaited s) = true ->
    has_place s (ns_start_place s) = true ->
    net_api_call tasks env f s AStart = Ok (b, s') ->
    forall t, In t (ns_trans s') -> enabled s' t = false.
Proof. exact api_start_accepted_quiescent. Qed.
Print Assumptions C02q_accepted_start_leaves_nothing_enabled.

Theorem C02q_any_call_keeps_quiescent :
  forall tasks env f s c b s',
    net_api_call tasks env f s c = Ok (b, s') ->
    (forall t, In t (ns_trans s) -> enabled s t = false) ->
    forall t, In t (ns_trans s') -> enabled s' t = false.
Proof. exact api_call_keeps_quiescent_dyn. Qed.
Print Assumptions C02q_any_call_keeps_quiescent.

Theorem C02q_any_call_sequence_keeps_quiescent :
  forall tasks env f s s',
    api_reach tasks env f s s' -> quiescent s -> quiescent s'.
Proof. exact api_reach_quiescent_dyn. Qed.
Print Assumptions C02q_any_call_sequence_keeps_quiescent.

Theorem C02q_scheduler_always_quiescent :
  forall tasks env test_ids f s0 s',
    net_init tasks test_ids = Ok s0 ->
    quiescentb s0 = true ->
    api_reach tasks env f s0 s' ->
    forall t, In t (ns_trans s') -> enabled s' t = false.
Proof. exact scheduler_always_quiescent. Qed.
Print Assumptions C02q_scheduler_always_quiescent.

Theorem C02q_script_states_all_quiescent :
  forall tasks env f cs s l,
    net_run_states tasks env f s cs = Ok l ->
    quiescent s ->
    Forall (fun bs => quiescent (snd bs)) l.
Proof. exact net_run_states_quiescent. Qed.
Print Assumptions C02q_script_states_all_quiescent.

Theorem C02q_script_states_are_the_script :
  forall tasks env f cs s,
    net_run_script tasks env f s cs =
    rbind (net_run_states tasks env f s cs)
          (fun l => Ok (map (fun bs => net_observe (fst bs) (snd bs)) l)).
Proof. exact net_run_script_states. Qed.
Print Assumptions C02q_script_states_are_the_script.

(* non-vacuity: a run with run-time generation (25 -> 27 transitions), all 16 calls return *)
Theorem C02q_inhabited :
  exists s0 l,
    net_init (p_tasks (rc_prog Examples.ex_case)) true = Ok s0 /\
    quiescentb s0 = true /\
    net_run_states (p_tasks (rc_prog Examples.ex_case)) (env_of Examples.ex_case) net_fuel s0
                   (rc_script Examples.ex_case) = Ok l /\
    List.length l = 16 /\
    List.length (ns_trans s0) = 25 /\
    existsb (fun bs => Nat.eqb (List.length (ns_trans (snd bs))) 27) l = true /\
    forallb (fun bs => quiescentb (snd bs)) l = true.
Proof. exact quiescence_inhabited. Qed.
Print Assumptions C02q_inhabited.

Theorem C02q_quiescentb_decides :
  forall s, quiescentb s = true <-> (forall t, In t (ns_trans s) -> enabled s t = false).
Proof. exact quiescentb_spec. Qed.
Print Assumptions C02q_quiescentb_decides.

(* the invariant behind it: every function of the block either leaves marking and structure
   of the net as they were, or returns with nothing enabled *)
Theorem C02q_block_unchanged_or_quiescent :
  forall tasks env f,
    (forall s u s', evaluate tasks env f s = Ok (u, s') -> quiescent s') /\
    (forall c, fpres unchanged_or_quiescent (run_cb tasks env f c)) /\
    (forall c s u s', is_parloop_cb c = true -> run_cb tasks env f c s = Ok (u, s') -> quiescent s') /\
    (forall a, fpres unchanged_or_quiescent (on_task_started tasks env f a)) /\
    (forall a, fpres unchanged_or_quiescent (on_service_started tasks env f a)) /\
    (forall a, fpres unchanged_or_quiescent (on_service_finished tasks env f a)) /\
    (forall a, fpres unchanged_or_quiescent (on_task_finished tasks env f a)) /\
    (forall k a b, fpres unchanged_or_quiescent (notify_user tasks env f k a b)) /\
    (forall k a, fpres unchanged_or_quiescent (engine_reacts tasks env f k a)) /\
    (forall ev, fpres unchanged_or_quiescent (sched_fire_event tasks env f ev)) /\
    (forall ev, fpres unchanged_or_quiescent (logic_fire_event tasks env f ev)).
Proof. exact quiescent_block. Qed.
Print Assumptions C02q_block_unchanged_or_quiescent.

(* the scan with an arbitrary callback runner that satisfies that invariant *)
Theorem C02q_scan_leaves_nothing_enabled :
  forall rc snap,
    (forall c, fpres unchanged_or_quiescent (rc c)) ->
    (forall pl s u s', is_parloop_cb pl = true -> rc pl s = Ok (u, s') -> quiescent s') ->
    forall g index s u s',
      scan_with rc snap g index s = Ok (u, s') ->
      disabled_below index s ->
      List.length (ns_trans s) = snap \/ quiescent s ->
      quiescent s'.
Proof. exact scan_with_all_quiescent. Qed.
Print Assumptions C02q_scan_leaves_nothing_enabled.

(* ==== the scan and the snapshot (statements about what one evaluation looked at) ==== *)
(* the scan of evaluate_petri_net, for an arbitrary callback runner: a scan ends either with
   every transition below the snapshot disabled, or in the parallel-loop exit *)
Theorem C02q_scan_pass_leaves_scanned_transitions_disabled :
  forall rc snap g s u s',
    scan_with rc snap g 0 s = Ok (u, s') ->
    disabled_below snap s' \/
    exists pl s1 u1, is_parloop_cb pl = true /\ rc pl s1 = Ok (u1, s').
Proof. exact scan_with_quiescent. Qed.
Print Assumptions C02q_scan_pass_leaves_scanned_transitions_disabled.

Theorem C02q_scan_invariant :
  forall rc snap (Rel : NS -> NS -> Prop),
    (forall s, Rel s s) ->
    (forall a b c, Rel a b -> Rel b c -> Rel a c) ->
    (forall c s u s', rc c s = Ok (u, s') -> Rel s s') ->
    (forall s index f, Rel s (s <| ns_cbs := upd index f (ns_cbs s) |>)) ->
    (forall t s u s', fire_trans t s = Ok (u, s') -> Rel s s') ->
    forall g index s u s',
      scan_with rc snap g index s = Ok (u, s') ->
      disabled_below index s ->
      disabled_below snap s' \/ parloop_exit rc Rel s s'.
Proof. exact scan_with_exits. Qed.
Print Assumptions C02q_scan_invariant.

Theorem C02q_scan_without_parallel_loop :
  forall rc snap g s u s',
    (forall pl s1 u1 s2, is_parloop_cb pl = true -> rc pl s1 <> Ok (u1, s2)) ->
    scan_with rc snap g 0 s = Ok (u, s') ->
    disabled_below snap s'.
Proof. exact scan_with_quiescent_no_parloop. Qed.
Print Assumptions C02q_scan_without_parallel_loop.

Theorem C02q_evaluate_is_the_scan :
  forall tasks env f s0,
    evaluate tasks env (S f) s0 =
    scan_with (run_cb tasks env f) (List.length (ns_trans s0)) f 0 s0.
Proof. exact evaluate_S. Qed.
Print Assumptions C02q_evaluate_is_the_scan.

Theorem C02q_evaluate_exits :
  forall tasks env f s u s',
    evaluate tasks env (S f) s = Ok (u, s') ->
    disabled_below (List.length (ns_trans s)) s' \/
    exists f' v lim ctx c csite ph t1 t2 s1 u1 s2,
      f = S f' /\ le_ns s s1 /\
      parloop_generate tasks env v lim ctx c csite ph t1 t2 s1 = Ok (u1, s2) /\
      evaluate tasks env f' s2 = Ok (u, s').
Proof. exact evaluate_exits. Qed.
Print Assumptions C02q_evaluate_exits.

Theorem C02q_evaluate_runs_to_quiescence :
  forall tasks env f s u s',
    evaluate tasks env f s = Ok (u, s') ->
    exists n, List.length (ns_trans s) <= n /\ n <= List.length (ns_trans s') /\
              forall i t, i < n -> nth_error (ns_trans s') i = Some t -> enabled s' t = false.
Proof. exact evaluate_quiescent. Qed.
Print Assumptions C02q_evaluate_runs_to_quiescence.

Theorem C02q_evaluate_static_net_nothing_enabled :
  forall tasks env f s u s',
    evaluate tasks env f s = Ok (u, s') ->
    List.length (ns_trans s') = List.length (ns_trans s) ->
    forall t, In t (ns_trans s') -> enabled s' t = false.
Proof. exact evaluate_quiescent_static. Qed.
Print Assumptions C02q_evaluate_static_net_nothing_enabled.

Theorem C02q_evaluate_old_transitions_disabled :
  forall tasks env f s u s',
    evaluate tasks env f s = Ok (u, s') ->
    forall i t, i < List.length (ns_trans s) -> nth_error (ns_trans s') i = Some t -> enabled s' t = false.
Proof. exact evaluate_old_transitions_disabled. Qed.
Print Assumptions C02q_evaluate_old_transitions_disabled.

Theorem C02q_fire_event_true_ran_to_quiescence :
  forall tasks env f ev s s',
    sched_fire_event tasks env f ev s = Ok (true, s') ->
    exists n, List.length (ns_trans s) <= n /\ n <= List.length (ns_trans s') /\ disabled_below n s'.
Proof. exact sched_fire_event_true. Qed.
Print Assumptions C02q_fire_event_true_ran_to_quiescence.

Theorem C02q_fire_event_false_changes_only_awaited :
  forall tasks env f ev s s',
    sched_fire_event tasks env f ev s = Ok (false, s') ->
    exists l, s' = s <| ns_awaited := l |>.
Proof. exact sched_fire_event_false. Qed.
Print Assumptions C02q_fire_event_false_changes_only_awaited.

Theorem C02q_logic_fire_event_false_changes_nothing :
  forall tasks env f ev s s',
    logic_fire_event tasks env f ev s = Ok (false, s') -> s' = s.
Proof. exact logic_fire_event_false. Qed.
Print Assumptions C02q_logic_fire_event_false_changes_nothing.

Theorem C02q_accepted_finish_nothing_enabled :
  forall tasks env f s id s',
    net_api_call tasks env f s (AFinish id) = Ok (true, s') ->
    List.length (ns_trans s') = List.length (ns_trans s) ->
    forall t, In t (ns_trans s') -> enabled s' t = false.
Proof. exact api_finish_accepted_static. Qed.
Print Assumptions C02q_accepted_finish_nothing_enabled.

Theorem C02q_accepted_finish_ran_to_quiescence :
  forall tasks env f s id s',
    net_api_call tasks env f s (AFinish id) = Ok (true, s') ->
    exists n, List.length (ns_trans s) <= n /\ n <= List.length (ns_trans s') /\ disabled_below n s'.
Proof. exact api_finish_accepted. Qed.
Print Assumptions C02q_accepted_finish_ran_to_quiescence.

Theorem C02q_accepted_start_nothing_enabled :
  forall tasks env f s b s',
    existsb (event_eqb EvStart) (ns_awaited s) = true ->
    has_place s (ns_start_place s) = true ->
    net_api_call tasks env f s AStart = Ok (b, s') ->
    List.length (ns_trans s') = List.length (ns_trans s) ->
    forall t, In t (ns_trans s') -> enabled s' t = false.
Proof. exact api_start_accepted_static. Qed.
Print Assumptions C02q_accepted_start_nothing_enabled.

Theorem C02q_rejected_call_leaves_net_untouched :
  forall tasks env f s c s',
    net_api_call tasks env f s c = Ok (false, s') ->
    ns_places s' = ns_places s /\ ns_trans s' = ns_trans s /\ ns_cbs s' = ns_cbs s.
Proof. exact api_rejected_same_net. Qed.
Print Assumptions C02q_rejected_call_leaves_net_untouched.

Theorem C02q_rejected_call_nothing_enabled :
  forall tasks env f s c s',
    net_api_call tasks env f s c = Ok (false, s') ->
    (forall t, In t (ns_trans s) -> enabled s t = false) ->
    forall t, In t (ns_trans s') -> enabled s' t = false.
Proof. exact api_rejected_quiescent. Qed.
Print Assumptions C02q_rejected_call_nothing_enabled.

Theorem C02q_any_call_keeps_static_net_quiescent :
  forall tasks env f s c b s',
    net_api_call tasks env f s c = Ok (b, s') ->
    List.length (ns_trans s') = List.length (ns_trans s) ->
    quiescent s -> quiescent s'.
Proof. exact api_call_keeps_quiescent. Qed.
Print Assumptions C02q_any_call_keeps_static_net_quiescent.

Theorem C02q_any_call_old_transitions_disabled :
  forall tasks env f s c b s',
    net_api_call tasks env f s c = Ok (b, s') ->
    quiescent s ->
    disabled_below (List.length (ns_trans s)) s'.
Proof. exact api_call_old_transitions_disabled. Qed.
Print Assumptions C02q_any_call_old_transitions_disabled.

Theorem C02q_any_call_sequence_keeps_static_net_quiescent :
  forall tasks env f s s',
    api_reach tasks env f s s' ->
    List.length (ns_trans s') = List.length (ns_trans s) ->
    quiescent s -> quiescent s'.
Proof. exact api_reach_quiescent. Qed.
Print Assumptions C02q_any_call_sequence_keeps_static_net_quiescent.

(* the net only grows (frame facts of the whole mutual block) *)
Theorem C02q_block_only_grows :
  forall tasks env f,
    pres (evaluate tasks env f) /\
    (forall c, pres (run_cb tasks env f c)) /\
    (forall a, pres (on_task_started tasks env f a)) /\
    (forall a, pres (on_service_started tasks env f a)) /\
    (forall a, pres (on_service_finished tasks env f a)) /\
    (forall a, pres (on_task_finished tasks env f a)) /\
    (forall k a b, pres (notify_user tasks env f k a b)) /\
    (forall k a, pres (engine_reacts tasks env f k a)) /\
    (forall ev, pres (sched_fire_event tasks env f ev)) /\
    (forall ev, pres (logic_fire_event tasks env f ev)).
Proof. exact pres_block. Qed.
Print Assumptions C02q_block_only_grows.

Theorem C02q_generator_only_grows :
  forall tasks f,
    (forall ctx tn pre ss first last il, pres (generate_statements tasks f ctx tn pre ss first last il)) /\
    (forall ctx tn path s t1 t2 il, pres (generate_stmt tasks f ctx tn path s t1 t2 il)) /\
    (forall c at_ ctx t1 t2 il, pres (generate_task_call tasks f c at_ ctx t1 t2 il)).
Proof. exact pres_generate. Qed.
Print Assumptions C02q_generator_only_grows.

Theorem C02q_api_call_only_grows :
  forall tasks env f s c b s',
    net_api_call tasks env f s c = Ok (b, s') -> le_ns s s'.
Proof. exact api_call_le_ns. Qed.
Print Assumptions C02q_api_call_only_grows.

(* ==== the frame rule and its instances ==== *)

Theorem C02q_frame_rule_block :
  forall (R : NS -> NS -> Prop), frame_sched R -> frame_net R ->
  forall tasks env f,
    fpres R (evaluate tasks env f) /\
    (forall c, fpres R (run_cb tasks env f c)) /\
    (forall a, fpres R (on_task_started tasks env f a)) /\
    (forall a, fpres R (on_service_started tasks env f a)) /\
    (forall a, fpres R (on_service_finished tasks env f a)) /\
    (forall a, fpres R (on_task_finished tasks env f a)) /\
    (forall k a b, fpres R (notify_user tasks env f k a b)) /\
    (forall k a, fpres R (engine_reacts tasks env f k a)) /\
    (forall ev, fpres R (sched_fire_event tasks env f ev)) /\
    (forall ev, fpres R (logic_fire_event tasks env f ev)).
Proof. intros R FS FN. exact (frame_block FS FN). Qed.
Print Assumptions C02q_frame_rule_block.

Theorem C02q_frame_rule_generator :
  forall (R : NS -> NS -> Prop), frame_sched R -> frame_net R ->
  forall tasks f,
    (forall ctx tn pre ss first last il, fpres R (generate_statements tasks f ctx tn pre ss first last il)) /\
    (forall ctx tn path s t1 t2 il, fpres R (generate_stmt tasks f ctx tn path s t1 t2 il)) /\
    (forall c at_ ctx t1 t2 il, fpres R (generate_task_call tasks f c at_ ctx t1 t2 il)).
Proof. intros R FS FN. exact (frame_generate FS FN). Qed.
Print Assumptions C02q_frame_rule_generator.

Theorem C02q_frame_instances :
  frame_ok le_ns /\ frame_ok fixed_fields /\ frame_ok counters_grow /\ frame_ok places_stable' /\
  frame_sched unchanged_or_quiescent.
Proof.
  exact (conj le_ns_frame (conj fixed_fields_frame (conj counters_grow_frame
        (conj places_stable_frame unchanged_or_quiescent_sched)))).
Qed.
Print Assumptions C02q_frame_instances.

Theorem C02q_fire_event_fixed_fields :
  forall tasks env f ev s b s',
    sched_fire_event tasks env f ev s = Ok (b, s') ->
    ns_start_place s' = ns_start_place s /\ ns_final_place s' = ns_final_place s /\
    ns_test_ids s' = ns_test_ids s /\ ns_ls s' = ns_ls s /\ ns_obs s' = ns_obs s.
Proof. exact sched_fire_event_fixed_fields. Qed.
Print Assumptions C02q_fire_event_fixed_fields.

Theorem C02q_fire_event_counters_grow :
  forall tasks env f ev s b s',
    sched_fire_event tasks env f ev s = Ok (b, s') ->
    ns_fresh s <= ns_fresh s' /\ ns_tid s <= ns_tid s' /\ ns_sid s <= ns_sid s' /\
    ns_nss s <= ns_nss s' /\ ns_nnot s <= ns_nnot s' /\
    exists es, ns_log s' = es ++ ns_log s.
Proof. exact sched_fire_event_counters_grow. Qed.
Print Assumptions C02q_fire_event_counters_grow.

Theorem C02q_fire_event_places_stable :
  forall tasks env f ev s b s',
    sched_fire_event tasks env f ev s = Ok (b, s') ->
    forall p, (nth_error (ns_places s) p = Some None -> nth_error (ns_places s') p = Some None) /\
              (p < List.length (ns_places s) -> has_place s' p = true -> has_place s p = true).
Proof. exact sched_fire_event_places_stable. Qed.
Print Assumptions C02q_fire_event_places_stable.

(* ==== the fuel only bounds the search ==== *)

Theorem C02q_fuel_monotone_block :
  forall tasks env f f', f <= f' ->
    mle (evaluate tasks env f) (evaluate tasks env f') /\
    (forall c, mle (run_cb tasks env f c) (run_cb tasks env f' c)) /\
    (forall a, mle (on_task_started tasks env f a) (on_task_started tasks env f' a)) /\
    (forall a, mle (on_service_started tasks env f a) (on_service_started tasks env f' a)) /\
    (forall a, mle (on_service_finished tasks env f a) (on_service_finished tasks env f' a)) /\
    (forall a, mle (on_task_finished tasks env f a) (on_task_finished tasks env f' a)) /\
    (forall k a b, mle (notify_user tasks env f k a b) (notify_user tasks env f' k a b)) /\
    (forall k a, mle (engine_reacts tasks env f k a) (engine_reacts tasks env f' k a)) /\
    (forall ev, mle (sched_fire_event tasks env f ev) (sched_fire_event tasks env f' ev)) /\
    (forall ev, mle (logic_fire_event tasks env f ev) (logic_fire_event tasks env f' ev)).
Proof. exact fuel_mono_block. Qed.
Print Assumptions C02q_fuel_monotone_block.

Theorem C02q_api_call_fuel_monotone :
  forall tasks env f f' s c r,
    f <= f' -> net_api_call tasks env f s c = Ok r -> net_api_call tasks env f' s c = Ok r.
Proof. exact api_call_fuel_mono. Qed.
Print Assumptions C02q_api_call_fuel_monotone.

Theorem C02q_script_fuel_monotone :
  forall tasks env f f' cs s r,
    f <= f' -> net_run_script tasks env f s cs = Ok r -> net_run_script tasks env f' s cs = Ok r.
Proof. exact net_run_script_fuel_mono. Qed.
Print Assumptions C02q_script_fuel_monotone.
