(* Property C20, the part about functions that are registered RE-ENTRANTLY, from inside a
   callback, while the scheduler iterates over the callback list of a notification (RefShape.v /
   NetShape.v cover registration between API calls).  Model: RegDispatch.v -- the loop of the
   four on_* handlers of scheduler.py over the LIVE list, register_callback_* refusing a function
   that is in the list, reactions of the callbacks, notifications dispatched nested inside the
   engine's callback (immediate completions), registrations from outside in between.
   A run is described by its events: [EInv m K g] (g invoked for notification m of kind K),
   [EReg m f K g ok] / [EOut K g ok] (a registration and its return value), [EEnd m K l] (the
   loop of notification m has ended; l = the list then).  [accepted K ev] = the functions
   accepted for K in ev, in order; [invoked m ev] = the functions invoked for m, in order.
   All lists, reactions, nestings, interleavings; statements are about runs that end
   ([run_steps ... = Some _]: a callback that registers a fresh function at every invocation
   keeps the Python loop running for ever).  Only statements proved in RegDispatchProofs.v. *)
From Coq Require Import List Arith.
From PFDL Require Import RegDispatch RegDispatchProofs.
Import ListNotations.

(* ---- the run is determined by its accepted registrations ---- *)
Theorem C20r_run_sound :
  forall fuel react steps n0 s ev n' s',
    run_steps fuel react steps n0 s = Some (ev, n', s') -> sound s ev /\ s' = replay ev s.
Proof. exact reg_run_sound. Qed.
Print Assumptions C20r_run_sound.

Theorem C20r_final_lists :
  forall fuel react steps n0 s ev n' s',
    run_steps fuel react steps n0 s = Some (ev, n', s') ->
    forall K, get K s' = get K s ++ accepted K ev.
Proof. exact reg_final_lists. Qed.
Print Assumptions C20r_final_lists.

(* ---- (3) registering a function that is registered is refused: False exactly if the function
   is in the list at that moment -- from the start, or accepted earlier (between calls, in an
   earlier notification, by another callback of the same dispatch, in the same callback); a
   refused registration is not among the accepted ones, i.e. changes no list ---- *)
Theorem C20r_return_value :
  forall fuel react steps n0 s ev n' s',
    run_steps fuel react steps n0 s = Some (ev, n', s') ->
    forall ev1 n f K g ok ev2,
      ev = ev1 ++ EReg n f K g ok :: ev2 -> ok = negb (memb g (get K s ++ accepted K ev1)).
Proof. exact reg_return_value. Qed.
Print Assumptions C20r_return_value.

Theorem C20r_return_value_outside :
  forall fuel react steps n0 s ev n' s',
    run_steps fuel react steps n0 s = Some (ev, n', s') ->
    forall ev1 K g ok ev2,
      ev = ev1 ++ EOut K g ok :: ev2 -> ok = negb (memb g (get K s ++ accepted K ev1)).
Proof. exact reg_return_value_outside. Qed.
Print Assumptions C20r_return_value_outside.

Theorem C20r_present_is_refused :
  forall fuel react steps n0 s ev n' s',
    run_steps fuel react steps n0 s = Some (ev, n', s') ->
    forall ev1 n f K g ok ev2,
      ev = ev1 ++ EReg n f K g ok :: ev2 -> In g (get K s) \/ In g (accepted K ev1) -> ok = false.
Proof. exact reg_present_is_refused. Qed.
Print Assumptions C20r_present_is_refused.

(* ---- (1), (2) the functions invoked for a notification, in order = the list of its kind when
   its loop ends = the starting list followed by the functions accepted for that kind before
   the loop ended, in order of acceptance ---- *)
Theorem C20r_invoked :
  forall fuel react steps n0 s ev n' s',
    run_steps fuel react steps n0 s = Some (ev, n', s') ->
    forall ev1 m K l ev2,
      ev = ev1 ++ EEnd m K l :: ev2 -> invoked m ev = l /\ l = get K s ++ accepted K ev1.
Proof. exact reg_invoked. Qed.
Print Assumptions C20r_invoked.

(* first the functions registered before the dispatch started, in registration order; then the
   functions accepted for the kind while the notification was being dispatched (by its callbacks
   or inside notifications nested in it): a function registered for the kind being dispatched
   IS invoked for the current notification, after the earlier ones *)
Theorem C20r_invoked_before_then_during :
  forall fuel react steps n0 s ev n' s',
    run_steps fuel react steps n0 s = Some (ev, n', s') ->
    forall ev0 e0 mid m K l ev2,
      ev = ev0 ++ e0 :: mid ++ EEnd m K l :: ev2 ->
      invoked m ev = (get K s ++ accepted K ev0) ++ accepted K (e0 :: mid).
Proof. exact reg_invoked_before_then_during. Qed.
Print Assumptions C20r_invoked_before_then_during.

Theorem C20r_every_dispatch_ends :
  forall fuel react steps n0 s ev n' s',
    run_steps fuel react steps n0 s = Some (ev, n', s') ->
    forall m K g, In (EInv m K g) ev -> exists l, In (EEnd m K l) ev.
Proof. exact reg_every_dispatch_ends. Qed.
Print Assumptions C20r_every_dispatch_ends.

Theorem C20r_never_invoked_unless_registered :
  forall fuel react steps n0 s ev n' s',
    run_steps fuel react steps n0 s = Some (ev, n', s') ->
    forall ev1 m K l ev2 g,
      ev = ev1 ++ EEnd m K l :: ev2 ->
      In g (invoked m ev) -> In g (get K s) \/ In g (accepted K ev1).
Proof. exact reg_never_invoked_unless_registered. Qed.
Print Assumptions C20r_never_invoked_unless_registered.

(* ---- (4) the lists stay duplicate-free: at the end, at every moment of the run ---- *)
Theorem C20r_nodup_final :
  forall fuel react steps n0 s ev n' s',
    run_steps fuel react steps n0 s = Some (ev, n', s') -> nodup s -> nodup s'.
Proof. exact reg_nodup_final. Qed.
Print Assumptions C20r_nodup_final.

Theorem C20r_nodup_always :
  forall fuel react steps n0 s ev n' s',
    run_steps fuel react steps n0 s = Some (ev, n', s') ->
    nodup s -> forall ev1 ev2, ev = ev1 ++ ev2 -> nodup (replay ev1 s).
Proof. exact reg_nodup_always. Qed.
Print Assumptions C20r_nodup_always.

(* no function is accepted twice for a kind, none that was registered at the start *)
Theorem C20r_accepted_once :
  forall fuel react steps n0 s ev n' s',
    run_steps fuel react steps n0 s = Some (ev, n', s') ->
    nodup s -> forall K, NoDup (get K s ++ accepted K ev).
Proof. exact reg_accepted_once. Qed.
Print Assumptions C20r_accepted_once.

(* nobody fires twice *)
Theorem C20r_nobody_twice :
  forall fuel react steps n0 s ev n' s',
    run_steps fuel react steps n0 s = Some (ev, n', s') ->
    nodup s ->
    forall ev1 m K l ev2, ev = ev1 ++ EEnd m K l :: ev2 -> NoDup (invoked m ev).
Proof. exact reg_nobody_twice. Qed.
Print Assumptions C20r_nobody_twice.

(* ---- (5) a function registered for a kind -- from the start or by an accepted registration --
   is invoked exactly once for every notification of that kind whose loop ends after that (in
   particular for every notification that starts later, nested or not) ---- *)
Theorem C20r_registered_invoked_once :
  forall fuel react steps n0 s ev n' s',
    run_steps fuel react steps n0 s = Some (ev, n', s') ->
    nodup s ->
    forall ev1 m K l ev2 g,
      ev = ev1 ++ EEnd m K l :: ev2 ->
      In g (get K s) \/ In g (accepted K ev1) -> count_occ Nat.eq_dec (invoked m ev) g = 1.
Proof. exact reg_registered_invoked_once. Qed.
Print Assumptions C20r_registered_invoked_once.

(* ---- one notification with everything nested in it ---- *)
Theorem C20r_one_notification :
  forall fuel react K ch n s ev n' s',
    run_node fuel react (Notif K ch) n s = Some (ev, n', s') ->
    invoked n ev = get K s ++ accepted K ev /\ get K s' = get K s ++ accepted K ev /\
    (nodup s -> NoDup (invoked n ev)).
Proof. exact reg_one_notification. Qed.
Print Assumptions C20r_one_notification.

Theorem C20r_one_notification_once :
  forall fuel react K ch n s ev n' s' g,
    run_node fuel react (Notif K ch) n s = Some (ev, n', s') ->
    nodup s -> In g (get K s) -> count_occ Nat.eq_dec (invoked n ev) g = 1.
Proof. exact reg_one_notification_once. Qed.
Print Assumptions C20r_one_notification_once.

(* ---- the deferred variant (registrations made during a dispatch are parked until the
   outermost dispatch has returned; seeded change C20-r3m2) ---- *)
Theorem C20r_dispatch_deferred_refuted :
  ~ (forall react steps n s, nodup s -> nodup (snd (run_deferred react steps n s))).
Proof. exact dispatch_deferred_refuted. Qed.
Print Assumptions C20r_dispatch_deferred_refuted.

Theorem C20r_dispatch_deferred_fires_twice :
  let ev := fst (run_deferred deferred_react [DNotify TS; DNotify TS] 0 deferred_start) in
  accepted TS ev = [5; 5] /\ count_occ Nat.eq_dec (invoked 1 ev) 5 = 2.
Proof. exact dispatch_deferred_fires_twice. Qed.
Print Assumptions C20r_dispatch_deferred_fires_twice.

Theorem C20r_dispatch_live_same_scenario :
  exists ev n s',
    run_steps 20 deferred_react [Top (Notif TS []); Top (Notif TS [])] 0 deferred_start = Some (ev, n, s')
    /\ accepted TS ev = [5] /\ invoked 0 ev = [0; 1; 2; 5] /\ invoked 1 ev = [0; 1; 2; 5]
    /\ get TS s' = [0; 1; 2; 5].
Proof. exact dispatch_live_same_scenario. Qed.
Print Assumptions C20r_dispatch_live_same_scenario.
