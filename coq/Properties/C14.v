(* Property C14 — instance identifiers are unique within an order.
   Statements proved in RefIds.v (reference semantics), nothing else.
   Proved: uniqueness (no two task-started notifications and no two service-started
   notifications of a history carry the same identifier, for every program, valuation,
   completion order and history).  NOT proved here (checked by the lifecycle monitor on the
   implementation's traces, see DESIGN.md): that the finished notification and the accepted
   completion event carry the identifier announced at the start. *)
From PFDL Require Import RefSem RunCase Monitors RefIds.

Theorem C14_identifiers_come_from_disjoint_ranges :
  forall orc imm body fuel cs tr,
    run_script orc imm fuel body sched0 cs = Ok tr -> ranged 0 0 tr.
Proof. intros orc imm body fuel cs tr H. exact (ranged_ref orc imm body fuel cs sched0 tr H). Qed.
Print Assumptions C14_identifiers_come_from_disjoint_ranges.

(* two started notifications of the same kind (both task-started or both service-started),
   anywhere in a history, with the same identifier are one and the same notification (delivered
   to several registered functions) *)
Theorem C14_unique_partial :
  forall orc imm body fuel cs tr i j ri rj l1 n1 r1 l2 n2 r2,
    run_script orc imm fuel body sched0 cs = Ok tr ->
    nth_error tr i = Some ri -> nth_error tr j = Some rj ->
    In (ENotif l1 n1 r1) (cr_log ri) -> In (ENotif l2 n2 r2) (cr_log rj) ->
    started_kind (n_kind n1) -> n_kind n1 = n_kind n2 -> n_id n1 = n_id n2 ->
    i = j /\ n1 = n2.
Proof.
  intros orc imm body fuel cs tr i j ri rj l1 n1 r1 l2 n2 r2 H.
  exact (ranged_unique tr 0 0 i j ri rj l1 n1 r1 l2 n2 r2 (ranged_ref orc imm body fuel cs sched0 tr H)).
Qed.
Print Assumptions C14_unique_partial.
