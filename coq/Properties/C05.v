(* Property C05 — loops iterate exactly as often as their bound or guard dictates.
   This file contains only statements proved elsewhere (RefDen.v, RefC01.v).

   What is proved, and for what:
   (1) C05_sync_partial — for EVERY program, oracle (valuation sequence), registration /
       observer configuration and fuel, under the schedule in which every service is reported
       finished from inside its own service-started notification, the interpreter issues
       exactly the denotation [den_*] of RefDen.v.  The clause of the denotation that states
       this property:
         [den_loop]: a counting loop reads its limit n before every test and runs its body for k = 0, 1, ... while k < n, i.e. exactly max(n,0) times for a constant limit, sequentially, each time the loop is reached ([den_stmt] starts it at k = 0); a while loop queries its guard before every iteration, runs the body once per true evaluation and leaves at the first false one.
       PARTIAL: one schedule family (the fully re-entrant one), all programs and valuations.
   (2) C05_all_schedules_no_stall — for ALL schedules and histories the order completes
       exactly when nothing is outstanding (C01): no wake-up is lost and nothing is deferred
       to a later event.
   For the remaining schedules the behaviour stated by this property is the definition of the
   reference semantics (RefSem.v: deliver / deliver_block / deliver_list / loop_test), which
   the correspondence check compares with the implementation and with the net model on every
   run (all completion orders of generated programs, incl. re-entrant ones). *)
From PFDL Require Import RefSem RunCase Monitors RefShape RefDen RefC01 RefBase RefProgress RefConfluence.

Theorem C05_sync_partial :
  forall orc body fuel (s : sched) b s',
    sc_root s = None ->
    api_call orc itrue fuel body s AStart = Ok (b, s') ->
    exists evs mid q',
      cr_log (observe b s') = flat_map (render (g_ls (sc_g s)) (g_obs (sc_g s))) evs
      /\ den_block orc fuel [] body 0 (g_q (sc_g s)) = Ok (mid, q')
      /\ map erase evs = DN TS production_task root_site [] :: mid ++ [DN TF production_task root_site []]
      /\ cr_final (observe b s') = true /\ cr_running (observe b s') = false.
Proof. exact sync_order. Qed.
Print Assumptions C05_sync_partial.

Theorem C05_all_schedules_no_stall :
  forall orc imm body fuel script tr,
    run_script orc imm fuel body sched0 script = Ok tr -> holds_C01 tr = true.
Proof. exact C01_ref. Qed.
Print Assumptions C05_all_schedules_no_stall.

(* ==== ALL schedules: the history is a permutation of the denotation (RefConfluence.v) ==== *)
(* Property C05 (and the execution-order properties in general), all schedules — the
   denotation [den_*] of RefDen.v describes EVERY completion order, up to interleaving.
   This file contains only statements proved in RefConfluence.v.

   Setting: an oracle whose answers do not depend on the query counter ([counter_free orc],
   e.g. [corc rho], or the harness oracle [orc_of vals] with at most one value); ANY choice
   [imm] of services completed from inside their own notification; ANY script of API calls
   (completions in any order, unknown / duplicate identifiers, junk, repeated start(),
   registrations, observers).

   [trace_devs tr] are the erased events of a history: what function 0 (registered once per
   kind by default) is told, and the oracle queries, call after call.

   What is proved:
   (1) C05_confluence — if the order completed, the denotation of the production task's body
       exists (for some fuel) and the history is a PERMUTATION of
           production task started, den_block body, production task finished.
       C05_confluence_any_fuel — ... for every fuel at which den_block succeeds.
       In particular a run that contains a while loop whose (constant) guard is true never
       completes, and guards / limits are evaluated as often as the denotation says.
   (2) C05_confluence_count / _count_occ — every event (service started at a site with given
       parameters, task finished, query of a variable, ...) occurs in the history exactly as
       often as in the denotation.
   (3) C05_literal_loop_all_schedules — an order that is one counting loop with literal limit N:
       the history is a permutation of the body's denotation for the indices 0..N-1 between
       started / finished; C05_service_in_literal_loop — its service is started exactly N times.
   (4) the invariants behind (1): C05_start_invariant (what a start emits + the residual
       denotation of the resulting state is a permutation of the denotation),
       C05_deliver_invariant (what a delivery emits + residual after = residual before).
   (4b) histories that are NOT complete: C05_confluence_prefix — whenever den_block of the body
       succeeds, at every point of every history "emitted so far ++ residual of the state reached"
       is a permutation of the denotation; C05_confluence_prefix_count — so no event ever occurs
       more often than in the denotation; C05_service_in_literal_loop_at_most.
       C05_residual_exists_start / _deliver — the residual exists whenever the denotation does.
   (5) C05_confluence_nonvacuous — a Parallel of two tasks followed by a counting loop whose
       limit is read from a variable, completed out of source order: the history differs from
       the denotation and is a permutation of it.
       C05_confluence_needs_counter_free — for an oracle that depends on the query counter the
       multiset of events depends on the completion order (so the hypothesis is needed). *)
Theorem C05_confluence :
  forall orc imm fuel body script tr,
    counter_free orc ->
    run_script orc imm fuel body sched0 script = Ok tr ->
    (exists r, In r tr /\ cr_final r = true) ->
    exists F mid q',
      den_block orc F [] body 0 0 = Ok (mid, q') /\
      Permutation.Permutation
        (trace_devs tr)
        (DN TS production_task root_site [] :: mid ++ [DN TF production_task root_site []]).
Proof. exact confluence. Qed.
Print Assumptions C05_confluence.

Theorem C05_confluence_any_fuel :
  forall orc imm fuel body script tr F mid q',
    counter_free orc ->
    run_script orc imm fuel body sched0 script = Ok tr ->
    (exists r, In r tr /\ cr_final r = true) ->
    den_block orc F [] body 0 0 = Ok (mid, q') ->
    Permutation.Permutation
      (trace_devs tr)
      (DN TS production_task root_site [] :: mid ++ [DN TF production_task root_site []]).
Proof. exact confluence_any_fuel. Qed.
Print Assumptions C05_confluence_any_fuel.

Theorem C05_confluence_last :
  forall orc imm fuel body script tr r0,
    counter_free orc ->
    run_script orc imm fuel body sched0 script = Ok tr ->
    tr <> [] -> cr_final (last tr r0) = true ->
    exists F mid q',
      den_block orc F [] body 0 0 = Ok (mid, q') /\
      Permutation.Permutation
        (trace_devs tr)
        (DN TS production_task root_site [] :: mid ++ [DN TF production_task root_site []]).
Proof. exact confluence_last. Qed.
Print Assumptions C05_confluence_last.

Theorem C05_confluence_corc :
  forall rho imm fuel body script tr,
    run_script (corc rho) imm fuel body sched0 script = Ok tr ->
    (exists r, In r tr /\ cr_final r = true) ->
    exists F mid q',
      den_block (corc rho) F [] body 0 0 = Ok (mid, q') /\
      Permutation.Permutation
        (trace_devs tr)
        (DN TS production_task root_site [] :: mid ++ [DN TF production_task root_site []]).
Proof. exact (fun rho imm fuel body script tr => confluence _ imm fuel body script tr (corc_counter_free rho)). Qed.
Print Assumptions C05_confluence_corc.

Theorem C05_confluence_run_ref :
  forall (c : runcase) tr,
    List.length (rc_vals c) <= 1 ->
    run_ref c = Ok tr ->
    (exists r, In r tr /\ cr_final r = true) ->
    exists body F mid q',
      unfold_program (p_tasks (rc_prog c)) 200 = Ok body /\
      den_block (orc_of (rc_vals c)) F [] body 0 0 = Ok (mid, q') /\
      Permutation.Permutation
        (trace_devs tr)
        (DN TS production_task root_site [] :: mid ++ [DN TF production_task root_site []]).
Proof. exact confluence_run_ref. Qed.
Print Assumptions C05_confluence_run_ref.

Theorem C05_confluence_count :
  forall orc imm fuel body script tr F mid q' (p : dev -> bool),
    counter_free orc ->
    run_script orc imm fuel body sched0 script = Ok tr ->
    (exists r, In r tr /\ cr_final r = true) ->
    den_block orc F [] body 0 0 = Ok (mid, q') ->
    List.length (filter p (trace_devs tr)) =
    List.length (filter p (DN TS production_task root_site [] :: mid ++ [DN TF production_task root_site []])).
Proof. exact confluence_count. Qed.
Print Assumptions C05_confluence_count.

Theorem C05_confluence_count_occ :
  forall orc imm fuel body script tr F mid q' (e : dev),
    counter_free orc ->
    run_script orc imm fuel body sched0 script = Ok tr ->
    (exists r, In r tr /\ cr_final r = true) ->
    den_block orc F [] body 0 0 = Ok (mid, q') ->
    count_occ dev_eq_dec (trace_devs tr) e =
    count_occ dev_eq_dec (DN TS production_task root_site [] :: mid ++ [DN TF production_task root_site []]) e.
Proof. exact confluence_count_occ_dev. Qed.
Print Assumptions C05_confluence_count_occ.

Theorem C05_literal_loop_all_schedules :
  forall orc imm fuel script tr v N b,
    counter_free orc ->
    run_script orc imm fuel [XCount v (LimInt N) b] sched0 script = Ok tr ->
    (exists r, In r tr /\ cr_final r = true) ->
    exists Ds, List.length Ds = N /\
               (forall k, k < N -> exists Fk qa qb,
                     den_block orc Fk [(v, k)] b 0 qa = Ok (nth k Ds [], qb)) /\
               Permutation.Permutation
                 (trace_devs tr)
                 (DN TS production_task root_site [] :: concat Ds ++ [DN TF production_task root_site []]).
Proof. exact RefConfluence.C05_literal_loop_all_schedules. Qed.
Print Assumptions C05_literal_loop_all_schedules.

Theorem C05_service_in_literal_loop :
  forall orc imm fuel script tr v N n a ins,
    counter_free orc ->
    run_script orc imm fuel [XCount v (LimInt N) [XService n a ins]] sched0 script = Ok tr ->
    (exists r, In r tr /\ cr_final r = true) ->
    List.length (filter (is_start_of n a) (trace_devs tr)) = N.
Proof. exact RefConfluence.C05_service_in_literal_loop. Qed.
Print Assumptions C05_service_in_literal_loop.

(* the denotation of a literal counting loop, any oracle *)
Theorem C05_den_count_literal :
  forall orc F ie v N b k q D q',
    den_loop orc F ie (XCount v (LimInt N) b) k q = Ok (D, q') ->
    exists Ds, D = concat Ds /\ List.length Ds = N - k /\
               forall j, j < N - k ->
                         exists qa qb, den_block orc F ((v, k + j) :: ie) b 0 qa = Ok (nth j Ds [], qb).
Proof. exact den_count_literal. Qed.
Print Assumptions C05_den_count_literal.

(* ---- the invariants ---- *)
Theorem C05_start_invariant :
  forall orc, counter_free orc -> forall imm f,
      (forall ctx ie s g st g',
          start_stmt orc imm f ctx ie s g = Ok (st, g') ->
          exists E, LogD E g g' /\
                    forall R, RS orc ie s st R ->
                              exists D, DS orc ie s D /\ Permutation.Permutation D (E ++ R)) /\
      (forall ctx ie ss i g r g',
          run_block orc imm f ctx ie ss i g = Ok (r, g') ->
          exists E, LogD E g g' /\
                    forall R, RO orc ie ss r R ->
                              exists D, DB orc ie ss i D /\ Permutation.Permutation D (E ++ R)) /\
      (forall ctx l g sts g',
          start_list orc imm f ctx l g = Ok (sts, g') ->
          exists E, LogD E g g' /\
                    forall R, RL orc l sts R ->
                              exists D, DL orc l D /\ Permutation.Permutation D (E ++ R)) /\
      (forall ctx ie s k g st g',
          loop_test orc imm f ctx ie s k g = Ok (st, g') ->
          exists E, LogD E g g' /\
                    forall R, RS orc ie s st R ->
                              exists D, DLoop orc ie s k D /\ Permutation.Permutation D (E ++ R)).
Proof. exact start_conf. Qed.
Print Assumptions C05_start_invariant.

Theorem C05_start_invariant_den :
  forall orc imm f ctx ie s g st g' F D q' R,
    counter_free orc ->
    start_stmt orc imm f ctx ie s g = Ok (st, g') ->
    den_stmt orc F ie s (g_q g) = Ok (D, q') ->
    RS orc ie s st R ->
    exists E, LogD E g g' /\ Permutation.Permutation D (E ++ R).
Proof. exact start_stmt_den. Qed.
Print Assumptions C05_start_invariant_den.

Theorem C05_deliver_invariant :
  forall orc, counter_free orc -> forall imm f,
      (forall ctx ie s st id g st' g',
          deliver orc imm f ctx ie s st id g = Ok (Some st', g') -> wf s st ->
          exists E, LogD E g g' /\
                    forall R', RS orc ie s st' R' ->
                               exists R, RS orc ie s st R /\ Permutation.Permutation R (E ++ R')) /\
      (forall ctx ie ss i sti id g r g',
          deliver_block orc imm f ctx ie ss i sti id g = Ok (Some r, g') -> wf_block ss i sti ->
          exists E, LogD E g g' /\
                    forall R', RO orc ie ss r R' ->
                               exists R, RB orc ie ss i sti R /\ Permutation.Permutation R (E ++ R')) /\
      (forall ctx l sts id g sts' g',
          deliver_list orc imm f ctx l sts id g = Ok (Some sts', g') -> wf_list l sts ->
          exists E, LogD E g g' /\
                    forall R', RL orc l sts' R' ->
                               exists R, RL orc l sts R /\ Permutation.Permutation R (E ++ R')).
Proof. exact deliver_conf. Qed.
Print Assumptions C05_deliver_invariant.

(* one API call: what it logs + what is still to come afterwards = what was still to come *)
Theorem C05_api_invariant :
  forall orc, counter_free orc -> forall imm body f s c b s',
      PInv body s -> lst_all (g_ls (sc_g s)) ->
      api_call orc imm f body s c = Ok (b, s') ->
      forall R', RRoot orc body (sc_root s') R' ->
                 exists R, RRoot orc body (sc_root s) R /\
                           Permutation.Permutation R (dev_of_log (cr_log (observe b s')) ++ R').
Proof. exact api_conf. Qed.
Print Assumptions C05_api_invariant.

(* ---- histories that are not complete ---- *)
(* whenever the denotation exists: emitted so far + residual of the state reached is a
   permutation of the denotation; hence no event ever occurs more often than the denotation says *)
Theorem C05_confluence_prefix :
  forall orc imm fuel body script tr F mid q',
    counter_free orc ->
    run_script orc imm fuel body sched0 script = Ok tr ->
    den_block orc F [] body 0 0 = Ok (mid, q') ->
    exists sF rest,
      exec orc imm body fuel sched0 script = Ok sF /\
      RRoot orc body (sc_root sF) rest /\
      Permutation.Permutation
        (DN TS production_task root_site [] :: mid ++ [DN TF production_task root_site []])
        (trace_devs tr ++ rest).
Proof. exact confluence_prefix. Qed.
Print Assumptions C05_confluence_prefix.

Theorem C05_confluence_prefix_count :
  forall orc imm fuel body script tr F mid q' (p : dev -> bool),
    counter_free orc ->
    run_script orc imm fuel body sched0 script = Ok tr ->
    den_block orc F [] body 0 0 = Ok (mid, q') ->
    List.length (filter p (trace_devs tr)) <=
    List.length (filter p (DN TS production_task root_site [] :: mid ++ [DN TF production_task root_site []])).
Proof. exact confluence_prefix_count. Qed.
Print Assumptions C05_confluence_prefix_count.

Theorem C05_service_in_literal_loop_at_most :
  forall orc imm fuel script tr v N n a ins,
    counter_free orc ->
    run_script orc imm fuel [XCount v (LimInt N) [XService n a ins]] sched0 script = Ok tr ->
    List.length (filter (is_start_of n a) (trace_devs tr)) <= N.
Proof. exact RefConfluence.C05_service_in_literal_loop_at_most. Qed.
Print Assumptions C05_service_in_literal_loop_at_most.

(* the residual of the state a start / a delivery produces exists whenever the denotation /
   the residual before does *)
Theorem C05_residual_exists_start :
  forall orc, counter_free orc -> forall imm f,
      (forall ctx ie s g st g',
          start_stmt orc imm f ctx ie s g = Ok (st, g') ->
          forall D, DS orc ie s D -> exists R, RS orc ie s st R) /\
      (forall ctx ie ss i g r g',
          run_block orc imm f ctx ie ss i g = Ok (r, g') ->
          forall D, DB orc ie ss i D -> exists R, RO orc ie ss r R) /\
      (forall ctx l g sts g',
          start_list orc imm f ctx l g = Ok (sts, g') ->
          forall D, DL orc l D -> exists R, RL orc l sts R) /\
      (forall ctx ie s k g st g',
          loop_test orc imm f ctx ie s k g = Ok (st, g') ->
          forall D, DLoop orc ie s k D -> exists R, RS orc ie s st R).
Proof. exact start_fwd. Qed.
Print Assumptions C05_residual_exists_start.

Theorem C05_residual_exists_deliver :
  forall orc, counter_free orc -> forall imm f,
      (forall ctx ie s st id g st' g',
          deliver orc imm f ctx ie s st id g = Ok (Some st', g') ->
          forall R, RS orc ie s st R -> exists R', RS orc ie s st' R') /\
      (forall ctx ie ss i sti id g r g',
          deliver_block orc imm f ctx ie ss i sti id g = Ok (Some r, g') ->
          forall R, RB orc ie ss i sti R -> exists R', RO orc ie ss r R') /\
      (forall ctx l sts id g sts' g',
          deliver_list orc imm f ctx l sts id g = Ok (Some sts', g') ->
          forall R, RL orc l sts R -> exists R', RL orc l sts' R').
Proof. exact deliver_fwd. Qed.
Print Assumptions C05_residual_exists_deliver.

(* the executable residual [rest_*] computes the relation [RS]/[RB]/[RL] *)
Theorem C05_rest_sound :
  forall orc, counter_free orc -> forall f,
      (forall ie s st R, rest_stmt orc f ie s st = Ok R -> RS orc ie s st R) /\
      (forall ie ss i st R, rest_block orc f ie ss i st = Ok R -> RB orc ie ss i st R) /\
      (forall l sts R, rest_list orc f l sts = Ok R -> RL orc l sts R).
Proof. exact rest_sound. Qed.
Print Assumptions C05_rest_sound.

(* ... and every residual is computed by [rest_*] at any sufficient fuel; the invariants in
   function form *)
Theorem C05_rest_complete :
  forall orc,
      (forall ie s st R, RS orc ie s st R -> exists F, forall F', F <= F' -> rest_stmt orc F' ie s st = Ok R) /\
      (forall ie ss i st R, RB orc ie ss i st R -> exists F, forall F', F <= F' -> rest_block orc F' ie ss i st = Ok R) /\
      (forall l sts R, RL orc l sts R -> exists F, forall F', F <= F' -> rest_list orc F' l sts = Ok R).
Proof. exact rest_complete. Qed.
Print Assumptions C05_rest_complete.

Theorem C05_start_invariant_rest :
  forall orc imm f ctx ie s g st g' F R,
    counter_free orc ->
    start_stmt orc imm f ctx ie s g = Ok (st, g') ->
    rest_stmt orc F ie s st = Ok R ->
    exists E F' D q',
      LogD E g g' /\ den_stmt orc F' ie s (g_q g) = Ok (D, q') /\ Permutation.Permutation D (E ++ R).
Proof. exact start_stmt_rest. Qed.
Print Assumptions C05_start_invariant_rest.

Theorem C05_deliver_invariant_rest :
  forall orc imm f ctx ie s st id g st' g' F R',
    counter_free orc ->
    deliver orc imm f ctx ie s st id g = Ok (Some st', g') -> wf s st ->
    rest_stmt orc F ie s st' = Ok R' ->
    exists E F' R,
      LogD E g g' /\ rest_stmt orc F' ie s st = Ok R /\ Permutation.Permutation R (E ++ R').
Proof. exact deliver_stmt_rest. Qed.
Print Assumptions C05_deliver_invariant_rest.

(* with a counter-free oracle the denotation does not depend on the query counter,
   and (any oracle) more fuel does not change it *)
Theorem C05_den_counter_independent :
  forall orc, counter_free orc -> forall f,
      (forall ie s q D q', den_stmt orc f ie s q = Ok (D, q') ->
                           forall q2, exists q2', den_stmt orc f ie s q2 = Ok (D, q2')) /\
      (forall ie ss i q D q', den_block orc f ie ss i q = Ok (D, q') ->
                              forall q2, exists q2', den_block orc f ie ss i q2 = Ok (D, q2')) /\
      (forall l q D q', den_list orc f l q = Ok (D, q') ->
                        forall q2, exists q2', den_list orc f l q2 = Ok (D, q2')) /\
      (forall ie s k q D q', den_loop orc f ie s k q = Ok (D, q') ->
                             forall q2, exists q2', den_loop orc f ie s k q2 = Ok (D, q2')).
Proof. exact den_const. Qed.
Print Assumptions C05_den_counter_independent.

Theorem C05_den_fuel_monotone :
  forall orc f,
      (forall ie s q r, den_stmt orc f ie s q = Ok r -> den_stmt orc (S f) ie s q = Ok r) /\
      (forall ie ss i q r, den_block orc f ie ss i q = Ok r -> den_block orc (S f) ie ss i q = Ok r) /\
      (forall l q r, den_list orc f l q = Ok r -> den_list orc (S f) l q = Ok r) /\
      (forall ie s k q r, den_loop orc f ie s k q = Ok r -> den_loop orc (S f) ie s k q = Ok r).
Proof. exact den_mono. Qed.
Print Assumptions C05_den_fuel_monotone.

(* the termination caveat: a top-level while loop whose guard is true under the (counter-free)
   valuation: no history of the order ever completes *)
Theorem C05_while_true_never_completes :
  forall orc imm fuel body script tr i e b q0,
    counter_free orc ->
    nth_error body i = Some (XWhile e b) ->
    decide expected_ops orc e 0 = Ok (true, q0) ->
    run_script orc imm fuel body sched0 script = Ok tr ->
    forall r, In r tr -> cr_final r = false.
Proof. exact while_true_never_completes_decide. Qed.
Print Assumptions C05_while_true_never_completes.

(* ---- non-vacuity, and necessity of the hypothesis ---- *)
Theorem C05_confluence_nonvacuous :
  exists tr mid q',
    run_script (corc ConfluenceExample.rho) ConfluenceExample.imm 50 ConfluenceExample.body sched0
               ConfluenceExample.script = Ok tr
    /\ (exists r, In r tr /\ cr_final r = true)
    /\ den_block (corc ConfluenceExample.rho) 50 [] ConfluenceExample.body 0 0 = Ok (mid, q')
    /\ trace_devs tr <> DN TS production_task root_site [] :: mid ++ [DN TF production_task root_site []]
    /\ Permutation.Permutation
         (trace_devs tr)
         (DN TS production_task root_site [] :: mid ++ [DN TF production_task root_site []]).
Proof. exact confluence_nonvacuous. Qed.
Print Assumptions C05_confluence_nonvacuous.

Theorem C05_confluence_prefix_nonvacuous :
  let script := [AStart; AFinish 1; AJunk; AFinish 0] in
  exists tr sF cid i st R mid q',
    run_script (corc ConfluenceExample.rho) ConfluenceExample.imm 50 ConfluenceExample.body sched0 script = Ok tr
    /\ exec (corc ConfluenceExample.rho) ConfluenceExample.imm ConfluenceExample.body 50 sched0 script = Ok sF
    /\ sc_root sF = Some (RCall cid i st)
    /\ rest_block (corc ConfluenceExample.rho) 50 [] ConfluenceExample.body i st = Ok R
    /\ List.length R = 9
    /\ den_block (corc ConfluenceExample.rho) 50 [] ConfluenceExample.body 0 0 = Ok (mid, q')
    /\ Permutation.Permutation
         (DN TS production_task root_site [] :: mid ++ [DN TF production_task root_site []])
         (trace_devs tr ++ R ++ [DN TF production_task root_site []]).
Proof. exact confluence_prefix_nonvacuous. Qed.
Print Assumptions C05_confluence_prefix_nonvacuous.

Theorem C05_confluence_needs_counter_free :
  exists tr1 tr2,
    run_script NeedsCounterFree.orc NeedsCounterFree.never 50 NeedsCounterFree.body sched0
               NeedsCounterFree.script1 = Ok tr1
    /\ run_script NeedsCounterFree.orc NeedsCounterFree.never 50 NeedsCounterFree.body sched0
                  NeedsCounterFree.script2 = Ok tr2
    /\ existsb cr_final tr1 = true /\ existsb cr_final tr2 = true
    /\ ~ Permutation.Permutation (trace_devs tr1) (trace_devs tr2).
Proof. exact confluence_needs_counter_free. Qed.
Print Assumptions C05_confluence_needs_counter_free.
