(* Property C05 — loops iterate exactly as often as their bound or guard dictates.
   This file contains only statements proved elsewhere (RefDen.v, RefC01.v).

   What is proved, and for what:
   (1) C05_sync_partial — for EVERY program, oracle (valuation sequence), registration /
       observer configuration and fuel, under the schedule in which every service is reported
       finished from inside its own service-started notification, the interpreter issues
       exactly the denotation [den_*] of RefDen.v.  The clause of the denotation that states
       this property:
         [den_loop]: a counting loop reads its limit n before every test and runs its body for k = 0, 1, ... while k < n, i.e. exactly max(n,0) times for a constant limit, sequentially, each time the loop is reached ([den_stmt] starts it at k = 0); a while loop queries its guard before every iteration, runs the body once per true evaluation and leaves at the first false one.
       PARTIAL: one schedule family (the fully re-entrant one), all programs and valuations.
   (2) C05_all_schedules_no_stall — for ALL schedules and histories the order completes
       exactly when nothing is outstanding (C01): no wake-up is lost and nothing is deferred
       to a later event.
   For the remaining schedules the behaviour stated by this property is the definition of the
   reference semantics (RefSem.v: deliver / deliver_block / deliver_list / loop_test), which
   the correspondence check compares with the implementation and with the net model on every
   run (all completion orders of generated programs, incl. re-entrant ones). *)
From PFDL Require Import RefSem RunCase Monitors RefShape RefDen RefC01.

Theorem C05_sync_partial :
  forall orc body fuel (s : sched) b s',
    sc_root s = None ->
    api_call orc itrue fuel body s AStart = Ok (b, s') ->
    exists evs mid q',
      cr_log (observe b s') = flat_map (render (g_ls (sc_g s)) (g_obs (sc_g s))) evs
      /\ den_block orc fuel [] body 0 (g_q (sc_g s)) = Ok (mid, q')
      /\ map erase evs = DN TS production_task root_site [] :: mid ++ [DN TF production_task root_site []]
      /\ cr_final (observe b s') = true /\ cr_running (observe b s') = false.
Proof. exact sync_order. Qed.
Print Assumptions C05_sync_partial.

Theorem C05_all_schedules_no_stall :
  forall orc imm body fuel script tr,
    run_script orc imm fuel body sched0 script = Ok tr -> holds_C01 tr = true.
Proof. exact C01_ref. Qed.
Print Assumptions C05_all_schedules_no_stall.
