(* C10 — Validation rejects every catalogued static error wherever it occurs.
   This file contains only the property theorems; model: Check/CheckModel.v; proofs:
   Check/CheckProofsC10.v (descent lemma, local lemmas), Check/CheckRefuted.v (witnesses),
   Check/CheckExamplesC10.v (inhabitation).

   [validate p <> Ok []] = "not reported valid".  A raised exception is not a report: by
   C16_always_a_verdict_partial, under crash_free the conclusion strengthens to "a non-empty
   list of messages is printed" (C10_reported_under_guard). *)
From PFDL Require Import Base Syntax.
From PFDL.Check Require Import CheckModel CheckProofsC10 CheckProofsNoExn CheckRefuted CheckExamplesC10
     Typing Guards Witnesses.

(* ---- the generic descent lemma -------------------------------------------------------- *)
(* Whatever the validator reports for a sub-statement s' it reaches inside s (loop bodies,
   Passed, Failed, to any depth; not below a parallel loop) it reports for s, and s is valid
   only if s' is. *)
Theorem C10_descent : forall E T s rel s',
  visible_sub s rel s' ->
  forall pi b es, check_stmt E T pi s = Ok (b, es) ->
  exists b' es', check_stmt E T (pi ++ rel) s' = Ok (b', es') /\ incl es' es /\ (b = true -> b' = true).
Proof. exact descent. Qed.
Print Assumptions C10_descent.

(* A local defect P of statement nodes that always makes the node invalid makes the whole
   program not accepted when it occurs in any task at any visible depth. *)
Theorem C10_local_fault_anywhere_rejected : forall (P : env -> tdef -> stmt -> bool),
  (forall E T pi s b es, P E T s = true -> check_stmt E T pi s = Ok (b, es) -> b = false) ->
  forall p, fault_somewhere P p = true -> validate p <> Ok [].
Proof. exact fault_somewhere_rejected. Qed.
Print Assumptions C10_local_fault_anywhere_rejected.

(* ---- one theorem per fault class (has_fault_* : program -> bool, CheckProofsC10.v) ----- *)
Theorem C10_F01_unknown_task : forall p, has_fault_unknown_task p = true -> validate p <> Ok [].
Proof. exact unknown_task_rejected. Qed.
Print Assumptions C10_F01_unknown_task.
Theorem C10_F02_unknown_struct_literal : forall p, has_fault_unknown_struct_literal p = true -> validate p <> Ok [].
Proof. exact unknown_struct_literal_rejected. Qed.
Print Assumptions C10_F02_unknown_struct_literal.
Theorem C10_F03_unknown_attribute_type : forall p, has_fault_unknown_attribute_type p = true -> validate p <> Ok [].
Proof. exact unknown_attribute_type_rejected. Qed.
Print Assumptions C10_F03_unknown_attribute_type.
Theorem C10_F03_unknown_input_type : forall p, has_fault_unknown_input_type p = true -> validate p <> Ok [].
Proof. exact unknown_input_type_rejected. Qed.
Print Assumptions C10_F03_unknown_input_type.
Theorem C10_F03_unknown_output_type : forall p, has_fault_unknown_output_type p = true -> validate p <> Ok [].
Proof. exact unknown_output_type_rejected. Qed.
Print Assumptions C10_F03_unknown_output_type.
Theorem C10_F04_undeclared_variable : forall p, has_fault_undeclared_variable p = true -> validate p <> Ok [].
Proof. exact undeclared_variable_rejected. Qed.
Print Assumptions C10_F04_undeclared_variable.
Theorem C10_F05_unknown_attribute : forall p, has_fault_unknown_attribute p = true -> validate p <> Ok [].
Proof. exact unknown_attribute_rejected. Qed.
Print Assumptions C10_F05_unknown_attribute.
Theorem C10_F06_literal_missing_attribute : forall p,
  has_fault_literal_missing_attribute p = true -> validate p <> Ok [].
Proof. exact literal_missing_attribute_rejected. Qed.
Print Assumptions C10_F06_literal_missing_attribute.
Theorem C10_F07_literal_unknown_attribute : forall p,
  has_fault_literal_unknown_attribute p = true -> validate p <> Ok [].
Proof. exact literal_unknown_attribute_rejected. Qed.
Print Assumptions C10_F07_literal_unknown_attribute.
Theorem C10_F10_duplicate_struct : forall p, has_fault_duplicate_struct p = true -> validate p <> Ok [].
Proof. exact duplicate_struct_rejected. Qed.
Print Assumptions C10_F10_duplicate_struct.
Theorem C10_F11_duplicate_task : forall p, has_fault_duplicate_task p = true -> validate p <> Ok [].
Proof. exact duplicate_task_rejected. Qed.
Print Assumptions C10_F11_duplicate_task.
Theorem C10_F12_duplicate_attribute : forall p, has_fault_duplicate_attribute p = true -> validate p <> Ok [].
Proof. exact duplicate_attribute_rejected. Qed.
Print Assumptions C10_F12_duplicate_attribute.
Theorem C10_F13_duplicate_task_input : forall p, has_fault_duplicate_task_input p = true -> validate p <> Ok [].
Proof. exact duplicate_task_input_rejected. Qed.
Print Assumptions C10_F13_duplicate_task_input.
Theorem C10_F13_duplicate_call_output : forall p, has_fault_duplicate_call_output p = true -> validate p <> Ok [].
Proof. exact duplicate_call_output_rejected. Qed.
Print Assumptions C10_F13_duplicate_call_output.
Theorem C10_F14_no_start_task : forall p, has_fault_no_start_task p = true -> validate p <> Ok [].
Proof. exact no_start_task_rejected. Qed.
Print Assumptions C10_F14_no_start_task.
Theorem C10_F15_undeclared_task_output : forall p, has_fault_undeclared_task_output p = true -> validate p <> Ok [].
Proof. exact undeclared_task_output_rejected. Qed.
Print Assumptions C10_F15_undeclared_task_output.
Theorem C10_F16_wrong_arity : forall p, has_fault_wrong_arity p = true -> validate p <> Ok [].
Proof. exact wrong_arity_rejected. Qed.
Print Assumptions C10_F16_wrong_arity.
Theorem C10_F20_bad_parallel_loop : forall p, has_fault_bad_parallel_loop p = true -> validate p <> Ok [].
Proof. exact bad_parallel_loop_rejected. Qed.
Print Assumptions C10_F20_bad_parallel_loop.

(* under the guard of C16 "not accepted" is "reported with at least one message" *)
Theorem C10_reported_under_guard : forall p,
  crash_free p = true -> validate p <> Ok [] -> reported p.
Proof. exact reported_under_guard. Qed.
Print Assumptions C10_reported_under_guard.

(* the predicates are inhabited (fault nested in a loop and a Failed branch) and false of
   the fault-free example *)
Theorem C10_fault_predicates_inhabited :
  has_fault_unknown_task w_f_F01a = true /\ has_fault_unknown_task w_f_F01b = true
  /\ has_fault_unknown_struct_literal w_f_F02a = true
  /\ has_fault_unknown_output_type w_f_F03c = true /\ has_fault_unknown_output_type w_f_F03d = true
  /\ has_fault_unknown_attribute_type w_f_F03a = true /\ has_fault_unknown_input_type w_f_F03b = true
  /\ has_fault_undeclared_variable w_f_F04a = true /\ has_fault_undeclared_variable w_f_F04b = true
  /\ has_fault_undeclared_variable w_f_F04f = true
  /\ has_fault_unknown_attribute w_f_F05a = true
  /\ has_fault_literal_missing_attribute w_f_F06a = true /\ has_fault_literal_unknown_attribute w_f_F07a = true
  /\ has_fault_duplicate_struct w_f_F10a = true /\ has_fault_duplicate_task w_f_F11a = true
  /\ has_fault_duplicate_attribute w_f_F12a = true /\ has_fault_duplicate_task_input w_f_F13a = true
  /\ has_fault_duplicate_call_output w_f_F13b = true
  /\ has_fault_no_start_task w_f_F14a = true /\ has_fault_undeclared_task_output w_f_F15a = true
  /\ has_fault_wrong_arity w_f_F16a = true /\ has_fault_wrong_arity w_f_F16b = true
  /\ has_fault_wrong_arity w_f_F16c = true /\ has_fault_wrong_arity w_f_F16d = true
  /\ has_fault_wrong_arity w_f_F16e = true
  /\ has_fault_bad_parallel_loop w_f_F20a = true /\ has_fault_bad_parallel_loop w_f_F20b = true
  /\ has_fault_bad_parallel_loop w_f_F20c = true /\ has_fault_bad_parallel_loop w_f_F20d = true.
Proof. exact fault_predicates_inhabited. Qed.
Print Assumptions C10_fault_predicates_inhabited.

(* ---- classes for which the statement is false of the faithful model (known findings) ---- *)
(* F19 recursion (D8): self, mutual, through Parallel, through a parallel loop *)
Theorem C10_F19_recursion_refuted :
  (has_recursion w_D8_self_recursion = true /\ validate w_D8_self_recursion = Ok [])
  /\ (has_recursion w_mutual_recursion = true /\ validate w_mutual_recursion = Ok [])
  /\ (has_recursion w_recursion_through_parallel = true /\ validate w_recursion_through_parallel = Ok [])
  /\ (has_recursion w_recursion_through_parloop = true /\ validate w_recursion_through_parloop = Ok []).
Proof. exact recursion_accepted_all. Qed.
Print Assumptions C10_F19_recursion_refuted.
(* F01 / F16 / F17 inside a parallel loop (D9): the descent stops at parallel loops *)
Theorem C10_parallel_loop_call_refuted :
  (sh_parloop_call w_D9_unknown_task_in_parallel_loop = true /\ validate w_D9_unknown_task_in_parallel_loop = Ok [])
  /\ (sh_parloop_call w_parloop_wrong_arity = true /\ validate w_parloop_wrong_arity = Ok []).
Proof. exact parallel_loop_call_accepted_all. Qed.
Print Assumptions C10_parallel_loop_call_refuted.
(* F04 / F05 / F18 in a loop limit (D10) *)
Theorem C10_loop_limit_refuted :
  (has_bad_limit w_D10_undeclared_limit = true /\ validate w_D10_undeclared_limit = Ok [])
  /\ (has_bad_limit w_limit_unknown_attribute = true /\ validate w_limit_unknown_attribute = Ok [])
  /\ (has_bad_limit w_limit_string = true /\ validate w_limit_string = Ok []).
Proof. exact loop_limit_accepted_all. Qed.
Print Assumptions C10_loop_limit_refuted.
(* F06 nested missing attribute, F08 primitive in an array of structs (D12a) *)
Theorem C10_literal_refuted :
  (sh_bad_literal w_D12a_missing_attribute_in_nested_literal = true
   /\ validate w_D12a_missing_attribute_in_nested_literal = Ok [])
  /\ (sh_bad_literal w_D12a_number_in_struct_array = true /\ validate w_D12a_number_in_struct_array = Ok []).
Proof. exact literal_accepted_all. Qed.
Print Assumptions C10_literal_refuted.
(* F18 ill-typed guards (D12b) *)
Theorem C10_F18_guard_type_refuted :
  (sh_bad_guard w_D12b_string_as_condition = true /\ validate w_D12b_string_as_condition = Ok [])
  /\ (sh_bad_guard w_D12b_number_under_and = true /\ validate w_D12b_number_under_and = Ok [])
  /\ (sh_bad_guard w_not_number = true /\ validate w_not_number = Ok [])
  /\ (sh_bad_guard w_bool_literal_in_arithmetic = true /\ validate w_bool_literal_in_arithmetic = Ok [])
  /\ (sh_bad_guard w_number_as_condition = true /\ validate w_number_as_condition = Ok []).
Proof. exact guard_type_accepted_all. Qed.
Print Assumptions C10_F18_guard_type_refuted.
(* F04 / F05 as operand of a comparison, F05 index on a non-array, F07 unknown key in a nested
   literal: an exception instead of a report (D11; see the C16_refuted theorems) *)
Theorem C10_raises_instead_of_reporting :
  validate w_D11a_undeclared_operand = Exn KeyError
  /\ validate w_unknown_attribute_operand = Exn KeyError
  /\ validate w_D11c_index_on_struct_attribute = Exn AttributeError
  /\ validate w_D11d_unknown_key_in_nested_literal = Exn KeyError.
Proof. exact raises_instead_of_reporting_all. Qed.
Print Assumptions C10_raises_instead_of_reporting.
