(* C10 — Validation rejects every catalogued static error wherever it occurs.
   This file contains only the property theorems; model: Check/CheckModel.v; proofs:
   Check/CheckProofsC10.v (descent lemma, local lemmas), Check/CheckRefuted.v (witnesses),
   Check/CheckExamplesC10.v (inhabitation).

   [validate p <> Ok []] = "not reported valid".  A raised exception is not a report: by
   C16_always_a_verdict, for every AST of the grammar's shape the conclusion strengthens to "a
   non-empty list of messages is printed" (C10_reported).

   History: recursion (D8), faults inside parallel loops (D9), loop limits (D10), the nested
   literal rules (D12a) and the raising lookups (D11) were repaired in /repo; their former
   `_refuted` theorems are now the positive theorems C10_F19_recursive_call,
   C10_F01/F16 (whose fault predicates now look into parallel loops), C10_bad_loop_limit and
   the reports listed in C10_formerly_accepted_now_reported. *)
From PFDL Require Import Base Syntax.
From PFDL.Check Require Import CheckModel CheckProofsC10 CheckProofsNoExn CheckRefuted CheckExamplesC10
     Typing Guards Witnesses.

(* ---- the generic descent lemma -------------------------------------------------------- *)
(* Whatever the validator reports for a sub-statement s' inside s (loop bodies, Passed,
   Failed, the call of a parallel loop, to any depth) it reports for s, and s is valid only
   if s' is. *)
Theorem C10_descent : forall E T s rel s',
  visible_sub s rel s' ->
  forall pi b es, check_stmt E T pi s = Ok (b, es) ->
  exists b' es', check_stmt E T (pi ++ rel) s' = Ok (b', es') /\ incl es' es /\ (b = true -> b' = true).
Proof. exact descent. Qed.
Print Assumptions C10_descent.

(* A local defect P of statement nodes that always makes the node invalid makes the whole
   program not accepted when it occurs in any task at any visible depth. *)
Theorem C10_local_fault_anywhere_rejected : forall (P : env -> tdef -> stmt -> bool),
  (forall E T pi s b es, P E T s = true -> check_stmt E T pi s = Ok (b, es) -> b = false) ->
  forall p, fault_somewhere P p = true -> validate p <> Ok [].
Proof. exact fault_somewhere_rejected. Qed.
Print Assumptions C10_local_fault_anywhere_rejected.

(* ---- one theorem per fault class (has_fault_* : program -> bool, CheckProofsC10.v) ----- *)
Theorem C10_F01_unknown_task : forall p, has_fault_unknown_task p = true -> validate p <> Ok [].
Proof. exact unknown_task_rejected. Qed.
Print Assumptions C10_F01_unknown_task.
Theorem C10_F02_unknown_struct_literal : forall p, has_fault_unknown_struct_literal p = true -> validate p <> Ok [].
Proof. exact unknown_struct_literal_rejected. Qed.
Print Assumptions C10_F02_unknown_struct_literal.
Theorem C10_F03_unknown_attribute_type : forall p, has_fault_unknown_attribute_type p = true -> validate p <> Ok [].
Proof. exact unknown_attribute_type_rejected. Qed.
Print Assumptions C10_F03_unknown_attribute_type.
Theorem C10_F03_unknown_input_type : forall p, has_fault_unknown_input_type p = true -> validate p <> Ok [].
Proof. exact unknown_input_type_rejected. Qed.
Print Assumptions C10_F03_unknown_input_type.
Theorem C10_F03_unknown_output_type : forall p, has_fault_unknown_output_type p = true -> validate p <> Ok [].
Proof. exact unknown_output_type_rejected. Qed.
Print Assumptions C10_F03_unknown_output_type.
Theorem C10_F04_undeclared_variable : forall p, has_fault_undeclared_variable p = true -> validate p <> Ok [].
Proof. exact undeclared_variable_rejected. Qed.
Print Assumptions C10_F04_undeclared_variable.
Theorem C10_F05_unknown_attribute : forall p, has_fault_unknown_attribute p = true -> validate p <> Ok [].
Proof. exact unknown_attribute_rejected. Qed.
Print Assumptions C10_F05_unknown_attribute.
Theorem C10_F06_literal_missing_attribute : forall p,
  has_fault_literal_missing_attribute p = true -> validate p <> Ok [].
Proof. exact literal_missing_attribute_rejected. Qed.
Print Assumptions C10_F06_literal_missing_attribute.
Theorem C10_F07_literal_unknown_attribute : forall p,
  has_fault_literal_unknown_attribute p = true -> validate p <> Ok [].
Proof. exact literal_unknown_attribute_rejected. Qed.
Print Assumptions C10_F07_literal_unknown_attribute.
(* F08: an array that directly contains an array, in a struct literal of any statement (the
   visitor walks every statement, parallel-loop bodies included) — finding D28, repaired *)
Theorem C10_F08_nested_array_literal : forall p,
  has_fault_nested_array_literal p = true -> validate p <> Ok [].
Proof. exact nested_array_literal_rejected. Qed.
Print Assumptions C10_F08_nested_array_literal.
Theorem C10_F10_duplicate_struct : forall p, has_fault_duplicate_struct p = true -> validate p <> Ok [].
Proof. exact duplicate_struct_rejected. Qed.
Print Assumptions C10_F10_duplicate_struct.
Theorem C10_F11_duplicate_task : forall p, has_fault_duplicate_task p = true -> validate p <> Ok [].
Proof. exact duplicate_task_rejected. Qed.
Print Assumptions C10_F11_duplicate_task.
Theorem C10_F12_duplicate_attribute : forall p, has_fault_duplicate_attribute p = true -> validate p <> Ok [].
Proof. exact duplicate_attribute_rejected. Qed.
Print Assumptions C10_F12_duplicate_attribute.
Theorem C10_F13_duplicate_task_input : forall p, has_fault_duplicate_task_input p = true -> validate p <> Ok [].
Proof. exact duplicate_task_input_rejected. Qed.
Print Assumptions C10_F13_duplicate_task_input.
Theorem C10_F13_duplicate_call_output : forall p, has_fault_duplicate_call_output p = true -> validate p <> Ok [].
Proof. exact duplicate_call_output_rejected. Qed.
Print Assumptions C10_F13_duplicate_call_output.
Theorem C10_F14_no_start_task : forall p, has_fault_no_start_task p = true -> validate p <> Ok [].
Proof. exact no_start_task_rejected. Qed.
Print Assumptions C10_F14_no_start_task.
Theorem C10_F15_undeclared_task_output : forall p, has_fault_undeclared_task_output p = true -> validate p <> Ok [].
Proof. exact undeclared_task_output_rejected. Qed.
Print Assumptions C10_F15_undeclared_task_output.
Theorem C10_F16_wrong_arity : forall p, has_fault_wrong_arity p = true -> validate p <> Ok [].
Proof. exact wrong_arity_rejected. Qed.
Print Assumptions C10_F16_wrong_arity.
Theorem C10_F19_recursive_call : forall p, has_fault_recursive_call p = true -> validate p <> Ok [].
Proof. exact recursive_call_rejected. Qed.
Print Assumptions C10_F19_recursive_call.
(* F04 / F05 / F18 in the limit of a (parallel) counting loop *)
Theorem C10_bad_loop_limit : forall p, has_fault_bad_limit p = true -> validate p <> Ok [].
Proof. exact bad_limit_rejected. Qed.
Print Assumptions C10_bad_loop_limit.
Theorem C10_F20_bad_parallel_loop : forall p, has_fault_bad_parallel_loop p = true -> validate p <> Ok [].
Proof. exact bad_parallel_loop_rejected. Qed.
Print Assumptions C10_F20_bad_parallel_loop.

(* "not accepted" is "reported with at least one message" *)
Theorem C10_reported : forall p,
  from_grammar p = true -> validate p <> Ok [] -> reported p.
Proof. exact reported_from_grammar. Qed.
Print Assumptions C10_reported.

(* the predicates are inhabited (fault nested in a loop and a Failed branch) and false of
   the fault-free example *)
Theorem C10_fault_predicates_inhabited :
  has_fault_unknown_task w_f_F01a = true /\ has_fault_unknown_task w_f_F01b = true
  /\ has_fault_unknown_struct_literal w_f_F02a = true
  /\ has_fault_unknown_output_type w_f_F03c = true /\ has_fault_unknown_output_type w_f_F03d = true
  /\ has_fault_unknown_attribute_type w_f_F03a = true /\ has_fault_unknown_input_type w_f_F03b = true
  /\ has_fault_undeclared_variable w_f_F04a = true /\ has_fault_undeclared_variable w_f_F04b = true
  /\ has_fault_undeclared_variable w_f_F04f = true
  /\ has_fault_unknown_attribute w_f_F05a = true
  /\ has_fault_literal_missing_attribute w_f_F06a = true /\ has_fault_literal_unknown_attribute w_f_F07a = true
  /\ has_fault_duplicate_struct w_f_F10a = true /\ has_fault_duplicate_task w_f_F11a = true
  /\ has_fault_duplicate_attribute w_f_F12a = true /\ has_fault_duplicate_task_input w_f_F13a = true
  /\ has_fault_duplicate_call_output w_f_F13b = true
  /\ has_fault_no_start_task w_f_F14a = true /\ has_fault_undeclared_task_output w_f_F15a = true
  /\ has_fault_wrong_arity w_f_F16a = true /\ has_fault_wrong_arity w_f_F16b = true
  /\ has_fault_wrong_arity w_f_F16c = true /\ has_fault_wrong_arity w_f_F16d = true
  /\ has_fault_wrong_arity w_f_F16e = true
  /\ has_fault_bad_parallel_loop w_f_F20a = true /\ has_fault_bad_parallel_loop w_f_F20b = true
  /\ has_fault_bad_parallel_loop w_f_F20c = true /\ has_fault_bad_parallel_loop w_f_F20d = true
  /\ has_fault_recursive_call w_D8_self_recursion = true /\ has_fault_recursive_call w_mutual_recursion = true
  /\ has_fault_recursive_call w_recursion_through_parallel = true
  /\ has_fault_recursive_call w_recursion_through_parloop = true
  /\ has_fault_unknown_task w_D9_unknown_task_in_parallel_loop = true
  /\ has_fault_wrong_arity w_parloop_wrong_arity = true
  /\ has_fault_bad_limit w_D10_undeclared_limit = true /\ has_fault_bad_limit w_limit_unknown_attribute = true
  /\ has_fault_bad_limit w_limit_string = true
  /\ has_fault_nested_array_literal w_D28_nested_array_element = true.
Proof. exact fault_predicates_inhabited. Qed.
Print Assumptions C10_fault_predicates_inhabited.

(* ---- repaired: what was accepted or raised is reported, at the offending statement ------ *)
Theorem C10_formerly_accepted_now_reported :
  validate w_D8_self_recursion = Ok [(KRecursion, CStmt 1 [1])]
  /\ validate w_mutual_recursion = Ok [(KRecursion, CStmt 1 [1]); (KRecursion, CStmt 2 [0])]
  /\ validate w_recursion_through_parallel = Ok [(KRecursion, CStmt 1 [1; 0])]
  /\ validate w_recursion_through_parloop = Ok [(KRecursion, CStmt 1 [1; 0])]
  /\ validate w_D9_unknown_task_in_parallel_loop = Ok [(KUnknownTask, CStmt 0 [1; 0])]
  /\ validate w_parloop_wrong_arity = Ok [(KInLen, CStmt 0 [1; 0])]
  /\ validate w_D10_undeclared_limit = Ok [(KUnknownVariable, CStmt 0 [1])]
  /\ validate w_limit_unknown_attribute = Ok [(KNoAttribute, CStmt 0 [1])]
  /\ validate w_limit_string = Ok [(KLimitNotNumber, CStmt 0 [1])]
  /\ validate w_D12a_missing_attribute_in_nested_literal = Ok [(KMissingAttr, CLitJson 0 [0] 0)]
  /\ validate w_D12a_number_in_struct_array
     = Ok [(KArrayElem, CLitJson 0 [0] 0); (KWrongTypeArray, CLit 0 [0] 0)]
  /\ validate w_D28_nested_array_element = Ok [(KNestedArray, CLitJson 0 [0] 0)].
Proof. exact formerly_accepted_now_reported. Qed.
Print Assumptions C10_formerly_accepted_now_reported.

(* ---- the class for which the statement is still false of the faithful model --------------- *)
(* F18 ill-typed guards (known finding D12b): a string or a number as condition, numbers under
   And / Or / !, a boolean literal in arithmetic *)
Theorem C10_F18_guard_type_refuted :
  (sh_bad_guard w_D12b_string_as_condition = true /\ validate w_D12b_string_as_condition = Ok [])
  /\ (sh_bad_guard w_D12b_number_under_and = true /\ validate w_D12b_number_under_and = Ok [])
  /\ (sh_bad_guard w_not_number = true /\ validate w_not_number = Ok [])
  /\ (sh_bad_guard w_bool_literal_in_arithmetic = true /\ validate w_bool_literal_in_arithmetic = Ok [])
  /\ (sh_bad_guard w_number_as_condition = true /\ validate w_number_as_condition = Ok []).
Proof. exact guard_type_accepted_all. Qed.
Print Assumptions C10_F18_guard_type_refuted.
