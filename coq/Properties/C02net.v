(* Property C02 (and C01, C08) on the FAITHFUL model — NetModel.v, the transliteration of
   PetriNetLogic.evaluate_petri_net / fire_event and Scheduler.fire_event: run to quiescence.
   When evaluate returns, NO transition of the net is enabled - for every net, marking, callback
   table and scheduler state, also when the net grew during the call (parallel loops); hence
   after every accepted API call nothing is left to do without a further event ("no lost
   wake-up" on the mechanism side), and a rejected call leaves places, transitions and callback
   tables untouched.  Headline statements only; all 45 statements of NetQuiescent.v are restated
   in Properties/C02quiescent.v.  Only statements proved elsewhere. *)
From PFDL Require Import NetModel NetRun NetC08 NetQuiescent.

(* when evaluate_petri_net returns, no transition of the net is enabled *)
Theorem C02q_evaluate_leaves_nothing_enabled :
  forall tasks env f s u s',
    evaluate tasks env f s = Ok (u, s') ->
    forall t, In t (ns_trans s') -> enabled s' t = false.
Proof. exact evaluate_all_quiescent. Qed.
Print Assumptions C02q_evaluate_leaves_nothing_enabled.

Theorem C02q_accepted_finish_leaves_nothing_enabled :
  forall tasks env f s id s',
    net_api_call tasks env f s (AFinish id) = Ok (true, s') ->
    forall t, In t (ns_trans s') -> enabled s' t = false.
Proof. exact api_finish_accepted_quiescent. Qed.
Print Assumptions C02q_accepted_finish_leaves_nothing_enabled.

Theorem C02q_accepted_start_leaves_nothing_enabled :
  forall tasks env f s b s',
    existsb (event_eqb EvStart) (ns_awaited s) = true ->
    has_place s (ns_start_place s) = true ->
    net_api_call tasks env f s AStart = Ok (b, s') ->
    forall t, In t (ns_trans s') -> enabled s' t = false.
Proof. exact api_start_accepted_quiescent. Qed.
Print Assumptions C02q_accepted_start_leaves_nothing_enabled.

Theorem C02q_any_call_keeps_quiescent :
  forall tasks env f s c b s',
    net_api_call tasks env f s c = Ok (b, s') ->
    (forall t, In t (ns_trans s) -> enabled s t = false) ->
    forall t, In t (ns_trans s') -> enabled s' t = false.
Proof. exact api_call_keeps_quiescent_dyn. Qed.
Print Assumptions C02q_any_call_keeps_quiescent.

Theorem C02q_scheduler_always_quiescent :
  forall tasks env test_ids f s0 s',
    net_init tasks test_ids = Ok s0 ->
    quiescentb s0 = true ->
    api_reach tasks env f s0 s' ->
    forall t, In t (ns_trans s') -> enabled s' t = false.
Proof. exact scheduler_always_quiescent. Qed.
Print Assumptions C02q_scheduler_always_quiescent.

Theorem C02q_rejected_call_leaves_net_untouched :
  forall tasks env f s c s',
    net_api_call tasks env f s c = Ok (false, s') ->
    ns_places s' = ns_places s /\ ns_trans s' = ns_trans s /\ ns_cbs s' = ns_cbs s.
Proof. exact api_rejected_same_net. Qed.
Print Assumptions C02q_rejected_call_leaves_net_untouched.

(* non-vacuity: a run with run-time generation (25 -> 27 transitions), all 16 calls return *)
Theorem C02q_inhabited :
  exists s0 l,
    net_init (p_tasks (rc_prog Examples.ex_case)) true = Ok s0 /\
    quiescentb s0 = true /\
    net_run_states (p_tasks (rc_prog Examples.ex_case)) (env_of Examples.ex_case) net_fuel s0
                   (rc_script Examples.ex_case) = Ok l /\
    List.length l = 16 /\
    List.length (ns_trans s0) = 25 /\
    existsb (fun bs => Nat.eqb (List.length (ns_trans (snd bs))) 27) l = true /\
    forallb (fun bs => quiescentb (snd bs)) l = true.
Proof. exact quiescence_inhabited. Qed.
Print Assumptions C02q_inhabited.
