(* Property C20 — every registered callback fires once per notification, in registration
   order.  Statement proved in RefShape.v (reference semantics), nothing else.

   [shape_run ls obs cs tr] (RefShape.v) says, call by call: the log of the call is
   [flat_map (render ls obs) evs] for some sequence [evs] of notifications and oracle
   queries, where [render] of a notification n is
       one entry  ENotif l n running  for every function l registered for n's kind, in
       registration order, all with the same argument n,
       then one LOG_EVENT entry per attached observer, in attachment order;
   a registration call returns true iff the function was not registered for that kind,
   appends it in that case and leaves the list unchanged otherwise; registration, attach and
   detach calls log nothing. *)
From PFDL Require Import RefSem RunCase Monitors RefShape NetModel NetRun NetC08.

Theorem C20_log_shape :
  forall orc imm body fuel cs tr,
    run_script orc imm fuel body sched0 cs = Ok tr ->
    shape_run default_listeners [] cs tr.
Proof. intros orc imm body fuel cs tr H. exact (shape_run_ref orc imm body fuel cs sched0 tr H). Qed.
Print Assumptions C20_log_shape.

(* registration on the faithful model of register_callback_* (NetModel.v): refused exactly
   for an already registered function, which leaves the list unchanged *)
Theorem C20_net_registration :
  forall tasks env fuel (s : NS) k l,
    net_api_call tasks env fuel s (ARegister k l) =
    if existsb (fun p => nkind_eqb (fst p) k && Nat.eqb (snd p) l) (ns_ls s)
    then Ok (false, cleared s)
    else Ok (true, cleared s <| ns_ls := ns_ls s ++ [(k, l)] |>).
Proof. exact net_api_register. Qed.
Print Assumptions C20_net_registration.
