(* Property C05, iteration part, ALL schedules — "a counting loop whose limit is N (a literal, or
   read from a variable) executes its body exactly max(N,0) times, sequentially, every time the
   loop is reached - also when it is nested in another loop or reached again later in the same
   task.  A while loop evaluates its guard before every iteration against current values, runs the
   body once per true evaluation and leaves at the first false one".
   Only statements proved in RefDecide.v / Refine/TransferDecide.v.

   The monitor is [mon_decide] (MonitorsDecide.v; its rules are described in
   Properties/C04decide.v): every statement started in a task instance, and the instance's
   task-finished notification, is exactly what the walk through the program arrives at from the
   statement started last, where
     (d2) a while loop: when reached and after the last statement of its body the guard is
          recomputed from the oracle's answers; true -> statement 0 of the body, false -> the
          statement after the loop: the body runs once per true evaluation and the loop is left
          at the first false one;
     (d3) a counting loop: the limit is read before EVERY test, as the reference semantics does
          ([loop_test]: a literal, or one oracle query per test -- so a variable limit may change
          between tests and the loop runs while k < the limit read at test k; with a constant
          answer N that is exactly max(N,0) iterations); iteration k is entered iff k < limit;
          the counters are kept per loop position and instance, so nested loops and loops reached
          again start from 0;
   and the walk must have consumed exactly the queries asked so far.
   [mon_C05 c] = [mon_C02seq c] (sequencing: one statement at a time, Properties/C02seq.v) &&
   [mon_decide c]; the check applies it to every implementation trace of C05.

   (1) C05iter_reference_semantics, C05iter_unfold_guarded, C05iter_programs,
       C05_monitor_programs — as for C04.
   (2) the walk at the loops: C05iter_walk_while, C05iter_walk_count (first test and re-test),
       C05iter_limit_literal, C05iter_count_literal (a literal limit n: iteration k+1 is entered
       iff k+1 < n).
   (3) rejected traces: one iteration too many / too few (by a different execution, and by
       deleting the notifications of an iteration), the body of a while loop started after a
       false guard, a while loop left although the guard is true; an accepted run.
   (4) C05iter_net_fragment / C05_net_fragment — the faithful net model on the refinement fragment.
   Outside: parallel loops (C06: [mon_C06inst]); the monitor gives up (accepts) when the walk needs
   more than [decide_fuel] steps or an answer is unusable. *)
From PFDL Require Import RefSem RunCase Monitors MonitorsSeq MonitorsFork MonitorsDecide MonitorsParams Examples RefC02 RefC03 RefDecide NetRun.
From PFDL.Refine Require Import Main TransferDecide.

Theorem C05iter_reference_semantics :
  forall (GK : name -> list nat -> gk) (INS : name -> list nat -> list param) (LV : name -> list nat -> option name)
         (orc : oracle) (imm : nat -> bool) (body : list xstmt) (fuel : nat)
         (script : list apicall) (tr : list callrec) (F : nat),
    guarded_body GK INS LV body ->
    run_script orc imm fuel body sched0 script = Ok tr -> holds_decide_with GK orc F tr = true.
Proof. exact decide_with_ref. Qed.
Print Assumptions C05iter_reference_semantics.

Theorem C05iter_unfold_guarded :
  forall (tasks : list task) (f : nat) (body : list xstmt),
    unfold_program tasks f = Ok body -> guarded_body (gk_at tasks) (ins_at tasks) (lv_at tasks) body.
Proof. exact unfold_program_guarded. Qed.
Print Assumptions C05iter_unfold_guarded.

Theorem C05iter_programs :
  forall (c : runcase) (tr : list callrec), run_ref c = Ok tr -> mon_decide c tr = true.
Proof. exact C05_iter_programs. Qed.
Print Assumptions C05iter_programs.

Theorem C05_monitor_programs :
  forall (c : runcase) (tr : list callrec), run_ref c = Ok tr -> mon_C05 c tr = true.
Proof. exact C05_programs. Qed.
Print Assumptions C05_monitor_programs.

Theorem C05iter_walk_while :
  forall orc G f pre i cn q e b q',
    G (pre ++ [i]) = GWhile e -> decide expected_ops orc e q = Ok (b, q') ->
    walk G orc (S f) pre i cn q = (if b then walk G orc f (pre ++ [i]) 0 cn q' else walk G orc f pre (S i) cn q') /\
    leave G orc (S f) (pre ++ [i]) cn q = (if b then walk G orc f (pre ++ [i]) 0 cn q' else walk G orc f pre (S i) cn q').
Proof. exact walk_while. Qed.
Print Assumptions C05iter_walk_while.

Theorem C05iter_walk_count :
  forall orc G f pre i cn q lim N q',
    G (pre ++ [i]) = GCount lim -> rlimit orc lim q = Some (N, q') ->
    walk G orc (S f) pre i cn q =
      (if (0 <? N)%Z then walk G orc f (pre ++ [i]) 0 (setc (pre ++ [i]) 0 cn) q' else walk G orc f pre (S i) cn q') /\
    leave G orc (S f) (pre ++ [i]) cn q =
      (let k := S (getc (pre ++ [i]) cn) in
       if (Z.of_nat k <? N)%Z then walk G orc f (pre ++ [i]) 0 (setc (pre ++ [i]) k cn) q' else walk G orc f pre (S i) cn q').
Proof. exact walk_count. Qed.
Print Assumptions C05iter_walk_count.

Theorem C05iter_limit_literal : forall orc n q, rlimit orc (LimInt n) q = Some (Z.of_nat n, q).
Proof. exact rlimit_literal. Qed.
Print Assumptions C05iter_limit_literal.

Theorem C05iter_count_literal :
  forall orc G f pre i cn q n,
    G (pre ++ [i]) = GCount (LimInt n) ->
    leave G orc (S f) (pre ++ [i]) cn q =
      (if Nat.ltb (S (getc (pre ++ [i]) cn)) n
       then walk G orc f (pre ++ [i]) 0 (setc (pre ++ [i]) (S (getc (pre ++ [i]) cn)) cn) q
       else walk G orc f pre (S i) cn q).
Proof. exact count_literal. Qed.
Print Assumptions C05iter_count_literal.

Theorem C05iter_example_accepted :
  started dx_trace = [(0, []); (1, [0; 0; 0]); (3, [1; 0]); (3, [1; 0]); (4, [2; 0]); (7, [3; 0; 0]); (8, [0]);
                      (5, [4; 0; 0; 0]); (6, [5])] /\
  mon_C05 dx_case dx_trace = true /\ mon_C05 ex_case seq_ex_trace = true.
Proof. split; [exact dx_started|]. split; [apply dx_accepted|apply ex_case_decide_accepted]. Qed.
Print Assumptions C05iter_example_accepted.

Theorem C05iter_rejects_one_iteration_too_many :
  let tr := other [VBool true; three; three; three; three; VBool true; VBool false; VBool true; VBool false] in
  List.length (filter (fun x => Nat.eqb (fst x) 3) (started tr)) = 3 /\
  mon_decide dx_case tr = false /\ mon_C05 dx_case tr = false.
Proof. exact one_iteration_too_many. Qed.
Print Assumptions C05iter_rejects_one_iteration_too_many.

Theorem C05iter_rejects_one_iteration_too_few :
  let tr := other [VBool true; one; one; VBool true; VBool false; VBool true; VBool false] in
  List.length (filter (fun x => Nat.eqb (fst x) 3) (started tr)) = 1 /\
  mon_decide dx_case tr = false /\ mon_C05 dx_case tr = false.
Proof. exact one_iteration_too_few. Qed.
Print Assumptions C05iter_rejects_one_iteration_too_few.

Theorem C05iter_rejects_removed_iteration :
  mon_decide dx_case (map (with_log (filter (fun e => negb (about_service 2 e)))) dx_trace) = false.
Proof. exact iteration_removed_rejected. Qed.
Print Assumptions C05iter_rejects_removed_iteration.

Theorem C05iter_rejects_body_after_false_guard :
  let tr := other [VBool true; two; two; two; VBool true; VBool true; VBool false; VBool true; VBool false] in
  List.length (filter (fun x => Nat.eqb (fst x) 4) (started tr)) = 2 /\
  mon_decide dx_case tr = false /\ mon_C05 dx_case tr = false.
Proof. exact body_after_false_guard. Qed.
Print Assumptions C05iter_rejects_body_after_false_guard.

Theorem C05iter_rejects_while_left_although_true :
  mon_decide dx_case (other [VBool true; two; two; two; VBool false; VBool true; VBool false]) = false.
Proof. exact while_left_although_true. Qed.
Print Assumptions C05iter_rejects_while_left_although_true.

Theorem C05iter_net_fragment :
  forall c tr tr1 f, in_fragment c = true -> run_ref c = Ok tr -> run_net_f f c = Ok tr1 -> mon_decide c tr1 = true.
Proof. exact net_decide_fragment. Qed.
Print Assumptions C05iter_net_fragment.

Theorem C05_net_fragment :
  forall c tr tr1 f, in_fragment c = true -> run_ref c = Ok tr -> run_net_f f c = Ok tr1 -> mon_C05 c tr1 = true.
Proof. exact net_C05_fragment. Qed.
Print Assumptions C05_net_fragment.
