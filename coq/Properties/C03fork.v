(* Property C03, fork / join part, ALL schedules — "when a Parallel block is reached every task
   listed in it is started during the same scheduler call ...; the statement after the block
   starts only after all branches have finished, and then in the same call that finishes the last
   branch, for every interleaving".  Only statements proved in RefC03.v / Refine/TransferC03.v.

   The executable monitor (MonitorsFork.v, rules switched on by [cp] = Parallel, [cl] = parallel
   loop) reads what function 0 was told and the oracle queries; the program enters through
   [fan_at] (a Parallel with n calls / a parallel loop with literal or variable limit at an index
   path of the source).  Parallel rules, per task instance c:
     (f1) the task-started notification of branch 0 opens a fork (c, position, next = 1, arity n);
          a branch j > 0 is accepted only as the next branch of the open fork; a branch index
          >= n is refused; while the fork is open nothing else is started in c and c is not
          reported finished; the call must not end with a fork open;
     (f2) nothing but later branches is started in c while a branch is in progress; when a
          task-finished notification leaves no branch of that Parallel in progress and no fork is
          open, c owes a continuation -- a started notification of c or c's own task-finished --
          before the call ends.
   [mon_C03fork c] = these rules with [fan_at] of the case's program; [mon_C03 c] = [mon_C02seq c]
   (sequencing, Properties/C02seq.v) and [mon_C03fork c]; the check applies [mon_C03] to every
   implementation trace of C03.

   (1) C03fork_reference_semantics — every oracle, set of immediately completed services, fuel,
       script, every body whose positions fan out as FAN says ([forked_body], the guard: sites are
       positions, Parallel / parallel-loop positions carry their arity / limit, block prefixes fan
       out nothing, branches are task calls): the monitor accepts with any choice of rule sets.
   (2) C03fork_unfold_forked — the call-tree unfolding of every source program is forked under
       [fan_at]; C03fork_programs / C03_programs — every trace of run_ref is accepted.
   (3) C03fork_next_branch — what (f1) means declaratively: after the task-started notification
       of a branch that is not the last, the next thing started in that instance is the next
       branch, in the same call.  C03fork_run_meaning, C03fork_branch_rule, C03fork_other_rule,
       C03fork_settled_rule — every entry passes the tests against the check-free bookkeeping of
       the history ([book] = the monitor with both rule sets off).
   (4) rejected tampered traces (a branch started one call later; the follower started before the
       last branch is reported finished), an accepted run, necessity of the guard.
   (5) C03fork_net_fragment / C03_net_fragment — the faithful net model on the refinement fragment.
   Not in a trace: which branch a nested statement belongs to beyond its instance identifier
   ([n_ctx]); "the branches progress independently" is the all-schedules quantifier of (1). *)
From PFDL Require Import RefSem RunCase Monitors MonitorsSeq MonitorsFork Examples RefC02 RefC03 NetRun.
From PFDL.Refine Require Import Main TransferC03.

Theorem C03fork_reference_semantics :
  forall (FAN : name -> list nat -> fan) (orc : oracle) (imm : nat -> bool) (body : list xstmt) (fuel : nat)
         (script : list apicall) (tr : list callrec) (cp cl : bool),
    forked_body FAN body ->
    run_script orc imm fuel body sched0 script = Ok tr -> holds_fork_with FAN orc cp cl tr = true.
Proof. exact fork_with_ref. Qed.
Print Assumptions C03fork_reference_semantics.

Theorem C03fork_unfold_forked :
  forall (tasks : list task) (f : nat) (body : list xstmt),
    unfold_program tasks f = Ok body -> forked_body (fan_at tasks) body.
Proof. exact unfold_program_forked. Qed.
Print Assumptions C03fork_unfold_forked.

Theorem C03fork_programs :
  forall (c : runcase) (tr : list callrec), run_ref c = Ok tr -> mon_C03fork c tr = true.
Proof. exact C03_fork_programs. Qed.
Print Assumptions C03fork_programs.

Theorem C03_monitor_programs :
  forall (c : runcase) (tr : list callrec), run_ref c = Ok tr -> mon_C03 c tr = true.
Proof. exact C03_programs. Qed.
Print Assumptions C03_monitor_programs.

Theorem C03fork_rules_can_only_be_switched_off :
  forall FAN orc cp cl tr S, fork_run FAN orc true true S tr = true -> fork_run FAN orc cp cl S tr = true.
Proof. intros. apply fork_run_mono. assumption. Qed.
Print Assumptions C03fork_rules_can_only_be_switched_off.

Theorem C03fork_next_branch :
  forall FAN orc cl tr pre r post a n rr b S0 c rp j m,
    fork_run FAN orc true cl S0 tr = true -> tr = pre ++ r :: post -> cr_log r = a ++ ENotif 0 n rr :: b ->
    n_kind n = TS -> n_ctx n = Some c ->
    classify (FAN (st_task (n_site n))) true (st_path (n_site n)) = FBranch rp j m -> S j < m ->
    exists b1 n' rr' b2,
      b = b1 ++ ENotif 0 n' rr' :: b2 /\ (forall e, In e b1 -> starts_in c e = false) /\
      n_kind n' = TS /\ n_ctx n' = Some c /\
      classify (FAN (st_task (n_site n'))) true (st_path (n_site n')) = FBranch rp (S j) m.
Proof. exact fork_next_branch. Qed.
Print Assumptions C03fork_next_branch.

Theorem C03fork_run_meaning :
  forall FAN orc cp cl tr pre r post a e b S,
    fork_run FAN orc cp cl S tr = true -> tr = pre ++ r :: post -> cr_log r = a ++ e :: b ->
    exists S1 H H' S2,
      bhist FAN orc S pre = Some S1 /\ book FAN orc (fork_new_call S1) a = Some H /\
      fork_entry FAN orc cp cl H e = Some H' /\ fork_log FAN orc cp cl H' b = Some S2 /\
      fork_settled FAN cp cl S2 = true.
Proof. exact fork_run_meaning. Qed.
Print Assumptions C03fork_run_meaning.

Theorem C03fork_branch_rule :
  forall FAN orc cl H n H' c r j m,
    fork_start FAN orc true cl H true n = Some H' -> n_ctx n = Some c ->
    classify (FAN (st_task (n_site n))) true (st_path (n_site n)) = FBranch r j m ->
    j < m /\ ((j = 0 /\ assoc c (fk_par H) = None) \/ assoc c (fk_par H) = Some (r, j, m)) /\
    assoc c (fk_par H') = (if Nat.ltb (S j) m then Some (r, S j, m) else None).
Proof. exact branch_rule. Qed.
Print Assumptions C03fork_branch_rule.

Theorem C03fork_other_rule :
  forall FAN orc cl H tk n H' c,
    fork_start FAN orc true cl H tk n = Some H' -> n_ctx n = Some c ->
    (forall r j m, classify (FAN (st_task (n_site n))) tk (st_path (n_site n)) <> FBranch r j m) ->
    assoc c (fk_par H) = None /\ fan_kid (FAN (st_task (n_site n))) false c (fk_tasks H) = false /\
    assoc c (fk_par H') = None.
Proof. exact other_rule. Qed.
Print Assumptions C03fork_other_rule.

Theorem C03fork_settled_rule :
  forall FAN cl S, fork_settled FAN true cl S = true -> fk_par S = [] /\ forall x, In x (fk_owe S) -> snd x = true.
Proof. exact settled_rule. Qed.
Print Assumptions C03fork_settled_rule.

Theorem C03fork_example_accepted :
  List.length fx_trace = 10 /\ existsb (fun r => cr_final r) fx_trace = true /\
  mon_C03fork fx_case fx_trace = true /\ mon_C06inst fx_case fx_trace = true /\
  mon_C03 fx_case fx_trace = true /\ mon_C06 fx_case fx_trace = true.
Proof. exact fx_accepted. Qed.
Print Assumptions C03fork_example_accepted.

Theorem C03fork_rejects_deferred_branch : mon_C03fork fx_case (defer_tail 2 0 fx_trace) = false.
Proof. exact branch_deferred_rejected. Qed.
Print Assumptions C03fork_rejects_deferred_branch.

Theorem C03fork_rejects_early_follower :
  mon_C03fork fx_case (upd_nth 2 (with_log (fun l => match rev l with x :: t => x :: rev t | [] => [] end)) fx_trace) = false.
Proof. exact follower_early_rejected. Qed.
Print Assumptions C03fork_rejects_early_follower.

Theorem C03fork_guard_inhabited :
  forked_body (fan_at (p_tasks fx_prog)) (match unfold_program (p_tasks fx_prog) 200 with Ok b => b | _ => [] end).
Proof. exact fx_forked. Qed.
Print Assumptions C03fork_guard_inhabited.

Theorem C03fork_needs_guard :
  match run_ref fx_case with
  | Ok tr => holds_fork_with (fun tn p => match fan_at (p_tasks fx_prog) tn p with FPar _ => FPar 3 | f => f end)
                             (orc_of (rc_vals fx_case)) true false tr = false
  | _ => False
  end.
Proof. exact fork_needs_guard_refuted. Qed.
Print Assumptions C03fork_needs_guard.

Theorem C03fork_net_fragment :
  forall c tr tr1 f, in_fragment c = true -> run_ref c = Ok tr -> run_net_f f c = Ok tr1 -> mon_C03fork c tr1 = true.
Proof. exact net_C03fork_fragment. Qed.
Print Assumptions C03fork_net_fragment.

Theorem C03_net_fragment :
  forall c tr tr1 f, in_fragment c = true -> run_ref c = Ok tr -> run_net_f f c = Ok tr1 -> mon_C03 c tr1 = true.
Proof. exact net_C03_fragment. Qed.
Print Assumptions C03_net_fragment.
