(* C19 — Reported errors point into the offending construct.
   This file contains only the property theorems; model: Check/CheckModel.v (every message
   carries the context object handed to print_error as a position in the AST); proofs:
   Check/CheckProofsC19.v, Check/CheckProofsC10.v (descent), Check/CheckRefuted.v.

   The theorems are about context references (AST positions).  That the printer's line map
   sends a reference under a statement into the line span of that statement, and that the two
   output formats print the same line, is checked by the correspondence slice (fault x
   position x layout variants x both formats), not proved. *)
From PFDL Require Import Base Syntax.
From PFDL.Check Require Import CheckModel CheckProofsC10 CheckProofsC19 CheckRefuted Guards Witnesses.

(* Every message printed while the statement at position pi of a task is checked carries a
   context of that statement or of a statement nested in it. *)
Theorem C19_messages_point_into_statement : forall E T s pi b es e,
  check_stmt E T pi s = Ok (b, es) -> In e es -> ctx_under (td_idx T) pi (snd e).
Proof. exact stmt_messages_point_into_statement. Qed.
Print Assumptions C19_messages_point_into_statement.

(* A statement s' anywhere the validator looks inside s (relative position rel) that is found
   invalid is reported with at least one message whose context lies inside s' itself — the
   smallest statement containing the offending construct. *)
Theorem C19_fault_located : forall E T s rel s' pi b es,
  visible_sub s rel s' ->
  check_stmt E T pi s = Ok (b, es) ->
  (forall b' es', check_stmt E T (pi ++ rel) s' = Ok (b', es') -> b' = false) ->
  exists e, In e es /\ ctx_under (td_idx T) (pi ++ rel) (snd e).
Proof. exact fault_located. Qed.
Print Assumptions C19_fault_located.

(* Every message about a task points into that task: a statement of it, its In or its Out line. *)
Theorem C19_task_messages_point_into_task : forall E T b es e,
  check_task E T = Ok (b, es) -> In e es -> ctx_in_task (td_idx T) (snd e).
Proof. exact task_messages_point_into_task. Qed.
Print Assumptions C19_task_messages_point_into_task.

(* A missing productionTask is reported for the file as a whole (line=1). *)
Theorem C19_no_start_task_at_line_1 : forall p es,
  has_fault_no_start_task p = true -> validate p = Ok es -> In (KNoStartTask, CFile) es.
Proof. exact no_start_task_reported_at_file. Qed.
Print Assumptions C19_no_start_task_at_line_1.

(* The semantic checker never prints a message without a position. *)
Theorem C19_checker_messages_have_position : forall E b es e,
  validate_process E = Ok (b, es) -> In e es -> snd e <> CNone.
Proof. exact checker_messages_have_position. Qed.
Print Assumptions C19_checker_messages_have_position.

(* "No reported line lies outside the file": every message of every program carries a
   position (no message is printed with the default line 0).  History: the visitor's "Array
   length has to be specified by an integer" was printed without a context (finding D21,
   repaired in /repo); the former _refuted witness now reads: *)
Theorem C19_every_message_has_a_position : forall p es e,
  validate p = Ok es -> In e es -> snd e <> CNone.
Proof. exact every_message_has_a_position. Qed.
Print Assumptions C19_every_message_has_a_position.

Theorem C19_array_length_message_has_position :
  validate w_D21_array_length_by_name = Ok [(KArrayLen, CStructAttr 2 1)].
Proof. exact arraylen_with_position. Qed.
Print Assumptions C19_array_length_message_has_position.

(* a fault three levels deep is reported at the position of the offending call *)
Theorem C19_example_deep_position : validate w_unknown_task = Ok [(KUnknownTask, CStmt 0 [1; 0; 0; 1])].
Proof. exact unknown_task_reported_at_its_position. Qed.
Print Assumptions C19_example_deep_position.
