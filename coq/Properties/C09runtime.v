(* C09 — Validation is sound: accepted programs schedule without internal errors.
   The RUN-TIME half, on the reference semantics of the scheduler (RefSem.v).  This file contains
   only statements proved elsewhere (C09Unfold.v, C09IndexFree.v, C09Expr.v, C09Run.v, C09Runtime.v,
   C09Wf.v, C09OracleCheck.v, C09Examples.v) and their assumptions.  The static half is Properties/C09.v.

   "If validation accepts a program, then building the scheduler, starting it and driving it to the
    end with well-typed values and any completion order never lets an internal error escape (no
    exception from construction, start or event delivery, no unbounded recursion), and the order
    completes."

   Reading on the model
   - construction            = Unfold.unfold_program (the call tree PetriNetGenerator walks);
                               RecursionError = fuel exhausted, KeyError = unknown task.
   - start / event delivery  = RefSem.api_call, a whole history = RefSem.run_script / RunCase.run_ref.
   - an internal error       = the outcome [Exn k]; [Unsupported] = outside the model (also excluded).
   - well-typed values       = C09Expr.oracle_typed p orc (below).
   - any completion order    = every script of API calls (start, completion of ANY identifier: awaited,
                               duplicate, unknown, premature, late; junk events; registrations; attach /
                               detach) and every choice [imm] of services completed from inside their
                               own service-started notification.

   Hypotheses besides acceptance, all executable on the program (C09Static.v), and why:
   - guards_typed p      every guard has type boolean (Typing rule R6).  NEEDED: finding D12b, the
                         validator does not type guards as a whole (Properties/C09.v,
                         C09_accepted_guards_typed_refuted; a string as condition raises TypeError).
   - division_safe p     every divisor is a non-zero number literal.  NEEDED: C09_division_by_zero_refuted
                         below — and the implementation raises ZeroDivisionError out of fire_event for
                         the same accepted program and well-typed values (also for the literal "/ 0").
   - limits_typed p      every loop limit is an integer literal or a path of type number in Typing.v's
                         variable table (rule R7).  PROOF GAP: holds for every program that satisfies the
                         documented rules (C09_wf_typed); the validator checks limits against its own
                         table (last declaration of a name wins), Typing.v / oracle_typed use the first —
                         the two agree when the declarations of a task are consistent (rule R3, which the
                         validator does not check); not derived from acceptance here.
   - no_string_order p   no < <= > >= between two strings.  MODEL LIMIT: Expr.py_cmp answers Unsupported
                         ("lexicographic order of str: not modelled"), C09_string_order_outside_model.
   - detaches_attached   the script never detaches an observer that is not attached: list.remove raises
                         ValueError in the code and in the model (C09_detach_unattached_raises) — a usage
                         error of the caller, not an internal error.
   - fuel                RefSem is fuel-indexed and a While loop can run for ever (guard true, services
                         completed immediately), so no fuel suffices for all oracles: the theorems say
                         "Ok or Fuel", never Exn, never Unsupported.  For the unfolding the sufficient
                         fuel is explicit (unfold_bound). *)
From PFDL Require Import Base Syntax Expr Unfold RefSem RunCase Monitors Examples.
From PFDL Require Import C09Static C09Unfold C09IndexFree C09Expr C09Run C09OracleCheck C09Runtime C09Wf C09Examples.
From PFDL.Check Require Import CheckModel Typing Guards CheckProofsC09.

(* ================================================================================== *)
(* 1. construction does not fail; no unbounded recursion                               *)
(* ================================================================================== *)

(* the bound: number of task definitions x deepest statement nesting of any task
   (sdepth: 1 for a service / call / Parallel, 1 + the deepest statement of the bodies otherwise) *)
Theorem C09_unfold_bound_is : forall p,
  unfold_bound p = List.length (p_tasks p) * max_depth p
  /\ max_depth p = lmax (map (fun t => lmax (map sdepth (t_body t))) (p_tasks p)).
Proof. intro p. split; reflexivity. Qed.
Print Assumptions C09_unfold_bound_is.

Theorem C09_accepted_unfolds : forall p fu,
  validate p = Ok [] -> unfold_bound p <= fu ->
  exists body, unfold_program (p_tasks p) fu = Ok body.
Proof. exact accepted_unfolds. Qed.
Print Assumptions C09_accepted_unfolds.

(* the same from the static half's conclusion *)
Theorem C09_sched_safe_unfolds : forall p fu,
  sched_safe p = true -> unfold_bound p <= fu ->
  exists body, unfold_program (p_tasks p) fu = Ok body.
Proof. exact sched_safe_unfolds. Qed.
Print Assumptions C09_sched_safe_unfolds.

(* ================================================================================== *)
(* 2. guards and limits evaluate under well-typed values                               *)
(* ================================================================================== *)

(* acceptance implies: no guard and no limit of a task a call can reach contains an array index
   (which the scheduler could not evaluate: KeyError in Expr.resolve) *)
Theorem C09_accepted_paths_index_free : forall p n t,
  validate p = Ok [] -> find_task n (p_tasks p) = Some t ->
  forallb (stmt_forall (fun _ e => expr_index_free e) (fun _ l => limit_index_free l) []) (t_body t) = true.
Proof. exact accepted_paths_index_free. Qed.
Print Assumptions C09_accepted_paths_index_free.

(* well-typed values: C09Expr.oracle_typed p orc :=
     (forall t v T k, In t (p_tasks p) -> assoc v (vars_of_task t) = Some T ->
                      exists x, orc k v = Some x /\ vtyped p x T)
     /\ (forall v es k x q, In (v, es) (limit_paths p) -> orc k v = Some x ->
                      resolve x es = Ok (VNum q) -> Qden q = 1)
   vtyped p x T: number / boolean / string: a Python number / bool / str; struct S: a Struct with a
   typed value for every non-array attribute of S's definition; arrays: not represented, nothing
   required.  It is decidable for the finite oracles of run cases: *)
Theorem C09_oracle_check_sound : forall p vals,
  oracle_typed_b p vals = true -> oracle_typed p (orc_of vals).
Proof. exact oracle_typed_b_sound. Qed.
Print Assumptions C09_oracle_check_sound.

(* runtime_typed p = guards_typed p && limits_typed p && no_string_order p.
   Every guard of the unfolding (xguards: at any depth, called tasks included) decides to a boolean
   at every point k of the run, every limit is read as a (whole) number in every state. *)
Theorem C09_guards_and_limits_evaluate : forall p orc fu body,
  validate p = Ok [] -> runtime_typed p = true -> division_safe p = true ->
  oracle_typed p orc ->
  unfold_program (p_tasks p) fu = Ok body ->
  (forall e k, In e (flat_map xguards body) -> exists b k', decide expected_ops orc e k = Ok (b, k'))
  /\ (forall l ctx g, In l (flat_map xlimits body) -> exists n g', read_limit orc l ctx g = Ok (n, g')).
Proof.
  intros p orc fu body Hacc Hrt Hdiv Horc Hu.
  pose proof (accepted_unfolding_xsafe p orc false Hacc Hrt (fun _ => Hdiv) Horc fu body Hu) as HX.
  split.
  - intros e k He. apply in_flat_map in He. destruct He as (x & Hx & He).
    rewrite Forall_forall in HX. apply dec_ok_false. exact (xsafe_guards _ _ _ (HX x Hx) e He k).
  - intros l ctx g Hl. apply in_flat_map in Hl. destruct Hl as (x & Hx & Hl).
    rewrite Forall_forall in HX. apply lim_ok_read. exact (xsafe_limits _ _ _ (HX x Hx) l Hl).
Qed.
Print Assumptions C09_guards_and_limits_evaluate.

(* without the condition on divisors: the only possible failure is ZeroDivisionError *)
Theorem C09_guards_evaluate_or_divide_by_zero : forall p orc fu body,
  validate p = Ok [] -> runtime_typed p = true ->
  oracle_typed p orc ->
  unfold_program (p_tasks p) fu = Ok body ->
  forall e k, In e (flat_map xguards body) ->
    (exists b k', decide expected_ops orc e k = Ok (b, k'))
    \/ decide expected_ops orc e k = Exn ZeroDivisionError.
Proof.
  intros p orc fu body Hacc Hrt Horc Hu e k He.
  assert (Hd : true = false -> division_safe p = true) by discriminate.
  pose proof (accepted_unfolding_xsafe p orc true Hacc Hrt Hd Horc fu body Hu) as HX.
  apply in_flat_map in He. destruct He as (x & Hx & He).
  rewrite Forall_forall in HX. apply dec_ok_true. exact (xsafe_guards _ _ _ (HX x Hx) e He k).
Qed.
Print Assumptions C09_guards_evaluate_or_divide_by_zero.

(* the conditions hold for every program that satisfies the documented rules *)
Theorem C09_wf_typed : forall p,
  wf_dec p = true -> guards_typed p = true /\ limits_typed p = true.
Proof. intros p H. split; [apply wf_guards_typed|apply wf_limits_typed]; exact H. Qed.
Print Assumptions C09_wf_typed.

(* ================================================================================== *)
(* 3. no internal error escapes                                                        *)
(* ================================================================================== *)

(* every immediate-completion choice, every script, every fuel *)
Theorem C09_run_never_raises_partial : forall p orc imm fu body fuel script,
  validate p = Ok [] -> runtime_typed p = true -> division_safe p = true ->
  oracle_typed p orc ->
  unfold_program (p_tasks p) fu = Ok body ->
  detaches_attached [] script = true ->
  (forall k, run_script orc imm fuel body sched0 script <> Exn k)
  /\ run_script orc imm fuel body sched0 script <> Unsupported.
Proof.
  intros p orc imm fu body fuel script Hacc Hrt Hdiv Horc Hu Hd.
  apply nofail_false. eapply accepted_run_nofail; try eassumption. intros _. exact Hdiv.
Qed.
Print Assumptions C09_run_never_raises_partial.

(* the statement one would like: acceptance + typed guards + consistent declarations + safe divisors;
   an outcome Unsupported (outside the model) is not an exception.  Missing for it: limits_typed is
   not derived from acceptance (see the head of the file), and the ordering of strings is not
   modelled. *)
Definition C09_run_never_raises_full : Prop :=
  forall p orc imm fu body fuel script,
    validate p = Ok [] -> guards_typed p = true -> division_safe p = true ->
    forallb (fun t => consistent (vars_of_task t)) (p_tasks p) = true ->
    oracle_typed p orc ->
    unfold_program (p_tasks p) fu = Ok body ->
    detaches_attached [] script = true ->
    forall k, run_script orc imm fuel body sched0 script <> Exn k.

(* for programs that satisfy the documented rules no typing hypothesis is left *)
Theorem C09_run_never_raises_wf : forall p orc imm fu body fuel script,
  validate p = Ok [] -> wf_dec p = true -> no_string_order p = true -> division_safe p = true ->
  oracle_typed p orc ->
  unfold_program (p_tasks p) fu = Ok body ->
  detaches_attached [] script = true ->
  (forall k, run_script orc imm fuel body sched0 script <> Exn k)
  /\ run_script orc imm fuel body sched0 script <> Unsupported.
Proof.
  intros p orc imm fu body fuel script Hacc Hwf Hns Hdiv Horc Hu Hd.
  eapply C09_run_never_raises_partial; try eassumption.
  unfold runtime_typed. rewrite (wf_guards_typed _ Hwf), (wf_limits_typed _ Hwf), Hns. reflexivity.
Qed.
Print Assumptions C09_run_never_raises_wf.

(* without the condition on divisors: nothing but ZeroDivisionError *)
Theorem C09_run_raises_only_zero_division : forall p orc imm fu body fuel script,
  validate p = Ok [] -> runtime_typed p = true ->
  oracle_typed p orc ->
  unfold_program (p_tasks p) fu = Ok body ->
  detaches_attached [] script = true ->
  (forall k, run_script orc imm fuel body sched0 script = Exn k -> k = ZeroDivisionError)
  /\ run_script orc imm fuel body sched0 script <> Unsupported.
Proof.
  intros p orc imm fu body fuel script Hacc Hrt Horc Hu Hd.
  apply nofail_true. eapply accepted_run_nofail; try eassumption. discriminate.
Qed.
Print Assumptions C09_run_raises_only_zero_division.

(* whole run cases as the harness writes them (construction with the harness' fuel 200 included) *)
Theorem C09_run_ref_never_raises_partial : forall c,
  validate (rc_prog c) = Ok [] -> runtime_typed (rc_prog c) = true -> division_safe (rc_prog c) = true ->
  oracle_typed (rc_prog c) (orc_of (rc_vals c)) ->
  unfold_bound (rc_prog c) <= 200 ->
  no_reactions c = true ->
  detaches_attached [] (rc_script c) = true ->
  (forall k, run_ref c <> Exn k) /\ run_ref c <> Unsupported.
Proof.
  intros c Hacc Hrt Hdiv Horc Hb Hnr Hd. apply nofail_false.
  eapply accepted_run_ref_nofail; try eassumption. intros _. exact Hdiv.
Qed.
Print Assumptions C09_run_ref_never_raises_partial.

(* division by zero is real: the statement without the condition on divisors is false *)
Definition C09_run_never_raises_any_divisor : Prop :=
  forall c, validate (rc_prog c) = Ok [] -> runtime_typed (rc_prog c) = true ->
            oracle_typed (rc_prog c) (orc_of (rc_vals c)) ->
            unfold_bound (rc_prog c) <= 200 -> no_reactions c = true ->
            detaches_attached [] (rc_script c) = true ->
            forall k, run_ref c <> Exn k.

Theorem C09_division_by_zero_refuted : ~ C09_run_never_raises_any_divisor.
Proof.
  intro H. destruct div_hypotheses as (H1 & H2 & _ & _ & H5 & H6 & H7).
  exact (H div_case H1 H2 div_oracle_typed H5 H6 H7 ZeroDivisionError div_raises).
Qed.
Print Assumptions C09_division_by_zero_refuted.

(* the witness: Condition "d.ratio / d.count < 1" with d = {count: 0, ratio: 1.5, flag: true};
   also with the literal divisor: "d.ratio / 0 < 1" *)
Theorem C09_division_by_zero_witness :
  validate div_prog = Ok [] /\ runtime_typed div_prog = true /\ division_safe div_prog = false
  /\ oracle_typed div_prog (orc_of (rc_vals div_case))
  /\ run_ref div_case = Exn ZeroDivisionError
  /\ validate div0_prog = Ok [] /\ runtime_typed div0_prog = true.
Proof.
  destruct div_hypotheses as (H1 & H2 & _ & H4 & _). destruct div0_accepted_and_raises as (K1 & K2 & _).
  split; [exact H1|]. split; [exact H2|]. split; [exact H4|]. split; [exact div_oracle_typed|].
  split; [exact div_raises|]. split; [exact K1|exact K2].
Qed.
Print Assumptions C09_division_by_zero_witness.

Theorem C09_detach_unattached_raises :
  detaches_attached [] [ADetach 3] = false
  /\ run_script (orc_of (rc_vals ex_case)) (imm_of []) 100 ex_body sched0 [ADetach 3] = Exn ValueError.
Proof. exact detach_unattached_raises. Qed.
Print Assumptions C09_detach_unattached_raises.

Theorem C09_string_order_outside_model :
  validate strord_prog = Ok [] /\ guards_typed strord_prog = true /\ limits_typed strord_prog = true
  /\ no_string_order strord_prog = false
  /\ run_ref {| rc_prog := strord_prog; rc_vals := rc_vals div_case; rc_imm := []; rc_script := [AStart];
                rc_react := []; rc_react_all := false; rc_mutate := 0; rc_test_ids := true |} = Unsupported.
Proof. exact strord_outside_model. Qed.
Print Assumptions C09_string_order_outside_model.

(* ================================================================================== *)
(* 4. the order completes                                                              *)
(* ================================================================================== *)

(* every such run is out of fuel or yields a trace on which the monitor of C01 holds; in every
   call record of it: the order is final exactly when it has been started and no announced service
   is outstanding; while it runs something is awaited; once final it does not run *)
Theorem C09_order_completes : forall p orc imm fu body fuel script,
  validate p = Ok [] -> runtime_typed p = true -> division_safe p = true ->
  oracle_typed p orc ->
  unfold_program (p_tasks p) fu = Ok body ->
  detaches_attached [] script = true ->
  run_script orc imm fuel body sched0 script = Fuel
  \/ exists tr, run_script orc imm fuel body sched0 script = Ok tr
                /\ holds_C01 tr = true
                /\ forall r, In r tr ->
                     (cr_final r = true -> cr_awaited r = [] /\ cr_running r = false)
                     /\ (cr_running r = true -> cr_awaited r <> [])
                     /\ (cr_running r = true \/ cr_final r = true ->
                         (cr_awaited r = [] <-> cr_final r = true)).
Proof.
  intros p orc imm fu body fuel script Hacc Hrt Hdiv Horc Hu Hd.
  destruct (C09_run_never_raises_partial p orc imm fu body fuel script Hacc Hrt Hdiv Horc Hu Hd) as [HE HU].
  destruct (run_script orc imm fuel body sched0 script) as [tr| |k|] eqn:E.
  - right. exists tr. split; [reflexivity|].
    exact (accepted_order_completes p orc imm fu body fuel script tr Hu E).
  - left. reflexivity.
  - exfalso. exact (HE k eq_refl).
  - exfalso. exact (HU eq_refl).
Qed.
Print Assumptions C09_order_completes.

(* the reading of the monitor used above, for any trace *)
Theorem C09_holds_C01_meaning : forall tr r,
  holds_C01 tr = true -> In r tr ->
  (cr_final r = true -> cr_awaited r = [] /\ cr_running r = false)
  /\ (cr_running r = true -> cr_awaited r <> [])
  /\ (cr_running r = true \/ cr_final r = true -> (cr_awaited r = [] <-> cr_final r = true)).
Proof. exact holds_C01_meaning. Qed.
Print Assumptions C09_holds_C01_meaning.

(* ================================================================================== *)
(* 5. the hypotheses are inhabited                                                     *)
(* ================================================================================== *)

(* Examples.ex_case: a service with an output, a Parallel block with a call that passes a parameter,
   a counting loop whose limit is read from a value, a Condition with an arithmetic guard, a parallel
   loop, a While loop, two called tasks; seven struct values; 16 API calls including premature,
   duplicate and junk events.  It satisfies every hypothesis, is driven to the end, and the order
   completes.  ex_case_obs: the same with attach / detach / register calls in the script. *)
Theorem C09_runtime_nonvacuous :
  validate (rc_prog ex_case) = Ok [] /\ runtime_typed (rc_prog ex_case) = true
  /\ division_safe (rc_prog ex_case) = true /\ wf_dec (rc_prog ex_case) = true
  /\ oracle_typed (rc_prog ex_case) (orc_of (rc_vals ex_case))
  /\ unfold_bound (rc_prog ex_case) = 6
  /\ no_reactions ex_case = true /\ detaches_attached [] (rc_script ex_case) = true
  /\ (exists tr, run_ref ex_case = Ok tr /\ List.length tr = 16 /\ existsb (fun r => cr_final r) tr = true)
  /\ detaches_attached [] (rc_script ex_case_obs) = true
  /\ (exists tr, run_ref ex_case_obs = Ok tr /\ List.length tr = 24
                 /\ existsb (fun r => cr_final r) tr = true /\ holds_C01 tr = true).
Proof.
  destruct ex_static as (_ & _ & _ & S4 & S5 & _ & _ & S8). destruct ex_script_ok as (N1 & N2).
  split; [exact ex_accepted|]. split; [exact S4|]. split; [exact S5|].
  split; [vm_compute; reflexivity|]. split; [exact ex_oracle_typed|]. split; [exact S8|].
  split; [exact N1|]. split; [exact N2|]. split; [exact ex_runs|].
  split; [exact ex_obs_script_ok|exact ex_obs_runs].
Qed.
Print Assumptions C09_runtime_nonvacuous.
