(* Property C15, delivered parameters, ALL schedules — "each task-started and service-started
   notification identifies the call site and callee it belongs to and carries the input parameters
   written at that call site, in source order (variables, attribute paths and struct literals may be
   mixed).  Inside a counting loop, sequential or parallel, an array index written with the loop
   variable is delivered as the concrete iteration number ...  Modifying a delivered parameter list
   affects neither later iterations, nor other instances, nor the program model".
   Only statements proved in RefDecide.v / RefParams.v / Refine/TransferParams.v.

   The executable monitor [mon_params] (MonitorsParams.v) is the decision-following monitor of
   C04 / C05 (MonitorsDecide.v, Properties/C04decide.v) with its hook: that monitor knows, for every
   task instance c, the position p of the statement just started in c's task tn and the iteration
   counters of the counting loops around it (and now numbers the instances of a parallel loop in
   the same way, in the order of their task-started notifications).  Every listener-0 STARTED
   notification (service or task) in the context of c must in addition carry
        n_params = subst_params ie (ins_at tasks tn p)
   where [ins_at] = the parameter list written at that site of the SOURCE (service, call, j-th
   call of a Parallel, call of a parallel loop) -- so the list is compared element by element, in
   order, on every delivery: what an engine did to an earlier list cannot show up -- and
   [ie] = [ie_of (lv_at tasks tn) counters p] binds, innermost first, the variable of every
   counting / parallel loop of THIS task at a prefix of p to its counter / instance number.
   Exactly as the reference semantics ([start_stmt] threads the environment, a call's body starts
   with the empty one): the caller's variable is replaced in the call's own parameters but not
   inside the callee; an index outside every loop that binds it stays as written; an inner loop
   with the same variable wins.  Not tested: the production task's own notification (no
   parameters), finished notifications.  When the underlying monitor stops judging (fuel, unusable
   oracle answer) this one stops too.
   [mon_C15 c] = [mon_decide c] && [mon_params c]; the check applies it to every implementation
   trace of C15 (hostile engines that append to / clear / replace the delivered lists included).

   (1) C15params_reference_semantics — every oracle, set of immediately completed services, fuel,
       script, monitor fuel, every body whose positions are classified as GK / INS / LV say
       ([guarded_body]: additionally the site of a service / call carries its parameter list, the
       position of a counting / parallel loop its variable, no other position a variable).
   (2) C15params_unfold_guarded, C15params_programs, C15_monitor_programs — every trace of run_ref.
   (3) C15params_rule — what the test means; C15params_env_step / _root / C15params_index — the
       environment; C15params_weaker_is_decide — dropping the test gives [mon_decide].
   (4) an accepted run with all corner cases; rejected tampered traces: index not substituted,
       wrong iteration number, shadowed variable, substitution inside the callee / outside every
       loop, parameters of another site, two parameters swapped, instance numbers of a parallel
       loop repeated, an element appended; necessity of the guard.
   (5) C15params_net_fragment / C15_net_fragment — the faithful net model on the refinement fragment.
   Not in a trace: the identity of the delivered list objects (that the implementation hands out
   copies is observed only through later deliveries being unaffected, which this monitor checks
   under the hostile profiles). *)
From PFDL Require Import RefSem RunCase Monitors MonitorsSeq MonitorsFork MonitorsDecide MonitorsParams Examples
     RefC02 RefC03 RefDecide RefParams NetRun.
From PFDL.Refine Require Import Main TransferParams.

Theorem C15params_reference_semantics :
  forall (GK : name -> list nat -> gk) (INS : name -> list nat -> list param) (LV : name -> list nat -> option name)
         (orc : oracle) (imm : nat -> bool) (body : list xstmt) (fuel : nat)
         (script : list apicall) (tr : list callrec) (F : nat),
    guarded_body GK INS LV body ->
    run_script orc imm fuel body sched0 script = Ok tr -> holds_check_with GK orc (chk_params INS LV) F tr = true.
Proof. exact params_with_ref. Qed.
Print Assumptions C15params_reference_semantics.

Theorem C15params_unfold_guarded :
  forall (tasks : list task) (f : nat) (body : list xstmt),
    unfold_program tasks f = Ok body -> guarded_body (gk_at tasks) (ins_at tasks) (lv_at tasks) body.
Proof. exact unfold_program_guarded. Qed.
Print Assumptions C15params_unfold_guarded.

Theorem C15params_programs :
  forall (c : runcase) (tr : list callrec), run_ref c = Ok tr -> mon_params c tr = true.
Proof. exact C15_params_programs. Qed.
Print Assumptions C15params_programs.

Theorem C15_monitor_programs :
  forall (c : runcase) (tr : list callrec), run_ref c = Ok tr -> mon_C15 c tr = true.
Proof. exact C15_programs. Qed.
Print Assumptions C15_monitor_programs.

Theorem C15params_weaker_is_decide : forall c tr, mon_params c tr = true -> mon_decide c tr = true.
Proof. exact params_implies_decide. Qed.
Print Assumptions C15params_weaker_is_decide.

Theorem C15params_test_only_restricts :
  forall GK orc chk1 chk2 F, (forall r n, chk1 r n = true -> chk2 r n = true) ->
    forall tr M, dec_run GK orc chk1 F M tr = true -> dec_run GK orc chk2 F M tr = true.
Proof. exact dec_run_weaken. Qed.
Print Assumptions C15params_test_only_restricts.

Theorem C15params_rule :
  forall GK INS LV orc F H n H' c,
    dec_notif GK orc (chk_params INS LV) F H n = Some H' -> ds_lost H' = false ->
    n_kind n = TS \/ n_kind n = SS -> n_ctx n = Some c ->
    exists r r', assoc c (ds_recs H) = Some r /\ d_task r = st_task (n_site n) /\
                 on_start GK orc F r (st_path (n_site n)) (ds_q H) = Next r' /\
                 d_task r' = d_task r /\ d_last r' = Some (st_path (n_site n)) /\
                 list_eqb param_eqb (n_params n)
                          (subst_params (ie_of (LV (d_task r)) (d_cnt r') (st_path (n_site n)))
                                        (INS (d_task r) (st_path (n_site n)))) = true.
Proof. exact params_rule. Qed.
Print Assumptions C15params_rule.

Theorem C15params_env_step :
  forall LVt cn pre i,
    ie_of LVt cn (pre ++ [i]) =
    match LVt (pre ++ [i]) with Some v => (v, getc (pre ++ [i]) cn) :: ie_of LVt cn pre | None => ie_of LVt cn pre end.
Proof. exact ie_of_step. Qed.
Print Assumptions C15params_env_step.

Theorem C15params_env_root : forall LVt cn, ie_of LVt cn [] = [].
Proof. exact ie_of_root. Qed.
Print Assumptions C15params_env_root.

Theorem C15params_index :
  forall ie v, subst_pelem ie (PIdxVar v) = match assoc v ie with Some k => PIdxLit k | None => PIdxVar v end.
Proof. exact subst_index. Qed.
Print Assumptions C15params_index.

Theorem C15params_example_started :
  started_with px_trace =
  [(0, [], []); (1, [0], [idx 9]);
   (2, [1; 0], [lit 0; PVar 21]); (3, [1; 1; 0], [lit 0]); (7, [1; 2], [lit 0]); (8, [0], [idx 9]);
   (2, [1; 0], [lit 1; PVar 21]); (3, [1; 1; 0], [lit 0]); (7, [1; 2], [lit 1]); (8, [0], [idx 9]);
   (7, [2; 0], [lit 0]); (8, [0], [idx 9]); (7, [2; 0], [lit 1]); (8, [0], [idx 9])].
Proof. exact px_started. Qed.
Print Assumptions C15params_example_started.

Theorem C15params_example_accepted :
  existsb (fun r => cr_final r) px_trace = true /\ mon_params px_case px_trace = true /\ mon_C15 px_case px_trace = true /\
  mon_params ex_case seq_ex_trace = true /\ mon_params dx_case dx_trace = true.
Proof. exact px_accepted. Qed.
Print Assumptions C15params_example_accepted.

Theorem C15params_rejects_unsubstituted_index : mon_params px_case (tamper (fun _ => [idx 9; PVar 21]) 6 px_trace) = false.
Proof. exact index_not_substituted_rejected. Qed.
Print Assumptions C15params_rejects_unsubstituted_index.

Theorem C15params_rejects_wrong_iteration :
  mon_params px_case (tamper (fun _ => [lit 0; PVar 21]) 6 px_trace) = false /\
  mon_params px_case (tamper (fun _ => [lit 1]) 4 px_trace) = false.
Proof. exact wrong_iteration_rejected. Qed.
Print Assumptions C15params_rejects_wrong_iteration.

Theorem C15params_rejects_outer_number_under_shadowing : mon_params px_case (tamper (fun _ => [lit 1]) 7 px_trace) = false.
Proof. exact shadowing_rejected. Qed.
Print Assumptions C15params_rejects_outer_number_under_shadowing.

Theorem C15params_rejects_substitution_in_callee_or_outside :
  mon_params px_case (tamper (fun _ => [lit 0]) 5 px_trace) = false /\ mon_params px_case (tamper (fun _ => [lit 0]) 1 px_trace) = false.
Proof. exact callee_substituted_rejected. Qed.
Print Assumptions C15params_rejects_substitution_in_callee_or_outside.

Theorem C15params_rejects_other_site : mon_params px_case (tamper (fun _ => [lit 0]) 2 px_trace) = false.
Proof. exact other_site_rejected. Qed.
Print Assumptions C15params_rejects_other_site.

Theorem C15params_rejects_swapped_order : mon_params px_case (tamper (@rev param) 2 px_trace) = false.
Proof. exact order_swapped_rejected. Qed.
Print Assumptions C15params_rejects_swapped_order.

Theorem C15params_rejects_instance_numbers :
  mon_params px_case (tamper (fun _ => [lit 0]) 12 px_trace) = false /\
  mon_params px_case (tamper (fun _ => [lit 1]) 10 (tamper (fun _ => [lit 0]) 12 px_trace)) = false.
Proof. exact instance_number_rejected. Qed.
Print Assumptions C15params_rejects_instance_numbers.

Theorem C15params_rejects_appended_element : mon_params px_case (tamper (fun l => l ++ [PVar 21]) 6 px_trace) = false.
Proof. exact appended_rejected. Qed.
Print Assumptions C15params_rejects_appended_element.

Theorem C15params_guard_inhabited :
  guarded_body (gk_at (p_tasks px_prog)) (ins_at (p_tasks px_prog)) (lv_at (p_tasks px_prog))
               (match unfold_program (p_tasks px_prog) 200 with Ok b => b | _ => [] end).
Proof. exact px_guarded. Qed.
Print Assumptions C15params_guard_inhabited.

Theorem C15params_needs_guard :
  holds_check_with (gk_at (p_tasks px_prog)) (orc_of (rc_vals px_case))
                   (chk_params (fun tn p => rev (ins_at (p_tasks px_prog) tn p)) (lv_at (p_tasks px_prog))) decide_fuel px_trace = false.
Proof. exact params_needs_guard_refuted. Qed.
Print Assumptions C15params_needs_guard.

Theorem C15params_net_fragment :
  forall c tr tr1 f, in_fragment c = true -> run_ref c = Ok tr -> run_net_f f c = Ok tr1 -> mon_params c tr1 = true.
Proof. exact net_params_fragment. Qed.
Print Assumptions C15params_net_fragment.

Theorem C15_net_fragment :
  forall c tr tr1 f, in_fragment c = true -> run_ref c = Ok tr -> run_net_f f c = Ok tr1 -> mon_C15 c tr1 = true.
Proof. exact net_C15_fragment. Qed.
Print Assumptions C15_net_fragment.
