(* Properties/Monitors.v — the executable monitors accept every trace of the reference
   semantics.  This file contains only statements proved in RefMonitors.v. *)
From PFDL Require Import RefSem RunCase RefMonitors.
From PFDL Require Monitors.

Theorem C08_monitor_ref :
  forall orc imm body f cs tr,
    run_script orc imm f body sched0 cs = Ok tr -> Monitors.holds_C08 imm cs tr = true.
Proof. exact RefMonitors.C08_monitor_ref. Qed.
Print Assumptions C08_monitor_ref.

Theorem C14_monitor_ref :
  forall orc imm body f cs tr,
    run_script orc imm f body sched0 cs = Ok tr -> Monitors.holds_C14 cs tr = true.
Proof. exact RefMonitors.C14_monitor_ref. Qed.
Print Assumptions C14_monitor_ref.
