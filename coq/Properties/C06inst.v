(* Property C06, instances of a parallel loop, ALL schedules — "each time a parallel counting loop
   is reached its limit N is evaluated at that moment and exactly N instances of its task are
   started concurrently in that scheduler call; the statement following the loop starts only after
   all N instances have finished".  Only statements proved in RefC03.v.

   Parallel-loop rules of the monitor of MonitorsFork.v, per task instance c:
     (p1) a started notification of an instance while another instance of that loop is in progress
          in c must continue a fork opened in this same call (the fork bookkeeping is dropped at
          the end of every call): all instances of one execution are started in one call;
     (p2) count.  Limit read from a variable: the execution is opened by the oracle query that
          immediately precedes the first instance in c; N is the answer of the oracle to exactly
          that query ([limit_answer] at the index = number of queries in the whole history, i.e.
          "at that moment"); no more than N instances are accepted, and the fork is closed (next
          other start of c, task-finished of c, next execution, end of call) only with exactly N.
          Literal limit n: the instances started contiguously in one call are a multiple of n
          (two executions that complete synchronously inside one call cannot be told apart).
          N <= 0 starts nothing and shows nothing;
     (p3) join: nothing else is started in c while an instance is in progress; when a task-finished
          notification leaves no instance in progress c owes a continuation in that call.
   The index bound to the counting variable is visible in a notification only when the call
   passes an indexed parameter; it is not checked by this monitor (C15 compares the delivered
   parameters with the model on every case).
   [mon_C06inst c] = these rules with [fan_at] of the case's program and the case's oracle;
   [mon_C06 c] = [mon_C02seq c] and [mon_C06inst c], applied to every implementation trace of C06.

   (1) C06inst_reference_semantics, C06inst_programs, C06_monitor_programs.
   (2) C06inst_rule — what acceptance of an instance's task-started notification means;
       C06inst_limit_at_that_moment — the reference semantics reads the limit with exactly the
       oracle index the monitor uses (RefC03.FQ_limit).
   (3) rejected tampered traces: an instance started one call later; an instance missing (literal
       and variable limit); an instance too many. *)
From PFDL Require Import RefSem RunCase Monitors MonitorsSeq MonitorsFork Examples RefC02 RefC03 NetRun.
From PFDL.Refine Require Import Main TransferC03.

Theorem C06inst_reference_semantics :
  forall (FAN : name -> list nat -> fan) (orc : oracle) (imm : nat -> bool) (body : list xstmt) (fuel : nat)
         (script : list apicall) (tr : list callrec),
    forked_body FAN body ->
    run_script orc imm fuel body sched0 script = Ok tr -> holds_fork_with FAN orc false true tr = true.
Proof. intros. eapply fork_with_ref; eassumption. Qed.
Print Assumptions C06inst_reference_semantics.

Theorem C06inst_programs :
  forall (c : runcase) (tr : list callrec), run_ref c = Ok tr -> mon_C06inst c tr = true.
Proof. exact C06_inst_programs. Qed.
Print Assumptions C06inst_programs.

Theorem C06_monitor_programs :
  forall (c : runcase) (tr : list callrec), run_ref c = Ok tr -> mon_C06 c tr = true.
Proof. exact C06_programs. Qed.
Print Assumptions C06_monitor_programs.

Theorem C06inst_rule :
  forall FAN orc cp H n H' c r f,
    fork_start FAN orc cp true H true n = Some H' -> n_ctx n = Some c ->
    classify (FAN (st_task (n_site n))) true (st_path (n_site n)) = FInst r f ->
    exists e1, assoc c (fk_pl H') = Some e1 /\ pe_task e1 = st_task (n_site n) /\ pe_pos e1 = r /\
               (forall N, pe_exp e1 = Some N -> pe_cnt e1 <= N) /\
               (live c r (fk_tasks H) = true ->
                match f with FVar _ _ => assoc c (fk_lastq H) = None | _ => True end ->
                exists e, assoc c (fk_pl H) = Some e /\ pe_task e = st_task (n_site n) /\ pe_pos e = r /\
                          pe_cnt e1 = S (pe_cnt e) /\ pe_exp e1 = pe_exp e) /\
               (forall v p qi, f = FVar v p -> assoc c (fk_lastq H) = Some qi ->
                               pe_cnt e1 = 1 /\ pe_exp e1 = limit_answer orc qi v p /\ pe_exp e1 <> None /\
                               live c r (fk_tasks H) = false /\ pl_ok_opt FAN (assoc c (fk_pl H)) = true).
Proof. exact inst_rule. Qed.
Print Assumptions C06inst_rule.

Theorem C06inst_limit_at_that_moment :
  forall FAN orc l ctx g n g' F0 L F,
    read_limit orc l ctx g = Ok (n, g') -> FQ FAN orc F0 g L F ->
    exists F', FQ FAN orc F0 g' L F' /\ QEx ctx F F' /\
               match l with
               | LimInt m => n = Z.of_nat m
               | LimPath v p => assoc ctx (fk_lastq F') = Some (g_q g) /\
                                limit_answer orc (g_q g) v p = Some (Z.to_nat n)
               end.
Proof. exact FQ_limit. Qed.
Print Assumptions C06inst_limit_at_that_moment.

Theorem C06inst_rejects_deferred_instance : mon_C06inst fx_case (defer_tail 2 3 fx_trace) = false.
Proof. exact instance_deferred_rejected. Qed.
Print Assumptions C06inst_rejects_deferred_instance.

Theorem C06inst_rejects_missing_instance :
  mon_C06inst fx_case (drop_instance 4 fx_trace) = false /\ mon_C06inst fx_case (drop_instance 7 fx_trace) = false.
Proof. exact instance_missing_rejected. Qed.
Print Assumptions C06inst_rejects_missing_instance.

Theorem C06inst_rejects_surplus_instance :
  mon_C06inst {| rc_prog := fx_prog; rc_vals := [VNum (Qmake 2 1)]; rc_imm := []; rc_script := rc_script fx_case;
                 rc_react := []; rc_react_all := false; rc_mutate := 0; rc_test_ids := true |} fx_trace = false.
Proof. exact instance_surplus_rejected. Qed.
Print Assumptions C06inst_rejects_surplus_instance.

Theorem C06inst_net_fragment :
  forall c tr tr1 f, in_fragment c = true -> run_ref c = Ok tr -> run_net_f f c = Ok tr1 -> mon_C06inst c tr1 = true.
Proof. exact net_C06inst_fragment. Qed.
Print Assumptions C06inst_net_fragment.
