(* Property C07 — start/finish notifications are balanced, nested and correctly attributed.
   This file contains only statements proved elsewhere (RefDen.v, RefC01.v, RefIds.v).
   Proved for all programs / valuations (the FULL lifecycle theorem C07_reference_semantics is at the end of this file; the statements (1)-(3) are kept as corollaries of independent interest):
   (1) C07_sync_partial: under the fully re-entrant schedule the notifications are the
       denotation [den_*]: every task is  TS · body · TF  with the same name, site and
       parameters, every service  SS · SF , children strictly inside their parent, the
       production task first and last;
   (2) C07_counts_all_schedules (C01): in every history service-started and service-finished
       notifications balance exactly when the order completes, the production task is finished
       once, last, in the call that delivers the last completion;
   (3) C07_fresh_identifiers: instances are told apart by identifiers that are never reused.
   Not proved: the full lifecycle monitor [holds_C07] for arbitrary interleavings; it is
   applied to every implementation trace and to both models' traces by the check. *)
From PFDL Require Import RefSem RunCase Monitors RefShape RefDen RefC01 RefIds Examples RefC07.

Theorem C07_sync_partial :
  forall orc body fuel (s : sched) b s',
    sc_root s = None ->
    api_call orc itrue fuel body s AStart = Ok (b, s') ->
    exists evs mid q',
      cr_log (observe b s') = flat_map (render (g_ls (sc_g s)) (g_obs (sc_g s))) evs
      /\ den_block orc fuel [] body 0 (g_q (sc_g s)) = Ok (mid, q')
      /\ map erase evs = DN TS production_task root_site [] :: mid ++ [DN TF production_task root_site []]
      /\ cr_final (observe b s') = true /\ cr_running (observe b s') = false.
Proof. exact sync_order. Qed.
Print Assumptions C07_sync_partial.

Theorem C07_counts_all_schedules :
  forall orc imm body fuel script tr,
    run_script orc imm fuel body sched0 script = Ok tr -> holds_C01 tr = true.
Proof. exact C01_ref. Qed.
Print Assumptions C07_counts_all_schedules.

Theorem C07_fresh_identifiers :
  forall orc imm body fuel cs tr,
    run_script orc imm fuel body sched0 cs = Ok tr -> ranged 0 0 tr.
Proof. intros orc imm body fuel cs tr H. exact (ranged_ref orc imm body fuel cs sched0 tr H). Qed.
Print Assumptions C07_fresh_identifiers.

(* ==== the full lifecycle theorem (RefC07.v): all interleavings, all histories ==== *)
(* for every unfolded program body, every value oracle, every choice of services that are
   completed from inside their own service-started notification, every amount of fuel and
   every script of API calls (start, completion of ANY identifier, junk events,
   registrations, observer attach/detach) *)
Theorem C07_reference_semantics :
  forall (orc : oracle) (imm : nat -> bool) (body : list xstmt) (fuel : nat)
         (script : list apicall) (tr : list callrec),
    run_script orc imm fuel body sched0 script = Ok tr -> holds_C07 script tr = true.
Proof. exact C07_ref. Qed.
Print Assumptions C07_reference_semantics.

(* the same, for source programs (call-tree unfolding included) *)
Theorem C07_programs :
  forall (c : runcase) (tr : list callrec), run_ref c = Ok tr -> holds_C07 (rc_script c) tr = true.
Proof. exact C07_ref_programs. Qed.
Print Assumptions C07_programs.

(* the hypothesis is inhabited by a non-trivial run that completes the order *)
Theorem C07_nonvacuous :
  exists tr, run_ref ex_case = Ok tr /\ existsb (fun r => cr_final r) tr = true
             /\ holds_C07 (rc_script ex_case) tr = true.
Proof. exact C07_ref_nonvacuous. Qed.
Print Assumptions C07_nonvacuous.
