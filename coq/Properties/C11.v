(* C11 — Validation accepts every well-formed program (no false rejections).
   This file contains only the property theorems.  WF (Check/Typing.v) is the declarative rule
   set R1–R9 transcribed from docs/pfdl/*.md; wf_dec its decision procedure; the model is
   Check/CheckModel.v; proofs: Check/TypingProofs.v, Check/CheckProofsC11.v, Check/CheckRefuted.v.

   Order independence (the verdict does not depend on the order of the definitions) is NOT a
   theorem of this file: it is checked by the correspondence slice only (every generated
   program is also run with its struct and task definitions permuted and interleaved at
   random; same verdict, and the model agrees on both). *)
From PFDL Require Import Base Syntax.
From PFDL.Check Require Import CheckModel Typing TypingProofs Guards CheckProofsC11 CheckRefuted Witnesses.

(* the generator is not trusted: each generated program is certified by wf_dec, and wf_dec
   decides WF *)
Theorem C11_wf_dec_correct : forall p, wf_dec p = true <-> WF p.
Proof. exact wf_dec_correct. Qed.
Print Assumptions C11_wf_dec_correct.

(* Full statement: false of the faithful model (known findings D20, D11a, D11c) … *)
Theorem C11_wf_accepted_refuted : ~ C11_wf_accepted.
Proof. exact not_wf_accepted. Qed.
Print Assumptions C11_wf_accepted_refuted.

(* … witnesses: a string attribute compared with == is rejected; a parenthesised string operand
   of < is rejected; an array element in a guard, an element of an array of primitives as
   parameter and an array element as condition raise. *)
Theorem C11_refuted_string_equality :
  wf_dec w_D20_string_equality = true /\ validate w_D20_string_equality = Ok [(KNotBoolean, CStmt 0 [1])].
Proof. exact wf_rejected_string_equality. Qed.
Print Assumptions C11_refuted_string_equality.
Theorem C11_refuted_parenthesised_string :
  wf_dec w_D20_parenthesised_string_operand = true
  /\ validate w_D20_parenthesised_string_operand = Ok [(KCmpTypes, CStmt 0 [1])].
Proof. exact wf_rejected_parenthesised_string. Qed.
Print Assumptions C11_refuted_parenthesised_string.
Theorem C11_refuted_array_element_in_guard :
  wf_dec w_D11a_array_element_in_guard = true /\ validate w_D11a_array_element_in_guard = Exn TypeError.
Proof. exact wf_crash_array_element_in_guard. Qed.
Print Assumptions C11_refuted_array_element_in_guard.
Theorem C11_refuted_primitive_array_element :
  wf_dec w_D11c_primitive_array_element = true /\ validate w_D11c_primitive_array_element = Exn KeyError.
Proof. exact wf_crash_primitive_array_element. Qed.
Print Assumptions C11_refuted_primitive_array_element.
Theorem C11_refuted_array_element_as_condition :
  wf_dec w_array_element_as_condition = true /\ validate w_array_element_as_condition = Exn TypeError.
Proof. exact wf_crash_array_element_as_condition. Qed.
Print Assumptions C11_refuted_array_element_as_condition.

(* … and true under the executable guard that excludes exactly those shapes: every
   well-formed program — any nesting of statements, variables, attribute paths and array
   elements as parameters, struct literals with nested structs and arrays, task inputs and
   outputs matched by position and type — is accepted with no message. *)
Theorem C11_wf_accepted_partial : forall p, WF p -> c11_guard p = true -> validate p = Ok [].
Proof. exact wf_accepted_under_guard. Qed.
Print Assumptions C11_wf_accepted_partial.

(* the guard in terms of the guard of C16 and the D20 shape *)
Theorem C11_wf_accepted_crash_free : forall p,
  WF p -> crash_free p = true -> sh_string_eq p = false -> validate p = Ok [].
Proof. exact wf_accepted_crash_free. Qed.
Print Assumptions C11_wf_accepted_crash_free.

(* fragments, for every well-formed program without any guard: the visitor prints nothing, the
   struct definitions pass, the inputs and outputs of every task pass *)
Theorem C11_visitor_silent : forall p, WF p -> visit_errs p = [].
Proof. exact wf_visit_errs_nil. Qed.
Print Assumptions C11_visitor_silent.
Theorem C11_structs_pass : forall p, WF p -> check_structs (visit_env p) = ok_true.
Proof. exact wf_check_structs. Qed.
Print Assumptions C11_structs_pass.
Theorem C11_task_signatures_pass : forall p, WF p -> forall kv, In kv (e_tasks (visit_env p)) ->
  check_task_inputs (visit_env p) (snd kv) = ok_true /\ check_task_outputs (snd kv) = ok_true.
Proof. exact wf_check_task_io. Qed.
Print Assumptions C11_task_signatures_pass.

Theorem C11_guard_inhabited :
  wf_dec w_good_small = true /\ c11_guard w_good_small = true /\ crash_free w_good_small = true
  /\ sh_string_eq w_good_small = false.
Proof. exact c11_guard_inhabited. Qed.
Print Assumptions C11_guard_inhabited.
Theorem C11_guard_excludes_the_witnesses :
  c11_guard w_D20_string_equality = false /\ c11_guard w_D20_parenthesised_string_operand = false
  /\ c11_guard w_D11a_array_element_in_guard = false /\ c11_guard w_D11c_primitive_array_element = false
  /\ c11_guard w_array_element_as_condition = false.
Proof. exact c11_witnesses_outside_guard. Qed.
Print Assumptions C11_guard_excludes_the_witnesses.
