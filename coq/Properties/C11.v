(* C11 — Validation accepts every well-formed program (no false rejections).
   This file contains only the property theorems.  WF (Check/Typing.v) is the declarative rule
   set R1–R9 transcribed from docs/pfdl/*.md; wf_dec its decision procedure; the model is
   Check/CheckModel.v; proofs: Check/TypingProofs.v, Check/CheckProofsC11.v, Check/CheckRefuted.v.

   Order independence (the verdict does not depend on the order of the definitions) is NOT a
   theorem of this file: it is checked by the correspondence slice only (every generated
   program is also run with its struct and task definitions permuted and interleaved at
   random; same verdict, and the model agrees on both). *)
From PFDL Require Import Base Syntax.
From PFDL.Check Require Import CheckModel Typing TypingProofs Guards CheckProofsC09 CheckProofsC11 CheckRefuted Witnesses.

(* the generator is not trusted: each generated program is certified by wf_dec, and wf_dec
   decides WF *)
Theorem C11_wf_dec_correct : forall p, wf_dec p = true <-> WF p.
Proof. exact wf_dec_correct. Qed.
Print Assumptions C11_wf_dec_correct.

(* Full statement: false of the faithful model (known findings D24, D25) … *)
Theorem C11_wf_accepted_refuted : ~ C11_wf_accepted.
Proof. exact not_wf_accepted. Qed.
Print Assumptions C11_wf_accepted_refuted.

(* … witnesses (all well-formed, all rejected with a message; before the repairs D11a / D11c
   the array-element cases raised): a string attribute compared with ==; a parenthesised string
   operand of <; an array element inside a guard, as the whole condition, as a loop limit; an
   element of an array of primitives as parameter. *)
Theorem C11_refuted_string_equality :
  wf_dec w_D24_string_equality = true /\ validate w_D24_string_equality = Ok [(KNotBoolean, CStmt 0 [1])].
Proof. exact wf_rejected_string_equality. Qed.
Print Assumptions C11_refuted_string_equality.
Theorem C11_refuted_parenthesised_string :
  wf_dec w_D24_parenthesised_string_operand = true
  /\ validate w_D24_parenthesised_string_operand = Ok [(KCmpTypes, CStmt 0 [1])].
Proof. exact wf_rejected_parenthesised_string. Qed.
Print Assumptions C11_refuted_parenthesised_string.
Theorem C11_refuted_array_element_in_guard :
  wf_dec w_D25_array_element_in_guard = true
  /\ validate w_D25_array_element_in_guard = Ok [(KCmpTypes, CStmt 0 [1])].
Proof. exact wf_rejected_array_element_in_guard. Qed.
Print Assumptions C11_refuted_array_element_in_guard.
Theorem C11_refuted_array_element_as_condition :
  wf_dec w_array_element_as_condition = true
  /\ validate w_array_element_as_condition = Ok [(KNotBoolean, CStmt 0 [1])].
Proof. exact wf_rejected_array_element_as_condition. Qed.
Print Assumptions C11_refuted_array_element_as_condition.
Theorem C11_refuted_array_element_as_limit :
  wf_dec w_D25_array_element_as_limit = true
  /\ validate w_D25_array_element_as_limit = Ok [(KLimitNotNumber, CStmt 0 [1])].
Proof. exact wf_rejected_array_element_as_limit. Qed.
Print Assumptions C11_refuted_array_element_as_limit.
Theorem C11_refuted_primitive_array_element :
  wf_dec w_D25_primitive_array_element = true
  /\ validate w_D25_primitive_array_element = Ok [(KNotAStruct, CStmtIn 0 [1])].
Proof. exact wf_rejected_primitive_array_element. Qed.
Print Assumptions C11_refuted_primitive_array_element.

(* … and true under the executable guard that excludes exactly those shapes (c11_guard: no
   array element in a guard or limit, no element of a primitive array as parameter, no string
   attribute where only numbers and booleans are accepted, no parenthesised string operand):
   every well-formed program — any nesting of statements, variables, attribute paths and array
   elements as parameters, struct literals with nested structs and arrays, task inputs and
   outputs matched by position and type, loop limits, no recursion — is accepted with no
   message. *)
Theorem C11_wf_accepted_partial : forall p, WF p -> c11_guard p = true -> validate p = Ok [].
Proof. exact wf_accepted_under_guard. Qed.
Print Assumptions C11_wf_accepted_partial.

(* fragments, for every well-formed program without any guard: the visitor prints nothing, the
   struct definitions pass, the inputs and outputs of every task pass, no call is reported as
   recursive *)
Theorem C11_visitor_silent : forall p, WF p -> visit_errs p = [].
Proof. exact wf_visit_errs_nil. Qed.
Print Assumptions C11_visitor_silent.
Theorem C11_structs_pass : forall p, WF p -> check_structs (visit_env p) = ok_true.
Proof. exact wf_check_structs. Qed.
Print Assumptions C11_structs_pass.
Theorem C11_task_signatures_pass : forall p, WF p -> forall kv, In kv (e_tasks (visit_env p)) ->
  check_task_inputs (visit_env p) (snd kv) = ok_true /\ check_task_outputs (snd kv) = ok_true.
Proof. exact wf_check_task_io. Qed.
Print Assumptions C11_task_signatures_pass.
Theorem C11_no_recursion_reported : forall p, WF p -> forall tk n f,
  In tk (p_tasks p) -> In n (task_calls tk) -> task_reaches (visit_env p) f n (t_name tk) = false.
Proof. exact wf_no_recursion. Qed.
Print Assumptions C11_no_recursion_reported.

Theorem C11_guard_inhabited :
  wf_dec w_good_small = true /\ from_grammar w_good_small = true /\ validate w_good_small = Ok []
  /\ c11_guard w_good_small = true /\ sh_bad_guard w_good_small = false
  /\ sh_string_eq w_good_small = false /\ sh_array_element w_good_small = false
  /\ sched_safe w_good_small = true /\ guards_typed w_good_small = true.
Proof. exact good_small_in_all_guards. Qed.
Print Assumptions C11_guard_inhabited.
Theorem C11_guard_excludes_the_witnesses :
  c11_guard w_D24_string_equality = false /\ c11_guard w_D24_parenthesised_string_operand = false
  /\ c11_guard w_D25_array_element_in_guard = false /\ c11_guard w_array_element_as_condition = false
  /\ c11_guard w_D25_array_element_as_limit = false /\ c11_guard w_D25_primitive_array_element = false.
Proof. exact c11_witnesses_outside_guard. Qed.
Print Assumptions C11_guard_excludes_the_witnesses.
