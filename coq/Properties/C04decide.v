(* Property C04, decision part, ALL schedules — "when a Condition is reached, its expression is
   evaluated against the values the execution engine holds at that moment ...  Only statements of
   the selected branch are ever started; if the expression is false and there is no Failed branch,
   execution continues with the next statement; either way the enclosing task finishes normally".
   Only statements proved in RefDecide.v / Refine/TransferDecide.v.

   The executable monitor [mon_decide] (MonitorsDecide.v) reads what function 0 was told and the
   oracle queries.  The program enters through [gk_at]: the kind of the statement at an index path
   of the source (service / call; Parallel with its arity; parallel loop, counting loop with their
   limit; Condition, while loop with their guard expression).  Per task instance the monitor keeps
   the position of the statement started last, the iteration counters of the counting loops around
   it and the index of the first query asked in the instance's context since the last notification
   concerning the instance.  A started notification (task or service) in the context of instance
   c, or the task-finished notification of c itself, is accepted iff it is exactly what [walk]
   arrives at from the statement started last in c (from statement 0 for a new instance), where
     (d1) at a Condition the guard is recomputed with [decide] on the oracle's answers numbered
          from that index -- the walk continues with statement 0 of the Passed block if true, of
          the Failed block if false; an absent / empty / completed block is left to the statement
          after the Condition;
     (d2) at a while loop, when reached and after the last statement of its body, the guard is
          recomputed: true -> statement 0 of the body, false -> the statement after the loop;
     (d3) at a counting loop the limit is read before EVERY test, as the reference semantics does
          (a literal, or the oracle's answer at the next index: one query per test); iteration k
          (k = 0 when the loop is reached, k+1 after the last statement of the body) is entered iff
          k < limit, otherwise the walk continues after the loop;
     at a Parallel / parallel loop the walk stops at the first branch / instance and the remaining
     ones are expected as siblings (their number = arity / limit); the end of the task body is the
     instance's task-finished notification;
   and iff the walk consumed EXACTLY the queries asked so far (so an omitted or an extra guard
   evaluation is refused).  Guards without variables ask nothing: they are recomputed by position
   like the others (no side condition).  The names of the queried variables are not compared
   (that is the context monitor [mon_C04ctx]); if the walk needs more than [decide_fuel] = 400
   steps, or an answer is not usable (non-Boolean guard value), the monitor stops judging
   (accepts the rest): soundness of rejections is what is proved.
   [mon_C04 c] = [mon_C04ctx c] && [mon_C02seq c] && [mon_decide c]; the check applies it to every
   implementation trace of C04.

   (1) C04decide_reference_semantics — every oracle, set of immediately completed services, fuel,
       script, monitor fuel, every body whose positions are classified as GK says ([guarded_body]:
       sites are positions, the positions of Conditions / loops / Parallel carry their guard /
       limit / arity, block prefixes and the position behind the last statement of every block
       carry nothing, branches and instances are task calls; INS / LV -- the parameter list of a
       site, the variable of a loop position -- serve the parameter test of C15, Properties/C15params.v,
       which is proved by the same induction; [mon_decide] is that monitor without the test).
   (2) C04decide_unfold_guarded — the call-tree unfolding of every source program is guarded
       under [gk_at]; C04decide_programs / C04_monitor_programs — every trace of run_ref.
   (3) what acceptance means: C04decide_run_meaning (every entry passed the test in the state
       reached by the history), C04decide_start_rule / C04decide_end_rule (the test), and
       C04decide_walk_condition / C04decide_leave_branch (the walk at a Condition).
   (4) rejected traces (Failed branch started although the guard is true -- by a different
       execution and by relabelling; the branch of a constant guard skipped; a nested Condition
       without Failed block), an accepted run, necessity of the guard.
   (5) C04decide_net_fragment / C04_net_fragment — the faithful net model on the refinement fragment.
   Not in a trace: the value the engine "holds" other than through the oracle's answers. *)
From PFDL Require Import RefSem RunCase Monitors MonitorsSeq MonitorsFork MonitorsDecide MonitorsParams Examples RefC02 RefC03 RefDecide NetRun.
From PFDL.Refine Require Import Main TransferDecide.

Theorem C04decide_reference_semantics :
  forall (GK : name -> list nat -> gk) (INS : name -> list nat -> list param) (LV : name -> list nat -> option name)
         (orc : oracle) (imm : nat -> bool) (body : list xstmt) (fuel : nat)
         (script : list apicall) (tr : list callrec) (F : nat),
    guarded_body GK INS LV body ->
    run_script orc imm fuel body sched0 script = Ok tr -> holds_decide_with GK orc F tr = true.
Proof. exact decide_with_ref. Qed.
Print Assumptions C04decide_reference_semantics.

Theorem C04decide_unfold_guarded :
  forall (tasks : list task) (f : nat) (body : list xstmt),
    unfold_program tasks f = Ok body -> guarded_body (gk_at tasks) (ins_at tasks) (lv_at tasks) body.
Proof. exact unfold_program_guarded. Qed.
Print Assumptions C04decide_unfold_guarded.

Theorem C04decide_programs :
  forall (c : runcase) (tr : list callrec), run_ref c = Ok tr -> mon_decide c tr = true.
Proof. exact C04_decide_programs. Qed.
Print Assumptions C04decide_programs.

Theorem C04_monitor_programs :
  forall (c : runcase) (tr : list callrec), run_ref c = Ok tr -> mon_C04 c tr = true.
Proof. exact C04_programs. Qed.
Print Assumptions C04_monitor_programs.

Theorem C04decide_run_meaning :
  forall GK orc chk F tr pre r post a e b S0,
    dec_run GK orc chk F S0 tr = true -> tr = pre ++ r :: post -> cr_log r = a ++ e :: b ->
    exists S1 H H', dhist GK orc chk F S0 pre = Some S1 /\ dec_log GK orc chk F S1 a = Some H /\ dec_entry GK orc chk F H e = Some H'.
Proof. exact decide_run_meaning. Qed.
Print Assumptions C04decide_run_meaning.

Theorem C04decide_start_rule :
  forall GK orc chk F H n H' c,
    dec_notif GK orc chk F H n = Some H' -> ds_lost H' = false ->
    n_kind n = TS \/ n_kind n = SS -> n_ctx n = Some c ->
    exists r, assoc c (ds_recs H) = Some r /\ d_task r = st_task (n_site n) /\
              match d_more r with
              | O => exists cn more, expect GK orc F r (ds_q H) = Some (Some (Some (st_path (n_site n)), cn, ds_q H, more))
              | S _ => exists t, d_last r = Some t /\ sibling (GK (d_task r)) t = Some (st_path (n_site n)) /\ d_first r = None
              end.
Proof. exact start_rule. Qed.
Print Assumptions C04decide_start_rule.

Theorem C04decide_end_rule :
  forall GK orc chk F H n H',
    dec_notif GK orc chk F H n = Some H' -> ds_lost H' = false -> n_kind n = TF ->
    exists r cn more, assoc (n_id n) (ds_recs H) = Some r /\ d_more r = 0 /\
                      expect GK orc F r (ds_q H) = Some (Some (None, cn, ds_q H, more)).
Proof. exact end_rule. Qed.
Print Assumptions C04decide_end_rule.

Theorem C04decide_walk_condition :
  forall orc G f pre i cn q e b q',
    G (pre ++ [i]) = GCond e -> decide expected_ops orc e q = Ok (b, q') ->
    walk G orc (S f) pre i cn q = walk G orc f ((pre ++ [i]) ++ [if b then 0 else 1]) 0 cn q'.
Proof. exact walk_condition. Qed.
Print Assumptions C04decide_walk_condition.

Theorem C04decide_leave_branch :
  forall orc G f pre i b cn q,
    G ((pre ++ [i]) ++ [b]) = GNone ->
    leave G orc (S f) ((pre ++ [i]) ++ [b]) cn q = walk G orc f pre (S i) cn q.
Proof. exact leave_branch. Qed.
Print Assumptions C04decide_leave_branch.

Theorem C04decide_more_fuel_same_answer :
  forall G orc f f' pre i cn q r r',
    walk G orc f pre i cn q = Some r -> walk G orc f' pre i cn q = Some r' -> r = r'.
Proof. exact walk_det. Qed.
Print Assumptions C04decide_more_fuel_same_answer.

Theorem C04decide_example_accepted :
  List.length dx_trace = 1 /\ existsb (fun r => cr_final r) dx_trace = true /\
  mon_decide dx_case dx_trace = true /\ mon_C04 dx_case dx_trace = true /\ mon_C05 dx_case dx_trace = true.
Proof. exact dx_accepted. Qed.
Print Assumptions C04decide_example_accepted.

Theorem C04decide_rejects_failed_branch_although_true :
  let tr := other [VBool false; two; two; two; VBool true; VBool false; VBool true; VBool false] in
  existsb (fun x => Nat.eqb (fst x) 2) (started tr) = true /\ mon_decide dx_case tr = false /\ mon_C04 dx_case tr = false.
Proof. exact failed_branch_although_true. Qed.
Print Assumptions C04decide_rejects_failed_branch_although_true.

Theorem C04decide_rejects_relabelled_branch :
  mon_decide dx_case (map (with_log (map (relabel 1 [0; 1; 0]))) dx_trace) = false.
Proof. exact passed_relabelled_rejected. Qed.
Print Assumptions C04decide_rejects_relabelled_branch.

Theorem C04decide_rejects_skipped_constant_branch : mon_decide dx_case (drop_instance 1 dx_trace) = false.
Proof. exact constant_guard_branch_skipped_rejected. Qed.
Print Assumptions C04decide_rejects_skipped_constant_branch.

Theorem C04decide_rejects_nested_condition :
  mon_decide dx_case (other [VBool true; two; two; two; VBool true; VBool false; VBool true; VBool true]) = false.
Proof. exact nested_condition_rejected. Qed.
Print Assumptions C04decide_rejects_nested_condition.

Theorem C04decide_guard_inhabited :
  guarded_body (gk_at (p_tasks dx_prog)) (ins_at (p_tasks dx_prog)) (lv_at (p_tasks dx_prog)) (match unfold_program (p_tasks dx_prog) 200 with Ok b => b | _ => [] end).
Proof. exact dx_guarded. Qed.
Print Assumptions C04decide_guard_inhabited.

Theorem C04decide_needs_guard :
  holds_decide_with (fun tn p => match gk_at (p_tasks dx_prog) tn p with GCond e => GCond (ENot e) | k => k end)
                    (orc_of dx_vals) decide_fuel dx_trace = false.
Proof. exact decide_needs_guard_refuted. Qed.
Print Assumptions C04decide_needs_guard.

Theorem C04decide_net_fragment :
  forall c tr tr1 f, in_fragment c = true -> run_ref c = Ok tr -> run_net_f f c = Ok tr1 -> mon_decide c tr1 = true.
Proof. exact net_decide_fragment. Qed.
Print Assumptions C04decide_net_fragment.

Theorem C04_net_fragment :
  forall c tr tr1 f, in_fragment c = true -> run_ref c = Ok tr -> run_net_f f c = Ok tr1 -> mon_C04 c tr1 = true.
Proof. exact net_C04_fragment. Qed.
Print Assumptions C04_net_fragment.
