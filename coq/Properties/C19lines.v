(* C19 in LINES — reported errors point into the offending construct, stated in line numbers
   of the program text.  This file contains only the property theorems.
   Model: Front/LinesOf.v — [ctx_row p c]: the logical line (row of Render.forest_of p) that
   begins with the first token of the context c handed to print_error; [phys_spans t]: first and
   last physical line of every significant logical line of a text t (Front/Lines.v: any
   indentation widths, blank and comment-only lines, trailing comments and blanks, CR LF,
   struct literals broken over several lines); [ctx_line t p c] = the line the implementation
   prints (context.start.line); [line_span t p ti pi] = first and last line of the statement at
   path pi of task ti; [text_of t p]: t has the structure of p (canon t = the forest of p; every
   [render L p] with layout_wf L has).  Proofs: Front/LinesOfProofs.v; the validator's theorems
   about contexts: Check/CheckProofsC19.v (Properties/C19.v).
   By correspondence only (harness/kind_c19lines.py, kind_check.py): that ctx_row names the row
   where the implementation's ANTLR context really starts, and the two output formats. *)
From PFDL.Front Require Import CharRender.
From PFDL.Front Require Import LinesOf LinesOfProofs LayoutProofs.
From PFDL.Check Require Import CheckModel CheckProofsC10 CheckProofsC19 Guards.
From Coq Require Import List.
Import ListNotations.

(* (a) EVERY text t (not only printed ones), every program: a context under the statement at
   path pi has its line between the first and the last line of that statement. *)
Theorem C19_ctx_inside_stmt_line : forall t p ti pi c n x y,
  ctx_under ti pi c -> ctx_line t p c = Some n -> line_span t p ti pi = Some (x, y) -> x <= n /\ n <= y.
Proof. exact ctx_inside_stmt_line. Qed.
Print Assumptions C19_ctx_inside_stmt_line.

(* ... on rows, i.e. independent of the layout *)
Theorem C19_ctx_inside_stmt_row : forall p ti pi c k a b,
  ctx_under ti pi c -> ctx_row p c = Some k -> row_span p ti pi = Some (a, b) -> a <= k /\ k <= b.
Proof. exact ctx_inside_stmt_row. Qed.
Print Assumptions C19_ctx_inside_stmt_row.

(* the rows are the logical lines of the program text, and a text with the structure of the
   program has exactly one (first, last) line pair per row; every printed program is such a text *)
Theorem C19_rows_are_forest_lines : forall p, length (flatten 0 (forest_of p)) = rows_program p.
Proof. exact rows_program_flatten. Qed.
Print Assumptions C19_rows_are_forest_lines.

Theorem C19_one_span_per_row : forall t p, text_of t p -> length (phys_spans t) = rows_program p.
Proof. exact text_of_spans. Qed.
Print Assumptions C19_one_span_per_row.

Theorem C19_render_is_text_of : forall L p, layout_wf L = true -> text_of (render L p) p.
Proof. exact render_text_of. Qed.
Print Assumptions C19_render_is_text_of.

(* the rows are tied to the text line by line: the row of a context begins with the first token
   of that context ('Struct', the attribute's name, 'Task', 'In', 'Out', the name of the called
   service / task, 'Parallel', 'Loop', 'Condition', the literal's struct name, its opening
   brace, the output's name) *)
Theorem C19_row_head : forall p c k, ctx_row p c = Some k ->
  exists d lex tk, nth_error (flatten 0 (forest_of p)) k = Some (d, tk :: lex) /\ ctx_head p c = Some tk.
Proof. exact row_head. Qed.
Print Assumptions C19_row_head.

(* (b) every line number the model computes lies in the file *)
Theorem C19_ctx_line_in_file : forall t p c n,
  ctx_line t p c = Some n -> c <> CNone -> 1 <= n /\ (c <> CFile -> n <= nlines t).
Proof. exact ctx_line_in_file. Qed.
Print Assumptions C19_ctx_line_in_file.

(* ... and EVERY message of EVERY program has one, in every text with the structure of the
   program: no reported line lies outside the file (the message about the file as a whole
   carries the explicit line 1) *)
Theorem C19_every_message_line : forall p t es e,
  validate p = Ok es -> In e es -> text_of t p ->
  exists n, ctx_line t p (snd e) = Some n /\ 1 <= n /\ (snd e = CFile -> n = 1) /\ (snd e <> CFile -> n <= nlines t).
Proof. exact every_message_line. Qed.
Print Assumptions C19_every_message_line.

Theorem C19_every_message_line_every_layout : forall L p es e,
  layout_wf L = true -> validate p = Ok es -> In e es ->
  exists n, ctx_line_L L p (snd e) = Some n /\ 1 <= n /\ (snd e = CFile -> n = 1)
            /\ (snd e <> CFile -> n <= nlines (render L p)).
Proof. exact every_message_line_L. Qed.
Print Assumptions C19_every_message_line_every_layout.

(* (c) C19_messages_point_into_statement in lines: every text *)
Theorem C19_lines_point_into_statement : forall E T s pi b es e t p n x y,
  check_stmt E T pi s = Ok (b, es) -> In e es ->
  ctx_line t p (snd e) = Some n -> line_span t p (td_idx T) pi = Some (x, y) -> x <= n /\ n <= y.
Proof. exact lines_point_into_statement. Qed.
Print Assumptions C19_lines_point_into_statement.

(* ... with everything defined when s is the statement of p at that path and t a text of p *)
Theorem C19_lines_point_into_statement_of : forall E T s pi b es e t p r,
  locate p (td_idx T) pi = Some (r, NStmt s) -> text_of t p ->
  check_stmt E T pi s = Ok (b, es) -> In e es ->
  exists n x y, ctx_line t p (snd e) = Some n /\ line_span t p (td_idx T) pi = Some (x, y)
                /\ 1 <= x /\ x <= n /\ n <= y /\ y <= nlines t.
Proof. exact lines_point_into_statement_of. Qed.
Print Assumptions C19_lines_point_into_statement_of.

(* C19_fault_located in lines: a statement s' anywhere the validator looks inside s (relative
   path rel) that is found invalid is reported with at least one message whose LINE lies within
   the lines of s' itself — the smallest statement containing the offending construct — and
   within the file *)
Theorem C19_fault_located_lines : forall E T s rel s' pi b es t p r,
  locate p (td_idx T) pi = Some (r, NStmt s) -> text_of t p ->
  visible_sub s rel s' ->
  check_stmt E T pi s = Ok (b, es) ->
  (forall b' es', check_stmt E T (pi ++ rel) s' = Ok (b', es') -> b' = false) ->
  exists e n x y, In e es /\ ctx_line t p (snd e) = Some n
                  /\ line_span t p (td_idx T) (pi ++ rel) = Some (x, y)
                  /\ 1 <= x /\ x <= n /\ n <= y /\ y <= nlines t.
Proof. exact fault_located_lines. Qed.
Print Assumptions C19_fault_located_lines.

(* ... for the printer of Front/Render.v in EVERY layout (any indentation step per depth, CR LF,
   trailing blanks, comments, blank / comment-only lines before every line and at the end) *)
Theorem C19_fault_located_lines_every_layout : forall L E T s rel s' pi b es p r,
  layout_wf L = true ->
  locate p (td_idx T) pi = Some (r, NStmt s) ->
  visible_sub s rel s' ->
  check_stmt E T pi s = Ok (b, es) ->
  (forall b' es', check_stmt E T (pi ++ rel) s' = Ok (b', es') -> b' = false) ->
  exists e n x y, In e es /\ ctx_line_L L p (snd e) = Some n
                  /\ line_span_L L p (td_idx T) (pi ++ rel) = Some (x, y)
                  /\ 1 <= x /\ x <= n /\ n <= y /\ y <= nlines (render L p).
Proof. exact fault_located_lines_L. Qed.
Print Assumptions C19_fault_located_lines_every_layout.

(* messages about a task lie in the lines of that task, messages about a struct in its lines *)
Theorem C19_task_lines_point_into_task : forall E T b es e t p n x y,
  check_task E T = Ok (b, es) -> In e es ->
  ctx_line t p (snd e) = Some n -> task_line_span t p (td_idx T) = Some (x, y) -> x <= n /\ n <= y.
Proof. exact task_lines_point_into_task. Qed.
Print Assumptions C19_task_lines_point_into_task.

Theorem C19_struct_lines_point_into_struct : forall t p i c n x y,
  (c = CStruct i \/ exists j, c = CStructAttr i j) ->
  ctx_line t p c = Some n -> struct_line_span t p i = Some (x, y) -> x <= n /\ n <= y.
Proof. exact struct_ctx_inside_struct_line. Qed.
Print Assumptions C19_struct_lines_point_into_struct.

(* a missing productionTask is reported at line 1 (print_error(..., line=1)) *)
Theorem C19_no_start_task_line_1 : forall p t es,
  has_fault_no_start_task p = true -> validate p = Ok es ->
  exists e, In e es /\ ctx_line t p (snd e) = Some 1.
Proof. exact no_start_task_line_1. Qed.
Print Assumptions C19_no_start_task_line_1.

(* (d) agreement with the character level (Front/CharRender.v): in the characters of the text,
   printed in any style whose physical lines contain no line feed of their own, the physical
   line on which the row of the context begins is preceded by exactly ctx_line - 1 line feeds —
   it is line ctx_line as ANTLR counts *)
Theorem C19_ctx_line_chars : forall sty t p c k n,
  lf_free sty t = true -> ctx_row p c = Some k -> ctx_line t p c = Some n ->
  exists l pre post, nth_error (t_lines t) (n - 1) = Some l
                     /\ render_chars sty t = (pre ++ render_cline sty (n - 1) l ++ post)%list
                     /\ 1 + count_lf pre = n /\ count_lf (render_cline sty (n - 1) l) = 0.
Proof. exact ctx_line_chars. Qed.
Print Assumptions C19_ctx_line_chars.
