(* Refinement — the link between the faithful net model (NetModel.v) and the reference
   semantics (RefSem.v), proved (not only tested) for a fragment of programs.
   Part 1: what the generator builds, for every program of the fragment (Service / task call /
   Parallel / Condition with or without a Failed block / While loop / sequential counting loop,
   arbitrarily nested).
   Statements proved in Refine/GenSpec.v, nothing else here. *)
From PFDL Require Import NetModel NetRun RunCase.
From PFDL.Refine Require Import Eval Layout GenSpec Abs SrcKeys Sim Main.

(* Every statement occurrence of the unfolding: the structural walk creates exactly the places,
   transitions, arcs, callbacks, API records and place_dict entries of the design
   (DESIGN.md Appendix A; [wired]), at the creation indices Layout.v computes; the entering
   transition gains the entry arcs and start callbacks, the following transition gains the exit
   place, and nothing else in the net changes ([Gen]).  [k]: the source site of the statement
   (task name, path: the key of a counting loop's counter) together with the flag "lies in a loop
   body" (the API records carry that flag); [LV] / [keys_ok]: every counting loop of the
   component stands at a site where the program binds its counting variable. *)
Theorem generator_builds_component :
  forall (LV : LoopVars) s, frag s = true -> forall k ctx t1 t2 ns,
    keys_ok s (s_tn k) (s_pre k) (s_idx k) ->
    okns ns -> t1 < List.length (ns_trans ns) -> t2 < List.length (ns_trans ns) ->
    let p := pos_of k ns in
    exists ns', pg_stmt (s_il k) k ctx s t1 t2 ns = Ok (exits s p, ns') /\
                Gen ns ns' t1 t2 (entries s p) (startcbs s p ctx) [xplace s p] /\
                pos_of (si_next k) ns' = adv s p /\ okns ns' /\ wired ns' s p ctx [].
Proof. exact (@gen_ok). Qed.
Print Assumptions generator_builds_component.

(* generate_stmt of the implementation model on the source program performs exactly that walk
   over the call-tree unfolding (inlining of called tasks = Unfold.unfold_stmt) *)
Theorem generator_walks_the_unfolding :
  forall tasks fu il tn pre i s x, unfold_stmt tasks fu tn (pre ++ [i]) s = Ok x -> frag x = true ->
    forall g ctx t1 t2 ns, need x <= g ->
      generate_stmt tasks g ctx tn (pre ++ [i]) s t1 t2 il ns = pg_stmt il (mksi tn pre i il) ctx x t1 t2 ns.
Proof. exact A_stmt. Qed.
Print Assumptions generator_walks_the_unfolding.

(* the whole net of an order: Scheduler(...) on a program whose unfolding [body] lies in the
   fragment yields the net [NetOf body]; the counting variables are those of the program
   (SrcKeys.unfold_program_keys: the unfolding places every counting loop at its source site) *)
Theorem generator_builds_the_net :
  forall tasks fu body,
    unfold_program tasks fu = Ok body -> frag_block body = true -> need_l body < 200 ->
    exists N, net_init tasks true = Ok N /\ NetOf (LV := loop_var tasks) body N.
Proof. exact net_of_program. Qed.
Print Assumptions generator_builds_the_net.

(* Part 2: the simulation.  Statements proved in Refine/Sim.v and Refine/Main.v. *)

(* starting a component: the start callbacks of the component, run in their registration
   order on the net, produce the API store, the bookkeeping, the log, the awaited identifiers
   and the loop counters that RefSem.start_stmt denotes (parameter lists inside counting loops
   with the loop indices substituted).  [NC]: the program has no counting loop *)
Theorem start_simulation :
  forall NC tasks env, env_quiet env -> forall orc imm, (forall k, ec_imm env k = imm k) ->
  forall IM, (IM = false -> forall k, imm k = false) -> ec_orc env = orc ->
  forall N0 f, StartOK NC tasks env orc imm IM N0 f.
Proof. exact start_ok. Qed.
Print Assumptions start_simulation.

(* delivering a completion: the net fires exactly the transitions that correspond to
   RefSem.deliver and ends in the related state (or at the component's exit transition) *)
Theorem deliver_simulation :
  forall NC tasks env, env_quiet env -> forall orc imm, (forall k, ec_imm env k = imm k) ->
  forall IM, (IM = false -> forall k, imm k = false) -> ec_orc env = orc ->
  forall N0 f, DelS NC tasks env orc imm IM N0 f.
Proof. exact del_ok. Qed.
Print Assumptions deliver_simulation.

(* whole scripts, from the state after Scheduler(...) *)
Theorem script_simulation :
  forall NC tasks env, env_quiet env -> forall orc imm, (forall k, ec_imm env k = imm k) ->
  forall IM, (IM = false -> forall k, imm k = false) -> ec_orc env = orc ->
  forall body N0, NetOf (LV := loop_var tasks) body N0 -> frag_block body = true -> sok_block NC true body = true ->
  forall fu script sc ns tr,
    forallb (ok_call IM) script = true -> Rel NC IM body N0 sc ns ->
    run_script orc imm fu body sc script = Ok tr ->
    exists f0, forall f, f0 <= f -> net_run_script tasks env f ns script = Ok tr.
Proof. exact script_sim. Qed.
Print Assumptions script_simulation.

(* THE REFINEMENT THEOREM (services, task calls, Parallel, Condition with or without a Failed
   block, While loops, arbitrarily nested; and sequential counting loops -- constant or queried
   limit, arbitrarily nested with Conditions / While loops / each other, any of the above in
   their bodies, also inside called tasks: every task instance has its own counters; parameter
   lists may mention the loop indices --; see Main.in_fragment.  Components may
   complete at once, inside the evaluation that the callback of a Condition or of a loop opens,
   and loop bodies are entered again with the identifiers of the previous iteration still in the
   API records; every kind of API call in the script; the answers of the variable access
   function are arbitrary):
   on every case of the fragment on which the reference semantics produces a trace, the
   faithful net model produces the same trace, for every sufficiently large fuel *)
Theorem net_refines_ref_fragment :
  forall c, in_fragment c = true ->
  forall tr, run_ref c = Ok tr ->
  exists f0, forall f, f0 <= f -> run_net_f f c = Ok tr.
Proof. exact Main.net_refines_ref_fragment. Qed.
Print Assumptions net_refines_ref_fragment.

Theorem run_net_f_is_run_net : forall c, run_net c = run_net_f net_fuel c.
Proof. exact run_net_is_run_net_f. Qed.
Print Assumptions run_net_f_is_run_net.

(* a non-trivial inhabitant of the fragment: a service, a Parallel of a two-service task and a
   one-service task, a task call and a service; junk events, duplicate completions, a repeated
   start, registration of further functions (one refused), observers attached and detached; the
   order runs to completion.  The conclusion of the theorem is consistent with
   evaluation: both models produce the same 20 call records. *)
Definition ex_tasks : list task :=
  [{| t_name := 0; t_ins := [];
      t_body := [SService 15 [] [];
                 SParallel [{| c_name := 17; c_ins := [PVar 16]; c_outs := [] |}; {| c_name := 18; c_ins := []; c_outs := [] |}];
                 SCall {| c_name := 18; c_ins := []; c_outs := [] |};
                 SService 21 [PVar 16] []];
      t_outs := [] |};
   {| t_name := 17; t_ins := []; t_body := [SService 25 [PVar 24] []; SService 26 [] []]; t_outs := [] |};
   {| t_name := 18; t_ins := []; t_body := [SService 27 [] []]; t_outs := [] |}].
Definition ex_case : runcase :=
  {| rc_prog := {| p_structs := []; p_tasks := ex_tasks |}; rc_vals := []; rc_imm := [false; false];
     rc_script := [AJunk; AAttach 7; ARegister SS 3; AFinish 0; AStart; AStart; ARegister TF 0; ARegister TF 4; AFinish 0;
                   AAttach 9; AFinish 2; ADetach 7; AFinish 1; AFinish 7; AFinish 3; AFinish 3; AFinish 4; AJunk;
                   AFinish 5; AFinish 5];
     rc_react := [None; None]; rc_react_all := false; rc_mutate := 0; rc_test_ids := true |}.

Example ex_in_fragment : in_fragment ex_case = true.
Proof. vm_compute. reflexivity. Qed.

Example ex_runs : exists tr, run_ref ex_case = Ok tr /\ List.length tr = 20 /\ existsb (fun r => cr_final r) tr = true
                             /\ run_net ex_case = Ok tr.
Proof. eexists. split; [vm_compute; reflexivity|]. split; [reflexivity|]. split; [reflexivity|]. vm_compute. reflexivity. Qed.

Example ex_refines : exists f0, forall f, f0 <= f -> run_net_f f ex_case = run_ref ex_case.
Proof.
  destruct ex_runs as (tr & Href & _). destruct (Main.net_refines_ref_fragment ex_case ex_in_fragment tr Href) as [f0 H].
  exists f0. intros f Hf. rewrite Href. apply H. exact Hf.
Qed.
Print Assumptions ex_refines.

(* Conditions: the first one passes, the nested one and the third one fail (the answers of the
   variable access function are 1, 2, 7); a task call and a Parallel inside Failed blocks, a
   Condition inside a task started from a Parallel; junk and duplicate events in between. *)
Definition lt3 (v : nat) : expr := EBin OLt (EPath v [PF 4]) (ENum (QArith_base.Qmake 3%Z 1%positive)).
Definition exc_tasks : list task :=
  [{| t_name := 0; t_ins := [];
      t_body := [SService 15 [] [];
                 SCond (lt3 30)
                       [SService 31 [] [];
                        SCond (ENot (lt3 30)) [SService 33 [] []]
                              [SCall {| c_name := 18; c_ins := []; c_outs := [] |}; SService 34 [] []]]
                       [SService 35 [] []];
                 SCond (EBin OAnd (lt3 30) (EBool true))
                       [SService 36 [] []]
                       [SParallel [{| c_name := 17; c_ins := [PVar 16]; c_outs := [] |}; {| c_name := 18; c_ins := []; c_outs := [] |}]];
                 SService 21 [PVar 16] []];
      t_outs := [] |};
   {| t_name := 17; t_ins := [];
      t_body := [SService 25 [PVar 24] []; SCond (EBool false) [SService 37 [] []] [SService 26 [] []]]; t_outs := [] |};
   {| t_name := 18; t_ins := []; t_body := [SService 27 [] []]; t_outs := [] |}].
Definition exc_case : runcase :=
  {| rc_prog := {| p_structs := []; p_tasks := exc_tasks |};
     rc_vals := [VStruct [(4, VNum (QArith_base.Qmake 1%Z 1%positive))]; VStruct [(4, VNum (QArith_base.Qmake 2%Z 1%positive))];
                 VStruct [(4, VNum (QArith_base.Qmake 7%Z 1%positive))]];
     rc_imm := [false];
     rc_script := [AStart; AFinish 0; AJunk; AFinish 1; AFinish 1; AFinish 2; AFinish 3; AStart; AFinish 5; AFinish 4;
                   AFinish 6; AFinish 9; AFinish 7; AFinish 8; AFinish 8];
     rc_react := [None]; rc_react_all := false; rc_mutate := 0; rc_test_ids := true |}.

Example exc_in_fragment : in_fragment exc_case = true.
Proof. vm_compute. reflexivity. Qed.

Example exc_runs : exists tr, run_ref exc_case = Ok tr /\ List.length tr = 15 /\ existsb (fun r => cr_final r) tr = true
                              /\ run_net exc_case = Ok tr.
Proof. eexists. split; [vm_compute; reflexivity|]. split; [reflexivity|]. split; [reflexivity|]. vm_compute. reflexivity. Qed.

Example exc_refines : exists f0, forall f, f0 <= f -> run_net_f f exc_case = run_ref exc_case.
Proof.
  destruct exc_runs as (tr & Href & _). destruct (Main.net_refines_ref_fragment exc_case exc_in_fragment tr Href) as [f0 H].
  exists f0. intros f Hf. rewrite Href. apply H. exact Hf.
Qed.
Print Assumptions exc_refines.

(* Conditions without a Failed block: when the test fails the Condition completes at once, inside
   the evaluation that its callback opens, and the order goes on from there (here: through the
   first statement, two whole tasks of a Parallel, a called task, the last statement -- the
   production task finishes inside the start of its last statement). *)
Definition cl (n : nat) : call := {| c_name := n; c_ins := []; c_outs := [] |}.
Definition exd_tasks : list task :=
  [{| t_name := 0; t_ins := [];
      t_body := [SCond (lt3 30) [SService 31 [] []] [];
                 SService 15 [] [];
                 SCond (lt3 30) [SService 32 [] []] [];
                 SParallel [cl 17; cl 18; cl 19];
                 SCond (lt3 30) [SService 36 [] []] [];
                 SCall (cl 19);
                 SCond (lt3 30) [SService 36 [] []] []];
      t_outs := [] |};
   {| t_name := 17; t_ins := []; t_body := [SCond (EBool false) [SService 37 [] []] []; SService 26 [] []]; t_outs := [] |};
   {| t_name := 18; t_ins := []; t_body := [SService 27 [] []; SCond (EBool false) [SService 37 [] []] []]; t_outs := [] |};
   {| t_name := 19; t_ins := [];
      t_body := [SCond (EBool false) [SService 37 [] []] []; SCond (EBool false) [SService 37 [] []] []]; t_outs := [] |}].
Definition exd_case (vals : list Z) : runcase :=
  {| rc_prog := {| p_structs := []; p_tasks := exd_tasks |};
     rc_vals := map (fun n => VStruct [(4, VNum (QArith_base.Qmake n 1%positive))]) vals; rc_imm := [false];
     rc_script := [AStart; AFinish 0; AFinish 1; AJunk; AFinish 2; AFinish 2; AFinish 3; AFinish 4; AFinish 5];
     rc_react := [None]; rc_react_all := false; rc_mutate := 0; rc_test_ids := true |}.

Example exd_in_fragment : in_fragment (exd_case [7%Z]) = true /\ in_fragment (exd_case [7%Z; 1%Z; 7%Z; 1%Z]) = true.
Proof. split; vm_compute; reflexivity. Qed.

Example exd_runs : forall vals, vals = [7%Z] \/ vals = [7%Z; 1%Z; 7%Z; 1%Z] ->
    exists tr, run_ref (exd_case vals) = Ok tr /\ existsb (fun r => cr_final r) tr = true /\ run_net (exd_case vals) = Ok tr.
Proof.
  intros vals [-> | ->]; (eexists; split; [vm_compute; reflexivity|]; split; [reflexivity|]; vm_compute; reflexivity).
Qed.

Example exd_refines : exists f0, forall f, f0 <= f -> run_net_f f (exd_case [7%Z]) = run_ref (exd_case [7%Z]).
Proof.
  destruct (exd_runs [7%Z] (or_introl eq_refl)) as (tr & Href & _).
  destruct (Main.net_refines_ref_fragment _ (proj1 exd_in_fragment) tr Href) as [f0 H].
  exists f0. intros f Hf. rewrite Href. apply H. exact Hf.
Qed.
Print Assumptions exd_refines.

(* While loops: a loop whose body is a service and a task call (two iterations), a loop whose
   body is a Condition without Failed block (the test of the Condition fails in the second
   iteration: the iteration completes at once), a loop inside a task started from a Parallel
   (no iteration); every service of a loop body gets a new identifier in every iteration. *)
Definition exw_tasks : list task :=
  [{| t_name := 0; t_ins := [];
      t_body := [SWhile (lt3 30) [SService 31 [PVar 16] []; SCall (cl 17)];
                 SService 15 [] [];
                 SWhile (lt3 30) [SCond (lt3 30) [SService 32 [] []] []];
                 SParallel [cl 17; cl 18]];
      t_outs := [] |};
   {| t_name := 17; t_ins := []; t_body := [SService 26 [] []]; t_outs := [] |};
   {| t_name := 18; t_ins := []; t_body := [SWhile (lt3 30) [SService 27 [] []]; SService 28 [] []]; t_outs := [] |}].
Definition exw_case : runcase :=
  {| rc_prog := {| p_structs := []; p_tasks := exw_tasks |};
     rc_vals := map (fun n => VStruct [(4, VNum (QArith_base.Qmake n 1%positive))]) [1; 1; 7; 1; 1; 7; 7; 1; 7]%Z;
     rc_imm := [false];
     rc_script := [AStart; AFinish 0; AFinish 1; AJunk; AFinish 2; AFinish 3; AFinish 3; AFinish 4; AFinish 5; AFinish 6;
                   AFinish 7; AFinish 8];
     rc_react := [None]; rc_react_all := false; rc_mutate := 0; rc_test_ids := true |}.

Example exw_in_fragment : in_fragment exw_case = true.
Proof. vm_compute. reflexivity. Qed.

Example exw_runs : exists tr, run_ref exw_case = Ok tr /\ List.length tr = 12 /\ existsb (fun r => cr_final r) tr = true
                              /\ run_net exw_case = Ok tr.
Proof. eexists. split; [vm_compute; reflexivity|]. split; [reflexivity|]. split; [reflexivity|]. vm_compute. reflexivity. Qed.

Example exw_refines : exists f0, forall f, f0 <= f -> run_net_f f exw_case = run_ref exw_case.
Proof.
  destruct exw_runs as (tr & Href & _). destruct (Main.net_refines_ref_fragment exw_case exw_in_fragment tr Href) as [f0 H].
  exists f0. intros f Hf. rewrite Href. apply H. exact Hf.
Qed.
Print Assumptions exw_refines.

(* Counting loops: a loop with a constant limit whose body is a service
   and a task call (two iterations); a loop whose limit is queried from the variable access
   function before every test, with a nested counting loop and a Condition in its body (the test
   of the Condition fails in the second iteration); a loop with no iteration. *)
Definition exl_tasks : list task :=
  [{| t_name := 0; t_ins := [];
      t_body := [SCount false 40 (LimInt 2) [SService 31 [PVar 16] []; SCall (cl 17)];
                 SService 15 [] [];
                 SCount false 41 (LimPath 30 [PF 4])
                        [SCount false 42 (LimInt 1) [SService 32 [] []]; SCond (lt3 30) [SService 33 [] []] []];
                 SCount false 43 (LimInt 0) [SService 34 [] []]];
      t_outs := [] |};
   {| t_name := 17; t_ins := []; t_body := [SService 26 [] []]; t_outs := [] |}].
Definition exl_case : runcase :=
  {| rc_prog := {| p_structs := []; p_tasks := exl_tasks |};
     rc_vals := map (fun n => VStruct [(4, VNum (QArith_base.Qmake n 1%positive))]) [2; 1; 2; 7; 2]%Z;
     rc_imm := [false];
     rc_script := [AStart; AFinish 0; AFinish 1; AJunk; AFinish 2; AFinish 3; AFinish 3; AFinish 4; AFinish 5; AFinish 6;
                   AFinish 7];
     rc_react := [None]; rc_react_all := false; rc_mutate := 0; rc_test_ids := true |}.

Example exl_in_fragment : in_fragment exl_case = true.
Proof. vm_compute. reflexivity. Qed.

Example exl_runs : exists tr, run_ref exl_case = Ok tr /\ List.length tr = 11 /\ existsb (fun r => cr_final r) tr = true
                              /\ run_net exl_case = Ok tr.
Proof. eexists. split; [vm_compute; reflexivity|]. split; [reflexivity|]. split; [reflexivity|]. vm_compute. reflexivity. Qed.

Example exl_refines : exists f0, forall f, f0 <= f -> run_net_f f exl_case = run_ref exl_case.
Proof.
  destruct exl_runs as (tr & Href & _). destruct (Main.net_refines_ref_fragment exl_case exl_in_fragment tr Href) as [f0 H].
  exists f0. intros f Hf. rewrite Href. apply H. exact Hf.
Qed.
Print Assumptions exl_refines.

(* Counting loops inside called tasks: every task instance has its own loop counters.  A task with
   a counting loop is called from inside a While loop (two iterations: two instances one after
   the other) and twice in the same Parallel (two instances at the same time, with the same loop
   sites); a task whose counting loop (limit queried before every test) calls a task with two
   nested counting loops; a counting loop of the production task that calls that task again.
   The completions of the Parallel's services arrive out of order; one is reported twice. *)
Definition exk_tasks : list task :=
  [{| t_name := 0; t_ins := [];
      t_body := [SWhile (lt3 30) [SCall (cl 17)];
                 SParallel [cl 17; cl 18; cl 17];
                 SCount false 44 (LimInt 2) [SCall (cl 19)]];
      t_outs := [] |};
   {| t_name := 17; t_ins := []; t_body := [SCount false 40 (LimInt 2) [SService 26 [PVar 16] []]; SService 27 [] []]; t_outs := [] |};
   {| t_name := 18; t_ins := []; t_body := [SCount false 41 (LimPath 30 [PF 4]) [SCall (cl 19)]]; t_outs := [] |};
   {| t_name := 19; t_ins := [];
      t_body := [SCount false 42 (LimInt 1) [SCount false 43 (LimInt 1) [SService 28 [] []]]]; t_outs := [] |}].
Definition exk_case : runcase :=
  {| rc_prog := {| p_structs := []; p_tasks := exk_tasks |};
     rc_vals := map (fun n => VStruct [(4, VNum (QArith_base.Qmake n 1%positive))]) [1; 1; 7; 2; 2; 2]%Z;
     rc_imm := [false];
     rc_script := [AStart; AFinish 0; AFinish 1; AFinish 2; AFinish 3; AFinish 4; AFinish 5; AJunk; AFinish 7; AFinish 6;
                   AFinish 8; AFinish 8; AFinish 9; AFinish 10; AFinish 11; AFinish 12; AFinish 13; AFinish 14; AFinish 15];
     rc_react := [None]; rc_react_all := false; rc_mutate := 0; rc_test_ids := true |}.

Example exk_in_fragment : in_fragment exk_case = true.
Proof. vm_compute. reflexivity. Qed.

Example exk_runs : exists tr, run_ref exk_case = Ok tr /\ List.length tr = 19 /\ existsb (fun r => cr_final r) tr = true
                              /\ run_net exk_case = Ok tr.
Proof. eexists. split; [vm_compute; reflexivity|]. split; [reflexivity|]. split; [reflexivity|]. vm_compute. reflexivity. Qed.

Example exk_refines : exists f0, forall f, f0 <= f -> run_net_f f exk_case = run_ref exk_case.
Proof.
  destruct exk_runs as (tr & Href & _). destruct (Main.net_refines_ref_fragment exk_case exk_in_fragment tr Href) as [f0 H].
  exists f0. intros f Hf. rewrite Href. apply H. exact Hf.
Qed.
Print Assumptions exk_refines.

(* Loop indices in parameters: inside counting loops the parameter lists of services and task
   calls mention the counting variables; every start substitutes the current counters (of the
   task instance: a called task does not see the loops of its caller, and a variable that is
   bound twice means the innermost loop).  Nested loops, a variable bound again inside its own
   loop, a While loop and a Condition inside counting loops, a Parallel of calls whose parameters
   carry indices, a called task with its own loops and the same variable name. *)
Definition ix (v : nat) : param := PPath 16 [PF 5; PIdxVar v].
Definition ix2 (v w : nat) : param := PPath 16 [PF 5; PIdxVar v; PF 6; PIdxVar w].
Definition cli (n : nat) (ps : list param) : call := {| c_name := n; c_ins := ps; c_outs := [] |}.
Definition exm_tasks : list task :=
  [{| t_name := 0; t_ins := [];
      t_body := [SService 20 [ix 40] [];
                 SCount false 40 (LimInt 2)
                   [SService 21 [ix 40; ix 41] [];
                    SCall (cli 17 [ix 40]);
                    SCount false 41 (LimInt 2) [SService 22 [ix2 40 41] []; SCond (lt3 30) [SService 23 [ix 41] []] []];
                    SCount false 40 (LimInt 1) [SService 24 [ix 40] []];
                    SWhile (lt3 30) [SService 25 [ix 40] []];
                    SParallel [cli 18 [ix 40]; cli 17 [ix 41]]];
                 SService 26 [ix 40] []];
      t_outs := [] |};
   {| t_name := 17; t_ins := [];
      t_body := [SService 27 [ix 40] []; SCount false 40 (LimInt 1) [SService 28 [ix 40] []]]; t_outs := [] |};
   {| t_name := 18; t_ins := []; t_body := [SCount false 42 (LimInt 2) [SCall (cli 17 [ix 42; ix 40])]]; t_outs := [] |}].
Definition exm_case : runcase :=
  {| rc_prog := {| p_structs := []; p_tasks := exm_tasks |};
     rc_vals := map (fun n => VStruct [(4, VNum (QArith_base.Qmake n 1%positive))]) [1; 1; 7; 1; 7; 1; 7; 1; 1; 1; 7; 1; 7]%Z;
     rc_imm := [false];
     rc_script := AStart :: map AFinish (seq 0 30);
     rc_react := [None]; rc_react_all := false; rc_mutate := 0; rc_test_ids := true |}.

Example exm_in_fragment : in_fragment exm_case = true.
Proof. vm_compute. reflexivity. Qed.

Example exm_runs : exists tr, run_ref exm_case = Ok tr /\ List.length tr = 31 /\ existsb (fun r => cr_final r) tr = true
                              /\ run_net exm_case = Ok tr.
Proof. eexists. split; [vm_compute; reflexivity|]. split; [reflexivity|]. split; [reflexivity|]. vm_compute. reflexivity. Qed.

Example exm_refines : exists f0, forall f, f0 <= f -> run_net_f f exm_case = run_ref exm_case.
Proof.
  destruct exm_runs as (tr & Href & _). destruct (Main.net_refines_ref_fragment exm_case exm_in_fragment tr Href) as [f0 H].
  exists f0. intros f Hf. rewrite Href. apply H. exact Hf.
Qed.
Print Assumptions exm_refines.

(* Immediate completions: the engine reports some services as finished from inside their
   service-started notification ([rc_imm]); everything that such a completion triggers -- the
   rest of the task, further iterations of loops, the end of the order -- then runs nested in
   that notification.  [exi_case]: While loops, a Parallel and task calls, a mixed pattern of
   immediate and later completions, further functions registered for service-finished and
   task-started notifications.  [exj_case]: every service of the counting-loop program above is
   completed at once: the whole order runs inside the start call. *)
Definition exi_case : runcase :=
  {| rc_prog := {| p_structs := []; p_tasks := exw_tasks |};
     rc_vals := map (fun n => VStruct [(4, VNum (QArith_base.Qmake n 1%positive))]) [1; 1; 7; 1; 1; 7; 7; 1; 7]%Z;
     rc_imm := [true; false; true; true; false; true];
     rc_script := [ARegister SF 3; ARegister TS 4; AStart; AFinish 0; AFinish 1; AJunk; AFinish 2; AFinish 3; AFinish 3;
                   AFinish 4; AFinish 5; AFinish 6; AFinish 7; AFinish 8];
     rc_react := [None]; rc_react_all := false; rc_mutate := 0; rc_test_ids := true |}.
Definition exj_case : runcase :=
  {| rc_prog := {| p_structs := []; p_tasks := exl_tasks |};
     rc_vals := map (fun n => VStruct [(4, VNum (QArith_base.Qmake n 1%positive))]) [2; 1; 2; 7; 2]%Z;
     rc_imm := [true; true; true; true; true; true; true; true; true; true];
     rc_script := [AStart; AFinish 0];
     rc_react := [None]; rc_react_all := false; rc_mutate := 0; rc_test_ids := true |}.

Example exi_in_fragment : in_fragment exi_case = true /\ in_fragment exj_case = true.
Proof. split; vm_compute; reflexivity. Qed.

Example exi_runs : exists tr, run_ref exi_case = Ok tr /\ List.length tr = 14 /\ existsb (fun r => cr_final r) tr = true
                              /\ run_net exi_case = Ok tr.
Proof. eexists. split; [vm_compute; reflexivity|]. split; [reflexivity|]. split; [reflexivity|]. vm_compute. reflexivity. Qed.
Example exj_runs : exists tr, run_ref exj_case = Ok tr /\ map cr_ret tr = [true; false] /\ existsb (fun r => cr_final r) tr = true
                              /\ run_net exj_case = Ok tr.
Proof. eexists. split; [vm_compute; reflexivity|]. split; [reflexivity|]. split; [reflexivity|]. vm_compute. reflexivity. Qed.

Example exi_refines : exists f0, forall f, f0 <= f -> run_net_f f exi_case = run_ref exi_case.
Proof.
  destruct exi_runs as (tr & Href & _). destruct (Main.net_refines_ref_fragment exi_case (proj1 exi_in_fragment) tr Href) as [f0 H].
  exists f0. intros f Hf. rewrite Href. apply H. exact Hf.
Qed.
Print Assumptions exi_refines.
