(* Refinement — the link between the faithful net model (NetModel.v) and the reference
   semantics (RefSem.v), proved (not only tested) for a fragment of programs.
   Part 1: what the generator builds, for every program of the fragment (Service / task call /
   Parallel, arbitrarily nested).  Statements proved in Refine/GenSpec.v, nothing else here. *)
From PFDL Require Import NetModel.
From PFDL.Refine Require Import Eval Layout GenSpec.

(* Every statement occurrence of the unfolding: the structural walk creates exactly the places,
   transitions, arcs, callbacks, API records and place_dict entries of the design
   (DESIGN.md Appendix A; [wired]), at the creation indices Layout.v computes; the entering
   transition gains the entry arcs and start callbacks, the following transition gains the exit
   place, and nothing else in the net changes ([Gen]). *)
Theorem generator_builds_component :
  forall s, frag s = true -> forall ctx t1 t2 ns,
    okns ns -> t1 < List.length (ns_trans ns) -> t2 < List.length (ns_trans ns) ->
    let p := pos_of ns in
    exists ns', pg_stmt ctx s t1 t2 ns = Ok ([exit_t s p], ns') /\
                Gen ns ns' t1 t2 (entries s p) (startcbs s p) [xplace s p] /\
                pos_of ns' = adv s p /\ okns ns' /\ wired ns' s p ctx [].
Proof. exact gen_ok. Qed.
Print Assumptions generator_builds_component.

(* generate_stmt of the implementation model on the source program performs exactly that walk
   over the call-tree unfolding (inlining of called tasks = Unfold.unfold_stmt) *)
Theorem generator_walks_the_unfolding :
  forall tasks fu tn path s x, unfold_stmt tasks fu tn path s = Ok x -> frag x = true ->
    forall g ctx t1 t2 ns, need x <= g ->
      generate_stmt tasks g ctx tn path s t1 t2 false ns = pg_stmt ctx x t1 t2 ns.
Proof. exact A_stmt. Qed.
Print Assumptions generator_walks_the_unfolding.

(* the whole net of an order: Scheduler(...) on a program whose unfolding [body] lies in the
   fragment yields the net [NetOf body] *)
Theorem generator_builds_the_net :
  forall tasks fu body,
    unfold_program tasks fu = Ok body -> frag_block body = true -> need_l body < 200 ->
    exists N, net_init tasks true = Ok N /\ NetOf body N.
Proof. exact net_init_spec. Qed.
Print Assumptions generator_builds_the_net.
