(* Property C15 on the FAITHFUL model (NetModel.v) — restatements of theorems proved in
   NetIds.v, nothing else.
   Proved: (a) the source parameter list and every other static field of every API object is
   never written, by any function of the mechanism, for every environment; (b) for an instance
   inside a loop the delivered list is rebuilt from the source at every start: starting it from
   a state in which the delivered list was replaced by ANY list gives the EQUAL result, in both
   identifier modes; (c) for an instance outside loops the start handlers write no delivered
   list: it is delivered as the object holds it; (d) the hostile engine's own write during a
   notification concerns the delivered list of the notified instance only. *)
From PFDL Require Import Examples NetModel NetRun NetC08 NetQuiescent NetIds.

(* ---- (a) static fields, in particular the source list ---- *)
Theorem C15net_block_keeps_static_fields :
  forall tasks env f,
    fpres api_static (evaluate tasks env f) /\
    (forall c, fpres api_static (run_cb tasks env f c)) /\
    (forall a, fpres api_static (on_task_started tasks env f a)) /\
    (forall a, fpres api_static (on_service_started tasks env f a)) /\
    (forall a, fpres api_static (on_service_finished tasks env f a)) /\
    (forall a, fpres api_static (on_task_finished tasks env f a)) /\
    (forall k a b, fpres api_static (notify_user tasks env f k a b)) /\
    (forall k a, fpres api_static (engine_reacts tasks env f k a)) /\
    (forall ev, fpres api_static (sched_fire_event tasks env f ev)) /\
    (forall ev, fpres api_static (logic_fire_event tasks env f ev)).
Proof. exact src_block. Qed.
Print Assumptions C15net_block_keeps_static_fields.

Theorem C15net_generator_keeps_static_fields :
  forall tasks f,
    (forall ctx tn pre ss first last il,
        fpres api_static (generate_statements tasks f ctx tn pre ss first last il)) /\
    (forall ctx tn path s t1 t2 il, fpres api_static (generate_stmt tasks f ctx tn path s t1 t2 il)) /\
    (forall c at_ ctx t1 t2 il, fpres api_static (generate_task_call tasks f c at_ ctx t1 t2 il)).
Proof. exact src_generate. Qed.
Print Assumptions C15net_generator_keeps_static_fields.

Theorem C15net_fire_event_keeps_static_fields :
  forall tasks env f ev s b s',
    sched_fire_event tasks env f ev s = Ok (b, s') -> api_static s s'.
Proof. exact sched_fire_event_static. Qed.
Print Assumptions C15net_fire_event_keeps_static_fields.

Theorem C15net_api_call_keeps_static_fields :
  forall tasks env f s c b s',
    net_api_call tasks env f s c = Ok (b, s') -> api_static s s'.
Proof. exact api_call_static. Qed.
Print Assumptions C15net_api_call_keeps_static_fields.

Theorem C15net_source_never_modified :
  forall tasks env f s s' i a,
    api_reach tasks env f s s' -> nth_error (ns_apis s) i = Some a ->
    exists a', nth_error (ns_apis s') i = Some a' /\
               a_src a' = a_src a /\ a_name a' = a_name a /\ a_site a' = a_site a /\
               a_is_task a' = a_is_task a /\ a_ctx a' = a_ctx a /\ a_in_loop a' = a_in_loop a /\
               a_has_call a' = a_has_call a.
Proof. exact source_never_modified. Qed.
Print Assumptions C15net_source_never_modified.

(* ---- (b) instances inside loops are rebuilt from the source at every start ---- *)
Theorem C15net_on_task_started_rebuilds :
  forall tasks env f ai ps s a,
    nth_error (ns_apis s) ai = Some a -> a_in_loop a = true -> a_has_call a = true ->
    on_task_started tasks env f ai (with_delivered ai ps s) = on_task_started tasks env f ai s.
Proof. exact on_task_started_rebuilds. Qed.
Print Assumptions C15net_on_task_started_rebuilds.

Theorem C15net_on_service_started_rebuilds :
  forall tasks env f ai ps s a,
    nth_error (ns_apis s) ai = Some a -> a_in_loop a = true ->
    on_service_started tasks env f ai (with_delivered ai ps s) = on_service_started tasks env f ai s.
Proof. exact on_service_started_rebuilds. Qed.
Print Assumptions C15net_on_service_started_rebuilds.

Theorem C15net_callbacks_rebuild :
  forall tasks env f ai ps s a,
    nth_error (ns_apis s) ai = Some a -> a_in_loop a = true ->
    (a_has_call a = true ->
     run_cb tasks env f (CbTS ai) (with_delivered ai ps s) = run_cb tasks env f (CbTS ai) s) /\
    run_cb tasks env f (CbSS ai) (with_delivered ai ps s) = run_cb tasks env f (CbSS ai) s.
Proof. exact run_cb_started_rebuilds. Qed.
Print Assumptions C15net_callbacks_rebuild.

Theorem C15net_same_but_params :
  forall tasks env f ai s1 s2 a,
    same_but_params ai s1 s2 ->
    nth_error (ns_apis s1) ai = Some a -> a_in_loop a = true ->
    (a_has_call a = true -> on_task_started tasks env f ai s2 = on_task_started tasks env f ai s1) /\
    on_service_started tasks env f ai s2 = on_service_started tasks env f ai s1.
Proof. exact started_same_but_params. Qed.
Print Assumptions C15net_same_but_params.

Theorem C15net_task_prefix_rebuilds :
  forall tasks ai ps s a,
    nth_error (ns_apis s) ai = Some a -> a_in_loop a = true -> a_has_call a = true ->
    ots_prefix tasks ai (with_delivered ai ps s) = ots_prefix tasks ai s.
Proof. exact ots_prefix_rebuilds. Qed.
Print Assumptions C15net_task_prefix_rebuilds.

Theorem C15net_service_prefix_rebuilds :
  forall tasks ai ps s a,
    nth_error (ns_apis s) ai = Some a -> a_in_loop a = true ->
    oss_prefix tasks ai (with_delivered ai ps s) = oss_prefix tasks ai s.
Proof. exact oss_prefix_rebuilds. Qed.
Print Assumptions C15net_service_prefix_rebuilds.

(* ---- (c) instances outside loops ---- *)
Theorem C15net_task_outside_loop_delivered_as_is :
  forall tasks ai s u s1 a,
    nth_error (ns_apis s) ai = Some a -> a_in_loop a = false ->
    ots_prefix tasks ai s = Ok (u, s1) -> forall j, params_at j s1 = params_at j s.
Proof. exact ots_prefix_nonloop. Qed.
Print Assumptions C15net_task_outside_loop_delivered_as_is.

Theorem C15net_service_outside_loop_delivered_as_is :
  forall tasks ai s u s1 a,
    nth_error (ns_apis s) ai = Some a -> a_in_loop a = false ->
    oss_prefix tasks ai s = Ok (u, s1) -> forall j, params_at j s1 = params_at j s.
Proof. exact oss_prefix_nonloop. Qed.
Print Assumptions C15net_service_outside_loop_delivered_as_is.

(* ---- (d) the hostile engine ---- *)
Theorem C15net_engine_writes_the_notified_instance_only :
  forall tasks env (Rl : list api -> list api -> Prop) f,
    (forall l, Rl l l) -> (forall a b c, Rl a b -> Rl b c -> Rl a c) ->
    (forall ev s b s', sched_fire_event tasks env f ev s = Ok (b, s') -> Rl (ns_apis s) (ns_apis s')) ->
    forall k ai s u s' a,
      nth_error (ns_apis s) ai = Some a ->
      engine_reacts tasks env (S f) k ai s = Ok (u, s') ->
      Rl (hostile_write env k ai a (ns_apis s)) (ns_apis s').
Proof. exact engine_reacts_writes. Qed.
Print Assumptions C15net_engine_writes_the_notified_instance_only.

Theorem C15net_engine_alone :
  forall env k ai s u s' a,
    nth_error (ns_apis s) ai = Some a ->
    er_body env (fun _ => nret false) k ai s = Ok (u, s') ->
    ns_apis s' = hostile_write env k ai a (ns_apis s).
Proof. exact er_body_alone. Qed.
Print Assumptions C15net_engine_alone.

Theorem C15net_other_instance_untouched :
  forall env sfe j,
    (forall ev s b s', sfe ev s = Ok (b, s') -> params_at j s' = params_at j s) ->
    forall k ai s u s' a,
      j <> ai -> nth_error (ns_apis s) ai = Some a ->
      er_body env sfe k ai s = Ok (u, s') -> params_at j s' = params_at j s.
Proof. exact er_body_other_instance. Qed.
Print Assumptions C15net_other_instance_untouched.

Theorem C15net_engine_keeps_static_fields :
  forall tasks env f k ai s u s',
    engine_reacts tasks env f k ai s = Ok (u, s') -> api_static s s'.
Proof. exact engine_reacts_static. Qed.
Print Assumptions C15net_engine_keeps_static_fields.

(* ---- non-vacuity ---- *)
Theorem C15net_inhabited :
  (exists s0 ai a, net_init (p_tasks (rc_prog ex_case)) true = Ok s0 /\
                   nth_error (ns_apis s0) ai = Some a /\ a_name a = 20 /\ a_in_loop a = true /\
                   a_src a = [PPath 16 [PF 8; PIdxVar 19]]) /\
  forall m, m = 1 \/ m = 2 \/ m = 3 ->
            exists tr, run_net (ex_hostile m) = Ok tr /\
                       delivered_to_0 20 tr = [[PPath 16 [PF 8; PIdxLit 0]]; [PPath 16 [PF 8; PIdxLit 1]]].
Proof. exact rebuild_inhabited. Qed.
Print Assumptions C15net_inhabited.

(* ---- (e) the start of one instance reads nothing of another instance's delivered list ---- *)
Theorem C15net_task_start_commutes_with_other_lists :
  forall ai ps tasks bi, bi <> ai -> comm (with_delivered ai ps) (ots_prefix tasks bi).
Proof. exact ots_prefix_other. Qed.
Print Assumptions C15net_task_start_commutes_with_other_lists.

Theorem C15net_service_start_commutes_with_other_lists :
  forall ai ps tasks bi, bi <> ai -> comm (with_delivered ai ps) (oss_prefix tasks bi).
Proof. exact oss_prefix_other. Qed.
Print Assumptions C15net_service_start_commutes_with_other_lists.

Theorem C15net_start_ignores_other_lists :
  forall tasks ai ps bi s,
    bi <> ai ->
    (forall u s1, ots_prefix tasks bi s = Ok (u, s1) ->
                  exists s1', ots_prefix tasks bi (with_delivered ai ps s) = Ok (u, s1') /\
                              params_at bi s1' = params_at bi s1) /\
    (forall u s1, oss_prefix tasks bi s = Ok (u, s1) ->
                  exists s1', oss_prefix tasks bi (with_delivered ai ps s) = Ok (u, s1') /\
                              params_at bi s1' = params_at bi s1).
Proof. exact start_prefix_ignores_other_lists. Qed.
Print Assumptions C15net_start_ignores_other_lists.
