(* C13 — Guards and conditions evaluate to their arithmetic/logical value.
   This file contains only the property theorems; proofs are in ExprProofs.v and
   Gen/Obligations.v. *)
From PFDL Require Import Expr ExprProofs.
From PFDL.Gen Require Import Operators ObligationsOps.

(* Whenever ordinary arithmetic, comparison and boolean semantics ([ref_bool]: numbers
   in Q, division defined for non-zero divisors, comparisons on numbers, == / != also on
   booleans, !, And, Or on booleans, parentheses transparent, attribute paths resolved
   field by field in the value returned for the variable) give the guard a truth value b
   under the valuation rho, Scheduler.check_expression (execute_expression with the
   operator table of helpers.parse_operator, then bool()) decides b — for every
   expression tree and every valuation. *)
Theorem C13_decision_is_truth_value :
  forall (rho : name -> option value) (e : expr) (b : bool) (k : nat),
    ref_bool rho e = Some b ->
    exists k', decide expected_ops (fun _ v => rho v) e k = Ok (b, k').
Proof. exact decide_is_truth_value. Qed.
Print Assumptions C13_decision_is_truth_value.

(* the operator table used above is the one in the current source *)
Theorem C13_operator_table_is_source_table : ops_from_source = expected_ops.
Proof. exact operators_tied. Qed.
Print Assumptions C13_operator_table_is_source_table.
