(* Property C14 on the FAITHFUL model (NetModel.v), test-id mode — restatements of theorems
   proved in NetIds.v, nothing else.
   Proved: in every history of the faithful model (re-entrant completions from inside
   notifications, immediate completions, hostile mutation, run-time generation for parallel
   loops) no two task-started and no two service-started notifications delivered to FUNCTION 0
   carry the same identifier; identifiers are handed out by two counters that only grow;
   consecutive API calls use consecutive disjoint ranges.  Hypothesis [ApiInv]: test-id mode
   and no (kind, function) pair registered twice -- established by the constructor and kept by
   every API call.
   NOT true (evaluated counterexample [C14net_second_listener_duplicates]): the same for a
   second registered function. *)
From PFDL Require Import Examples NetModel NetRun NetC08 NetQuiescent NetIds.

(* ---- elementary facts ---- *)
Theorem C14net_ident_nat_injective_on_test_ids :
  forall a b, ident_nat (ITest a) = ident_nat (ITest b) -> a = b.
Proof. exact ident_nat_ITest_inj. Qed.
Print Assumptions C14net_ident_nat_injective_on_test_ids.

Theorem C14net_test_id_is_the_old_counter :
  forall b s,
    ns_test_ids s = true ->
    new_test_or_uuid b s =
    Ok (ITest (if b then ns_tid s else ns_sid s),
        if b then s <| ns_tid := S (ns_tid s) |> else s <| ns_sid := S (ns_sid s) |>).
Proof. exact new_test_or_uuid_test. Qed.
Print Assumptions C14net_test_id_is_the_old_counter.

Theorem C14net_started_task_gets_counter :
  forall tasks ai s u s1,
    ns_test_ids s = true -> ots_prefix tasks ai s = Ok (u, s1) ->
    uuid_at ai s1 = Some (ITest (ns_tid s)) /\ ns_tid s1 = S (ns_tid s) /\ ns_sid s1 = ns_sid s.
Proof. exact started_task_gets_counter. Qed.
Print Assumptions C14net_started_task_gets_counter.

Theorem C14net_started_service_gets_counter :
  forall tasks ai s u s1,
    ns_test_ids s = true -> oss_prefix tasks ai s = Ok (u, s1) ->
    uuid_at ai s1 = Some (ITest (ns_sid s)) /\ ns_sid s1 = S (ns_sid s) /\ ns_tid s1 = ns_tid s.
Proof. exact started_service_gets_counter. Qed.
Print Assumptions C14net_started_service_gets_counter.

Theorem C14net_on_task_started_is_prefix_then_notification :
  forall tasks env f ai s,
    on_task_started tasks env (S f) ai s =
    (nbind (ots_prefix tasks ai) (fun _ => notify_user tasks env f TS ai false)) s.
Proof. exact on_task_started_split. Qed.
Print Assumptions C14net_on_task_started_is_prefix_then_notification.

Theorem C14net_on_service_started_is_prefix_then_notification :
  forall tasks env f ai s,
    on_service_started tasks env (S f) ai s =
    (nbind (oss_prefix tasks ai) (fun _ => oss_announce (notify_user tasks env f) ai)) s.
Proof. exact on_service_started_split. Qed.
Print Assumptions C14net_on_service_started_is_prefix_then_notification.

Theorem C14net_counters_only_grow :
  forall tasks env f ev s b s',
    sched_fire_event tasks env f ev s = Ok (b, s') ->
    ns_tid s <= ns_tid s' /\ ns_sid s <= ns_sid s' /\ ns_test_ids s' = ns_test_ids s /\ ns_ls s' = ns_ls s.
Proof. exact fire_event_counters_grow. Qed.
Print Assumptions C14net_counters_only_grow.

(* the completion event that becomes awaited carries the identifier that is announced *)
Theorem C14net_service_start_awaits_its_identifier :
  forall tasks env f ai s u s',
    on_service_started tasks env (S f) ai s = Ok (u, s') ->
    exists u1 s1 id,
      oss_prefix tasks ai s = Ok (u1, s1) /\ uuid_at ai s1 = Some id /\
      notify_user tasks env f SS ai false (s1 <| ns_awaited := ns_awaited s1 ++ [EvFinish id] |>) = Ok (u, s').
Proof. exact service_start_awaits_its_identifier. Qed.
Print Assumptions C14net_service_start_awaits_its_identifier.

Theorem C14net_service_start_awaits_counter :
  forall tasks env f ai s u s',
    ns_test_ids s = true ->
    on_service_started tasks env (S f) ai s = Ok (u, s') ->
    exists u1 s1,
      oss_prefix tasks ai s = Ok (u1, s1) /\
      notify_user tasks env f SS ai false
                  (s1 <| ns_awaited := ns_awaited s1 ++ [EvFinish (ITest (ns_sid s))] |>) = Ok (u, s').
Proof. exact service_start_awaits_counter. Qed.
Print Assumptions C14net_service_start_awaits_counter.

(* ---- the mechanism: every function of the mutual block ---- *)
Theorem C14net_block :
  forall tasks env f,
    fpres IdC (evaluate tasks env f) /\
    (forall c, fpres IdC (run_cb tasks env f c)) /\
    (forall a, fpres IdC (on_task_started tasks env f a)) /\
    (forall a, fpres IdC (on_service_started tasks env f a)) /\
    (forall a, fpres IdC (on_service_finished tasks env f a)) /\
    (forall a, fpres IdC (on_task_finished tasks env f a)) /\
    nu_spec (notify_user tasks env f) /\
    (forall k a, fpres IdC (engine_reacts tasks env f k a)) /\
    (forall ev, fpres IdC (sched_fire_event tasks env f ev)) /\
    (forall ev, fpres IdC (logic_fire_event tasks env f ev)).
Proof. exact ids_block. Qed.
Print Assumptions C14net_block.

(* what fire_event adds to the log: started notifications to function 0 with pairwise
   different identifiers from the counter range of that very call (IdN unfolded) *)
Theorem C14net_fire_event :
  forall tasks env f ev s b s',
    sched_fire_event tasks env f ev s = Ok (b, s') ->
    ns_test_ids s = true -> (forall k, NoDup (listeners_of k (ns_ls s))) ->
    ns_tid s <= ns_tid s' /\ ns_sid s <= ns_sid s' /\
    exists new, ns_log s' = new ++ ns_log s /\
      NoDup (sids TS new) /\ NoDup (sids SS new) /\
      (forall x, In x (sids TS new) -> ns_tid s <= x < ns_tid s') /\
      (forall x, In x (sids SS new) -> ns_sid s <= x < ns_sid s').
Proof. exact sched_fire_event_ids_unfolded. Qed.
Print Assumptions C14net_fire_event.

(* ---- the public API, scripts, whole histories ---- *)
Theorem C14net_api_call :
  forall tasks env f s c b s',
    ApiInv s -> net_api_call tasks env f s c = Ok (b, s') ->
    ApiInv s' /\ ns_tid s <= ns_tid s' /\ ns_sid s <= ns_sid s' /\
    ids_in0 (ns_tid s) (ns_sid s) (ns_tid s') (ns_sid s') (cr_log (net_observe b s')).
Proof. exact net_api_ids. Qed.
Print Assumptions C14net_api_call.

Theorem C14net_constructor_establishes_invariant :
  forall tasks s0, net_init tasks true = Ok s0 -> ApiInv s0.
Proof. exact net_init_inv. Qed.
Print Assumptions C14net_constructor_establishes_invariant.

Theorem C14net_invariant_along_call_sequences :
  forall tasks env f s s', api_reach tasks env f s s' -> ApiInv s -> ApiInv s'.
Proof. exact api_reach_inv. Qed.
Print Assumptions C14net_invariant_along_call_sequences.

Theorem C14net_identifiers_come_from_disjoint_ranges :
  forall tasks env f cs s tr,
    ApiInv s -> net_run_script tasks env f s cs = Ok tr -> ranged0 (ns_tid s) (ns_sid s) tr.
Proof. exact net_ranged. Qed.
Print Assumptions C14net_identifiers_come_from_disjoint_ranges.

(* THE PROPERTY: over the whole history no identifier is delivered twice to function 0 in a
   task-started notification, and none twice in a service-started notification *)
Theorem C14net_unique :
  forall tasks env f cs s tr,
    ApiInv s -> net_run_script tasks env f s cs = Ok tr ->
    NoDup (sids TS (flat_map cr_log tr)) /\ NoDup (sids SS (flat_map cr_log tr)).
Proof. exact net_ids_unique. Qed.
Print Assumptions C14net_unique.

Theorem C14net_unique_positions :
  forall tasks env f cs s tr i j n1 r1 n2 r2,
    ApiInv s -> net_run_script tasks env f s cs = Ok tr ->
    nth_error (flat_map cr_log tr) i = Some (ENotif 0 n1 r1) ->
    nth_error (flat_map cr_log tr) j = Some (ENotif 0 n2 r2) ->
    started_kind (n_kind n1) -> n_kind n1 = n_kind n2 -> n_id n1 = n_id n2 -> i = j.
Proof. exact net_ids_positions. Qed.
Print Assumptions C14net_unique_positions.

Theorem C14net_unique_pairwise :
  forall tasks env f cs s tr i j ri rj n1 r1 n2 r2,
    ApiInv s -> net_run_script tasks env f s cs = Ok tr ->
    nth_error tr i = Some ri -> nth_error tr j = Some rj ->
    In (ENotif 0 n1 r1) (cr_log ri) -> In (ENotif 0 n2 r2) (cr_log rj) ->
    started_kind (n_kind n1) -> n_kind n1 = n_kind n2 -> n_id n1 = n_id n2 ->
    i = j /\ n1 = n2 /\ r1 = r2.
Proof. exact net_ids_pairwise. Qed.
Print Assumptions C14net_unique_pairwise.

(* from the constructor on, for the cases the correspondence check runs *)
Theorem C14net_run_net_unique :
  forall c tr,
    run_net c = Ok tr ->
    NoDup (sids TS (flat_map cr_log tr)) /\ NoDup (sids SS (flat_map cr_log tr)).
Proof. exact run_net_ids_unique. Qed.
Print Assumptions C14net_run_net_unique.

Theorem C14net_run_net_ranged :
  forall c tr, run_net c = Ok tr -> exists t s, ranged0 t s tr.
Proof. exact run_net_ranged. Qed.
Print Assumptions C14net_run_net_ranged.

(* ---- non-vacuity, and the limit of the statement ---- *)
Theorem C14net_inhabited :
  exists tr, run_net ex_case = Ok tr /\ List.length tr = 16 /\
             sids TS (flat_map cr_log tr) = seq 0 5 /\ sids SS (flat_map cr_log tr) = seq 0 11.
Proof. exact ids_inhabited. Qed.
Print Assumptions C14net_inhabited.

Theorem C14net_inhabited_reentrant :
  exists tr, run_net ex_reentrant = Ok tr /\ List.length tr = 13 /\ existsb cr_final tr = true /\
             existsb (fun e => match e with EFireIn _ => true | _ => false end) (flat_map cr_log tr) = true /\
             sids TS (flat_map cr_log tr) = seq 0 5 /\ sids SS (flat_map cr_log tr) = seq 0 11.
Proof. exact ids_inhabited_reentrant. Qed.
Print Assumptions C14net_inhabited_reentrant.

(* a second registered function is told identifier 1 twice and identifier 0 never *)
Theorem C14net_second_listener_duplicates :
  exists tr, run_net second_listener_case = Ok tr /\
             sids_of 0 SS (flat_map cr_log tr) = [0; 1] /\
             sids_of 1 SS (flat_map cr_log tr) = [1; 1].
Proof. exact second_listener_duplicates. Qed.
Print Assumptions C14net_second_listener_duplicates.

Theorem C14net_not_for_all_registered_functions : ~ unique_for_all_functions.
Proof. exact unique_for_all_functions_false. Qed.
Print Assumptions C14net_not_for_all_registered_functions.

(* the observers' LOG_EVENT entry shows the same effect *)
Theorem C14net_observer_duplicates :
  exists tr, run_net observer_case = Ok tr /\
             sids SS (flat_map cr_log tr) = [0; 1] /\ obs_ids SS (flat_map cr_log tr) = [1; 1].
Proof. exact observer_duplicates. Qed.
Print Assumptions C14net_observer_duplicates.
