(* Property C02 — statements of a block run strictly in sequence, without lost wake-ups.
   This file contains only statements proved elsewhere (RefDen.v, RefC01.v).

   What is proved, and for what:
   (1) C02_sync_partial — for EVERY program, oracle (valuation sequence), registration /
       observer configuration and fuel, under the schedule in which every service is reported
       finished from inside its own service-started notification, the interpreter issues
       exactly the denotation [den_*] of RefDen.v.  The clause of the denotation that states
       this property:
         [den_block]: the denotation of a block is the concatenation, in source order, of the denotations of its statements, each exactly once: nothing of statement k+1 precedes anything of statement k, and the whole block is issued within the one call.
       PARTIAL: one schedule family (the fully re-entrant one), all programs and valuations.
   (2) C02_all_schedules_no_stall — for ALL schedules and histories the order completes
       exactly when nothing is outstanding (C01): no wake-up is lost and nothing is deferred
       to a later event.
   For the remaining schedules the behaviour stated by this property is the definition of the
   reference semantics (RefSem.v: deliver / deliver_block / deliver_list / loop_test), which
   the correspondence check compares with the implementation and with the net model on every
   run (all completion orders of generated programs, incl. re-entrant ones). *)
From PFDL Require Import RefSem RunCase Monitors RefShape RefDen RefC01 RefBase RefProgress RefConfluence.

Theorem C02_sync_partial :
  forall orc body fuel (s : sched) b s',
    sc_root s = None ->
    api_call orc itrue fuel body s AStart = Ok (b, s') ->
    exists evs mid q',
      cr_log (observe b s') = flat_map (render (g_ls (sc_g s)) (g_obs (sc_g s))) evs
      /\ den_block orc fuel [] body 0 (g_q (sc_g s)) = Ok (mid, q')
      /\ map erase evs = DN TS production_task root_site [] :: mid ++ [DN TF production_task root_site []]
      /\ cr_final (observe b s') = true /\ cr_running (observe b s') = false.
Proof. exact sync_order. Qed.
Print Assumptions C02_sync_partial.

Theorem C02_all_schedules_no_stall :
  forall orc imm body fuel script tr,
    run_script orc imm fuel body sched0 script = Ok tr -> holds_C01 tr = true.
Proof. exact C01_ref. Qed.
Print Assumptions C02_all_schedules_no_stall.

(* ==== no lost wake-up: every accepted completion is delivered into the tree (RefProgress.v) ==== *)
Theorem C02p_start_returns_wellformed_states :
  forall orc imm f,
    (forall ctx ie s g st g', start_stmt orc imm f ctx ie s g = Ok (st, g') -> wf s st) /\
    (forall ctx ie ss i g r g', run_block orc imm f ctx ie ss i g = Ok (r, g') -> wf_opt ss r) /\
    (forall ctx l g sts g', start_list orc imm f ctx l g = Ok (sts, g') -> wf_list l sts) /\
    (forall ctx ie s k g st g', loop_test orc imm f ctx ie s k g = Ok (st, g') -> wf s st).
Proof. exact start_wf. Qed.
Print Assumptions C02p_start_returns_wellformed_states.

Theorem C02p_deliver_preserves_wellformedness :
  forall orc imm f,
    (forall ctx ie s st id g r g',
        deliver orc imm f ctx ie s st id g = Ok (r, g') -> wf s st -> wf_o s r) /\
    (forall ctx ie ss i sti id g r g',
        deliver_block orc imm f ctx ie ss i sti id g = Ok (r, g') -> wf_block ss i sti -> wf_oo ss r) /\
    (forall ctx l sts id g r g',
        deliver_list orc imm f ctx l sts id g = Ok (r, g') -> wf_list l sts -> wf_lo l r).
Proof. exact deliver_wf. Qed.
Print Assumptions C02p_deliver_preserves_wellformedness.

Theorem C02p_identifier_in_tree_is_found :
  forall orc imm f,
    (forall ctx ie s st id g g',
        wf s st -> In id (svc_ids st) ->
        deliver orc imm f ctx ie s st id g <> Ok (None, g')) /\
    (forall ctx ie ss i sti id g g',
        wf_block ss i sti -> In id (svc_ids sti) ->
        deliver_block orc imm f ctx ie ss i sti id g <> Ok (None, g')) /\
    (forall ctx l sts id g g',
        wf_list l sts -> In id (ids_list sts) ->
        deliver_list orc imm f ctx l sts id g <> Ok (None, g')).
Proof. exact deliver_found. Qed.
Print Assumptions C02p_identifier_in_tree_is_found.

Theorem C02p_identifier_not_in_tree_changes_nothing :
  forall orc imm f,
    (forall ctx ie s st id g r g',
        deliver orc imm f ctx ie s st id g = Ok (r, g') -> ~ In id (svc_ids st) -> r = None /\ g' = g) /\
    (forall ctx ie ss i sti id g r g',
        deliver_block orc imm f ctx ie ss i sti id g = Ok (r, g') -> ~ In id (svc_ids sti) -> r = None /\ g' = g) /\
    (forall ctx l sts id g r g',
        deliver_list orc imm f ctx l sts id g = Ok (r, g') -> ~ In id (ids_list sts) -> r = None /\ g' = g).
Proof. exact deliver_absent. Qed.
Print Assumptions C02p_identifier_not_in_tree_changes_nothing.

Theorem C02p_found_iff_in_tree :
  forall orc imm f ctx ie ss i sti id g r g',
    wf_block ss i sti ->
    deliver_block orc imm f ctx ie ss i sti id g = Ok (r, g') ->
    (r = None <-> ~ In id (svc_ids sti)).
Proof. exact deliver_block_found_iff. Qed.
Print Assumptions C02p_found_iff_in_tree.

Theorem C02p_deliver_awaited_permutation :
  forall orc imm f,
    (forall ctx ie s st id g r g',
        deliver orc imm f ctx ie s st id g = Ok (r, g') ->
        pres svc_ids g id (svc_ids st) r g') /\
    (forall ctx ie ss i sti id g r g',
        deliver_block orc imm f ctx ie ss i sti id g = Ok (r, g') ->
        pres ids_opt g id (svc_ids sti) r g') /\
    (forall ctx l sts id g r g',
        deliver_list orc imm f ctx l sts id g = Ok (r, g') ->
        pres ids_list g id (ids_list sts) r g').
Proof. exact deliver_perm. Qed.
Print Assumptions C02p_deliver_awaited_permutation.

Theorem C02p_api_call_keeps_invariant :
  forall orc imm body f s c b s',
    PInv body s -> api_call orc imm f body s c = Ok (b, s') -> PInv body s'.
Proof. exact api_pinv. Qed.
Print Assumptions C02p_api_call_keeps_invariant.

Theorem C02p_reachable_state_shape :
  forall orc imm body s, reach orc imm body s ->
    (exists cid i sti, sc_root s = Some (RCall cid i sti)
                       /\ Permutation.Permutation (g_awaited (sc_g s)) (svc_ids sti)
                       /\ NoDup (svc_ids sti)
                       /\ wf_block body i sti)
    \/ (sc_root s = Some RDone /\ g_awaited (sc_g s) = [])
    \/ (sc_root s = None /\ g_awaited (sc_g s) = []).
Proof. exact reach_shape. Qed.
Print Assumptions C02p_reachable_state_shape.

Theorem C02p_accepted_completion_is_delivered :
  forall orc imm body s id,
    reach orc imm body s -> mem id (g_awaited (sc_g s)) = true ->
    exists cid i sti,
      sc_root s = Some (RCall cid i sti)
      /\ In id (svc_ids sti)
      /\ wf_block body i sti
      /\ forall f g g', deliver_block orc imm f cid [] body i sti id g <> Ok (None, g').
Proof. exact accepted_completion_is_delivered. Qed.
Print Assumptions C02p_accepted_completion_is_delivered.

Theorem C02p_finish_failure_is_deep :
  forall orc imm body f s id,
    reach orc imm body s -> mem id (g_awaited (sc_g s)) = true ->
    exists cid i sti aw1,
      sc_root s = Some (RCall cid i sti)
      /\ remove_first (Nat.eqb id) (g_awaited (sc_g s)) = Some aw1
      /\ let g1 := clear_log (sc_g s) <| g_awaited := aw1 |> in
         match deliver_block orc imm f cid [] body i sti id g1 with
         | Ok (r, g2) => r <> None /\ exists s', api_call orc imm f body s (AFinish id) = Ok (true, s')
         | Fuel => api_call orc imm f body s (AFinish id) = Fuel
         | Exn k => api_call orc imm f body s (AFinish id) = Exn k
         | Unsupported => api_call orc imm f body s (AFinish id) = Unsupported
         end.
Proof. exact finish_failure_is_deep. Qed.
Print Assumptions C02p_finish_failure_is_deep.

Theorem C02p_finish_unsupported_is_deep :
  forall orc imm body f s id,
    reach orc imm body s -> mem id (g_awaited (sc_g s)) = true ->
    api_call orc imm f body s (AFinish id) = Unsupported ->
    exists cid i sti g1,
      sc_root s = Some (RCall cid i sti)
      /\ deliver_block orc imm f cid [] body i sti id g1 = Unsupported.
Proof. exact finish_unsupported_is_deep. Qed.
Print Assumptions C02p_finish_unsupported_is_deep.

Theorem C02p_script_completion_is_delivered :
  forall orc imm body f pre id post tr,
    run_script orc imm f body sched0 (pre ++ AFinish id :: post) = Ok tr ->
    exists s, exec orc imm body f sched0 pre = Ok s /\ reach orc imm body s /\
      (mem id (g_awaited (sc_g s)) = true ->
       exists cid i sti,
         sc_root s = Some (RCall cid i sti)
         /\ In id (svc_ids sti)
         /\ wf_block body i sti
         /\ forall f' g g', deliver_block orc imm f' cid [] body i sti id g <> Ok (None, g')).
Proof. exact script_completion_is_delivered. Qed.
Print Assumptions C02p_script_completion_is_delivered.

Theorem C02p_accepted_completion_is_consumed :
  forall orc imm body f s id s',
    reach orc imm body s -> api_call orc imm f body s (AFinish id) = Ok (true, s') ->
    In id (ids_root (sc_root s))
    /\ ~ In id (ids_root (sc_root s'))
    /\ (forall x, x <> id -> In x (ids_root (sc_root s)) -> In x (ids_root (sc_root s')))
    /\ (forall x, In x (ids_root (sc_root s')) -> ~ In x (ids_root (sc_root s)) -> g_sid (sc_g s) <= x).
Proof. exact accepted_completion_is_consumed. Qed.
Print Assumptions C02p_accepted_completion_is_consumed.

Theorem C02p_reach_nonvacuous :
  let body := [XService 1 root_site []] in
  exists s, reach (fun _ _ => None) (fun _ => false) body s
            /\ mem 0 (g_awaited (sc_g s)) = true
            /\ sc_root s = Some (RCall 0 0 (RAwait 0)).
Proof. exact reach_nonvacuous. Qed.
Print Assumptions C02p_reach_nonvacuous.

(* ==== ALL schedules (RefConfluence.v) ==== *)
(* all schedules, counter-free oracle: the history of a completed order is a permutation of the
   denotation, and no event ever occurs more often than in the denotation (every block: the statements' events, each exactly as often as the denotation says) *)
Theorem C02_confluence :
  forall orc imm fuel body script tr,
    counter_free orc ->
    run_script orc imm fuel body sched0 script = Ok tr ->
    (exists r, In r tr /\ cr_final r = true) ->
    exists F mid q',
      den_block orc F [] body 0 0 = Ok (mid, q') /\
      Permutation.Permutation
        (trace_devs tr)
        (DN TS production_task root_site [] :: mid ++ [DN TF production_task root_site []]).
Proof. exact confluence. Qed.
Print Assumptions C02_confluence.

Theorem C02_confluence_count :
  forall orc imm fuel body script tr F mid q' (p : dev -> bool),
    counter_free orc ->
    run_script orc imm fuel body sched0 script = Ok tr ->
    (exists r, In r tr /\ cr_final r = true) ->
    den_block orc F [] body 0 0 = Ok (mid, q') ->
    List.length (filter p (trace_devs tr)) =
    List.length (filter p (DN TS production_task root_site [] :: mid ++ [DN TF production_task root_site []])).
Proof. exact confluence_count. Qed.
Print Assumptions C02_confluence_count.

Theorem C02_confluence_prefix_count :
  forall orc imm fuel body script tr F mid q' (p : dev -> bool),
    counter_free orc ->
    run_script orc imm fuel body sched0 script = Ok tr ->
    den_block orc F [] body 0 0 = Ok (mid, q') ->
    List.length (filter p (trace_devs tr)) <=
    List.length (filter p (DN TS production_task root_site [] :: mid ++ [DN TF production_task root_site []])).
Proof. exact confluence_prefix_count. Qed.
Print Assumptions C02_confluence_prefix_count.
