(* Property C08 — only awaited events are accepted, each once; rejected events change nothing.
   Statements proved in RefC08.v (reference semantics, API layer), nothing else. *)
From PFDL Require Import RefSem RunCase Monitors RefC08 NetModel NetRun NetC08 NetC08Erase.

(* an event that is not an awaited completion is reported False and changes nothing at all
   (the state after the call is the state before it, up to the discarded log of the previous
   call): no notification, same awaited set, same running flag, same progress *)
Theorem C08_rejected_completion_changes_nothing :
  forall orc imm body fuel (s : sched) (id : nat),
    mem id (g_awaited (sc_g s)) = false ->
    api_call orc imm fuel body s (AFinish id) = Ok (false, quiet s).
Proof. exact reject_finish_noop. Qed.
Print Assumptions C08_rejected_completion_changes_nothing.

Theorem C08_junk_changes_nothing :
  forall orc imm body fuel (s : sched), api_call orc imm fuel body s AJunk = Ok (false, quiet s).
Proof. exact reject_junk_noop. Qed.
Print Assumptions C08_junk_changes_nothing.

(* a call observes its predecessor's state only through [quiet]: "behaves exactly as if the
   rejected event had never been sent" *)
Theorem C08_quiet_is_unobservable :
  forall orc imm body fuel cs (s : sched),
    run_script orc imm fuel body (quiet s) cs = run_script orc imm fuel body s cs.
Proof. exact run_script_quiet. Qed.
Print Assumptions C08_quiet_is_unobservable.

(* erasing a rejected call (junk, non-awaited completion, repeated start) from a history:
   the rest of the run is record for record the same *)
Theorem C08_erase_rejected :
  forall orc imm body fuel (s : sched) c cs tr,
    rejected s c = true ->
    run_script orc imm fuel body s (c :: cs) = Ok tr ->
    exists r, tr = r :: match run_script orc imm fuel body s cs with Ok t => t | _ => [] end
              /\ run_script orc imm fuel body s cs = Ok (tl tr)
              /\ cr_log r = [] /\ cr_running r = g_running (sc_g s) /\ cr_awaited r = g_awaited (sc_g s).
Proof. exact erase_rejected. Qed.
Print Assumptions C08_erase_rejected.

Theorem C08_accepted_was_awaited :
  forall orc imm body fuel (s : sched) id s',
    api_call orc imm fuel body s (AFinish id) = Ok (true, s') -> mem id (g_awaited (sc_g s)) = true.
Proof. exact accepted_was_awaited. Qed.
Print Assumptions C08_accepted_was_awaited.

Theorem C08_start_again_changes_nothing :
  forall orc imm body fuel (s : sched) r,
    sc_root s = Some r -> api_call orc imm fuel body s AStart = Ok (true, quiet s).
Proof. exact start_again_noop. Qed.
Print Assumptions C08_start_again_changes_nothing.

(* in every history of the reference semantics: once a completion has been accepted, every
   later report of the same identifier is rejected *)
Theorem C08_accepted_at_most_once :
  forall orc imm body fuel cs tr,
    run_script orc imm fuel body sched0 cs = Ok tr -> once_run cs tr.
Proof. intros orc imm body fuel cs tr. exact (accepted_at_most_once orc imm body fuel cs sched0 tr AwInv_sched0). Qed.
Print Assumptions C08_accepted_at_most_once.

(* ---- the same gate on the FAITHFUL model of Scheduler.fire_event / start (NetModel.v) ---- *)
Theorem C08_net_not_awaited_changes_nothing :
  forall tasks env fuel ev (s : NS),
    existsb (event_eqb ev) (ns_awaited s) = false ->
    sched_fire_event tasks env (S fuel) ev s = Ok (false, s).
Proof. exact net_reject_noop. Qed.
Print Assumptions C08_net_not_awaited_changes_nothing.

Theorem C08_net_junk_changes_nothing :
  forall tasks env fuel (s : NS), net_api_call tasks env (S fuel) s AJunk = Ok (false, cleared s).
Proof. exact net_api_reject_junk. Qed.
Print Assumptions C08_net_junk_changes_nothing.

Theorem C08_net_start_again_changes_nothing :
  forall tasks env fuel (s : NS),
    existsb (event_eqb EvStart) (ns_awaited s) = false ->
    net_api_call tasks env fuel s AStart = Ok (true, cleared s).
Proof. exact net_api_start_again. Qed.
Print Assumptions C08_net_start_again_changes_nothing.

Theorem C08_net_unawaited_before_forwarding :
  forall tasks env f ev s l,
    existsb (event_eqb ev) (ns_awaited s) = true ->
    remove_first (event_eqb ev) (ns_awaited s) = Some l ->
    sched_fire_event tasks env (S f) ev s =
    match logic_fire_event tasks env f ev (s <| ns_awaited := l |>) with
    | Ok (true, s') => Ok (true, s')
    | Ok (false, s') => Ok (false, s' <| ns_awaited := ns_awaited s' ++ [ev] |>)
    | Fuel => Fuel | Exn k => Exn k | Unsupported => Unsupported
    end.
Proof. exact net_accept_unawaits_first. Qed.
Print Assumptions C08_net_unawaited_before_forwarding.

(* erasing a rejected call (junk, a completion that is not awaited, a repeated start) from ANY
   history of the faithful model: all later records are the same; the record of the rejected
   call shows the state before it with an empty log *)
Theorem C08_net_erase_rejected :
  forall tasks env f (s : NS) c cs,
    net_rejected s c = true ->
    net_run_script tasks env (S f) s (c :: cs) =
    rbind (net_run_script tasks env (S f) s cs)
          (fun t => Ok (net_observe (rejected_ret c) (cleared s) :: t)).
Proof. exact net_erase_rejected. Qed.
Print Assumptions C08_net_erase_rejected.

Theorem C08_net_erase_rejected_burst :
  forall tasks env f (s : NS) bs cs,
    forallb (net_rejected s) bs = true ->
    net_run_script tasks env (S f) s (bs ++ cs) =
    rbind (net_run_script tasks env (S f) s cs)
          (fun t => Ok (map (fun c => net_observe (rejected_ret c) (cleared s)) bs ++ t)).
Proof. exact net_erase_rejected_burst. Qed.
Print Assumptions C08_net_erase_rejected_burst.

Theorem C08_net_rejected_record :
  forall (s : NS) c,
    cr_log (net_observe (rejected_ret c) (cleared s)) = []
    /\ cr_running (net_observe (rejected_ret c) (cleared s)) = ns_running s
    /\ cr_awaited (net_observe (rejected_ret c) (cleared s)) = cr_awaited (net_observe false s)
    /\ cr_final (net_observe (rejected_ret c) (cleared s)) = cr_final (net_observe false s).
Proof. exact net_rejected_record. Qed.
Print Assumptions C08_net_rejected_record.
