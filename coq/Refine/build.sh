#!/bin/sh
# Rebuild the refinement development (dependency order).  Usage: sh Refine/build.sh [first-file]
# Run from anywhere; compiles with -Q /verif/coq PFDL.  Never calls make.
cd /verif/coq || exit 1
FILES="Refine/Eval.v Refine/Layout.v Refine/Mach.v Refine/GenSpec.v Refine/Abs.v Refine/SubstIdx.v Refine/SrcKeys.v Refine/Sim.v Refine/Main.v Refine/Transfer.v Refine/TransferC02.v Properties/Refinement.v Properties/RefinementTransfer.v"
for f in $FILES; do
  [ -f "$f" ] || continue
  if [ ! -f "${f}o" ] || [ "$f" -nt "${f}o" ] || [ -n "$FORCE" ]; then FORCE=1; fi
  if [ -n "$FORCE" ]; then
    echo "coqc $f"; /usr/bin/time -f "  %es" timeout 1200 coqc -Q . PFDL "$f" || exit 1
  fi
done
