(* Mach.v — one evaluation of the net (PetriNetLogic.evaluate, with the evaluations nested in
   it: a callback that sends an event runs a complete evaluation before it returns) as a
   stack machine, in continuation style: [Run s K sF] says that from the state [s], with the
   stack [K] of pending callback lists (innermost evaluation first), the evaluation ends in
   [sF].  [MS] (prefixes of such runs) composes; [Run_sound] reads a run back as the fuel-free
   big-step relations of Eval.v.  Proof file. *)
From PFDL Require Import NetModel.
From PFDL.Refine Require Import Eval Layout.
Require Import List Lia Arith Bool.
Import ListNotations.

Section Mach.
  Variable tasks : list task.
  Variable env : envcfg.
  Variable T : list trans.        (* the transitions of the net (never change) *)
  Variable C : list (list cb).    (* the callback table (never changes in the fragment) *)
  Let n : nat := List.length T.

  (* a marker that stands in a pending callback list for "the rest of a callback that has opened
     an evaluation": when it is reached, the notification counter of the engine advances (this is
     all that is left of the service-started notification after an immediate completion).  The
     marker is a parallel-loop callback, which no transition of the fragment carries *)
  Definition MARK : cb :=
    CbParLoop 0 (LimInt 0) 0 {| c_name := 0; c_ins := []; c_outs := [] |} {| st_task := 0; st_path := [] |} 0 0 0.
  Definition marks (j : nat) : list cb := repeat MARK j.
  Definition bumpn (j : nat) (s : NS) : NS := s <| ns_nnot := j + ns_nnot s |>.

  Lemma bump_bumpn : forall s, bump s = bumpn 1 s. Proof. reflexivity. Qed.
  Lemma bumpn_0 : forall s, bumpn 0 s = s. Proof. intros []; reflexivity. Qed.
  Lemma bumpn_add : forall a b s, bumpn a (bumpn b s) = bumpn (a + b) s.
  Proof. intros a b []. unfold bumpn. cbn. rewrite Nat.add_assoc. reflexivity. Qed.

  (* ---- a list of callbacks run one after the other (none of them touches the tables) ---- *)
  Inductive RunList : list cb -> NS -> NS -> Prop :=
  | rl_nil : forall s, RunList [] s s
  | rl_cons : forall c l s s1 s', RunCb tasks env c s s1 -> ns_cbs s1 = ns_cbs s -> is_parloop_cb c = false ->
                                  RunList l s1 s' -> RunList (c :: l) s s'
  | rl_mark : forall l s s', RunList l (bump s) s' -> RunList (MARK :: l) s s'.

  Lemma RunList_app : forall l1 l2 s s1 s', RunList l1 s s1 -> RunList l2 s1 s' -> RunList (l1 ++ l2) s s'.
  Proof.
    intros l1 l2 s s1 s' H1 H2. induction H1; cbn [app]; [exact H2| |].
    - econstructor; [eassumption|assumption|assumption|]. apply IHRunList. exact H2.
    - apply rl_mark. apply IHRunList. exact H2.
  Qed.

  Lemma RunList_cbs : forall l s s', RunList l s s' -> ns_cbs s' = ns_cbs s.
  Proof. induction 1; [reflexivity|congruence|exact IHRunList]. Qed.

  Lemma RunList_RunFrom : forall t l pre s s',
      RunList l s s' -> no_parloop l = true -> nth t (ns_cbs s) [] = pre ++ l ->
      RunFrom tasks env t (pre ++ l) (List.length pre) s s'.
  Proof.
    intros t. induction l as [|c l IH]; intros pre s s' H Hnp Hn; inversion H; subst.
    3:{ discriminate Hnp. }
    - apply rf_end; [exact Hn|]. apply nth_error_None. rewrite app_nil_r. lia.
    - cbn [no_parloop forallb] in Hnp. apply andb_prop in Hnp. destruct Hnp as [_ Hnp]. fold (no_parloop l) in Hnp.
      eapply rf_cb; [exact Hn| |eassumption|].
      + rewrite nth_error_app2, Nat.sub_diag by lia. reflexivity.
      + replace (pre ++ c :: l) with ((pre ++ [c]) ++ l) by (rewrite <- app_assoc; reflexivity).
        replace (S (List.length pre)) with (List.length (pre ++ [c])) by (rewrite app_length; cbn; lia).
        apply IH; [assumption|exact Hnp|]. rewrite <- app_assoc. cbn [app]. congruence.
  Qed.

  (* nothing can fire *)
  Definition dead (s : NS) : Prop := forall j, j < n -> disabled s j.

  (* the callback [c], run in [s], sends an event that is accepted: a complete evaluation
     starts in [s2], and the callback returns the state in which that evaluation ends *)
  Definition Opens (c : cb) (s s2 : NS) : Prop :=
    ns_cbs s2 = ns_cbs s /\ is_parloop_cb c = false /\ forall s', EvalTo tasks env s2 s' -> RunCb tasks env c s s'.
  (* ... and the callback goes on after the evaluation: what it still does is the marker's step *)
  Definition OpensB (c : cb) (s s2 : NS) : Prop :=
    ns_cbs s2 = ns_cbs s /\ is_parloop_cb c = false /\ forall s', EvalTo tasks env s2 s' -> RunCb tasks env c s (bump s').

  Inductive Run : NS -> list (list cb) -> NS -> Prop :=
  | run_end : forall s, ns_cbs s = C -> ns_trans s = T -> dead s -> Run s [[]] s
  | run_pop : forall s l K sF, ns_trans s = T -> dead s -> Run s (l :: K) sF -> Run s ([] :: l :: K) sF
  | run_cb : forall c l K s s1 sF, RunCb tasks env c s s1 -> ns_cbs s1 = ns_cbs s -> is_parloop_cb c = false ->
                                   Run s1 (l :: K) sF -> Run s ((c :: l) :: K) sF
  | run_mark : forall l K s sF, Run (bump s) (l :: K) sF -> Run s ((MARK :: l) :: K) sF
  | run_push : forall c l K s s2 sF, Opens c s s2 -> Run s2 ([] :: l :: K) sF -> Run s ((c :: l) :: K) sF
  | run_pushb : forall c l K s s2 sF, OpensB c s s2 -> Run s2 ([] :: (MARK :: l) :: K) sF -> Run s ((c :: l) :: K) sF
  | run_fire : forall s t tr K sF,
      ns_trans s = T -> t < n -> nth_error T t = Some tr -> enabled s tr = true ->
      (forall j, j < t -> disabled s j) -> no_parloop (nth t C []) = true ->
      Run (fire_ns tr s) (nth t C [] :: K) sF -> Run s ([] :: K) sF.

  Lemma Run_cbs : forall s K sF, Run s K sF -> ns_cbs s = C.
  Proof.
    induction 1 as [s Hc _ _|s l K sF _ _ _ IH|c l K s s1 sF _ Hc _ _ IH|l K s sF _ IH|c l K s s2 sF [Hc _] _ IH
                    |c l K s s2 sF [Hc _] _ IH|s t tr K sF _ _ _ _ _ _ _ IH].
    - exact Hc.
    - exact IH.
    - congruence.
    - exact IH.
    - congruence.
    - congruence.
    - exact IH.
  Qed.

  (* one level: the pending callbacks run, then the scan goes on until nothing can fire *)
  Definition Lev (l : list cb) (s s' : NS) : Prop :=
    exists s1, RunList l s s1 /\ ScanTo tasks env n s1 s' /\ ns_cbs s' = C /\ ns_trans s' = T.

  Fixpoint Chain (s : NS) (K : list (list cb)) (sF : NS) : Prop :=
    match K with
    | [] => s = sF
    | l :: K' => exists s', Lev l s s' /\ Chain s' K' sF
    end.

  Lemma Lev_dead : forall s, ns_cbs s = C -> ns_trans s = T -> dead s -> Lev [] s s.
  Proof.
    intros s Hc Ht Hd. exists s. split; [constructor|]. split; [apply ScanTo_dead; exact Hd|]. split; assumption.
  Qed.

  Theorem Run_Chain : forall s K sF, Run s K sF -> Chain s K sF.
  Proof.
    intros s K sF H. pose proof (Run_cbs _ _ _ H) as Hcs. revert Hcs.
    induction H as [s Hc Ht Hd|s l K sF Ht Hd Hr IH|c l K s s1 sF Hcb Hc Hnpc Hr IH|l K s sF Hr IH
                    |c l K s s2 sF (Hc & Hnpc & Hop) Hr IH|c l K s s2 sF (Hc & Hnpc & Hop) Hr IH
                    |s t tr K sF Ht Htn Htr Hen Hdis Hnp Hr IH]; intro Hcs.
    - cbn [Chain]. exists s. split; [apply Lev_dead; assumption|reflexivity].
    - cbn [Chain]. exists s. split; [apply Lev_dead; assumption|]. apply IH. exact Hcs.
    - cbn [Chain] in *. destruct (IH ltac:(congruence)) as (s' & (sa & Hl & Hsc & Hc' & Ht') & Hch).
      exists s'. split; [|exact Hch]. exists sa. split; [eapply rl_cons; eassumption|]. split; [exact Hsc|]. split; assumption.
    - cbn [Chain] in *. destruct (IH Hcs) as (s' & (sa & Hl & Hsc & Hc' & Ht') & Hch).
      exists s'. split; [|exact Hch]. exists sa. split; [apply rl_mark; exact Hl|]. split; [exact Hsc|]. split; assumption.
    - cbn [Chain] in *. destruct (IH ltac:(congruence)) as (sa & (sb & Hl0 & Hsc0 & Hca & Hta) & s' & (sc & Hl & Hsc & Hc' & Ht') & Hch).
      inversion Hl0; subst sb.
      assert (Ht2 : ns_trans s2 = T).
      { inversion Hr; subst; assumption. }
      assert (Hev : EvalTo tasks env s2 sa) by (apply ScanTo_EvalTo; rewrite Ht2; exact Hsc0).
      exists s'. split; [|exact Hch]. exists sc. split; [|split; [exact Hsc|split; assumption]].
      eapply rl_cons; [apply Hop; exact Hev|congruence|exact Hnpc|exact Hl].
    - cbn [Chain] in *. destruct (IH ltac:(congruence)) as (sa & (sb & Hl0 & Hsc0 & Hca & Hta) & s' & (sc & Hl & Hsc & Hc' & Ht') & Hch).
      inversion Hl0; subst sb.
      assert (Ht2 : ns_trans s2 = T).
      { inversion Hr; subst; assumption. }
      assert (Hev : EvalTo tasks env s2 sa) by (apply ScanTo_EvalTo; rewrite Ht2; exact Hsc0).
      exists s'. split; [|exact Hch]. exists sc. split; [|split; [exact Hsc|split; assumption]].
      inversion Hl as [| ? ? ? ? ? Hbad _ Hnm _ | ? ? ? Hl' ]; subst; [discriminate Hnm|].
      eapply rl_cons; [apply Hop; exact Hev|idtac|exact Hnpc|exact Hl'].
      change (ns_cbs (bump sa)) with (ns_cbs sa). congruence.
    - cbn [Chain] in *. destruct (IH Hcs) as (s' & (sa & Hl & Hsc & Hc' & Ht') & Hch).
      exists s'. split; [|exact Hch]. exists s. split; [constructor|]. split; [|split; assumption].
      eapply (ScanTo_step tasks env n s t tr (nth t C []) sa s'); try eassumption.
      + rewrite Ht. exact Htr.
      + rewrite Hcs. reflexivity.
      + apply (RunList_RunFrom t (nth t C []) [] (fire_ns tr s) sa Hl Hnp). change (ns_cbs (fire_ns tr s)) with (ns_cbs s).
        rewrite Hcs. reflexivity.
  Qed.

  (* a complete top-level evaluation *)
  Theorem Run_sound : forall s sF, Run s [[]] sF -> ns_trans s = T -> EvalTo tasks env s sF.
  Proof.
    intros s sF H Ht. destruct (Run_Chain _ _ _ H) as (s' & (s1 & Hl & Hsc & _) & E). cbn [Chain] in E. subst s'.
    inversion Hl; subst s1. apply ScanTo_EvalTo. rewrite Ht. exact Hsc.
  Qed.

  (* ---- prefixes of runs ---- *)
  Definition MS (c c' : NS * list (list cb)) : Prop :=
    forall sF, Run (fst c') (snd c') sF -> Run (fst c) (snd c) sF.

  Lemma MS_refl : forall c, MS c c.
  Proof. intros c sF H. exact H. Qed.
  Lemma MS_trans : forall a b c, MS a b -> MS b c -> MS a c.
  Proof. intros a b c H1 H2 sF H. apply H1, H2, H. Qed.

  Lemma MS_cb : forall c l K s s1, RunCb tasks env c s s1 -> ns_cbs s1 = ns_cbs s -> is_parloop_cb c = false ->
                                   MS (s, (c :: l) :: K) (s1, l :: K).
  Proof. intros c l K s s1 H Hc Hnp sF Hr. cbn [fst snd] in *. eapply run_cb; eassumption. Qed.

  Lemma MS_mark : forall l K s, MS (s, (MARK :: l) :: K) (bump s, l :: K).
  Proof. intros l K s sF Hr. cbn [fst snd] in *. apply run_mark. exact Hr. Qed.

  Lemma MS_marks : forall j l K s, MS (s, (marks j ++ l) :: K) (bumpn j s, l :: K).
  Proof.
    induction j as [|j IH]; intros l K s; [rewrite bumpn_0; apply MS_refl|].
    cbn [marks repeat app]. eapply MS_trans; [apply MS_mark|]. eapply MS_trans; [apply IH|].
    rewrite bump_bumpn, bumpn_add. replace (j + 1) with (S j) by lia. apply MS_refl.
  Qed.

  Lemma MS_list : forall l1 l K s s1, RunList l1 s s1 -> MS (s, (l1 ++ l) :: K) (s1, l :: K).
  Proof.
    intros l1 l K s s1 H. induction H; cbn [app]; [apply MS_refl| |].
    - eapply MS_trans; [apply MS_cb; eassumption|]. exact IHRunList.
    - eapply MS_trans; [apply MS_mark|]. exact IHRunList.
  Qed.

  Lemma MS_pushb : forall c l K s s2, OpensB c s s2 -> MS (s, (c :: l) :: K) (s2, [] :: (MARK :: l) :: K).
  Proof. intros c l K s s2 H sF Hr. cbn [fst snd] in *. eapply run_pushb; eassumption. Qed.

  Lemma MS_push : forall c l K s s2, Opens c s s2 -> MS (s, (c :: l) :: K) (s2, [] :: l :: K).
  Proof. intros c l K s s2 H sF Hr. cbn [fst snd] in *. eapply run_push; eassumption. Qed.

  Lemma MS_pop : forall l K s, ns_trans s = T -> dead s -> MS (s, [] :: l :: K) (s, l :: K).
  Proof. intros l K s Ht Hd sF Hr. cbn [fst snd] in *. apply run_pop; assumption. Qed.

  Lemma MS_fire : forall s t tr K,
      ns_trans s = T -> t < n -> nth_error T t = Some tr -> enabled s tr = true ->
      (forall j, j < t -> disabled s j) -> no_parloop (nth t C []) = true ->
      MS (s, [] :: K) (fire_ns tr s, nth t C [] :: K).
  Proof. intros s t tr K Ht Htn Htr Hen Hd Hnp sF Hr. cbn [fst snd] in *. eapply run_fire; eassumption. Qed.

  (* finished evaluations on top of a stack: under each of them lies what is left of the callback
     list of the transition whose callback opened it -- nothing but, possibly, markers ([ms]
     counts them) *)
  Definition UnwE (ms : list nat) (K : list (list cb)) : list (list cb) := map marks ms ++ K.

  Lemma UnwE_nil : forall K, UnwE [] K = K. Proof. reflexivity. Qed.
  Lemma UnwE_cons : forall m ms K, UnwE (m :: ms) K = marks m :: UnwE ms K. Proof. reflexivity. Qed.
  Lemma UnwE_app : forall a b K, UnwE a (UnwE b K) = UnwE (a ++ b) K.
  Proof. intros a b K. unfold UnwE. rewrite map_app, app_assoc. reflexivity. Qed.
  Lemma UnwE_0 : forall ms K, [] :: UnwE ms K = UnwE (0 :: ms) K. Proof. reflexivity. Qed.
  Lemma UnwE_snoc0 : forall ms K, UnwE ms ([] :: K) = UnwE (ms ++ [0]) K.
  Proof. intros ms K. change ([] :: K) with (UnwE [0] K). apply UnwE_app. Qed.
  Definition sumn (ms : list nat) : nat := fold_right Nat.add 0 ms.
  Lemma sumn_app : forall a b, sumn (a ++ b) = sumn a + sumn b.
  Proof. induction a as [|x a IH]; intro b; [reflexivity|]. unfold sumn in *. cbn [app fold_right]. rewrite IH. lia. Qed.

  Lemma dead_bumpn : forall j s, dead s -> dead (bumpn j s).
  Proof. intros j s H. exact H. Qed.

  (* the evaluations that have nothing left to do return one after the other; the markers are
     passed on the way *)
  Lemma MS_unwindE : forall ms l K s, ns_trans s = T -> dead s ->
      MS (s, [] :: UnwE ms (l :: K)) (bumpn (sumn ms) s, l :: K).
  Proof.
    induction ms as [|m ms IH]; intros l K s Ht Hd.
    - rewrite UnwE_nil. change (sumn []) with 0. rewrite bumpn_0. apply MS_pop; assumption.
    - rewrite UnwE_cons. eapply MS_trans; [apply MS_pop; assumption|].
      rewrite <- (app_nil_r (marks m)). eapply MS_trans; [apply MS_marks|].
      eapply MS_trans; [apply IH; [exact Ht|apply dead_bumpn; exact Hd]|].
      rewrite bumpn_add. replace (sumn ms + m) with (sumn (m :: ms)) by (unfold sumn; cbn [fold_right]; lia).
      apply MS_refl.
  Qed.

  (* ... down to the evaluation under them, which goes on *)
  Lemma MS_unwind0 : forall ms K s, ns_trans s = T -> dead s ->
      MS (s, [] :: UnwE ms K) (bumpn (sumn ms) s, [] :: K).
  Proof.
    induction ms as [|m ms IH]; intros K s Ht Hd.
    - rewrite UnwE_nil. change (sumn []) with 0. rewrite bumpn_0. apply MS_refl.
    - rewrite UnwE_cons. eapply MS_trans; [apply MS_pop; assumption|].
      rewrite <- (app_nil_r (marks m)). eapply MS_trans; [apply MS_marks|].
      eapply MS_trans; [apply IH; [exact Ht|apply dead_bumpn; exact Hd]|].
      rewrite bumpn_add. replace (sumn ms + m) with (sumn (m :: ms)) by (unfold sumn; cbn [fold_right]; lia).
      apply MS_refl.
  Qed.

  (* the scan of the current evaluation goes on *)
  Definition Steps (a b : NS) : Prop := forall K, MS (a, [] :: K) (b, [] :: K).
  (* the callbacks [l] of the transition that has just fired run (with whatever they trigger) *)
  Definition Starts (l : list cb) (a b : NS) : Prop := forall rest K, MS (a, (l ++ rest) :: K) (b, rest :: K).

  Lemma steps_refl : forall a, Steps a a.
  Proof. intros a K. apply MS_refl. Qed.
  Lemma Steps_trans : forall a b c, Steps a b -> Steps b c -> Steps a c.
  Proof. intros a b c H1 H2 K. eapply MS_trans; [apply H1|apply H2]. Qed.

  Lemma Starts_nil : forall a, Starts [] a a.
  Proof. intros a rest K. apply MS_refl. Qed.
  Lemma Starts_RunList : forall l a b, RunList l a b -> Starts l a b.
  Proof. intros l a b H rest K. apply MS_list. exact H. Qed.
  Lemma Starts_app : forall l1 l2 a b c, Starts l1 a b -> Starts l2 b c -> Starts (l1 ++ l2) a c.
  Proof. intros l1 l2 a b c H1 H2 rest K. rewrite <- app_assoc. eapply MS_trans; [apply H1|apply H2]. Qed.
  Lemma Starts_cons : forall c l a b d, RunCb tasks env c a b -> ns_cbs b = ns_cbs a -> is_parloop_cb c = false ->
                                        Starts l b d -> Starts (c :: l) a d.
  Proof.
    intros c l a b d H Hc Hnp H2. change (c :: l) with ([c] ++ l). eapply Starts_app; [|exact H2].
    apply Starts_RunList. eapply rl_cons; [exact H|exact Hc|exact Hnp|constructor].
  Qed.

  Lemma Steps_fire : forall s t tr s1,
      ns_trans s = T -> t < n -> nth_error T t = Some tr -> enabled s tr = true ->
      (forall j, j < t -> disabled s j) -> no_parloop (nth t C []) = true ->
      Starts (nth t C []) (fire_ns tr s) s1 -> Steps s s1.
  Proof.
    intros s t tr s1 Ht Htn Htr Hen Hd Hnp Hst K.
    eapply MS_trans; [apply (MS_fire s t tr K); assumption|].
    specialize (Hst [] K). rewrite app_nil_r in Hst. exact Hst.
  Qed.

  (* a callback that opens an evaluation; that evaluation ends in [s3] *)
  Lemma Starts_push : forall c s s2 s3,
      Opens c s s2 -> Steps s2 s3 -> ns_trans s3 = T -> dead s3 -> Starts [c] s s3.
  Proof.
    intros c s s2 s3 Ho Hs Ht Hd rest K. cbn [app].
    eapply MS_trans; [apply MS_push; exact Ho|]. eapply MS_trans; [apply Hs|]. apply MS_pop; assumption.
  Qed.

  Theorem Steps_EvalTo : forall a b, Steps a b -> ns_trans a = T -> ns_cbs b = C -> ns_trans b = T -> dead b ->
                                     EvalTo tasks env a b.
  Proof.
    intros a b H Ha Hc Ht Hd. apply Run_sound; [|exact Ha]. apply (H [] b). cbn [fst snd]. apply run_end; assumption.
  Qed.
End Mach.
