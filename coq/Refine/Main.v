(* Refine/Main.v — the refinement theorem for whole cases: on every case of the fragment on
   which the reference semantics (RunCase.run_ref) produces a trace, the faithful net model
   (NetRun.run_net, with its fuel as a parameter) produces the same trace.  Proof file. *)
From PFDL Require Import NetModel NetRun RunCase.
From PFDL.Refine Require Import Eval Layout GenSpec Abs SrcKeys Sim.
From Coq Require Import Lia.

(* NetRun.run_net with the evaluation fuel as a parameter *)
Definition run_net_f (fuel : nat) (c : runcase) : res (list callrec) :=
  if rc_test_ids c then
    rbind (net_init (p_tasks (rc_prog c)) true) (fun s =>
    net_run_script (p_tasks (rc_prog c)) (env_of c) fuel s (rc_script c))
  else Unsupported.

Lemma run_net_is_run_net_f : forall c, run_net c = run_net_f net_fuel c.
Proof. reflexivity. Qed.

(* does a component contain a counting loop (also inside the tasks it calls)? *)
Fixpoint has_count (s : xstmt) : bool :=
  match s with
  | XCount _ _ _ => true
  | XCall _ _ _ b => existsb has_count b
  | XParallel bs => existsb has_count bs
  | XCond _ P F => existsb has_count P || existsb has_count F
  | XWhile _ B => existsb has_count B
  | _ => false
  end.
Definition no_count (body : list xstmt) : bool := negb (existsb has_count body).

(* may the engine complete a service from inside its started notification? *)
Definition uses_imm (c : runcase) : bool := negb (forallb negb (rc_imm c)).

(* the fragment: test identifiers, an engine that neither reacts (sends completions of OTHER
   services) from inside notifications nor mutates parameter lists; it may complete a started
   service at once, from inside the service-started notification ([rc_imm], arbitrary) -- then
   the script registers no further function for service-started notifications and attaches no
   observer (Sim.ok_call: the net serves the rest of a service-started notification only after
   everything that the immediate completion triggers, the reference semantics before);
   otherwise ANY script of API calls (start,
   completion, junk events, registration of further functions, attaching / detaching observers);
   programs whose unfolding consists of services, task calls (non-empty bodies), Parallel
   statements, Conditions (non-empty Passed block, with or without a Failed block) and While
   loops (non-empty bodies), arbitrarily nested, within the generator's recursion budget; and
   sequential counting loops (non-empty bodies, any limit) at any depth of Conditions / While
   loops / counting loops / task calls (every task instance has its own loop counters);
   parameter lists may mention the loop indices (the net substitutes the current counters at
   every start inside a loop, the reference semantics its index environment).  Not in the
   fragment: parallel loops *)
Definition in_fragment (c : runcase) : bool :=
  rc_test_ids c
  && forallb (fun o => match o with None => true | Some _ => false end) (rc_react c)
  && Nat.eqb (rc_mutate c) 0
  && forallb (ok_call (uses_imm c)) (rc_script c)
  && match unfold_program (p_tasks (rc_prog c)) 200 with
     | Ok body => frag_block body && Nat.ltb (need_l body) 200
     | _ => false
     end.

(* Abs.sok holds of every program, with NC = "the program has no counting loop" *)
Lemma sok_any : forall NC s, (has_count s = true -> NC = false) -> sok NC true s = true.
Proof.
  intros NC. induction s as [n a i|t a i body IH|bs IH|e p f IHp IHf|e b IH|v l b IH|v l c IH] using xstmt_ind'; intro H; cbn [sok].
  - reflexivity.
  - cbn [andb]. apply forallb_forall. intros x Hx. rewrite Forall_forall in IH. apply (IH x Hx).
    intro Hc. apply H. cbn [has_count]. apply existsb_exists. exists x. split; assumption.
  - apply forallb_forall. intros x Hx. rewrite Forall_forall in IH. apply (IH x Hx).
    intro Hc. apply H. cbn [has_count]. apply existsb_exists. exists x. split; assumption.
  - apply andb_true_intro. split; apply forallb_forall; intros x Hx.
    + rewrite Forall_forall in IHp. apply (IHp x Hx). intro Hc. apply H. cbn [has_count]. apply orb_true_intro. left.
      apply existsb_exists. exists x. split; assumption.
    + rewrite Forall_forall in IHf. apply (IHf x Hx). intro Hc. apply H. cbn [has_count]. apply orb_true_intro. right.
      apply existsb_exists. exists x. split; assumption.
  - apply forallb_forall. intros x Hx. rewrite Forall_forall in IH. apply (IH x Hx).
    intro Hc. apply H. cbn [has_count]. apply existsb_exists. exists x. split; assumption.
  - pose proof (H eq_refl) as HN. subst NC. cbn [negb andb]. apply forallb_forall. intros x Hx. rewrite Forall_forall in IH. apply (IH x Hx).
    intros _. reflexivity.
  - reflexivity.
Qed.
Lemma sok_block_any : forall body, sok_block (no_count body) true body = true.
Proof.
  intro body. unfold sok_block. apply forallb_forall. intros x Hx. apply sok_any. intro Hc.
  unfold no_count. apply negb_false_iff. apply existsb_exists. exists x. split; assumption.
Qed.

Lemma nth_all_none : forall (l : list (option nat)) k,
    forallb (fun o => match o with None => true | Some _ => false end) l = true -> nth k l None = None.
Proof.
  induction l as [|x r IH]; intros [|k] H; try reflexivity; cbn [forallb] in H; apply andb_prop in H; destruct H as [H1 H2].
  - destruct x; [discriminate H1|reflexivity].
  - cbn [nth]. apply IH. exact H2.
Qed.

Lemma nth_all_false : forall (l : list bool) k, forallb negb l = true -> nth k l false = false.
Proof.
  induction l as [|x r IH]; intros [|k] H; try reflexivity; cbn [forallb] in H; apply andb_prop in H; destruct H as [H1 H2].
  - destruct x; [discriminate H1|reflexivity].
  - cbn [nth]. apply IH. exact H2.
Qed.

Lemma no_react_existsb : forall (l : list (option nat)),
    forallb (fun o => match o with None => true | Some _ => false end) l = true ->
    existsb (fun o => match o with Some _ => true | None => false end) l = false.
Proof.
  induction l as [|x r IH]; intro H; [reflexivity|]. cbn [forallb] in H. apply andb_prop in H. destruct H as [H1 H2].
  cbn [existsb]. rewrite (IH H2). destruct x; [discriminate H1|reflexivity].
Qed.

(* Scheduler(...) on a program whose unfolding lies in the fragment builds the net of Layout.v;
   the counting variables are those of the program (SrcKeys) *)
Theorem net_of_program : forall tasks fu body,
    unfold_program tasks fu = Ok body -> frag_block body = true -> need_l body < 200 ->
    exists N, net_init tasks true = Ok N /\ NetOf (LV := loop_var tasks) body N.
Proof.
  intros tasks fu body Hu Hf Hn. apply (net_init_spec (LV := loop_var tasks) tasks fu body Hu Hf Hn).
  apply (unfold_program_keys tasks fu body Hu). destruct body; [discriminate Hf|exact Hf].
Qed.

Theorem net_refines_ref_fragment :
  forall c, in_fragment c = true ->
  forall tr, run_ref c = Ok tr ->
  exists f0, forall f, f0 <= f -> run_net_f f c = Ok tr.
Proof.
  intros c Hin tr Href. unfold in_fragment in Hin.
  repeat (apply andb_prop in Hin; destruct Hin as [Hin ?]).
  rename H into Hprog, H0 into Hscript, H1 into Hmut, H2 into Hreact.
  destruct (unfold_program (p_tasks (rc_prog c)) 200) as [body| | |] eqn:Hu; try discriminate Hprog.
  apply andb_prop in Hprog. destruct Hprog as [Hfrag Hneed]. apply Nat.ltb_lt in Hneed. pose proof (sok_block_any body) as Hsok.
  unfold run_ref in Href. rewrite (no_react_existsb _ Hreact), Hu in Href. cbn [rbind] in Href.
  assert (Hkeys : keys_block (LV := loop_var (p_tasks (rc_prog c))) production_task [] body 0).
  { apply (unfold_program_keys (p_tasks (rc_prog c)) 200 body Hu). destruct body; [discriminate Hfrag|exact Hfrag]. }
  destruct (net_init_spec (LV := loop_var (p_tasks (rc_prog c))) (p_tasks (rc_prog c)) 200 body Hu Hfrag Hneed Hkeys) as (N & Hinit & HN).
  assert (Henv : env_quiet (env_of c)).
  { split.
    - intro k. unfold env_of, ec_react. apply nth_all_none. exact Hreact.
    - unfold env_of, ec_mutate. apply Nat.eqb_eq. exact Hmut. }
  assert (Himm' : uses_imm c = false -> forall k, imm_of (rc_imm c) k = false).
  { intros Hui k. apply nth_all_false. unfold uses_imm in Hui. apply negb_false_iff in Hui. exact Hui. }
  destruct (script_sim (no_count body) (p_tasks (rc_prog c)) (env_of c) Henv (orc_of (rc_vals c)) (imm_of (rc_imm c))
                       (fun k => eq_refl) (uses_imm c) Himm' eq_refl
                       body N HN Hfrag Hsok default_fuel (rc_script c) sched0 N tr Hscript
                       (Rel_init (no_count body) (p_tasks (rc_prog c)) (uses_imm c) body N HN Hfrag) Href) as [f0 Hf0].
  exists f0. intros f Hf. unfold run_net_f. rewrite Hin, Hinit. cbn [rbind]. apply Hf0. exact Hf.
Qed.
