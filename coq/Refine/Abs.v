(* Refine/Abs.v — the abstraction between the two models: positions of the statements of a
   block and of the branches of a Parallel, the marking [ml] that a reference state denotes
   on the laid-out net, the run-time content of the API store for the active part of the tree
   ([act]) and structural facts about enabledness (every transition of a component reads
   places of that component only; in a stable state nothing inside a component is enabled).
   Proof file. *)
From PFDL Require Import NetModel RefBase.
From PFDL.Refine Require Import Eval Layout GenSpec.
From Coq Require Import Lia.

Section WithLV.
Context `{LV : LoopVars}.

(* ---- positions inside a block / a Parallel ---- *)
Fixpoint spos (l : list xstmt) (p : pos) (i : nat) : pos :=
  match l with
  | [] => p
  | s :: r => match i with
              | 0 => first_pos l p
              | S i' => spos r (adv s (first_pos l p)) i'
              end
  end.
Fixpoint bpos (l : list xstmt) (q : pos) (k : nat) : pos :=
  match l with
  | [] => q
  | b :: r => match k with 0 => q | S k' => bpos r (adv b q) k' end
  end.

Lemma spos_cons2 : forall s s' r p i,
    spos (s :: s' :: r) p (S i) = spos (s' :: r) (adv s (conn_skip p)) i.
Proof. reflexivity. Qed.

Lemma nplaces_l_le : forall l i s, nth_error l i = Some s -> nplaces s <= nplaces_l l.
Proof.
  induction l as [|x r IH]; intros [|i] s H; cbn [nth_error] in H; try discriminate; rewrite nplaces_l_cons.
  - inversion H; subst. lia.
  - specialize (IH _ _ H). lia.
Qed.

(* the statements of a block lie inside the block, in order (the connection that follows
   statement i is created just before it: index pt (spos l p i) - 1) *)
Lemma spos_range : forall l p i s, nth_error l i = Some s ->
    pp p <= pp (spos l p i) /\ pp (spos l p i) + nplaces s <= pp p + nplaces_l l /\
    pt p <= pt (spos l p i) /\ pt (spos l p i) + ntrans s <= pt p + ntrans_b l /\
    pa p <= pa (spos l p i) /\ pa (spos l p i) + napis s <= pa p + napis_l l.
Proof.
  induction l as [|x r IH]; intros p i s H; [destruct i; discriminate H|].
  destruct r as [|x' r].
  - destruct i as [|i]; [|destruct i; discriminate H]. cbn [nth_error] in H. inversion H; subst.
    cbn [spos first_pos]. rewrite nplaces_l_one, napis_l_one, ntrans_b_one. lia.
  - rewrite nplaces_l_cons, napis_l_cons, ntrans_b_cons. destruct i as [|i].
    + cbn [nth_error] in H. inversion H; subst. cbn [spos first_pos conn_skip pp pt pa]. lia.
    + cbn [nth_error] in H. rewrite spos_cons2.
      specialize (IH (adv x (conn_skip p)) i s H). cbn [adv conn_skip pp pt pa] in IH. lia.
Qed.

Lemma spos_mono : forall l p i k s s', i < k ->
    nth_error l i = Some s -> nth_error l k = Some s' ->
    pp (spos l p i) + nplaces s <= pp (spos l p k) /\
    pt (spos l p i) + ntrans s <= pt (spos l p k) /\
    pa (spos l p i) + napis s <= pa (spos l p k).
Proof.
  induction l as [|x r IH]; intros p i k s s' Hik Hi Hk; [destruct i; discriminate Hi|].
  destruct k as [|k]; [lia|]. destruct r as [|x' r]; [destruct k; discriminate Hk|].
  cbn [nth_error] in Hk. rewrite (spos_cons2 x x' r p k). destruct i as [|i].
  - cbn [nth_error] in Hi. inversion Hi; subst. change (spos (s :: x' :: r) p 0) with (conn_skip p).
    pose proof (spos_range (x' :: r) (adv s (conn_skip p)) k s' Hk) as R. cbn [adv conn_skip pp pt pa] in *. lia.
  - cbn [nth_error] in Hi. rewrite spos_cons2. apply (IH _ i k s s'); try assumption. lia.
Qed.

(* ---- reading [wired_block] by index ---- *)
Lemma wired_block_nth : forall (W : xstmt -> pos -> nat -> list cb -> Prop) N ctx xcbs l p i s,
    wired_block W N ctx xcbs l p -> nth_error l i = Some s ->
    W s (spos l p i) ctx (if Nat.eqb (S i) (List.length l) then xcbs else []) /\
    (forall s', nth_error l (S i) = Some s' ->
                let c := pt (spos l p i) - 1 in
                preN N c = [xplace s (spos l p i)] /\
                postN N c = entries s' (spos l p (S i)) /\
                cbsN N c = startcbs s' (spos l p (S i)) ctx).
Proof.
  intros W N ctx xcbs. induction l as [|x r IH]; intros p i s Hw Hn; [destruct i; discriminate Hn|].
  destruct r as [|x' r].
  - destruct i as [|i]; [|destruct i; discriminate Hn]. cbn [nth_error] in Hn. inversion Hn; subst.
    cbn [wired_block] in Hw. cbn [spos first_pos List.length Nat.eqb]. split; [exact Hw|].
    intros s' H'. discriminate H'.
  - cbn [wired_block] in Hw. cbv zeta in Hw. destruct Hw as (H1 & H2 & H3 & Hs & Hr).
    destruct i as [|i].
    + cbn [nth_error] in Hn. inversion Hn; subst. cbn [spos first_pos]. split.
      * cbn [List.length Nat.eqb]. exact Hs.
      * intros s' H'. cbn [nth_error] in H'. inversion H'; subst.
        cbv zeta. cbn [conn_skip pt]. replace (S (pt p) - 1) with (pt p) by lia.
        split; [exact H1|]. split; [exact H2|exact H3].
    + cbn [nth_error] in Hn. rewrite spos_cons2.
      destruct (IH (adv x (conn_skip p)) i s Hr Hn) as [A B]. split.
      * cbn [List.length] in *. exact A.
      * intros s' H'. cbn [nth_error] in H'. rewrite (spos_cons2 x x' r p (S i)). apply B. exact H'.
Qed.

Lemma bpos_range : forall l q k b, nth_error l k = Some b ->
    pp q <= pp (bpos l q k) /\ pp (bpos l q k) + nplaces b <= pp q + nplaces_l l /\
    pt q <= pt (bpos l q k) /\ pt (bpos l q k) + ntrans b <= pt q + ntrans_l l /\
    pa q <= pa (bpos l q k) /\ pa (bpos l q k) + napis b <= pa q + napis_l l.
Proof.
  induction l as [|x r IH]; intros q k b H; [destruct k; discriminate H|].
  rewrite nplaces_l_cons, napis_l_cons, ntrans_l_cons. destruct k as [|k]; cbn [nth_error bpos] in *.
  - inversion H; subst. lia.
  - specialize (IH (adv x q) k b H). cbn [adv pp pt pa] in IH. lia.
Qed.

Lemma bpos_mono : forall l q k k' b b', k < k' ->
    nth_error l k = Some b -> nth_error l k' = Some b' ->
    pp (bpos l q k) + nplaces b <= pp (bpos l q k') /\
    pt (bpos l q k) + ntrans b <= pt (bpos l q k') /\
    pa (bpos l q k) + napis b <= pa (bpos l q k').
Proof.
  induction l as [|x r IH]; intros q k k' b b' Hk H H'; [destruct k; discriminate H|].
  destruct k' as [|k']; [lia|]. cbn [nth_error bpos] in H'. destruct k as [|k]; cbn [nth_error bpos] in *.
  - inversion H; subst. pose proof (bpos_range r (adv b q) k' b' H') as R. cbn [adv pp pt pa] in R. lia.
  - apply (IH _ k k' b b'); try assumption. lia.
Qed.

Lemma wired_list_nth : forall (W : xstmt -> pos -> nat -> list cb -> Prop) ctx l q k b,
    wired_list W ctx l q -> nth_error l k = Some b -> W b (bpos l q k) ctx [].
Proof.
  intros W ctx. induction l as [|x r IH]; intros q k b Hw H; [destruct k; discriminate H|].
  cbn [wired_list] in Hw. destruct Hw as [Hx Hr]. destruct k as [|k]; cbn [nth_error bpos] in *.
  - inversion H; subst. exact Hx.
  - apply IH; assumption.
Qed.

Lemma in_cat_of : forall A (f : xstmt -> pos -> list A) l q x,
    In x (cat_of f l q) <-> exists k b, nth_error l k = Some b /\ In x (f b (bpos l q k)).
Proof.
  intros A f. induction l as [|y r IH]; intros q x; cbn [cat_of].
  - split; [intros []|intros (k & b & H & _); destruct k; discriminate H].
  - rewrite in_app_iff, IH. split.
    + intros [H|(k & b & H & Hin)]; [exists 0, y; split; [reflexivity|exact H]|exists (S k), b; split; assumption].
    + intros (k & b & H & Hin). destruct k as [|k]; cbn [nth_error bpos] in *.
      * inversion H; subst. left. exact Hin.
      * right. exists k, b. split; assumption.
Qed.

(* ---- every transition of a component reads places of that component only, at least one,
        and never the component's own exit place ---- *)
Definition pre_ok (N : NS) (s : xstmt) (p : pos) : Prop :=
  forall j, pt p <= j < pt p + ntrans s ->
            preN N j <> [] /\ forall q, In q (preN N j) -> pp p <= q < pp p + nplaces s /\ q <> xplace s p.

Lemma pre_ok_block : forall N l,
    Forall (fun s => frag s = true -> forall p ctx xcbs, wired N s p ctx xcbs -> pre_ok N s p) l ->
    frag_block l = true -> forall p ctx xcbs, wired_block (wired N) N ctx xcbs l p ->
    forall j, pt p <= j < pt p + ntrans_b l ->
              preN N j <> [] /\ forall q, In q (preN N j) -> pp p <= q < pp p + nplaces_l l /\ q <> xplace_b l p.
Proof.
  intros N. induction l as [|s r IH]; intros HF Hf p ctx xcbs Hw j Hj; [discriminate|].
  inversion HF as [|? ? Hs Hr]; subst. apply frag_block_cons in Hf. destruct Hf as [Hfs Hfr].
  destruct r as [|s' r].
  - cbn [wired_block] in Hw. rewrite ntrans_b_one in Hj. rewrite nplaces_l_one. unfold xplace_b. rewrite last_of_one.
    apply (Hs Hfs p ctx xcbs Hw j Hj).
  - destruct Hfr as [Hfr|Hfr]; [discriminate|].
    cbn [wired_block] in Hw. cbv zeta in Hw. destruct Hw as (H1 & H2 & H3 & Hws & Hwr).
    rewrite ntrans_b_cons in Hj. rewrite nplaces_l_cons. unfold xplace_b. rewrite last_of_cons.
    pose proof (xplace_range s Hfs (conn_skip p)) as Xs. cbn [conn_skip pp] in Xs.
    pose proof (xplace_range_b (s' :: r) Hfr (adv s (conn_skip p))) as Xr. cbn [adv conn_skip pp] in Xr. unfold xplace_b in Xr.
    destruct (Nat.eq_dec j (pt p)) as [->|Hne].
    + rewrite H1. split; [discriminate|]. intros q [<-|[]]. lia.
    + destruct (Nat.lt_ge_cases j (S (pt p) + ntrans s)) as [Hlt|Hge].
      * destruct (Hs Hfs (conn_skip p) ctx [] Hws j) as [Hne' Hin]; [cbn [conn_skip pt]; lia|].
        split; [exact Hne'|]. intros q Hq. destruct (Hin q Hq) as [Hr1 _]. cbn [conn_skip pp] in Hr1. lia.
      * destruct (IH Hr Hfr (adv s (conn_skip p)) ctx xcbs Hwr j) as [Hne' Hin]; [cbn [adv conn_skip pt]; lia|].
        split; [exact Hne'|]. intros q Hq. destruct (Hin q Hq) as [Hr1 Hr2]. cbn [adv conn_skip pp] in Hr1.
        unfold xplace_b in Hr2. split; [lia|exact Hr2].
Qed.

Lemma pre_ok_list : forall N l,
    Forall (fun s => frag s = true -> forall p ctx xcbs, wired N s p ctx xcbs -> pre_ok N s p) l ->
    frag_brs l = true -> forall q ctx, wired_list (wired N) ctx l q ->
    forall j, pt q <= j < pt q + ntrans_l l ->
              preN N j <> [] /\ forall x, In x (preN N j) -> pp q <= x < pp q + nplaces_l l.
Proof.
  intros N. induction l as [|b r IH]; intros HF Hf q ctx Hw j Hj.
  - unfold ntrans_l in Hj. cbn in Hj. lia.
  - inversion HF as [|? ? Hb Hr]; subst. apply frag_brs_cons in Hf. destruct Hf as (_ & Hfb & Hfr).
    cbn [wired_list] in Hw. destruct Hw as [Hwb Hwr]. rewrite ntrans_l_cons in Hj. rewrite nplaces_l_cons.
    destruct (Nat.lt_ge_cases j (pt q + ntrans b)) as [Hlt|Hge].
    + destruct (Hb Hfb q ctx [] Hwb j ltac:(lia)) as [Hne Hin]. split; [exact Hne|].
      intros x Hx. destruct (Hin x Hx) as [Hr1 _]. lia.
    + destruct (IH Hr Hfr (adv b q) ctx Hwr j) as [Hne Hin]; [cbn [adv pt]; lia|]. split; [exact Hne|].
      intros x Hx. specialize (Hin x Hx). cbn [adv pp] in Hin. lia.
Qed.

Lemma pre_ok_all : forall N s, frag s = true -> forall p ctx xcbs, wired N s p ctx xcbs -> pre_ok N s p.
Proof.
  intros N.
  induction s as [n a i|t a i body IH|bs IH|e0 p f IHp IHf|e0 b IH|v l b IH|v l c IH] using xstmt_ind';
    intros Hf p0 ctx xcbs Hw; try discriminate Hf.
  - cbn [wired] in Hw. destruct Hw as (H1 & _). intros j Hj. cbn [ntrans] in Hj. assert (j = pt p0) by lia. subst j.
    rewrite H1. split; [discriminate|]. intros q [<-|[<-|[]]]; cbn [nplaces xplace]; lia.
  - apply frag_call in Hf. destruct Hf as [_ Hf]. cbn [wired] in Hw. destruct Hw as [_ Hw].
    intros j Hj. rewrite ntrans_call in Hj. rewrite nplaces_call. cbn [xplace].
    apply (pre_ok_block N body IH Hf (body_pos t p0) (pa p0) (CbTF (pa p0) :: xcbs) Hw j Hj).
  - pose proof (frag_par _ Hf) as [Hne Hfb]. cbn [wired] in Hw. destruct Hw as (H1 & _ & _ & Hw).
    intros j Hj. rewrite ntrans_par in Hj. rewrite nplaces_par. cbn [xplace].
    destruct (Nat.eq_dec j (pt p0)) as [->|Hnj].
    + rewrite H1. split.
      * destruct bs as [|b r]; [congruence|]. cbn [cat_of app]. discriminate.
      * intros q Hq. apply in_cat_of in Hq. destruct Hq as (k & b & Hk & [<-|[]]).
        assert (Hfb' : frag b = true).
        { unfold frag_brs in Hfb. rewrite forallb_forall in Hfb. apply nth_error_In in Hk. apply Hfb in Hk.
          apply andb_prop in Hk. apply Hk. }
        pose proof (xplace_range b Hfb' (bpos bs (par_pos p0) k)) as X.
        pose proof (bpos_range bs (par_pos p0) k b Hk) as R. cbn [par_pos pp] in R. lia.
    + destruct (pre_ok_list N bs IH Hfb (par_pos p0) ctx Hw j) as [Hne' Hin]; [cbn [par_pos pt]; lia|].
      split; [exact Hne'|]. intros q Hq. specialize (Hin q Hq). cbn [par_pos pp] in Hin. lia.
  - destruct (list_nil_dec f) as [->|HneF].
    { (* no Failed block *)
      pose proof (frag_cond0 _ _ Hf) as HfP. cbn [wired] in Hw.
      destruct Hw as (W1 & _ & _ & W4 & _ & _ & W7 & _ & _ & WP).
      intros j Hj. rewrite ntrans_cond0 in Hj. rewrite nplaces_cond. cbn [xplace].
      pose proof (xplace_range_b p HfP (cond_p p0)) as XP. cbn [cond_p pp] in XP.
      destruct (Nat.eq_dec j (pt p0)) as [->|N0]; [|destruct (Nat.eq_dec j (pt p0 + 1)) as [->|N1];
        [|destruct (Nat.eq_dec j (pt p0 + 2)) as [->|N2]]].
      + rewrite W1. split; [discriminate|]. intros q [<-|[<-|[]]]; lia.
      + rewrite W4. split; [discriminate|]. intros q [<-|[<-|[]]]; lia.
      + rewrite W7. split; [discriminate|]. intros q [<-|[]]. lia.
      + destruct (pre_ok_block N p IHp HfP (cond_p p0) ctx [] WP j) as [Hne Hin]; [cbn [cond_p pt]; lia|].
        split; [exact Hne|]. intros q Hq. destruct (Hin q Hq) as [Hr _]. cbn [cond_p pp] in Hr. lia. }
    pose proof (frag_cond_ne _ _ _ HneF Hf) as [HfP HfF]. rewrite (wired_cond_ne _ _ _ _ _ _ _ HneF) in Hw.
    destruct Hw as (W1 & _ & _ & W4 & _ & _ & W7 & _ & _ & W10 & _ & _ & WP & WF).
    intros j Hj. rewrite (ntrans_cond_ne _ _ _ HneF) in Hj. rewrite nplaces_cond. cbn [xplace].
    pose proof (xplace_range_b p HfP (cond_p p0)) as XP. cbn [cond_p pp] in XP.
    pose proof (xplace_range_b f HfF (cond_f p p0)) as XF. cbn [cond_f pp] in XF.
    destruct (Nat.eq_dec j (pt p0)) as [->|N0]; [|destruct (Nat.eq_dec j (pt p0 + 1)) as [->|N1];
      [|destruct (Nat.eq_dec j (pt p0 + 2)) as [->|N2]; [|destruct (Nat.eq_dec j (cond_sf p p0)) as [->|N3]]]].
    + rewrite W1. split; [discriminate|]. intros q [<-|[<-|[]]]; lia.
    + rewrite W4. split; [discriminate|]. intros q [<-|[<-|[]]]; lia.
    + rewrite W7. split; [discriminate|]. intros q [<-|[]]. lia.
    + rewrite W10. split; [discriminate|]. intros q [<-|[]]. lia.
    + unfold cond_sf in N3. destruct (Nat.lt_ge_cases j (pt p0 + 3 + ntrans_b p)) as [Hlt|Hge].
      * destruct (pre_ok_block N p IHp HfP (cond_p p0) ctx [] WP j) as [Hne Hin]; [cbn [cond_p pt]; lia|].
        split; [exact Hne|]. intros q Hq. destruct (Hin q Hq) as [Hr _]. cbn [cond_p pp] in Hr. lia.
      * destruct (pre_ok_block N f IHf HfF (cond_f p p0) ctx [] WF j) as [Hne Hin]; [cbn [cond_f pt]; lia|].
        split; [exact Hne|]. intros q Hq. destruct (Hin q Hq) as [Hr _]. cbn [cond_f pp] in Hr. lia.
  - (* while loop *)
    pose proof (frag_while _ _ Hf) as HfB. cbn [wired] in Hw.
    destruct Hw as (W1 & _ & _ & W4 & _ & _ & W7 & _ & _ & WB).
    intros j Hj. rewrite ntrans_while in Hj. rewrite nplaces_while. cbn [xplace].
    pose proof (xplace_range_b b HfB (loop_p p0)) as XB. cbn [loop_p pp] in XB.
    destruct (Nat.eq_dec j (pt p0)) as [->|N0]; [|destruct (Nat.eq_dec j (pt p0 + 1)) as [->|N1];
      [|destruct (Nat.eq_dec j (pt p0 + 2)) as [->|N2]]].
    + rewrite W1. split; [discriminate|]. intros q [<-|[<-|[]]]; lia.
    + rewrite W4. split; [discriminate|]. intros q [<-|[<-|[]]]; lia.
    + rewrite W7. split; [discriminate|]. intros q [<-|[]]. lia.
    + destruct (pre_ok_block N b IH HfB (loop_p p0) ctx [] WB j) as [Hne Hin]; [cbn [loop_p pt]; lia|].
      split; [exact Hne|]. intros q Hq. destruct (Hin q Hq) as [Hr _]. cbn [loop_p pp] in Hr. lia.
  - (* counting loop *)
    pose proof (frag_count _ _ _ Hf) as HfB. cbn [wired] in Hw.
    destruct Hw as (W1 & _ & _ & W4 & _ & _ & W7 & _ & _ & WB).
    intros j Hj. rewrite ntrans_count in Hj. rewrite nplaces_count. cbn [xplace].
    pose proof (xplace_range_b b HfB (loop_p p0)) as XB. cbn [loop_p pp] in XB.
    destruct (Nat.eq_dec j (pt p0)) as [->|N0]; [|destruct (Nat.eq_dec j (pt p0 + 1)) as [->|N1];
      [|destruct (Nat.eq_dec j (pt p0 + 2)) as [->|N2]]].
    + rewrite W1. split; [discriminate|]. intros q [<-|[<-|[]]]; lia.
    + rewrite W4. split; [discriminate|]. intros q [<-|[<-|[]]]; lia.
    + rewrite W7. split; [discriminate|]. intros q [<-|[]]. lia.
    + destruct (pre_ok_block N b IH HfB (loop_p p0) ctx [] WB j) as [Hne Hin]; [cbn [loop_p pt]; lia|].
      split; [exact Hne|]. intros q Hq. destruct (Hin q Hq) as [Hr _]. cbn [loop_p pp] in Hr. lia.
Qed.

(* ---- every API record that a component creates carries the generated identifier of its
        own index (so the generated identifiers are pairwise distinct and none is a test id) ---- *)
Definition apis_ok (N : NS) (s : xstmt) (p : pos) : Prop :=
  forall k, pa p <= k < pa p + napis s -> exists a, nth_error (ns_apis N) k = Some a /\ a_uuid a = IUuid k.

Lemma apis_ok_block : forall N l,
    Forall (fun s => frag s = true -> forall p ctx xcbs, wired N s p ctx xcbs -> apis_ok N s p) l ->
    frag_block l = true -> forall p ctx xcbs, wired_block (wired N) N ctx xcbs l p ->
    forall k, pa p <= k < pa p + napis_l l -> exists a, nth_error (ns_apis N) k = Some a /\ a_uuid a = IUuid k.
Proof.
  intros N. induction l as [|s r IH]; intros HF Hf p ctx xcbs Hw k Hk; [discriminate|].
  inversion HF as [|? ? Hs Hr]; subst. apply frag_block_cons in Hf. destruct Hf as [Hfs Hfr].
  destruct r as [|s' r].
  - cbn [wired_block] in Hw. rewrite napis_l_one in Hk. apply (Hs Hfs p ctx xcbs Hw k Hk).
  - destruct Hfr as [Hfr|Hfr]; [discriminate|].
    cbn [wired_block] in Hw. cbv zeta in Hw. destruct Hw as (_ & _ & _ & Hws & Hwr).
    rewrite napis_l_cons in Hk.
    destruct (Nat.lt_ge_cases k (pa p + napis s)) as [Hlt|Hge].
    + apply (Hs Hfs (conn_skip p) ctx [] Hws k). cbn [conn_skip pa]. lia.
    + apply (IH Hr Hfr (adv s (conn_skip p)) ctx xcbs Hwr k). cbn [adv conn_skip pa]. lia.
Qed.

Lemma apis_ok_list : forall N l,
    Forall (fun s => frag s = true -> forall p ctx xcbs, wired N s p ctx xcbs -> apis_ok N s p) l ->
    frag_brs l = true -> forall q ctx, wired_list (wired N) ctx l q ->
    forall k, pa q <= k < pa q + napis_l l -> exists a, nth_error (ns_apis N) k = Some a /\ a_uuid a = IUuid k.
Proof.
  intros N. induction l as [|b r IH]; intros HF Hf q ctx Hw k Hk.
  - unfold napis_l in Hk. cbn in Hk. lia.
  - inversion HF as [|? ? Hb Hr]; subst. apply frag_brs_cons in Hf. destruct Hf as (_ & Hfb & Hfr).
    cbn [wired_list] in Hw. destruct Hw as [Hwb Hwr]. rewrite napis_l_cons in Hk.
    destruct (Nat.lt_ge_cases k (pa q + napis b)) as [Hlt|Hge].
    + apply (Hb Hfb q ctx [] Hwb k). lia.
    + apply (IH Hr Hfr (adv b q) ctx Hwr k). cbn [adv pa]. lia.
Qed.

Lemma apis_ok_all : forall N s, frag s = true -> forall p ctx xcbs, wired N s p ctx xcbs -> apis_ok N s p.
Proof.
  intros N.
  induction s as [n a i|t a i body IH|bs IH|e0 p f IHp IHf|e0 b IH|v l b IH|v l c IH] using xstmt_ind';
    intros Hf p0 ctx xcbs Hw; try discriminate Hf.
  - cbn [wired] in Hw. destruct Hw as (_ & _ & _ & Ha & _). intros k Hk. cbn [napis] in Hk.
    assert (k = pa p0) by lia. subst k. eexists. split; [exact Ha|reflexivity].
  - apply frag_call in Hf. destruct Hf as [_ Hf]. cbn [wired] in Hw. destruct Hw as [Ha Hw].
    intros k Hk. rewrite napis_call in Hk. destruct (Nat.eq_dec k (pa p0)) as [->|Hne].
    + eexists. split; [exact Ha|reflexivity].
    + apply (apis_ok_block N body IH Hf (body_pos t p0) (pa p0) (CbTF (pa p0) :: xcbs) Hw k). cbn [body_pos pa]. lia.
  - pose proof (frag_par _ Hf) as [_ Hfb]. cbn [wired] in Hw. destruct Hw as (_ & _ & _ & Hw).
    intros k Hk. rewrite napis_par in Hk. apply (apis_ok_list N bs IH Hfb (par_pos p0) ctx Hw k). cbn [par_pos pa]. lia.
  - destruct (list_nil_dec f) as [->|HneF].
    { pose proof (frag_cond0 _ _ Hf) as HfP. cbn [wired] in Hw.
      destruct Hw as (_ & _ & _ & _ & _ & _ & _ & _ & _ & WP).
      intros k Hk. rewrite napis_cond in Hk. change (napis_l (@nil xstmt)) with 0 in Hk.
      apply (apis_ok_block N p IHp HfP (cond_p p0) ctx [] WP k). cbn [cond_p pa]. lia. }
    pose proof (frag_cond_ne _ _ _ HneF Hf) as [HfP HfF]. rewrite (wired_cond_ne _ _ _ _ _ _ _ HneF) in Hw.
    destruct Hw as (_ & _ & _ & _ & _ & _ & _ & _ & _ & _ & _ & _ & WP & WF).
    intros k Hk. rewrite napis_cond in Hk.
    destruct (Nat.lt_ge_cases k (pa p0 + napis_l p)) as [Hlt|Hge].
    + apply (apis_ok_block N p IHp HfP (cond_p p0) ctx [] WP k). cbn [cond_p pa]. lia.
    + apply (apis_ok_block N f IHf HfF (cond_f p p0) ctx [] WF k). cbn [cond_f pa]. lia.
  - pose proof (frag_while _ _ Hf) as HfB. cbn [wired] in Hw.
    destruct Hw as (_ & _ & _ & _ & _ & _ & _ & _ & _ & WB).
    intros k Hk. rewrite napis_while in Hk. apply (apis_ok_block N b IH HfB (loop_p p0) ctx [] WB k). cbn [loop_p pa]. lia.
  - pose proof (frag_count _ _ _ Hf) as HfB. cbn [wired] in Hw.
    destruct Hw as (_ & _ & _ & _ & _ & _ & _ & _ & _ & WB).
    intros k Hk. rewrite napis_count in Hk. apply (apis_ok_block N b IH HfB (loop_p p0) ctx [] WB k). cbn [loop_p pa]. lia.
Qed.

(* the whole net: only the production task's record (index 0) carries a test identifier *)
Lemma NetOf_uuids : forall body N, frag_block body = true -> NetOf body N ->
    forall k a, nth_error (ns_apis N) k = Some a -> k = 0 \/ a_uuid a = IUuid k.
Proof.
  intros body N Hf HN k a Hk. destruct k as [|k]; [left; reflexivity|right].
  assert (Hlt : S k < 1 + napis_l body).
  { rewrite <- (no_napis _ _ HN). apply nth_error_Some. congruence. }
  assert (HF : Forall (fun s => frag s = true -> forall p ctx xcbs, wired N s p ctx xcbs -> apis_ok N s p) body).
  { apply Forall_forall. intros s _. apply apis_ok_all. }
  destruct (apis_ok_block N body HF Hf p0 0 [] (no_body _ _ HN) (S k)) as (a' & Ha' & Hu); [cbn [p0 pa]; lia|].
  congruence.
Qed.

(* =========================================================================== *)
(* markings                                                                     *)
(* =========================================================================== *)
Definition cnt (l : list nat) (q : nat) : nat := count_occ Nat.eq_dec l q.

Lemma cnt_app : forall l1 l2 q, cnt (l1 ++ l2) q = cnt l1 q + cnt l2 q.
Proof. intros. apply count_occ_app. Qed.
Lemma cnt_nil : forall q, cnt [] q = 0. Proof. reflexivity. Qed.
Lemma cnt_cons_eq : forall l q, cnt (q :: l) q = S (cnt l q).
Proof. intros. unfold cnt. apply count_occ_cons_eq. reflexivity. Qed.
Lemma cnt_cons_neq : forall l q x, x <> q -> cnt (x :: l) q = cnt l q.
Proof. intros. unfold cnt. apply count_occ_cons_neq. assumption. Qed.
Lemma cnt_pos_in : forall l q, 0 < cnt l q <-> In q l.
Proof. intros. unfold cnt. symmetry. apply count_occ_In. Qed.
Lemma cnt_notin : forall l q, ~ In q l -> cnt l q = 0.
Proof. intros. unfold cnt. apply count_occ_not_In. assumption. Qed.
Global Opaque cnt.

Definition tok (ps : list (option nat)) (q : nat) : nat :=
  match nth_error ps q with Some (Some k) => k | _ => 0 end.

Lemma tokens_tok : forall s q, tokens s q = tok (ns_places s) q.
Proof. reflexivity. Qed.

Lemma tok_upd : forall (f : nat -> nat) ps p q,
    tok (upd p (option_map f) ps) q =
    if Nat.eqb q p then match nth_error ps q with Some (Some k) => f k | _ => 0 end else tok ps q.
Proof.
  intros f ps p q. unfold tok. destruct (Nat.eqb_spec q p) as [->|Hne].
  - destruct (nth_error ps p) as [o|] eqn:E.
    + rewrite (nth_error_upd_eq _ _ _ _ _ E). destruct o; reflexivity.
    + assert (Hn : nth_error (upd p (option_map f) ps) p = None).
      { apply nth_error_None. rewrite upd_length. apply nth_error_None. exact E. }
      rewrite Hn. reflexivity.
  - rewrite nth_error_upd_neq by congruence. reflexivity.
Qed.

Lemma tok_fold_pred : forall l ps q,
    tok (fold_left (fun ps p => upd p (option_map Nat.pred) ps) l ps) q = tok ps q - cnt l q.
Proof.
  induction l as [|p l IH]; intros ps q; cbn [fold_left].
  - rewrite cnt_nil. lia.
  - rewrite IH, tok_upd. destruct (Nat.eqb_spec q p) as [->|Hne].
    + rewrite cnt_cons_eq. unfold tok. destruct (nth_error ps p) as [[k|]|]; lia.
    + rewrite cnt_cons_neq by congruence. reflexivity.
Qed.

Definition all_some (ps : list (option nat)) : Prop := forall q, q < List.length ps -> exists k, nth_error ps q = Some (Some k).

Lemma all_some_upd : forall (f : nat -> nat) ps p, all_some ps -> all_some (upd p (option_map f) ps).
Proof.
  intros f ps p H q Hq. rewrite upd_length in Hq. destruct (H q Hq) as [k Hk].
  destruct (Nat.eq_dec p q) as [->|Hne].
  - rewrite (nth_error_upd_eq _ _ _ _ _ Hk). cbn. eauto.
  - rewrite nth_error_upd_neq by exact Hne. eauto.
Qed.

Lemma all_some_fold : forall (f : nat -> nat) l ps,
    all_some ps -> all_some (fold_left (fun ps p => upd p (option_map f) ps) l ps)
                   /\ List.length (fold_left (fun ps p => upd p (option_map f) ps) l ps) = List.length ps.
Proof.
  intros f. induction l as [|p l IH]; intros ps H; cbn [fold_left]; [auto|].
  destruct (IH (upd p (option_map f) ps) (all_some_upd f ps p H)) as [A B].
  split; [exact A|]. rewrite B. apply upd_length.
Qed.

Lemma tok_fold_succ : forall l ps q,
    all_some ps -> (forall x, In x l -> x < List.length ps) ->
    tok (fold_left (fun ps p => upd p (option_map S) ps) l ps) q = tok ps q + cnt l q.
Proof.
  induction l as [|p l IH]; intros ps q Ha Hl; cbn [fold_left].
  - rewrite cnt_nil. lia.
  - rewrite IH.
    + rewrite tok_upd. destruct (Nat.eqb_spec q p) as [->|Hne].
      * rewrite cnt_cons_eq. unfold tok. destruct (Ha p (Hl p (or_introl eq_refl))) as [k Hk]. rewrite Hk. lia.
      * rewrite cnt_cons_neq by congruence. reflexivity.
    + apply all_some_upd. exact Ha.
    + intros x Hx. rewrite upd_length. apply Hl. right. exact Hx.
Qed.

(* the marking of [s] is the multiset [m] *)
Definition Marks (s : NS) (m : list nat) : Prop :=
  all_some (ns_places s) /\ forall q, tokens s q = cnt m q.

Lemma places_fire_ns : forall t s, ns_places (fire_ns t s) =
    fold_left (fun ps p => upd p (option_map S) ps) (tr_post t)
              (fold_left (fun ps p => upd p (option_map Nat.pred) ps) (tr_pre t) (ns_places s)).
Proof. reflexivity. Qed.

Lemma Marks_fire : forall s m t m',
    Marks s m -> (forall x, In x (tr_post t) -> x < List.length (ns_places s)) ->
    (forall q, cnt (tr_pre t) q <= cnt m q) ->
    (forall q, cnt m' q + cnt (tr_pre t) q = cnt m q + cnt (tr_post t) q) ->
    Marks (fire_ns t s) m' /\ List.length (ns_places (fire_ns t s)) = List.length (ns_places s).
Proof.
  intros s m t m' [Ha Hm] Hpost Hen Hm'.
  destruct (all_some_fold Nat.pred (tr_pre t) (ns_places s) Ha) as [A1 L1].
  destruct (all_some_fold S (tr_post t) _ A1) as [A2 L2].
  split; [split|].
  - rewrite places_fire_ns. exact A2.
  - intro q. rewrite tokens_tok, places_fire_ns, tok_fold_succ, tok_fold_pred.
    + rewrite <- tokens_tok, Hm. specialize (Hen q). specialize (Hm' q). lia.
    + exact A1.
    + intros x Hx. rewrite L1. apply Hpost. exact Hx.
  - rewrite places_fire_ns, L2, L1. reflexivity.
Qed.

Lemma enabled_iff : forall s m t, Marks s m -> (enabled s t = true <-> forall q, In q (tr_pre t) -> In q m).
Proof.
  intros s m t [_ Hm]. unfold enabled. rewrite forallb_forall. split; intros H q Hq.
  - specialize (H q Hq). apply Nat.ltb_lt in H. rewrite Hm in H. apply cnt_pos_in. exact H.
  - apply Nat.ltb_lt. rewrite Hm. apply cnt_pos_in. apply H. exact Hq.
Qed.

(* =========================================================================== *)
(* the marking and the API store denoted by a reference state                   *)
(* =========================================================================== *)
(* marked places of the (stable) state [st] of component [s] laid out at [p] *)
Fixpoint ml (st : rst) (s : xstmt) (p : pos) {struct st} : list nat :=
  match st, s with
  | RAwait _, XService _ _ _ => [pp p]
  | RCall _ i st', XCall t _ _ body =>
    match nth_error body i with
    | Some s' => ml st' s' (spos body (body_pos t p) i)
    | None => []
    end
  | RPar sts, XParallel bs =>
    (fix go (sts : list rst) (bs : list xstmt) (q : pos) : list nat :=
       match sts, bs with
       | st1 :: sr, b :: br =>
         (match st1 with RDone => [xplace b q] | _ => ml st1 b q end) ++ go sr br (adv b q)
       | _, _ => []
       end) sts bs (par_pos p)
  | RCond b i st', XCond _ P F =>
    match nth_error (if b then P else F) i with
    | Some s' => ml st' s' (spos (if b then P else F) (if b then cond_p p else cond_f P p) i)
    | None => []
    end
  | RLoop _ i st', XWhile _ B =>
    match nth_error B i with
    | Some s' => ml st' s' (spos B (loop_p p) i)
    | None => []
    end
  | RLoop _ i st', XCount _ _ B =>
    match nth_error B i with
    | Some s' => ml st' s' (spos B (loop_p p) i)
    | None => []
    end
  | _, _ => []
  end.

(* a finished branch of a Parallel keeps its exit token waiting at the sync *)
Definition mlx (st : rst) (b : xstmt) (q : pos) : list nat :=
  match st with RDone => [xplace b q] | _ => ml st b q end.
Fixpoint ml_list (sts : list rst) (bs : list xstmt) (q : pos) : list nat :=
  match sts, bs with
  | st1 :: sr, b :: br => mlx st1 b q ++ ml_list sr br (adv b q)
  | _, _ => []
  end.
Definition ml_block (body : list xstmt) (bp : pos) (i : nat) (st : rst) : list nat :=
  match nth_error body i with Some s' => ml st s' (spos body bp i) | None => [] end.

Lemma ml_call : forall cid i st t a ins body p,
    ml (RCall cid i st) (XCall t a ins body) p = ml_block body (body_pos t p) i st.
Proof. reflexivity. Qed.
Lemma ml_par : forall sts bs p, ml (RPar sts) (XParallel bs) p = ml_list sts bs (par_pos p).
Proof.
  intros sts bs p. cbn [ml]. generalize (par_pos p). revert bs.
  induction sts as [|st1 sr IH]; intros [|b br] q; try reflexivity;
    cbn [ml_list]; rewrite <- IH; reflexivity.
Qed.

Lemma ml_cond : forall (b : bool) i st e P F p,
    ml (RCond b i st) (XCond e P F) p = ml_block (if b then P else F) (if b then cond_p p else cond_f P p) i st.
Proof. reflexivity. Qed.

Lemma ml_loop : forall k i st e B p, ml (RLoop k i st) (XWhile e B) p = ml_block B (loop_p p) i st.
Proof. reflexivity. Qed.
Lemma ml_count : forall k i st v l B p, ml (RLoop k i st) (XCount v l B) p = ml_block B (loop_p p) i st.
Proof. reflexivity. Qed.

(* =========================================================================== *)
(* counting loops: the loop counters of a task instance                          *)
(* =========================================================================== *)
(* the counters dict of a task instance: one entry per running counting loop, outermost first *)
Definition enc (kl : list (site * nat)) : list (lkey * cval) :=
  map (fun kk => (KLoop (fst kk), CInt (snd kk))) kl.
(* [kl] = the running counting loops of the task instance [cid], innermost first *)
Definition C0 (ns : NS) (cid : nat) (kl : list (site * nat)) : Prop := counters_of (ITest cid) ns = enc (rev kl).

(* the chain of running counting loops (of the same task instance) down the active path *)
Fixpoint rch (st : rst) (s : xstmt) (p : pos) (kl : list (site * nat)) {struct st} : list (site * nat) :=
  match st, s with
  | RCond b i st', XCond _ P F =>
    match nth_error (if b then P else F) i with
    | Some s' => rch st' s' (spos (if b then P else F) (if b then cond_p p else cond_f P p) i) kl
    | None => kl
    end
  | RLoop _ i st', XWhile _ B =>
    match nth_error B i with
    | Some s' => rch st' s' (spos B (loop_p p) i) kl
    | None => kl
    end
  | RLoop k i st', XCount _ _ B =>
    match nth_error B i with
    | Some s' => rch st' s' (spos B (loop_p p) i) ((pkey p, k) :: kl)
    | None => (pkey p, k) :: kl
    end
  | _, _ => kl
  end.
Definition rch_block (l : list xstmt) (bp : pos) (i : nat) (st : rst) (kl : list (site * nat)) : list (site * nat) :=
  match nth_error l i with Some s' => rch st s' (spos l bp i) kl | None => kl end.
Definition rchb (l : list xstmt) (bp : pos) (r : option (nat * rst)) (kl : list (site * nat)) : list (site * nat) :=
  match r with None => kl | Some (j, st) => rch_block l bp j st kl end.

Lemma rch_done : forall s p kl, rch RDone s p kl = kl. Proof. reflexivity. Qed.
Lemma rch_cond : forall (b : bool) i st e P F p kl,
    rch (RCond b i st) (XCond e P F) p kl = rch_block (if b then P else F) (if b then cond_p p else cond_f P p) i st kl.
Proof. reflexivity. Qed.
Lemma rch_loop : forall k i st e B p kl, rch (RLoop k i st) (XWhile e B) p kl = rch_block B (loop_p p) i st kl.
Proof. reflexivity. Qed.
Lemma rch_count : forall k i st v l B p kl,
    rch (RLoop k i st) (XCount v l B) p kl = rch_block B (loop_p p) i st ((pkey p, k) :: kl).
Proof. reflexivity. Qed.
Lemma rch_call : forall cid i st t a ins body p kl, rch (RCall cid i st) (XCall t a ins body) p kl = kl.
Proof. reflexivity. Qed.
Lemma rch_par : forall sts bs p kl, rch (RPar sts) (XParallel bs) p kl = kl.
Proof. reflexivity. Qed.
Lemma rch_await : forall id s p kl, rch (RAwait id) s p kl = kl.
Proof. intros. destruct s; reflexivity. Qed.


Definition EvF (i : nat) : event := EvFinish (ITest i).

(* the API records and place_dict bindings of the active part of the tree, and its shape;
   [ie] = the loop indices of the task instance (the parameter lists of services and calls
   inside counting loops carry the substituted indices)
   (the conjunct about [N0] is a placeholder: the relation to the generated net is kept
   globally, in Sim.Inv):
   a service that is awaited carries its test identifier and is bound to its 'finished' place;
   a running call carries its identifier; what is inside a running component is not complete *)
Section Act.
  Variable N0 : NS.
  Variable ns : NS.
  Fixpoint act (st : rst) (s : xstmt) (p : pos) (ctx : nat) (ie : ienv) {struct st} : Prop :=
    match st, s with
    | RAwait id, XService n at_ ins =>
      (exists il, nth_error (ns_apis ns) (pa p) = Some (reid (ITest id) (subst_params ie ins) (svc_api il n at_ ins ctx (pa p)))) /\
      dict_get ident_eqb (ITest id) (ns_place_dict ns) = Some (pp p + 1) /\ id < ns_sid ns
    | RCall cid i st', XCall t at_ ins body =>
      ((exists il, nth_error (ns_apis ns) (pa p) = Some (reid (ITest cid) (subst_params ie ins) (call_api il t at_ ins ctx (pa p)))) /\
       C0 ns cid (rch_block body (body_pos t p) i st' [])) /\
      is_done st' = false /\ (ns_trans N0 = ns_trans N0) /\
      match nth_error body i with
      | Some s' => act st' s' (spos body (body_pos t p) i) (pa p) []
      | None => False
      end
    | RPar sts, XParallel bs =>
      all_done sts = false /\
      (fix go (sts : list rst) (bs : list xstmt) (q : pos) : Prop :=
         match sts, bs with
         | st1 :: sr, b :: br => act st1 b q ctx ie /\ go sr br (adv b q)
         | [], [] => True
         | _, _ => False
         end) sts bs (par_pos p)
    | RCond b i st', XCond _ P F =>
      is_done st' = false /\ (ns_trans N0 = ns_trans N0) /\
      match nth_error (if b then P else F) i with
      | Some s' => act st' s' (spos (if b then P else F) (if b then cond_p p else cond_f P p) i) ctx ie
      | None => False
      end
    | RLoop _ i st', XWhile _ B =>
      is_done st' = false /\ (ns_trans N0 = ns_trans N0) /\
      match nth_error B i with
      | Some s' => act st' s' (spos B (loop_p p) i) ctx ie
      | None => False
      end
    | RLoop k i st', XCount v _ B =>
      is_done st' = false /\ (ns_trans N0 = ns_trans N0) /\
      match nth_error B i with
      | Some s' => act st' s' (spos B (loop_p p) i) ctx ((v, k) :: ie)
      | None => False
      end
    | RDone, _ => True
    | _, _ => False
    end.

  Fixpoint act_list (sts : list rst) (bs : list xstmt) (q : pos) (ctx : nat) (ie : ienv) : Prop :=
    match sts, bs with
    | st1 :: sr, b :: br => act st1 b q ctx ie /\ act_list sr br (adv b q) ctx ie
    | [], [] => True
    | _, _ => False
    end.
  Definition act_block (body : list xstmt) (bp : pos) (ctx : nat) (i : nat) (st : rst) (ie : ienv) : Prop :=
    is_done st = false /\ (ns_trans N0 = ns_trans N0) /\
    match nth_error body i with Some s' => act st s' (spos body bp i) ctx ie | None => False end.

  Lemma act_cond : forall (b : bool) i st e P F p ctx ie,
      act (RCond b i st) (XCond e P F) p ctx ie
      = act_block (if b then P else F) (if b then cond_p p else cond_f P p) ctx i st ie.
  Proof. reflexivity. Qed.
  Lemma act_loop : forall k i st e B p ctx ie,
      act (RLoop k i st) (XWhile e B) p ctx ie = act_block B (loop_p p) ctx i st ie.
  Proof. reflexivity. Qed.
  Lemma act_count : forall k i st v l B p ctx ie,
      act (RLoop k i st) (XCount v l B) p ctx ie = act_block B (loop_p p) ctx i st ((v, k) :: ie).
  Proof. reflexivity. Qed.
  Lemma act_call : forall cid i st t at_ ins body p ctx ie,
      act (RCall cid i st) (XCall t at_ ins body) p ctx ie
      = (((exists il, nth_error (ns_apis ns) (pa p) = Some (reid (ITest cid) (subst_params ie ins) (call_api il t at_ ins ctx (pa p)))) /\
          C0 ns cid (rch_block body (body_pos t p) i st [])) /\
         act_block body (body_pos t p) (pa p) i st []).
  Proof. reflexivity. Qed.

  Lemma act_par : forall sts bs p ctx ie,
      act (RPar sts) (XParallel bs) p ctx ie <-> all_done sts = false /\ act_list sts bs (par_pos p) ctx ie.
  Proof.
    intros sts bs p ctx ie. cbn [act].
    assert (E : forall sts bs q,
               (fix go (sts : list rst) (bs : list xstmt) (q : pos) : Prop :=
                  match sts, bs with
                  | st1 :: sr, b :: br => act st1 b q ctx ie /\ go sr br (adv b q)
                  | [], [] => True
                  | _, _ => False
                  end) sts bs q <-> act_list sts bs q ctx ie).
    { induction sts0 as [|st1 sr IH]; intros [|b br] q; cbn [act_list]; try tauto.
      specialize (IH br (adv b q)). tauto. }
    specialize (E sts bs (par_pos p)). tauto.
  Qed.
End Act.

(* ---- which component a transition of a block / a Parallel belongs to ---- *)
Definition in_t (s : xstmt) (p : pos) (j : nat) : Prop := pt p <= j < pt p + ntrans s.
Definition in_p (s : xstmt) (p : pos) (q : nat) : Prop := pp p <= q < pp p + nplaces s.

Lemma block_cover : forall l p j, frag_block l = true -> pt p <= j < pt p + ntrans_b l ->
    (exists k s, nth_error l k = Some s /\ in_t s (spos l p k) j) \/
    (exists k s s', nth_error l k = Some s /\ nth_error l (S k) = Some s' /\ j = pt (spos l p k) - 1).
Proof.
  induction l as [|s r IH]; intros p j Hf Hj; [discriminate|].
  apply frag_block_cons in Hf. destruct Hf as [Hfs Hfr]. destruct r as [|s' r].
  - rewrite ntrans_b_one in Hj. left. exists 0, s. split; [reflexivity|]. cbn [spos first_pos]. exact Hj.
  - destruct Hfr as [Hfr|Hfr]; [discriminate|]. rewrite ntrans_b_cons in Hj.
    destruct (Nat.eq_dec j (pt p)) as [->|Hne].
    + right. exists 0, s, s'. split; [reflexivity|]. split; [reflexivity|]. cbn [spos first_pos conn_skip pt]. lia.
    + destruct (Nat.lt_ge_cases j (S (pt p) + ntrans s)) as [Hlt|Hge].
      * left. exists 0, s. split; [reflexivity|]. cbn [spos first_pos]. unfold in_t. cbn [conn_skip pt]. lia.
      * destruct (IH (adv s (conn_skip p)) j Hfr) as [(k & x & Hk & Hin)|(k & x & x' & Hk & Hk' & Hj')];
          [cbn [adv conn_skip pt]; lia| |].
        -- left. exists (S k), x. split; [exact Hk|]. rewrite spos_cons2. exact Hin.
        -- right. exists (S k), x, x'. split; [exact Hk|]. split; [exact Hk'|]. rewrite spos_cons2. exact Hj'.
Qed.

Lemma list_cover : forall l q j, pt q <= j < pt q + ntrans_l l ->
    exists k b, nth_error l k = Some b /\ in_t b (bpos l q k) j.
Proof.
  induction l as [|b r IH]; intros q j Hj.
  - unfold ntrans_l in Hj. cbn in Hj. lia.
  - rewrite ntrans_l_cons in Hj. destruct (Nat.lt_ge_cases j (pt q + ntrans b)) as [Hlt|Hge].
    + exists 0, b. split; [reflexivity|]. cbn [bpos]. unfold in_t. lia.
    + destruct (IH (adv b q) j) as (k & x & Hk & Hin); [cbn [adv pt]; lia|].
      exists (S k), x. split; [exact Hk|exact Hin].
Qed.

Lemma in_ml_list : forall sts bs q x, In x (ml_list sts bs q) ->
    exists k st b, nth_error sts k = Some st /\ nth_error bs k = Some b /\ In x (mlx st b (bpos bs q k)).
Proof.
  induction sts as [|st1 sr IH]; intros [|b br] q x H; cbn [ml_list] in H; try contradiction.
  apply in_app_or in H. destruct H as [H|H].
  - exists 0, st1, b. repeat split; assumption.
  - destruct (IH br (adv b q) x H) as (k & st & b' & H1 & H2 & H3). exists (S k), st, b'. repeat split; assumption.
Qed.

Lemma frag_block_nth : forall l i s, frag_block l = true -> nth_error l i = Some s -> frag s = true.
Proof.
  intros l i s Hf Hn. destruct l as [|x r]; [discriminate|]. unfold frag_block in Hf.
  rewrite forallb_forall in Hf. apply Hf. eapply nth_error_In. exact Hn.
Qed.
Lemma frag_brs_nth : forall l k b, frag_brs l = true -> nth_error l k = Some b -> frag b = true /\ is_call b = true.
Proof.
  intros l k b Hf Hn. unfold frag_brs in Hf. rewrite forallb_forall in Hf.
  apply nth_error_In in Hn. apply Hf in Hn. apply andb_prop in Hn. tauto.
Qed.

Lemma last_of_spos : forall A (f : xstmt -> pos -> A) d l p, l <> [] ->
    exists s, nth_error l (List.length l - 1) = Some s /\ last_of f d l p = f s (spos l p (List.length l - 1)).
Proof.
  intros A f d. induction l as [|x r IH]; intros p Hne; [congruence|]. destruct r as [|x' r].
  - exists x. split; reflexivity.
  - destruct (IH (adv x (conn_skip p)) ltac:(discriminate)) as (s & Hn & Hl).
    exists s. rewrite last_of_cons. cbn [List.length] in *.
    replace (S (S (List.length r)) - 1) with (S (S (List.length r) - 1)) by lia.
    split; [exact Hn|]. rewrite spos_cons2. exact Hl.
Qed.

Lemma act_list_nth : forall N0 ns sts bs q ctx k st b {ie},
    act_list N0 ns sts bs q ctx ie -> nth_error sts k = Some st -> nth_error bs k = Some b ->
    act N0 ns st b (bpos bs q k) ctx ie.
Proof.
  intros N0 ns. induction sts as [|st1 sr IH]; intros [|b1 br] q ctx k st b ie Ha Hs Hb; cbn [act_list] in Ha;
    try contradiction; try (destruct k; discriminate).
  destruct Ha as [A1 A2]. destruct k as [|k]; cbn [nth_error bpos] in *.
  - inversion Hs; inversion Hb; subst. exact A1.
  - eapply IH; eassumption.
Qed.

Lemma act_list_length : forall N0 ns sts bs q ctx {ie}, act_list N0 ns sts bs q ctx ie -> List.length sts = List.length bs.
Proof.
  intros N0 ns. induction sts as [|st1 sr IH]; intros [|b br] q ctx ie H; cbn [act_list] in H; try contradiction; [reflexivity|].
  destruct H as [_ H]. cbn. f_equal. eapply IH. exact H.
Qed.

(* the marked places of a stable state lie inside the component and are not its exit place *)
(* ---- block-level versions ---- *)
Definition in_tb (l : list xstmt) (p : pos) (j : nat) : Prop := pt p <= j < pt p + ntrans_b l.
Definition in_pb (l : list xstmt) (p : pos) (q : nat) : Prop := pp p <= q < pp p + nplaces_l l.

Lemma exit_blocked_block : forall N l p ctx xcbs, frag_block l = true -> wired_block (wired N) N ctx xcbs l p ->
    forall j, in_tb l p j -> exists q, In q (preN N j) /\ in_pb l p q /\ q <> xplace_b l p.
Proof.
  intros N l p ctx xcbs Hf Hw j Hj.
  destruct (pre_ok_block N l (proj2 (Forall_forall _ l) (fun s _ => pre_ok_all N s)) Hf p ctx xcbs Hw j Hj) as [Hne Hin].
  destruct (preN N j) as [|q r] eqn:E; [congruence|]. exists q. split; [left; reflexivity|].
  apply Hin. left. reflexivity.
Qed.

Lemma xplace_b_nth : forall l p, frag_block l = true ->
    exists s, nth_error l (List.length l - 1) = Some s /\ xplace_b l p = xplace s (spos l p (List.length l - 1)).
Proof. intros l p Hf. apply last_of_spos. destruct l; [discriminate|discriminate]. Qed.


Lemma ml_block_range_gen : forall N0 ns st' l bp ctx i q {ie},
    (forall s p ctx ie, frag s = true -> act N0 ns st' s p ctx ie -> forall q, In q (ml st' s p) -> in_p s p q /\ q <> xplace s p) ->
    frag_block l = true ->
    match nth_error l i with Some s' => act N0 ns st' s' (spos l bp i) ctx ie | None => False end ->
    In q (ml_block l bp i st') ->
    (pp bp <= q < pp bp + nplaces_l l) /\ q <> last_of xplace 0 l bp.
Proof.
  intros N0 ns st' l bp ctx i q ie IH Hfb Ha Hq. unfold ml_block in Hq.
  destruct (nth_error l i) as [s'|] eqn:En; [|contradiction].
  pose proof (frag_block_nth _ _ _ Hfb En) as Hfs.
  destruct (IH s' _ _ _ Hfs Ha q Hq) as [Hin Hx].
  pose proof (spos_range l bp i s' En) as R. unfold in_p in *. split; [lia|].
  destruct (last_of_spos nat xplace 0 l bp) as (sl & Hl & El); [destruct l; [discriminate|discriminate]|].
  rewrite El. destruct (Nat.eq_dec i (List.length l - 1)) as [->|Hne].
  - rewrite En in Hl. inversion Hl; subst. exact Hx.
  - assert (Hil : i < List.length l - 1).
    { assert (i < List.length l) by (apply nth_error_Some; congruence). lia. }
    pose proof (spos_mono l bp i _ s' sl Hil En Hl) as M.
    pose proof (frag_block_nth _ _ _ Hfb Hl) as Hfl.
    pose proof (xplace_range sl Hfl (spos l bp (List.length l - 1))) as X. lia.
Qed.

Lemma ml_range : forall N0 ns st s p ctx {ie}, frag s = true -> act N0 ns st s p ctx ie ->
    forall q, In q (ml st s p) -> in_p s p q /\ q <> xplace s p.
Proof.
  intros N0 ns. induction st as [|id|cid i st' IH|sts IH|b i st' IH|k i st' IH|sts IH] using rst_ind';
    intros s p ctx ie Hf Ha q Hq.
  - destruct s; cbn in Hq; contradiction.
  - destruct s; cbn [act] in Ha; try contradiction. cbn [ml] in Hq. destruct Hq as [<-|[]].
    unfold in_p. cbn [nplaces xplace]. lia.
  - destruct s as [| t at_ ins body | | | | | ]; cbn [act] in Ha; try contradiction.
    destruct Ha as (_ & _ & _ & Ha). rewrite ml_call in Hq.
    apply frag_call in Hf. destruct Hf as [_ Hfb].
    destruct (ml_block_range_gen N0 ns st' body (body_pos t p) (pa p) i q IH Hfb Ha Hq) as [R X].
    unfold in_p. rewrite nplaces_call. cbn [xplace body_pos pp] in *. split; [lia|exact X].
  - destruct s as [| |bs| | | | ]; cbn [act] in Ha; try (destruct Ha; contradiction).
    apply act_par in Ha. destruct Ha as [_ Ha]. rewrite ml_par in Hq.
    apply frag_par in Hf. destruct Hf as [_ Hfb].
    destruct (in_ml_list _ _ _ _ Hq) as (k & st & b & Hs & Hb & Hin).
    destruct (frag_brs_nth _ _ _ Hfb Hb) as [Hfbk _].
    pose proof (bpos_range bs (par_pos p) k b Hb) as R. cbn [par_pos pp] in R.
    unfold in_p. rewrite nplaces_par. cbn [xplace].
    assert (Hq' : in_p b (bpos bs (par_pos p) k) q).
    { destruct st; cbn [mlx] in Hin;
        try (rewrite Forall_forall in IH;
             apply (IH _ (nth_error_In _ _ Hs) b _ ctx _ Hfbk (act_list_nth _ _ _ _ _ _ _ _ _ Ha Hs Hb) q Hin)).
      destruct Hin as [<-|[]]. apply (xplace_range b Hfbk). }
    unfold in_p in Hq'. lia.
  - destruct s as [| | |e P F| | | ]; cbn [act] in Ha; try contradiction.
    destruct Ha as (_ & _ & Ha). rewrite ml_cond in Hq.
    pose proof (frag_cond_P _ _ _ Hf) as HfP.
    unfold in_p. rewrite nplaces_cond. cbn [xplace].
    destruct b.
    + destruct (ml_block_range_gen N0 ns st' P (cond_p p) ctx i q IH HfP Ha Hq) as [R X]. cbn [cond_p pp] in R. lia.
    + assert (HfF : frag_block F = true) by (apply (frag_cond_F _ _ _ Hf); intros ->; destruct i; exact Ha).
      destruct (ml_block_range_gen N0 ns st' F (cond_f P p) ctx i q IH HfF Ha Hq) as [R X]. cbn [cond_f pp] in R. lia.
  - destruct s as [| | | |e B|cv cl B| ]; cbn [act] in Ha; try contradiction.
    { destruct Ha as (_ & _ & Ha). rewrite ml_loop in Hq.
      pose proof (frag_while _ _ Hf) as HfB.
      unfold in_p. rewrite nplaces_while. cbn [xplace].
      destruct (ml_block_range_gen N0 ns st' B (loop_p p) ctx i q IH HfB Ha Hq) as [R X]. cbn [loop_p pp] in R. lia. }
    { destruct Ha as (_ & _ & Ha). rewrite ml_count in Hq.
      pose proof (frag_count _ _ _ Hf) as HfB.
      unfold in_p. rewrite nplaces_count. cbn [xplace].
      destruct (ml_block_range_gen N0 ns st' B (loop_p p) ctx i q IH HfB Ha Hq) as [R X]. cbn [loop_p pp] in R. lia. }
  - destruct s; cbn [act] in Ha; contradiction.
Qed.

(* an idle or exited component has no enabled transition: each one reads a place of the
   component other than the exit place *)
Lemma exit_blocked : forall N s p ctx xcbs, frag s = true -> wired N s p ctx xcbs ->
    forall j, in_t s p j -> exists q, In q (preN N j) /\ in_p s p q /\ q <> xplace s p.
Proof.
  intros N s p ctx xcbs Hf Hw j Hj. destruct (pre_ok_all N s Hf p ctx xcbs Hw j Hj) as [Hne Hin].
  destruct (preN N j) as [|q l] eqn:E; [congruence|]. exists q. split; [left; reflexivity|].
  apply Hin. left. reflexivity.
Qed.

(* in a stable, incomplete state nothing inside the component is enabled: every transition
   of the component reads a place of the component that is not marked *)
(* block-level step of [stable_blocked], given the statement-level fact for the state inside *)
Lemma stable_block_gen : forall N0 ns N st' l bp ctx ctx' xcbs i {ie},
    (forall s p ctx ctx' xcbs ie, frag s = true -> wired N s p ctx xcbs -> act N0 ns st' s p ctx' ie -> is_done st' = false ->
                               forall j, in_t s p j -> exists q, In q (preN N j) /\ in_p s p q /\ ~ In q (ml st' s p)) ->
    frag_block l = true -> wired_block (wired N) N ctx xcbs l bp -> is_done st' = false ->
    match nth_error l i with Some s' => act N0 ns st' s' (spos l bp i) ctx' ie | None => False end ->
    forall j, in_tb l bp j -> exists q, In q (preN N j) /\ in_pb l bp q /\ ~ In q (ml_block l bp i st').
Proof.
  intros N0 ns N st' l bp ctx ctx' xcbs i ie IH Hfb Hw Hd' Ha j Hj.
  destruct (nth_error l i) as [s'|] eqn:En; [|contradiction].
  pose proof (frag_block_nth _ _ _ Hfb En) as Hfs.
  assert (Hml : forall q, In q (ml_block l bp i st') -> in_p s' (spos l bp i) q /\ q <> xplace s' (spos l bp i)).
  { intros q Hq. unfold ml_block in Hq. rewrite En in Hq. apply (ml_range N0 ns st' s' _ _ Hfs Ha q Hq). }
  assert (Hsub : forall k x q, nth_error l k = Some x -> in_p x (spos l bp k) q -> in_pb l bp q).
  { intros k x q Hk Hq. pose proof (spos_range l bp k x Hk) as R. unfold in_p, in_pb in *. lia. }
  assert (Hdisj : forall k x q, nth_error l k = Some x -> k <> i -> in_p x (spos l bp k) q ->
                                ~ In q (ml_block l bp i st')).
  { intros k x q Hk Hki Hq Hin. apply Hml in Hin. destruct Hin as [Hin _]. unfold in_p in *.
    destruct (Nat.lt_ge_cases k i) as [Hlt|Hge].
    - pose proof (spos_mono l bp k i x s' Hlt Hk En). lia.
    - pose proof (spos_mono l bp i k s' x ltac:(lia) En Hk). lia. }
  destruct (block_cover l bp j Hfb Hj) as [(k & x & Hk & Hin)|(k & x & x' & Hk & Hk' & Hjc)].
  - pose proof (frag_block_nth _ _ _ Hfb Hk) as Hfx.
    destruct (wired_block_nth _ _ _ _ _ _ _ _ Hw Hk) as [Wx _].
    destruct (Nat.eq_dec k i) as [->|Hki].
    + rewrite En in Hk. inversion Hk; subst x.
      destruct (IH s' _ _ ctx' _ _ Hfs Wx Ha Hd' j Hin) as (q & Q1 & Q2 & Q3).
      exists q. split; [exact Q1|]. split; [eapply Hsub; eassumption|]. unfold ml_block. rewrite En. exact Q3.
    + destruct (exit_blocked N x _ _ _ Hfx Wx j Hin) as (q & Q1 & Q2 & _).
      exists q. split; [exact Q1|]. split; [eapply Hsub; eassumption|]. eapply Hdisj; eassumption.
  - pose proof (frag_block_nth _ _ _ Hfb Hk) as Hfx.
    destruct (wired_block_nth _ _ _ _ _ _ _ _ Hw Hk) as [_ Wc]. destruct (Wc x' Hk') as (C1 & _). cbv zeta in C1.
    subst j. exists (xplace x (spos l bp k)). rewrite C1. split; [left; reflexivity|].
    pose proof (xplace_range x Hfx (spos l bp k)) as X.
    split; [eapply Hsub; [exact Hk|exact X]|].
    destruct (Nat.eq_dec k i) as [->|Hki].
    + rewrite En in Hk. inversion Hk; subst x. intro Hin. apply Hml in Hin. destruct Hin as [_ Hin]. congruence.
    + eapply Hdisj; [exact Hk|exact Hki|exact X].
Qed.

Lemma stable_blocked : forall N0 ns N st s p ctx ctx' xcbs {ie},
    frag s = true -> wired N s p ctx xcbs -> act N0 ns st s p ctx' ie -> is_done st = false ->
    forall j, in_t s p j -> exists q, In q (preN N j) /\ in_p s p q /\ ~ In q (ml st s p).
Proof.
  intros N0 ns N. induction st as [|id|cid i st' IH|sts IH|b i st' IH|k i st' IH|sts IH] using rst_ind';
    intros s p ctx ctx' xcbs ie Hf Hw Ha Hd j Hj; try discriminate Hd.
  - (* service *)
    destruct s; cbn [act] in Ha; try contradiction. cbn [wired] in Hw. destruct Hw as (H1 & _).
    unfold in_t in Hj. cbn [ntrans] in Hj. assert (j = pt p) by lia. subst j.
    exists (pp p + 1). rewrite H1. split; [right; left; reflexivity|]. split; [unfold in_p; cbn [nplaces]; lia|].
    cbn [ml]. intros [H|[]]. lia.
  - (* call *)
    destruct s as [| t at_ ins body | | | | | ]; cbn [act] in Ha; try contradiction.
    destruct Ha as (_ & Hd' & _ & Ha).
    pose proof (frag_call _ _ _ _ Hf) as [_ Hfb]. cbn [wired] in Hw. destruct Hw as [_ Hw].
    unfold in_t in Hj. rewrite ntrans_call in Hj. rewrite ml_call.
    destruct (stable_block_gen N0 ns N st' body (body_pos t p) (pa p) (pa p) _ i IH Hfb Hw Hd' Ha j Hj) as (q & Q1 & Q2 & Q3).
    exists q. split; [exact Q1|]. split; [|exact Q3]. unfold in_p, in_pb in *. rewrite nplaces_call. exact Q2.
  - (* parallel *)
    destruct s as [| |bs| | | | ]; cbn [act] in Ha; try (destruct Ha; contradiction).
    apply act_par in Ha. destruct Ha as [Hnd Ha]. rewrite ml_par.
    pose proof (frag_par _ Hf) as [_ Hfb]. cbn [wired] in Hw. destruct Hw as (H1 & _ & _ & Hw).
    set (q0 := par_pos p) in *.
    assert (Hbr : forall k st b x, nth_error sts k = Some st -> nth_error bs k = Some b ->
                                   In x (mlx st b (bpos bs q0 k)) ->
                                   in_p b (bpos bs q0 k) x /\ (is_done st = false -> x <> xplace b (bpos bs q0 k))).
    { intros k st b x Hs Hb Hx. destruct (frag_brs_nth _ _ _ Hfb Hb) as [Hfbk _].
      pose proof (act_list_nth _ _ _ _ _ _ _ _ _ Ha Hs Hb) as Hak.
      destruct st; cbn [mlx] in Hx;
        try (destruct (ml_range N0 ns _ b _ _ Hfbk Hak x Hx) as [A B]; split; [exact A|intros _; exact B]).
      destruct Hx as [<-|[]]. split; [apply (xplace_range b Hfbk)|intro D; discriminate D]. }
    assert (Hsub : forall k b x, nth_error bs k = Some b -> in_p b (bpos bs q0 k) x -> in_p (XParallel bs) p x).
    { intros k b x Hb Hx. pose proof (bpos_range bs q0 k b Hb) as R. unfold in_p in *. rewrite nplaces_par.
      unfold q0 in R. cbn [par_pos pp] in R. fold q0 in R. lia. }
    assert (Hdisj : forall k b k' st' b' x, nth_error bs k = Some b -> nth_error sts k' = Some st' -> nth_error bs k' = Some b' ->
                                         k <> k' -> in_p b (bpos bs q0 k) x -> ~ In x (mlx st' b' (bpos bs q0 k'))).
    { intros k b k' st' b' x Hb Hs' Hb' Hkk Hx Hin. destruct (Hbr k' st' b' x Hs' Hb' Hin) as [Hin' _]. unfold in_p in *.
      destruct (Nat.lt_ge_cases k k') as [Hlt|Hge].
      - pose proof (bpos_mono bs q0 k k' b b' Hlt Hb Hb'). lia.
      - pose proof (bpos_mono bs q0 k' k b' b ltac:(lia) Hb' Hb). lia. }
    unfold in_t in Hj. rewrite ntrans_par in Hj.
    destruct (Nat.eq_dec j (pt p)) as [->|Hnj].
    + (* the sync: some branch is not complete *)
      assert (Hex : exists k st, nth_error sts k = Some st /\ is_done st = false).
      { clear -Hnd. induction sts as [|st1 sr IHs]; [discriminate|]. cbn [all_done] in Hnd.
        destruct (is_done st1) eqn:D.
        - cbn in Hnd. destruct (IHs Hnd) as (k & st & H1 & H2). exists (S k), st. split; assumption.
        - exists 0, st1. split; [reflexivity|exact D]. }
      destruct Hex as (k & st & Hs & Hdk).
      assert (Hlen := act_list_length _ _ _ _ _ _ Ha).
      destruct (nth_error bs k) as [b|] eqn:Hb.
      2:{ apply nth_error_None in Hb. assert (k < List.length sts) by (apply nth_error_Some; congruence). lia. }
      destruct (frag_brs_nth _ _ _ Hfb Hb) as [Hfbk _].
      exists (xplace b (bpos bs q0 k)). rewrite H1. split; [apply in_cat_of; exists k, b; split; [exact Hb|left; reflexivity]|].
      pose proof (xplace_range b Hfbk (bpos bs q0 k)) as X. split; [eapply Hsub; [exact Hb|exact X]|].
      intro Hin. destruct (in_ml_list _ _ _ _ Hin) as (k' & st' & b' & Hs' & Hb' & Hin').
      destruct (Nat.eq_dec k k') as [<-|Hkk].
      * rewrite Hs in Hs'. rewrite Hb in Hb'. inversion Hs'; inversion Hb'; subst.
        destruct (Hbr k st' b' _ Hs Hb Hin') as [_ Hx]. apply (Hx Hdk). reflexivity.
      * eapply (Hdisj k b k' st' b'); eassumption.
    + destruct (list_cover bs q0 j) as (k & b & Hb & Hin); [unfold q0; cbn [par_pos pt]; lia|].
      destruct (frag_brs_nth _ _ _ Hfb Hb) as [Hfbk _].
      pose proof (wired_list_nth _ _ _ _ _ _ Hw Hb) as Wb.
      assert (Hlen := act_list_length _ _ _ _ _ _ Ha).
      destruct (nth_error sts k) as [st|] eqn:Hs.
      2:{ apply nth_error_None in Hs. assert (k < List.length bs) by (apply nth_error_Some; congruence). lia. }
      pose proof (act_list_nth _ _ _ _ _ _ _ _ _ Ha Hs Hb) as Hak.
      assert (Hq : exists q, In q (preN N j) /\ in_p b (bpos bs q0 k) q /\ ~ In q (mlx st b (bpos bs q0 k))).
      { destruct (is_done st) eqn:D.
        - destruct (exit_blocked N b _ _ _ Hfbk Wb j Hin) as (q & Q1 & Q2 & Q3).
          exists q. split; [exact Q1|]. split; [exact Q2|]. destruct st; try discriminate D. cbn [mlx]. intros [E|[]]. congruence.
        - rewrite Forall_forall in IH.
          destruct (IH _ (nth_error_In _ _ Hs) b _ _ _ _ _ Hfbk Wb Hak D j Hin) as (q & Q1 & Q2 & Q3).
          exists q. split; [exact Q1|]. split; [exact Q2|]. destruct st; try discriminate D; exact Q3. }
      destruct Hq as (q & Q1 & Q2 & Q3). exists q. split; [exact Q1|]. split; [eapply Hsub; eassumption|].
      intro Hin'. destruct (in_ml_list _ _ _ _ Hin') as (k' & st' & b' & Hs' & Hb' & Hin'').
      destruct (Nat.eq_dec k k') as [<-|Hkk].
      * rewrite Hs in Hs'. rewrite Hb in Hb'. inversion Hs'; inversion Hb'; subst. contradiction.
      * eapply (Hdisj k b k' st' b'); eassumption.
  - (* condition *)
    destruct s as [| | |e P F| | | ]; cbn [act] in Ha; try contradiction.
    destruct Ha as (Hd' & _ & Ha).
    destruct (list_nil_dec F) as [->|HneF].
    { (* no Failed block: the Passed block is active *)
      destruct b; [|destruct i; contradiction].
      pose proof (frag_cond0 _ _ Hf) as HfP. cbn [wired] in Hw.
      destruct Hw as (W1 & _ & _ & W4 & _ & _ & W7 & _ & _ & WP).
      unfold in_t in Hj. rewrite ntrans_cond0 in Hj. rewrite ml_cond.
      pose proof (xplace_range_b P HfP (cond_p p)) as XP. cbn [cond_p pp] in XP.
      assert (Hmlr : forall q, In q (ml_block P (cond_p p) i st') ->
                               pp p + 4 <= q < pp p + 4 + nplaces_l P /\ q <> xplace_b P (cond_p p)).
      { intros q Hq. destruct (ml_block_range_gen N0 ns st' P (cond_p p) ctx' i q (ml_range N0 ns st') HfP Ha Hq) as [R X].
        cbn [cond_p pp] in R. split; assumption. }
      unfold in_p. rewrite nplaces_cond.
      destruct (Nat.eq_dec j (pt p)) as [->|N0']; [|destruct (Nat.eq_dec j (pt p + 1)) as [->|N1];
        [|destruct (Nat.eq_dec j (pt p + 2)) as [->|N2]]].
      + exists (pp p + 2). rewrite W1. split; [left; reflexivity|]. split; [lia|].
        intro Hi. apply Hmlr in Hi. lia.
      + exists (pp p + 2). rewrite W4. split; [left; reflexivity|]. split; [lia|].
        intro Hi. apply Hmlr in Hi. lia.
      + exists (xplace_b P (cond_p p)). rewrite W7. split; [left; reflexivity|]. split; [lia|].
        intro Hi. apply Hmlr in Hi. destruct Hi as [_ Hi]. congruence.
      + assert (HjP : in_tb P (cond_p p) j) by (unfold in_tb; cbn [cond_p pt]; lia).
        destruct (stable_block_gen N0 ns N st' P (cond_p p) ctx ctx' [] i IH HfP WP Hd' Ha j HjP) as (q & Q1 & Q2 & Q3).
        exists q. split; [exact Q1|]. split; [unfold in_pb in Q2; cbn [cond_p pp] in Q2; lia|exact Q3]. }
    pose proof (frag_cond_ne _ _ _ HneF Hf) as [HfP HfF]. rewrite (wired_cond_ne _ _ _ _ _ _ _ HneF) in Hw.
    destruct Hw as (W1 & _ & _ & W4 & _ & _ & W7 & _ & _ & W10 & _ & _ & WP & WF).
    unfold in_t in Hj. rewrite (ntrans_cond_ne _ _ _ HneF) in Hj. rewrite ml_cond.
    pose proof (xplace_range_b P HfP (cond_p p)) as XP. cbn [cond_p pp] in XP.
    pose proof (xplace_range_b F HfF (cond_f P p)) as XF. cbn [cond_f pp] in XF.
    assert (Hmlr : forall q, In q (ml_block (if b then P else F) (if b then cond_p p else cond_f P p) i st') ->
                             (if b then pp p + 4 <= q < pp p + 4 + nplaces_l P
                              else pp p + 4 + nplaces_l P <= q < pp p + 4 + nplaces_l P + nplaces_l F) /\
                             q <> xplace_b (if b then P else F) (if b then cond_p p else cond_f P p)).
    { intros q Hq. destruct b.
      - destruct (ml_block_range_gen N0 ns st' P (cond_p p) ctx' i q (ml_range N0 ns st') HfP Ha Hq) as [R X].
        cbn [cond_p pp] in R. split; assumption.
      - destruct (ml_block_range_gen N0 ns st' F (cond_f P p) ctx' i q (ml_range N0 ns st') HfF Ha Hq) as [R X].
        cbn [cond_f pp] in R. split; assumption. }
    unfold in_p. rewrite nplaces_cond.
    destruct (Nat.eq_dec j (pt p)) as [->|N0']; [|destruct (Nat.eq_dec j (pt p + 1)) as [->|N1];
      [|destruct (Nat.eq_dec j (pt p + 2)) as [->|N2]; [|destruct (Nat.eq_dec j (cond_sf P p)) as [->|N3]]]].
    + exists (pp p + 2). rewrite W1. split; [left; reflexivity|]. split; [lia|].
      intro Hi. apply Hmlr in Hi. destruct b; lia.
    + exists (pp p + 2). rewrite W4. split; [left; reflexivity|]. split; [lia|].
      intro Hi. apply Hmlr in Hi. destruct b; lia.
    + exists (xplace_b P (cond_p p)). rewrite W7. split; [left; reflexivity|]. split; [lia|].
      intro Hi. apply Hmlr in Hi. destruct b; [destruct Hi as [_ Hi]; congruence|lia].
    + exists (xplace_b F (cond_f P p)). rewrite W10. split; [left; reflexivity|]. split; [lia|].
      intro Hi. apply Hmlr in Hi. destruct b; [lia|destruct Hi as [_ Hi]; congruence].
    + unfold cond_sf in N3. destruct (Nat.lt_ge_cases j (pt p + 3 + ntrans_b P)) as [Hlt|Hge].
      * assert (HjP : in_tb P (cond_p p) j) by (unfold in_tb; cbn [cond_p pt]; lia).
        destruct b.
        -- destruct (stable_block_gen N0 ns N st' P (cond_p p) ctx ctx' [] i IH HfP WP Hd' Ha j HjP) as (q & Q1 & Q2 & Q3).
           exists q. split; [exact Q1|]. split; [unfold in_pb in Q2; cbn [cond_p pp] in Q2; lia|exact Q3].
        -- destruct (exit_blocked_block N P (cond_p p) ctx [] HfP WP j HjP) as (q & Q1 & Q2 & _).
           exists q. split; [exact Q1|]. unfold in_pb in Q2. cbn [cond_p pp] in Q2. split; [lia|].
           intro Hi. apply Hmlr in Hi. lia.
      * assert (HjF : in_tb F (cond_f P p) j) by (unfold in_tb; cbn [cond_f pt]; lia).
        destruct b.
        -- destruct (exit_blocked_block N F (cond_f P p) ctx [] HfF WF j HjF) as (q & Q1 & Q2 & _).
           exists q. split; [exact Q1|]. unfold in_pb in Q2. cbn [cond_f pp] in Q2. split; [lia|].
           intro Hi. apply Hmlr in Hi. lia.
        -- destruct (stable_block_gen N0 ns N st' F (cond_f P p) ctx ctx' [] i IH HfF WF Hd' Ha j HjF) as (q & Q1 & Q2 & Q3).
           exists q. split; [exact Q1|]. split; [unfold in_pb in Q2; cbn [cond_f pp] in Q2; lia|exact Q3].
  - destruct s as [| | | |e B|cv cl B| ]; cbn [act] in Ha; try contradiction.
    { destruct Ha as (Hd' & _ & Ha).
      pose proof (frag_while _ _ Hf) as HfB. cbn [wired] in Hw.
      destruct Hw as (W1 & _ & _ & W4 & _ & _ & W7 & _ & _ & WB).
      unfold in_t in Hj. rewrite ntrans_while in Hj. rewrite ml_loop.
      pose proof (xplace_range_b B HfB (loop_p p)) as XB. cbn [loop_p pp] in XB.
      assert (Hmlr : forall q, In q (ml_block B (loop_p p) i st') ->
                               pp p + 4 <= q < pp p + 4 + nplaces_l B /\ q <> xplace_b B (loop_p p)).
      { intros q Hq. destruct (ml_block_range_gen N0 ns st' B (loop_p p) ctx' i q (ml_range N0 ns st') HfB Ha Hq) as [R X].
        cbn [loop_p pp] in R. split; assumption. }
      unfold in_p. rewrite nplaces_while.
      destruct (Nat.eq_dec j (pt p)) as [->|N0']; [|destruct (Nat.eq_dec j (pt p + 1)) as [->|N1];
        [|destruct (Nat.eq_dec j (pt p + 2)) as [->|N2]]].
      + exists (pp p). rewrite W1. split; [left; reflexivity|]. split; [lia|].
        intro Hi. apply Hmlr in Hi. lia.
      + exists (pp p). rewrite W4. split; [left; reflexivity|]. split; [lia|].
        intro Hi. apply Hmlr in Hi. lia.
      + exists (xplace_b B (loop_p p)). rewrite W7. split; [left; reflexivity|]. split; [lia|].
        intro Hi. apply Hmlr in Hi. destruct Hi as [_ Hi]. congruence.
      + assert (HjB : in_tb B (loop_p p) j) by (unfold in_tb; cbn [loop_p pt]; lia).
        destruct (stable_block_gen N0 ns N st' B (loop_p p) ctx ctx' [] i IH HfB WB Hd' Ha j HjB) as (q & Q1 & Q2 & Q3).
        exists q. split; [exact Q1|]. split; [unfold in_pb in Q2; cbn [loop_p pp] in Q2; lia|exact Q3]. }
    { destruct Ha as (Hd' & _ & Ha).
      pose proof (frag_count _ _ _ Hf) as HfB. cbn [wired] in Hw.
      destruct Hw as (W1 & _ & _ & W4 & _ & _ & W7 & _ & _ & WB).
      unfold in_t in Hj. rewrite ntrans_count in Hj. rewrite ml_count.
      pose proof (xplace_range_b B HfB (loop_p p)) as XB. cbn [loop_p pp] in XB.
      assert (Hmlr : forall q, In q (ml_block B (loop_p p) i st') ->
                               pp p + 4 <= q < pp p + 4 + nplaces_l B /\ q <> xplace_b B (loop_p p)).
      { intros q Hq. destruct (ml_block_range_gen N0 ns st' B (loop_p p) ctx' i q (ml_range N0 ns st') HfB Ha Hq) as [R X].
        cbn [loop_p pp] in R. split; assumption. }
      unfold in_p. rewrite nplaces_count.
      destruct (Nat.eq_dec j (pt p)) as [->|N0']; [|destruct (Nat.eq_dec j (pt p + 1)) as [->|N1];
        [|destruct (Nat.eq_dec j (pt p + 2)) as [->|N2]]].
      + exists (pp p). rewrite W1. split; [left; reflexivity|]. split; [lia|].
        intro Hi. apply Hmlr in Hi. lia.
      + exists (pp p). rewrite W4. split; [left; reflexivity|]. split; [lia|].
        intro Hi. apply Hmlr in Hi. lia.
      + exists (xplace_b B (loop_p p)). rewrite W7. split; [left; reflexivity|]. split; [lia|].
        intro Hi. apply Hmlr in Hi. destruct Hi as [_ Hi]. congruence.
      + assert (HjB : in_tb B (loop_p p) j) by (unfold in_tb; cbn [loop_p pt]; lia).
        destruct (stable_block_gen N0 ns N st' B (loop_p p) ctx ctx' [] i IH HfB WB Hd' Ha j HjB) as (q & Q1 & Q2 & Q3).
        exists q. split; [exact Q1|]. split; [unfold in_pb in Q2; cbn [loop_p pp] in Q2; lia|exact Q3]. }
  - destruct s; cbn [act] in Ha; contradiction.
Qed.

(* [act] only depends on the API records of the component and on the bindings of the
   identifiers it awaits *)
Lemma dict_get_ITest_skip : forall (d r : list (ident * nat)) n id,
    Forall (fun kv => exists i, fst kv = ITest i /\ n <= i) d -> id < n ->
    dict_get ident_eqb (ITest id) (d ++ r) = dict_get ident_eqb (ITest id) r.
Proof.
  induction d as [|[u q] d IH]; intros r n id H Hid; [reflexivity|].
  inversion H as [|? ? (i & E & Hi) Hr]; subst. cbn [app dict_get]. cbn [fst] in E. subst u.
  cbn [ident_eqb]. destruct (Nat.eqb_spec id i); [lia|]. eapply IH; eassumption.
Qed.

Lemma act_mono : forall N0 ns ns' st s p ctx {ie},
    frag s = true -> act N0 ns st s p ctx ie ->
    (forall k, pa p <= k < pa p + napis s -> nth_error (ns_apis ns') k = nth_error (ns_apis ns) k) ->
    ns_sid ns <= ns_sid ns' ->
    (exists d, ns_place_dict ns' = d ++ ns_place_dict ns /\
               Forall (fun kv => exists i, fst kv = ITest i /\ ns_sid ns <= i) d) ->
    (forall k ac, pa p <= k < pa p + napis s -> nth_error (ns_apis ns) k = Some ac -> a_is_task ac = true ->
                  counters_of (a_uuid ac) ns' = counters_of (a_uuid ac) ns) ->
    act N0 ns' st s p ctx ie.
Proof.
  intros N0 ns ns'. induction st as [|id|cid i st' IH|sts IH|b i st' IH|k i st' IH|sts IH] using rst_ind';
    intros s p ctx ie Hf Ha Hap Hsid Hd Hcn.
  - destruct s; exact I.
  - destruct s; cbn [act] in *; try contradiction. destruct Ha as (A1 & A2 & A3).
    split; [rewrite Hap by (cbn [napis]; lia); exact A1|]. split; [|lia].
    destruct Hd as (d & Hd & Hk). rewrite Hd. rewrite (dict_get_ITest_skip d _ (ns_sid ns) id Hk A3). exact A2.
  - destruct s as [| t at_ ins body | | | | | ]; cbn [act] in *; try contradiction.
    destruct Ha as (A1 & A2 & A2' & A3). rewrite napis_call in Hap.
    rewrite napis_call in Hcn. destruct A1 as [(il & A1) A1c].
    split; [split; [exists il; rewrite Hap by lia; exact A1|]|].
    { unfold C0 in *. rewrite <- A1c. apply (Hcn (pa p) _ ltac:(lia) A1 eq_refl). }
    split; [exact A2|].
    split; [reflexivity|].
    destruct (nth_error body i) as [s'|] eqn:En; [|contradiction].
    pose proof (frag_call _ _ _ _ Hf) as [_ Hfb]. pose proof (frag_block_nth _ _ _ Hfb En) as Hfs.
    pose proof (spos_range body (body_pos t p) i s' En) as R. cbn [body_pos pa] in R.
    apply IH; try assumption; [intros k0 Hk0; apply Hap; lia|intros k0 ac0 Hk0; apply Hcn; lia].
  - destruct s as [| |bs| | | | ]; cbn [act] in Ha; try (destruct Ha; contradiction).
    apply act_par in Ha. apply act_par. destruct Ha as [A1 A2]. split; [exact A1|].
    pose proof (frag_par _ Hf) as [_ Hfb]. rewrite napis_par in Hap.
    assert (G : forall sts0 bs0 q, Forall (fun st => forall s p ctx ie, frag s = true -> act N0 ns st s p ctx ie ->
                  (forall k, pa p <= k < pa p + napis s -> nth_error (ns_apis ns') k = nth_error (ns_apis ns) k) ->
                  ns_sid ns <= ns_sid ns' ->
                  (exists d, ns_place_dict ns' = d ++ ns_place_dict ns /\
                             Forall (fun kv => exists i, fst kv = ITest i /\ ns_sid ns <= i) d) ->
                  (forall k ac, pa p <= k < pa p + napis s -> nth_error (ns_apis ns) k = Some ac -> a_is_task ac = true ->
                                counters_of (a_uuid ac) ns' = counters_of (a_uuid ac) ns) ->
                  act N0 ns' st s p ctx ie) sts0 ->
                frag_brs bs0 = true -> act_list N0 ns sts0 bs0 q ctx ie ->
                (forall k, pa q <= k < pa q + napis_l bs0 -> nth_error (ns_apis ns') k = nth_error (ns_apis ns) k) ->
                (forall k ac, pa q <= k < pa q + napis_l bs0 -> nth_error (ns_apis ns) k = Some ac -> a_is_task ac = true ->
                              counters_of (a_uuid ac) ns' = counters_of (a_uuid ac) ns) ->
                act_list N0 ns' sts0 bs0 q ctx ie).
    { induction sts0 as [|st1 sr IHs]; intros [|b1 br] q HF Hfb0 Hal Hap0 Hcn0; cbn [act_list] in *; try contradiction; [exact I|].
      inversion HF as [|? ? H1 H2]; subst. apply frag_brs_cons in Hfb0. destruct Hfb0 as (_ & Hf1 & Hfr).
      destruct Hal as [B1 B2]. rewrite napis_l_cons in Hap0, Hcn0. split.
      - apply H1; try assumption; [intros k0 Hk0; apply Hap0; lia|intros k0 ac0 Hk0; apply Hcn0; lia].
      - apply IHs; try assumption; [intros k0 Hk0; apply Hap0; cbn [adv pa] in Hk0; lia|
                                    intros k0 ac0 Hk0; apply Hcn0; cbn [adv pa] in Hk0; lia]. }
    rewrite napis_par in Hcn. apply G; assumption.
  - destruct s as [| | |e P F| | | ]; cbn [act] in *; try contradiction.
    destruct Ha as (A2 & A2' & A3). rewrite napis_cond in Hap.
    pose proof (frag_cond_P _ _ _ Hf) as HfP.
    assert (Hrng : forall k0 s0, nth_error (if b then P else F) k0 = Some s0 ->
                   pa p <= pa (spos (if b then P else F) (if b then cond_p p else cond_f P p) k0) /\
                   pa (spos (if b then P else F) (if b then cond_p p else cond_f P p) k0) + napis s0 <= pa p + (napis_l P + napis_l F)).
    { intros k0 s0 Hn0. destruct b.
      - pose proof (spos_range P (cond_p p) k0 s0 Hn0) as R. cbn [cond_p pa] in R. lia.
      - pose proof (spos_range F (cond_f P p) k0 s0 Hn0) as R. cbn [cond_f pa] in R. lia. }
    split; [exact A2|]. split; [reflexivity|].
    destruct (nth_error (if b then P else F) i) as [s'|] eqn:En; [|contradiction].
    assert (Hfs : frag s' = true).
    { destruct b; [apply (frag_block_nth _ _ _ HfP En)|].
      apply (frag_block_nth F i s'); [|exact En]. apply (frag_cond_F _ _ _ Hf). intros ->. destruct i; discriminate En. }
    rewrite napis_cond in Hcn. pose proof (Hrng i s' En).
    apply IH; try assumption; [intros k0 Hk0; apply Hap; lia|intros k0 ac0 Hk0; apply Hcn; lia].
  - destruct s as [| | | |e B|cv cl B| ]; cbn [act] in *; try contradiction.
    { destruct Ha as (A2 & A2' & A3). rewrite napis_while in Hap, Hcn.
      pose proof (frag_while _ _ Hf) as HfB.
      split; [exact A2|]. split; [reflexivity|].
      destruct (nth_error B i) as [s'|] eqn:En; [|contradiction].
      pose proof (spos_range B (loop_p p) i s' En) as R. cbn [loop_p pa] in R.
      apply IH; try assumption; [apply (frag_block_nth _ _ _ HfB En)|intros k0 Hk0; apply Hap; lia|intros k0 ac0 Hk0; apply Hcn; lia]. }
    { destruct Ha as (A2 & A2' & A3). rewrite napis_count in Hap, Hcn.
      pose proof (frag_count _ _ _ Hf) as HfB.
      split; [exact A2|]. split; [reflexivity|].
      destruct (nth_error B i) as [s'|] eqn:En; [|contradiction].
      pose proof (spos_range B (loop_p p) i s' En) as R. cbn [loop_p pa] in R.
      apply IH; try assumption; [apply (frag_block_nth _ _ _ HfB En)|intros k0 Hk0; apply Hap; lia|intros k0 ac0 Hk0; apply Hcn; lia]. }
  - destruct s; cbn [act] in Ha; contradiction.
Qed.

Lemma startcbs_b_nth0 : forall l p ctx s, nth_error l 0 = Some s -> startcbs_b l p ctx = startcbs s (spos l p 0) ctx.
Proof. intros [|x r] p ctx s H; inversion H; subst. reflexivity. Qed.
Lemma entries_b_nth0 : forall l p s, nth_error l 0 = Some s -> entries_b l p = entries s (spos l p 0).
Proof. intros [|x r] p s H; inversion H; subst. reflexivity. Qed.
Lemma startcbs_call : forall t a i bd p ctx, startcbs (XCall t a i bd) p ctx = CbTS (pa p) :: startcbs_b bd (body_pos t p) (pa p).
Proof. reflexivity. Qed.
Lemma entries_call : forall t a i bd p, entries (XCall t a i bd) p = entries_b bd (body_pos t p).
Proof. reflexivity. Qed.

(* ---- the exit transition of a component: its callbacks and its output place ---- *)
Fixpoint own (s : xstmt) (p : pos) : list cb :=
  match s with
  | XService _ _ _ => [CbSF (pa p)]
  | XCall t _ _ bd => last_of own [] bd (body_pos t p) ++ [CbTF (pa p)]
  | _ => []
  end.
Definition own_b := last_of own [].

Lemma exit_facts_block : forall N l,
    Forall (fun s => frag s = true -> forall p ctx xcbs, wired N s p ctx xcbs -> forall e, In e (exits s p) ->
                     cbsN N e = own s p ++ xcbs /\ postN N e = [xplace s p]) l ->
    frag_block l = true -> forall p ctx xcbs, wired_block (wired N) N ctx xcbs l p -> forall e, In e (exits_b l p) ->
    cbsN N e = own_b l p ++ xcbs /\ postN N e = [xplace_b l p].
Proof.
  intros N. induction l as [|s r IH]; intros HF Hf p ctx xcbs Hw e He; [discriminate|].
  inversion HF as [|? ? Hs Hr]; subst. apply frag_block_cons in Hf. destruct Hf as [Hfs Hfr].
  unfold exits_b, own_b, xplace_b in *. destruct r as [|s' r].
  - rewrite !last_of_one in *. cbn [wired_block] in Hw. apply (Hs Hfs p ctx xcbs Hw e He).
  - destruct Hfr as [Hfr|Hfr]; [discriminate|]. rewrite !last_of_cons in *.
    cbn [wired_block] in Hw. cbv zeta in Hw. destruct Hw as (_ & _ & _ & _ & Hwr). apply (IH Hr Hfr _ ctx xcbs Hwr e He).
Qed.

Lemma exit_facts : forall N s, frag s = true -> forall p ctx xcbs, wired N s p ctx xcbs -> forall e, In e (exits s p) ->
    cbsN N e = own s p ++ xcbs /\ postN N e = [xplace s p].
Proof.
  intros N. induction s as [n a i|t a i bd IH|bs IH|e0 P F IHp IHf|e0 b IH|v l b IH|v l c IH] using xstmt_ind';
    intros Hf p0 ctx xcbs Hw e He; try discriminate Hf.
  - cbn [wired] in Hw. destruct Hw as (_ & H2 & H3 & _). cbn [exits] in He. destruct He as [<-|[]].
    cbn [own xplace app]. split; assumption.
  - apply frag_call in Hf. destruct Hf as [_ Hf]. cbn [wired] in Hw. destruct Hw as [_ Hw]. cbn [exits] in He.
    destruct (exit_facts_block N bd IH Hf (body_pos t p0) (pa p0) (CbTF (pa p0) :: xcbs) Hw e He) as [E1 E2].
    cbn [own xplace]. split; [|exact E2]. rewrite E1. unfold own_b. rewrite <- app_assoc. reflexivity.
  - cbn [wired] in Hw. destruct Hw as (_ & H2 & H3 & _). cbn [exits] in He. destruct He as [<-|[]].
    cbn [own xplace app]. split; assumption.
  - destruct F as [|f0 F].
    { cbn [wired] in Hw. destruct Hw as (_ & _ & _ & _ & W5 & W6 & _ & W8 & W9 & _).
      cbn [exits] in He. cbn [own xplace app]. destruct He as [<-|[<-|[]]]; split; assumption. }
    cbn [wired] in Hw. destruct Hw as (_ & _ & _ & _ & _ & _ & _ & W8 & W9 & _ & W11 & W12 & _).
    cbn [exits] in He. fold (ntrans_b P) in He. cbn [own xplace app].
    destruct He as [<-|[<-|[]]]; [split; assumption|]. unfold cond_sf in W11, W12. split; assumption.
  - cbn [wired] in Hw. destruct Hw as (_ & _ & _ & _ & W5 & W6 & _).
    cbn [exits] in He. cbn [own xplace app]. destruct He as [<-|[]]. split; assumption.
  - cbn [wired] in Hw. destruct Hw as (_ & _ & _ & _ & W5 & W6 & _).
    cbn [exits] in He. cbn [own xplace app]. destruct He as [<-|[]]. split; assumption.
Qed.

Lemma no_parloop_app : forall l1 l2, no_parloop (l1 ++ l2) = no_parloop l1 && no_parloop l2.
Proof. intros. unfold no_parloop. apply forallb_app. Qed.

Lemma no_parloop_startcbs : forall s p ctx, no_parloop (startcbs s p ctx) = true.
Proof.
  induction s as [n a i|t a i bd IH|bs IH|e0 p f IHp IHf|e0 b IH|v l b IH|v l c IH] using xstmt_ind';
    intros p0 ctx; try reflexivity.
  - cbn [startcbs]. destruct bd as [|s0 r]; [reflexivity|]. inversion IH as [|? ? H0 _]; subst.
    change (no_parloop (CbTS (pa p0) :: startcbs s0 (first_pos (s0 :: r) (body_pos t p0)) (pa p0))) with
        (no_parloop (startcbs s0 (first_pos (s0 :: r) (body_pos t p0)) (pa p0))). apply H0.
  - cbn [startcbs]. generalize (par_pos p0). induction bs as [|b r IHr]; intro q; [reflexivity|].
    inversion IH as [|? ? Hb Hr]; subst. cbn [cat_of]. rewrite no_parloop_app, Hb. apply IHr. exact Hr.
Qed.

Lemma no_parloop_own : forall s p, no_parloop (own s p) = true.
Proof.
  induction s as [n a i|t a i bd IH|bs IH|e0 p f IHp IHf|e0 b IH|v l b IH|v l c IH] using xstmt_ind';
    intros p0; try reflexivity.
  cbn [own]. rewrite no_parloop_app. cbn. rewrite andb_true_r. generalize (body_pos t p0).
  induction bd as [|s0 r IHr]; intro q; [reflexivity|]. inversion IH as [|? ? H0 Hr]; subst.
  destruct r as [|s1 r]; [rewrite last_of_one; apply H0|]. rewrite last_of_cons. apply IHr. exact Hr.
Qed.

(* ---- block-level versions (continued) ---- *)
Lemma ml_range_block : forall N0 ns l bp ctx i st {ie}, frag_block l = true -> act_block N0 ns l bp ctx i st ie ->
    forall q, In q (ml_block l bp i st) ->
              in_pb l bp q /\ q <> xplace_b l bp /\
              exists s, nth_error l i = Some s /\ in_p s (spos l bp i) q.
Proof.
  intros N0 ns l bp ctx i st ie Hf (_ & _ & Ha) q Hq. unfold ml_block in Hq.
  destruct (nth_error l i) as [s'|] eqn:En; [|contradiction].
  pose proof (frag_block_nth _ _ _ Hf En) as Hfs.
  destruct (ml_range N0 ns st s' _ _ Hfs Ha q Hq) as [Hin Hx].
  pose proof (spos_range l bp i s' En) as R. unfold in_p, in_pb in *.
  split; [lia|]. split; [|exists s'; split; [reflexivity|exact Hin]].
  destruct (xplace_b_nth l bp Hf) as (sl & Hl & El). rewrite El.
  destruct (Nat.eq_dec i (List.length l - 1)) as [->|Hne].
  - rewrite En in Hl. inversion Hl; subst. exact Hx.
  - assert (Hil : i < List.length l - 1).
    { assert (i < List.length l) by (apply nth_error_Some; congruence). lia. }
    pose proof (spos_mono l bp i _ s' sl Hil En Hl) as M.
    pose proof (xplace_range sl (frag_block_nth _ _ _ Hf Hl) (spos l bp (List.length l - 1))) as X. lia.
Qed.

Lemma stable_blocked_block : forall N0 ns N l bp ctx ctx' xcbs i st {ie},
    frag_block l = true -> wired_block (wired N) N ctx xcbs l bp -> act_block N0 ns l bp ctx' i st ie ->
    forall j, in_tb l bp j -> exists q, In q (preN N j) /\ in_pb l bp q /\ ~ In q (ml_block l bp i st).
Proof.
  intros N0 ns N l bp ctx ctx' xcbs i st ie Hfb Hw Hab j Hj.
  pose proof Hab as (Hd' & _ & Ha). destruct (nth_error l i) as [s'|] eqn:En; [|contradiction].
  pose proof (frag_block_nth _ _ _ Hfb En) as Hfs.
  assert (Hml : forall q, In q (ml_block l bp i st) -> in_p s' (spos l bp i) q /\ q <> xplace s' (spos l bp i)).
  { intros q Hq. unfold ml_block in Hq. rewrite En in Hq. apply (ml_range N0 ns st s' _ _ Hfs Ha q Hq). }
  assert (Hsub : forall k x q, nth_error l k = Some x -> in_p x (spos l bp k) q -> in_pb l bp q).
  { intros k x q Hk Hq. pose proof (spos_range l bp k x Hk) as R. unfold in_p, in_pb in *. lia. }
  assert (Hdisj : forall k x q, nth_error l k = Some x -> k <> i -> in_p x (spos l bp k) q ->
                                ~ In q (ml_block l bp i st)).
  { intros k x q Hk Hki Hq Hin. apply Hml in Hin. destruct Hin as [Hin _]. unfold in_p in *.
    destruct (Nat.lt_ge_cases k i) as [Hlt|Hge].
    - pose proof (spos_mono l bp k i x s' Hlt Hk En). lia.
    - pose proof (spos_mono l bp i k s' x ltac:(lia) En Hk). lia. }
  destruct (block_cover l bp j Hfb Hj) as [(k & x & Hk & Hin)|(k & x & x' & Hk & Hk' & Hjc)].
  - pose proof (frag_block_nth _ _ _ Hfb Hk) as Hfx.
    destruct (wired_block_nth _ _ _ _ _ _ _ _ Hw Hk) as [Wx _].
    destruct (Nat.eq_dec k i) as [->|Hki].
    + rewrite En in Hk. inversion Hk; subst x.
      destruct (stable_blocked N0 ns N st s' _ _ ctx' _ Hfs Wx Ha Hd' j Hin) as (q & Q1 & Q2 & Q3).
      exists q. split; [exact Q1|]. split; [eapply Hsub; eassumption|]. unfold ml_block. rewrite En. exact Q3.
    + destruct (exit_blocked N x _ _ _ Hfx Wx j Hin) as (q & Q1 & Q2 & _).
      exists q. split; [exact Q1|]. split; [eapply Hsub; eassumption|]. eapply Hdisj; eassumption.
  - pose proof (frag_block_nth _ _ _ Hfb Hk) as Hfx.
    destruct (wired_block_nth _ _ _ _ _ _ _ _ Hw Hk) as [_ Wc]. destruct (Wc x' Hk') as (C1 & _). cbv zeta in C1.
    subst j. exists (xplace x (spos l bp k)). rewrite C1. split; [left; reflexivity|].
    pose proof (xplace_range x Hfx (spos l bp k)) as X.
    split; [eapply Hsub; [exact Hk|exact X]|].
    destruct (Nat.eq_dec k i) as [->|Hki].
    + rewrite En in Hk. inversion Hk; subst x. intro Hin. apply Hml in Hin. destruct Hin as [_ Hin]. congruence.
    + eapply Hdisj; [exact Hk|exact Hki|exact X].
Qed.

(* ---- more about counting ---- *)
Lemma cnt_cons : forall x l q, cnt (x :: l) q = (if Nat.eqb x q then 1 else 0) + cnt l q.
Proof.
  intros x l q. destruct (Nat.eqb_spec x q) as [->|Hne]; [rewrite cnt_cons_eq; lia|rewrite cnt_cons_neq by exact Hne; lia].
Qed.

Definition inb (lo hi q : nat) : bool := Nat.leb lo q && Nat.ltb q hi.
Lemma inb_spec : forall lo hi q, inb lo hi q = true <-> lo <= q < hi.
Proof.
  intros. unfold inb. rewrite andb_true_iff, Nat.leb_le, Nat.ltb_lt. tauto.
Qed.
(* the part of a marking outside a range *)
Definition outside (lo hi : nat) (m : list nat) : list nat := filter (fun q => negb (inb lo hi q)) m.

Lemma cnt_outside : forall lo hi m q, cnt (outside lo hi m) q = if inb lo hi q then 0 else cnt m q.
Proof.
  intros lo hi. induction m as [|x m IH]; intro q; cbn [outside filter].
  - rewrite cnt_nil. destruct (inb lo hi q); reflexivity.
  - fold (outside lo hi m). destruct (inb lo hi x) eqn:Ex; cbn [negb].
    + rewrite IH, cnt_cons. destruct (Nat.eqb_spec x q) as [->|Hne]; [rewrite Ex; reflexivity|].
      destruct (inb lo hi q); lia.
    + rewrite !cnt_cons, IH. destruct (Nat.eqb_spec x q) as [->|Hne]; [rewrite Ex; lia|].
      destruct (inb lo hi q); lia.
Qed.

Lemma not_in_cnt : forall l q, ~ In q l <-> cnt l q = 0.
Proof.
  intros l q. split; [apply cnt_notin|]. intros H Hin. apply cnt_pos_in in Hin. lia.
Qed.

(* an awaited identifier is bound to a place inside the component that awaits it *)
Lemma in_ids_list : forall sts id, In id (ids_list sts) -> exists k st, nth_error sts k = Some st /\ In id (svc_ids st).
Proof.
  induction sts as [|st1 sr IH]; intros id H; [contradiction|].
  unfold ids_list in H. cbn [flat_map] in H. apply in_app_or in H. destruct H as [H|H].
  - exists 0, st1. split; [reflexivity|exact H].
  - destruct (IH id H) as (k & st & H1 & H2). exists (S k), st. split; assumption.
Qed.

Lemma act_dict_in : forall N0 ns st s p ctx id {ie},
    frag s = true -> act N0 ns st s p ctx ie -> In id (svc_ids st) ->
    exists fp, dict_get ident_eqb (ITest id) (ns_place_dict ns) = Some fp /\ in_p s p fp.
Proof.
  intros N0 ns. induction st as [|id0|cid i st' IH|sts IH|b i st' IH|k i st' IH|sts IH] using rst_ind';
    intros s p ctx id ie Hf Ha Hin.
  - contradiction.
  - destruct s; cbn [act] in Ha; try contradiction. destruct Ha as (_ & Hd & _).
    cbn [svc_ids] in Hin. destruct Hin as [<-|[]]. exists (pp p + 1). split; [exact Hd|].
    unfold in_p. cbn [nplaces]. lia.
  - destruct s as [| t at_ ins body | | | | | ]; cbn [act] in Ha; try contradiction.
    destruct Ha as (_ & _ & _ & Ha). destruct (nth_error body i) as [s'|] eqn:En; [|contradiction].
    pose proof (frag_call _ _ _ _ Hf) as [_ Hfb]. pose proof (frag_block_nth _ _ _ Hfb En) as Hfs.
    cbn [svc_ids] in Hin. destruct (IH s' _ _ id _ Hfs Ha Hin) as (fp & Hd & Hr). exists fp. split; [exact Hd|].
    pose proof (spos_range body (body_pos t p) i s' En) as R. cbn [body_pos pp] in R.
    unfold in_p in *. rewrite nplaces_call. lia.
  - destruct s as [| |bs| | | | ]; cbn [act] in Ha; try (destruct Ha; contradiction).
    apply act_par in Ha. destruct Ha as [_ Ha]. pose proof (frag_par _ Hf) as [_ Hfb].
    cbn [svc_ids] in Hin. destruct (in_ids_list _ _ Hin) as (k & st & Hs & Hin').
    assert (Hlen := act_list_length _ _ _ _ _ _ Ha).
    destruct (nth_error bs k) as [b|] eqn:Hb.
    2:{ apply nth_error_None in Hb. assert (k < List.length sts) by (apply nth_error_Some; congruence). lia. }
    destruct (frag_brs_nth _ _ _ Hfb Hb) as [Hfbk _].
    rewrite Forall_forall in IH.
    destruct (IH _ (nth_error_In _ _ Hs) b _ _ id _ Hfbk (act_list_nth _ _ _ _ _ _ _ _ _ Ha Hs Hb) Hin') as (fp & Hd & Hr).
    exists fp. split; [exact Hd|]. pose proof (bpos_range bs (par_pos p) k b Hb) as R. cbn [par_pos pp] in R.
    unfold in_p in *. rewrite nplaces_par. lia.
  - destruct s as [| | |e P F| | | ]; cbn [act] in Ha; try contradiction.
    destruct Ha as (_ & _ & Ha). destruct (nth_error (if b then P else F) i) as [s'|] eqn:En; [|contradiction].
    pose proof (frag_cond_P _ _ _ Hf) as HfP.
    assert (Hfs : frag s' = true).
    { destruct b; [apply (frag_block_nth _ _ _ HfP En)|].
      apply (frag_block_nth F i s'); [|exact En]. apply (frag_cond_F _ _ _ Hf). intros ->. destruct i; discriminate En. }
    cbn [svc_ids] in Hin. destruct (IH s' _ _ id _ Hfs Ha Hin) as (fp & Hd & Hr). exists fp. split; [exact Hd|].
    unfold in_p in *. rewrite nplaces_cond. destruct b.
    + pose proof (spos_range P (cond_p p) i s' En) as R. cbn [cond_p pp] in R. lia.
    + pose proof (spos_range F (cond_f P p) i s' En) as R. cbn [cond_f pp] in R. lia.
  - destruct s as [| | | |e B|cv cl B| ]; cbn [act] in Ha; try contradiction.
    { destruct Ha as (_ & _ & Ha). destruct (nth_error B i) as [s'|] eqn:En; [|contradiction].
      pose proof (frag_while _ _ Hf) as HfB.
      cbn [svc_ids] in Hin. destruct (IH s' _ _ id _ (frag_block_nth _ _ _ HfB En) Ha Hin) as (fp & Hd & Hr).
      exists fp. split; [exact Hd|].
      unfold in_p in *. rewrite nplaces_while. pose proof (spos_range B (loop_p p) i s' En) as R. cbn [loop_p pp] in R. lia. }
    { destruct Ha as (_ & _ & Ha). destruct (nth_error B i) as [s'|] eqn:En; [|contradiction].
      pose proof (frag_count _ _ _ Hf) as HfB.
      cbn [svc_ids] in Hin. destruct (IH s' _ _ id _ (frag_block_nth _ _ _ HfB En) Ha Hin) as (fp & Hd & Hr).
      exists fp. split; [exact Hd|].
      unfold in_p in *. rewrite nplaces_count. pose proof (spos_range B (loop_p p) i s' En) as R. cbn [loop_p pp] in R. lia. }
  - destruct s; cbn [act] in Ha; contradiction.
Qed.

(* ---- lists of branch states ---- *)
Lemma ml_list_all_done : forall sts bs q, all_done sts = true -> List.length sts = List.length bs ->
    ml_list sts bs q = cat_of (fun b q => [xplace b q]) bs q.
Proof.
  induction sts as [|st sr IH]; intros [|b br] q Hd Hl; try discriminate Hl; [reflexivity|].
  cbn [all_done] in Hd. apply andb_prop in Hd. destruct Hd as [D1 D2].
  cbn [ml_list cat_of]. rewrite IH by (try assumption; cbn in Hl; lia).
  destruct st; try discriminate D1. reflexivity.
Qed.

Lemma mlx_range : forall N0 ns st b q ctx {ie}, frag b = true -> act N0 ns st b q ctx ie ->
    forall x, In x (mlx st b q) -> in_p b q x.
Proof.
  intros N0 ns st b q ctx ie Hf Ha x Hx. destruct st; cbn [mlx] in Hx;
    try (apply (ml_range N0 ns _ b q ctx Hf Ha x Hx)).
  destruct Hx as [<-|[]]. apply (xplace_range b Hf).
Qed.

(* the marking of a Parallel, read branch by branch *)
Lemma cnt_ml_list_at : forall N0 ns sts bs q0 ctx k st b x {ie},
    frag_brs bs = true -> act_list N0 ns sts bs q0 ctx ie ->
    nth_error sts k = Some st -> nth_error bs k = Some b -> in_p b (bpos bs q0 k) x ->
    cnt (ml_list sts bs q0) x = cnt (mlx st b (bpos bs q0 k)) x.
Proof.
  intros N0 ns. induction sts as [|st1 sr IH]; intros [|b1 br] q0 ctx k st b x ie Hf Ha Hs Hb Hx;
    cbn [act_list] in Ha; try contradiction; try (destruct k; discriminate).
  destruct Ha as [A1 A2]. apply frag_brs_cons in Hf. destruct Hf as (_ & Hf1 & Hfr).
  cbn [ml_list]. rewrite cnt_app. destruct k as [|k]; cbn [nth_error bpos] in *.
  - inversion Hs; inversion Hb; subst.
    assert (cnt (ml_list sr br (adv b q0)) x = 0); [|lia].
    apply not_in_cnt. intro Hi. destruct (in_ml_list _ _ _ _ Hi) as (k' & st' & b' & Hs' & Hb' & Hi').
    pose proof (mlx_range N0 ns st' b' _ ctx (proj1 (frag_brs_nth _ _ _ Hfr Hb')) (act_list_nth _ _ _ _ _ _ _ _ _ A2 Hs' Hb') x Hi') as R.
    pose proof (bpos_range br (adv b q0) k' b' Hb') as R'. unfold in_p in *. cbn [adv pp] in R'. lia.
  - rewrite (IH br (adv b1 q0) ctx k st b x _ Hfr A2 Hs Hb Hx).
    assert (cnt (mlx st1 b1 q0) x = 0); [|lia].
    apply not_in_cnt. intro Hi. pose proof (mlx_range N0 ns st1 b1 q0 ctx Hf1 A1 x Hi) as R.
    pose proof (bpos_range br (adv b1 q0) k b Hb) as R'. unfold in_p in *. cbn [adv pp] in R'. lia.
Qed.

Lemma ml_list_range : forall N0 ns sts bs q0 ctx x {ie},
    frag_brs bs = true -> act_list N0 ns sts bs q0 ctx ie -> In x (ml_list sts bs q0) ->
    pp q0 <= x < pp q0 + nplaces_l bs.
Proof.
  intros N0 ns sts bs q0 ctx x ie Hf Ha Hi. destruct (in_ml_list _ _ _ _ Hi) as (k & st & b & Hs & Hb & Hi').
  pose proof (mlx_range N0 ns st b _ ctx (proj1 (frag_brs_nth _ _ _ Hf Hb)) (act_list_nth _ _ _ _ _ _ _ _ _ Ha Hs Hb) x Hi') as R.
  pose proof (bpos_range bs q0 k b Hb) as R'. unfold in_p in *. lia.
Qed.

Lemma nth_error_update_nth_eq : forall A (l : list A) k x y, nth_error l k = Some y -> nth_error (update_nth k x l) k = Some x.
Proof. induction l as [|a l IH]; intros [|k] x y H; cbn in *; try discriminate; [reflexivity|eapply IH; exact H]. Qed.
Lemma nth_error_update_nth_neq : forall A (l : list A) k k' x, k <> k' -> nth_error (update_nth k x l) k' = nth_error l k'.
Proof. induction l as [|a l IH]; intros [|k] [|k'] x H; cbn; try reflexivity; try congruence. apply IH. congruence. Qed.
Lemma update_nth_length : forall A (l : list A) k x, List.length (update_nth k x l) = List.length l.
Proof. induction l as [|a l IH]; intros [|k] x; cbn; auto. Qed.

(* replacing the state of one branch *)
Lemma act_list_update : forall N0 ns ns' sts bs q0 ctx k st' b {ie},
    frag_brs bs = true -> act_list N0 ns sts bs q0 ctx ie -> nth_error bs k = Some b ->
    act N0 ns' st' b (bpos bs q0 k) ctx ie ->
    (forall a, ~ (pa (bpos bs q0 k) <= a < pa (bpos bs q0 k) + napis b) -> nth_error (ns_apis ns') a = nth_error (ns_apis ns) a) ->
    ns_sid ns <= ns_sid ns' ->
    (exists d, ns_place_dict ns' = d ++ ns_place_dict ns /\
               Forall (fun kv => exists i, fst kv = ITest i /\ ns_sid ns <= i) d) ->
    (forall a ac, ~ (pa (bpos bs q0 k) <= a < pa (bpos bs q0 k) + napis b) -> pa q0 <= a ->
                  nth_error (ns_apis ns) a = Some ac -> a_is_task ac = true ->
                  counters_of (a_uuid ac) ns' = counters_of (a_uuid ac) ns) ->
    act_list N0 ns' (update_nth k st' sts) bs q0 ctx ie.
Proof.
  intros N0 ns ns'. induction sts as [|st1 sr IH]; intros [|b1 br] q0 ctx k st' b ie Hf Ha Hb Hact Hap Hsid Hd Hcn;
    cbn [act_list] in Ha; try contradiction; try (destruct k; discriminate).
  destruct Ha as [A1 A2]. apply frag_brs_cons in Hf. destruct Hf as (_ & Hf1 & Hfr).
  destruct k as [|k]; cbn [nth_error bpos update_nth] in *.
  - inversion Hb; subst b1. cbn [act_list]. split; [exact Hact|].
    clear IH.
    assert (G : forall sr br q1, pa q0 + napis b <= pa q1 -> frag_brs br = true -> act_list N0 ns sr br q1 ctx ie -> act_list N0 ns' sr br q1 ctx ie).
    { induction sr0 as [|s2 sr2 IH2]; intros [|b2 br2] q2 Hq Hf2 Ha2; cbn [act_list] in *; try contradiction; [exact I|].
      destruct Ha2 as [B1 B2]. apply frag_brs_cons in Hf2. destruct Hf2 as (_ & Hfb2 & Hfr2). split.
      - apply (act_mono N0 ns ns' s2 b2 q2 ctx Hfb2 B1); [|exact Hsid|exact Hd|]; [intros a Ha; apply Hap; lia|].
        intros a ac Ha. apply Hcn; lia.
      - apply IH2; [cbn [adv pa]; lia|exact Hfr2|exact B2]. }
    apply G; [cbn [adv pa]; lia|exact Hfr|exact A2].
  - cbn [act_list]. split.
    + pose proof (bpos_range br (adv b1 q0) k b Hb) as R. cbn [adv pa] in R.
      apply (act_mono N0 ns ns' st1 b1 q0 ctx Hf1 A1); [|exact Hsid|exact Hd|]; [intros a Ha; apply Hap; lia|].
      intros a ac Ha. apply Hcn; lia.
    + eapply IH; try eassumption. intros a ac Ha Hq. apply Hcn; [exact Ha|cbn [adv pa] in Hq; lia].
Qed.

Lemma list_cover_p : forall l q x, pp q <= x < pp q + nplaces_l l ->
    exists k b, nth_error l k = Some b /\ in_p b (bpos l q k) x.
Proof.
  induction l as [|b r IH]; intros q x Hx.
  - unfold nplaces_l in Hx. cbn in Hx. lia.
  - rewrite nplaces_l_cons in Hx. destruct (Nat.lt_ge_cases x (pp q + nplaces b)) as [Hlt|Hge].
    + exists 0, b. split; [reflexivity|]. cbn [bpos]. unfold in_p. lia.
    + destruct (IH (adv b q) x) as (k & y & Hk & Hin); [cbn [adv pp]; lia|].
      exists (S k), y. split; [exact Hk|exact Hin].
Qed.

Lemma no_parloop_own_b : forall l p, no_parloop (own_b l p) = true.
Proof.
  unfold own_b. induction l as [|s r IH]; intro p; [reflexivity|].
  destruct r as [|s' r]; [rewrite last_of_one; apply no_parloop_own|rewrite last_of_cons; apply IH].
Qed.

(* ---- a component that has been entered but whose start callbacks have not run yet ---- *)
Lemma entries_range_block : forall l,
    Forall (fun s => frag s = true -> forall p q, In q (entries s p) -> in_p s p q /\ q <> xplace s p) l ->
    frag_block l = true -> forall p q, In q (entries_b l p) -> in_pb l p q /\ q <> xplace_b l p /\
                                      exists s0, nth_error l 0 = Some s0 /\ in_p s0 (spos l p 0) q.
Proof.
  intros l HF Hf p q Hq. destruct l as [|s0 r]; [discriminate|]. inversion HF as [|? ? H0 _]; subst.
  pose proof (frag_block_cons _ _ Hf) as [Hf0 _].
  unfold entries_b in Hq. destruct (H0 Hf0 _ q Hq) as [Hin Hx].
  assert (Hn0 : nth_error (s0 :: r) 0 = Some s0) by reflexivity.
  pose proof (spos_range (s0 :: r) p 0 s0 Hn0) as R. change (spos (s0 :: r) p 0) with (first_pos (s0 :: r) p) in R.
  unfold in_p, in_pb in *. split; [lia|]. split; [|exists s0; split; [reflexivity|exact Hin]].
  destruct (xplace_b_nth (s0 :: r) p Hf) as (sl & Hl & El). rewrite El.
  destruct r as [|s1 r].
  - cbn [List.length Nat.sub nth_error] in Hl. inversion Hl; subst sl. exact Hx.
  - assert (Hil : 0 < List.length (s0 :: s1 :: r) - 1) by (cbn [List.length]; lia).
    pose proof (spos_mono (s0 :: s1 :: r) p 0 _ s0 sl Hil Hn0 Hl) as M.
    change (spos (s0 :: s1 :: r) p 0) with (first_pos (s0 :: s1 :: r) p) in M.
    pose proof (xplace_range sl (frag_block_nth _ _ _ Hf Hl) (spos (s0 :: s1 :: r) p (List.length (s0 :: s1 :: r) - 1))) as X. lia.
Qed.

Lemma entries_range : forall s, frag s = true -> forall p q, In q (entries s p) -> in_p s p q /\ q <> xplace s p.
Proof.
  induction s as [n a i|t a i bd IH|bs IH|e0 P F IHp IHf|e0 b IH|v l b IH|v l c IH] using xstmt_ind';
    intros Hf p q Hq; try discriminate Hf.
  - cbn [entries] in Hq. destruct Hq as [<-|[]]. unfold in_p. cbn [nplaces xplace]. lia.
  - apply frag_call in Hf. destruct Hf as [_ Hf]. rewrite entries_call in Hq.
    destruct (entries_range_block bd IH Hf (body_pos t p) q Hq) as (A & B & _).
    unfold in_p, in_pb in *. rewrite nplaces_call. cbn [xplace body_pos pp] in *. split; assumption.
  - pose proof (frag_par _ Hf) as [_ Hfb]. cbn [entries] in Hq. apply in_cat_of in Hq. destruct Hq as (k & b & Hb & Hq).
    destruct (frag_brs_nth _ _ _ Hfb Hb) as [Hfbk _]. rewrite Forall_forall in IH.
    destruct (IH b (nth_error_In _ _ Hb) Hfbk _ q Hq) as [Hin _].
    pose proof (bpos_range bs (par_pos p) k b Hb) as R. cbn [par_pos pp] in R.
    unfold in_p in *. rewrite nplaces_par. cbn [xplace]. lia.
  - cbn [entries] in Hq. destruct Hq as [<-|[]]. unfold in_p. rewrite nplaces_cond. cbn [xplace]. lia.
  - cbn [entries] in Hq. destruct Hq as [<-|[]]. unfold in_p. rewrite nplaces_while. cbn [xplace]. lia.
  - cbn [entries] in Hq. destruct Hq as [<-|[]]. unfold in_p. rewrite nplaces_count. cbn [xplace]. lia.
Qed.

Lemma entries_range_b : forall l, frag_block l = true -> forall p q, In q (entries_b l p) ->
    in_pb l p q /\ q <> xplace_b l p /\ exists s0, nth_error l 0 = Some s0 /\ in_p s0 (spos l p 0) q.
Proof.
  intros l Hf. apply entries_range_block; [|exact Hf]. apply Forall_forall. intros s _ Hs. apply entries_range. exact Hs.
Qed.

Lemma entered_blocked_block : forall N l,
    Forall (fun s => frag s = true -> forall p ctx xcbs, wired N s p ctx xcbs ->
                     forall j, in_t s p j -> exists q, In q (preN N j) /\ in_p s p q /\ ~ In q (entries s p)) l ->
    frag_block l = true -> forall p ctx xcbs, wired_block (wired N) N ctx xcbs l p ->
    forall j, in_tb l p j -> exists q, In q (preN N j) /\ in_pb l p q /\ ~ In q (entries_b l p).
Proof.
  intros N l HF Hfb p ctx xcbs Hw j Hj.
  assert (Hent : forall q, In q (entries_b l p) -> exists s0, nth_error l 0 = Some s0 /\ in_p s0 (spos l p 0) q /\ q <> xplace s0 (spos l p 0)).
  { intros q Hq. destruct (entries_range_b l Hfb p q Hq) as (_ & _ & s0 & Hn0 & Hin). exists s0. split; [exact Hn0|]. split; [exact Hin|].
    destruct l as [|x r]; [discriminate|]. cbn [nth_error] in Hn0. inversion Hn0; subst x.
    unfold entries_b in Hq. apply (entries_range s0 (frag_block_nth (s0 :: r) 0 s0 Hfb eq_refl) _ q Hq). }
  assert (Hsub : forall k x q, nth_error l k = Some x -> in_p x (spos l p k) q -> in_pb l p q).
  { intros k x q Hk Hq. pose proof (spos_range l p k x Hk) as R. unfold in_p, in_pb in *. lia. }
  assert (Hdisj : forall k x q, nth_error l k = Some x -> k <> 0 -> in_p x (spos l p k) q -> ~ In q (entries_b l p)).
  { intros k x q Hk Hk0 Hq Hin. destruct (Hent q Hin) as (s0 & Hn0 & Hin0 & _).
    pose proof (spos_mono l p 0 k s0 x ltac:(lia) Hn0 Hk). unfold in_p in *. lia. }
  destruct (block_cover l p j Hfb Hj) as [(k & x & Hk & Hin)|(k & x & x' & Hk & Hk' & Hjc)].
  - pose proof (frag_block_nth _ _ _ Hfb Hk) as Hfx.
    destruct (wired_block_nth _ _ _ _ _ _ _ _ Hw Hk) as [Wx _].
    destruct (Nat.eq_dec k 0) as [->|Hk0].
    + rewrite Forall_forall in HF. destruct (HF x (nth_error_In _ _ Hk) Hfx _ _ _ Wx j Hin) as (q & Q1 & Q2 & Q3).
      exists q. split; [exact Q1|]. split; [eapply Hsub; eassumption|].
      destruct l as [|y r]; [discriminate|]. cbn [nth_error] in Hk. inversion Hk; subst y. exact Q3.
    + destruct (exit_blocked N x _ _ _ Hfx Wx j Hin) as (q & Q1 & Q2 & _).
      exists q. split; [exact Q1|]. split; [eapply Hsub; eassumption|]. eapply Hdisj; eassumption.
  - pose proof (frag_block_nth _ _ _ Hfb Hk) as Hfx.
    destruct (wired_block_nth _ _ _ _ _ _ _ _ Hw Hk) as [_ Wc]. destruct (Wc x' Hk') as (C1 & _). cbv zeta in C1.
    subst j. exists (xplace x (spos l p k)). rewrite C1. split; [left; reflexivity|].
    pose proof (xplace_range x Hfx (spos l p k)) as X. split; [eapply Hsub; [exact Hk|exact X]|].
    destruct (Nat.eq_dec k 0) as [->|Hk0].
    + intro Hin. destruct (Hent _ Hin) as (s0 & Hn0 & _ & Hne). rewrite Hk in Hn0. inversion Hn0; subst s0. congruence.
    + eapply Hdisj; [exact Hk|exact Hk0|exact X].
Qed.

Lemma entered_blocked : forall N s, frag s = true -> forall p ctx xcbs, wired N s p ctx xcbs ->
    forall j, in_t s p j -> exists q, In q (preN N j) /\ in_p s p q /\ ~ In q (entries s p).
Proof.
  intros N. induction s as [n a i|t a i bd IH|bs IH|e0 P F IHp IHf|e0 b IH|v l b IH|v l c IH] using xstmt_ind';
    intros Hf p ctx xcbs Hw j Hj; try discriminate Hf.
  - cbn [wired] in Hw. destruct Hw as (H1 & _). unfold in_t in Hj. cbn [ntrans] in Hj. assert (j = pt p) by lia. subst j.
    exists (pp p + 1). rewrite H1. split; [right; left; reflexivity|]. split; [unfold in_p; cbn [nplaces]; lia|].
    cbn [entries]. intros [E|[]]. lia.
  - pose proof (frag_call _ _ _ _ Hf) as [_ Hfb]. cbn [wired] in Hw. destruct Hw as [_ Hw].
    unfold in_t in Hj. rewrite ntrans_call in Hj. rewrite entries_call.
    destruct (entered_blocked_block N bd IH Hfb (body_pos t p) (pa p) _ Hw j Hj) as (q & Q1 & Q2 & Q3).
    exists q. split; [exact Q1|]. split; [|exact Q3]. unfold in_p, in_pb in *. rewrite nplaces_call. exact Q2.
  - pose proof (frag_par _ Hf) as [Hne Hfb]. cbn [wired] in Hw. destruct Hw as (H1 & _ & _ & Hw).
    unfold in_t in Hj. rewrite ntrans_par in Hj. cbn [entries]. set (q0 := par_pos p) in *.
    assert (Hent : forall x, In x (cat_of entries bs q0) -> exists k b, nth_error bs k = Some b /\ in_p b (bpos bs q0 k) x /\ x <> xplace b (bpos bs q0 k)).
    { intros x Hx. apply in_cat_of in Hx. destruct Hx as (k & b & Hb & Hx). exists k, b. split; [exact Hb|].
      apply (entries_range b (proj1 (frag_brs_nth _ _ _ Hfb Hb)) _ x Hx). }
    assert (Hsub : forall k b x, nth_error bs k = Some b -> in_p b (bpos bs q0 k) x -> in_p (XParallel bs) p x).
    { intros k b x Hb Hx. pose proof (bpos_range bs q0 k b Hb) as R. unfold in_p in *. rewrite nplaces_par.
      unfold q0 in R. cbn [par_pos pp] in R. fold q0 in R. lia. }
    assert (Hbr : forall k b x, nth_error bs k = Some b -> in_p b (bpos bs q0 k) x ->
                                (In x (cat_of entries bs q0) -> In x (entries b (bpos bs q0 k)))).
    { intros k b x Hb Hx Hin. apply in_cat_of in Hin. destruct Hin as (k' & b' & Hb' & Hin).
      destruct (Nat.eq_dec k' k) as [->|Hkk]; [rewrite Hb in Hb'; inversion Hb'; subst; exact Hin|].
      exfalso. destruct (entries_range b' (proj1 (frag_brs_nth _ _ _ Hfb Hb')) _ x Hin) as [Hr _]. unfold in_p in *.
      destruct (Nat.lt_ge_cases k' k) as [Hlt|Hge].
      - pose proof (bpos_mono bs q0 k' k b' b Hlt Hb' Hb). lia.
      - pose proof (bpos_mono bs q0 k k' b b' ltac:(lia) Hb Hb'). lia. }
    destruct (Nat.eq_dec j (pt p)) as [->|Hnj].
    + destruct bs as [|b0 r]; [congruence|].
      assert (Hb0 : nth_error (b0 :: r) 0 = Some b0) by reflexivity.
      destruct (frag_brs_nth _ _ _ Hfb Hb0) as [Hf0 _].
      exists (xplace b0 (bpos (b0 :: r) q0 0)). rewrite H1. split; [apply in_cat_of; exists 0, b0; split; [exact Hb0|left; reflexivity]|].
      pose proof (xplace_range b0 Hf0 (bpos (b0 :: r) q0 0)) as X. split; [eapply Hsub; [exact Hb0|exact X]|].
      intro Hin. apply (Hbr 0 b0 _ Hb0 X) in Hin. destruct (entries_range b0 Hf0 _ _ Hin) as [_ Hn]. congruence.
    + destruct (list_cover bs q0 j) as (k & b & Hb & Hin); [unfold q0; cbn [par_pos pt]; lia|].
      destruct (frag_brs_nth _ _ _ Hfb Hb) as [Hfbk _]. rewrite Forall_forall in IH.
      destruct (IH b (nth_error_In _ _ Hb) Hfbk _ _ _ (wired_list_nth _ _ _ _ _ _ Hw Hb) j Hin) as (q & Q1 & Q2 & Q3).
      exists q. split; [exact Q1|]. split; [eapply Hsub; eassumption|]. intro Hi. apply Q3. eapply Hbr; eassumption.
  - destruct (list_nil_dec F) as [->|HneF].
    { pose proof (frag_cond0 _ _ Hf) as HfP. cbn [wired] in Hw.
      destruct Hw as (W1 & _ & _ & W4 & _ & _ & W7 & _ & _ & WP).
      unfold in_t in Hj. rewrite ntrans_cond0 in Hj. unfold in_p. rewrite nplaces_cond. cbn [entries].
      pose proof (xplace_range_b P HfP (cond_p p)) as XP. cbn [cond_p pp] in XP.
      destruct (Nat.eq_dec j (pt p)) as [->|N0']; [|destruct (Nat.eq_dec j (pt p + 1)) as [->|N1];
        [|destruct (Nat.eq_dec j (pt p + 2)) as [->|N2]]].
      + exists (pp p). rewrite W1. split; [right; left; reflexivity|]. split; [lia|]. intros [E|[]]. lia.
      + exists (pp p + 1). rewrite W4. split; [right; left; reflexivity|]. split; [lia|]. intros [E|[]]. lia.
      + exists (xplace_b P (cond_p p)). rewrite W7. split; [left; reflexivity|]. split; [lia|]. intros [E|[]]. lia.
      + destruct (exit_blocked_block N P (cond_p p) ctx [] HfP WP j) as (q & Q1 & Q2 & _); [unfold in_tb; cbn [cond_p pt]; lia|].
        exists q. split; [exact Q1|]. unfold in_pb in Q2. cbn [cond_p pp] in Q2. split; [lia|]. intros [E|[]]. lia. }
    pose proof (frag_cond_ne _ _ _ HneF Hf) as [HfP HfF]. rewrite (wired_cond_ne _ _ _ _ _ _ _ HneF) in Hw.
    destruct Hw as (W1 & _ & _ & W4 & _ & _ & W7 & _ & _ & W10 & _ & _ & WP & WF).
    unfold in_t in Hj. rewrite (ntrans_cond_ne _ _ _ HneF) in Hj. unfold in_p. rewrite nplaces_cond. cbn [entries].
    pose proof (xplace_range_b P HfP (cond_p p)) as XP. cbn [cond_p pp] in XP.
    pose proof (xplace_range_b F HfF (cond_f P p)) as XF. cbn [cond_f pp] in XF.
    destruct (Nat.eq_dec j (pt p)) as [->|N0']; [|destruct (Nat.eq_dec j (pt p + 1)) as [->|N1];
      [|destruct (Nat.eq_dec j (pt p + 2)) as [->|N2]; [|destruct (Nat.eq_dec j (cond_sf P p)) as [->|N3]]]].
    + exists (pp p). rewrite W1. split; [right; left; reflexivity|]. split; [lia|]. intros [E|[]]. lia.
    + exists (pp p + 1). rewrite W4. split; [right; left; reflexivity|]. split; [lia|]. intros [E|[]]. lia.
    + exists (xplace_b P (cond_p p)). rewrite W7. split; [left; reflexivity|]. split; [lia|]. intros [E|[]]. lia.
    + exists (xplace_b F (cond_f P p)). rewrite W10. split; [left; reflexivity|]. split; [lia|]. intros [E|[]]. lia.
    + unfold cond_sf in N3. destruct (Nat.lt_ge_cases j (pt p + 3 + ntrans_b P)) as [Hlt|Hge].
      * destruct (exit_blocked_block N P (cond_p p) ctx [] HfP WP j) as (q & Q1 & Q2 & _); [unfold in_tb; cbn [cond_p pt]; lia|].
        exists q. split; [exact Q1|]. unfold in_pb in Q2. cbn [cond_p pp] in Q2. split; [lia|]. intros [E|[]]. lia.
      * destruct (exit_blocked_block N F (cond_f P p) ctx [] HfF WF j) as (q & Q1 & Q2 & _); [unfold in_tb; cbn [cond_f pt]; lia|].
        exists q. split; [exact Q1|]. unfold in_pb in Q2. cbn [cond_f pp] in Q2. split; [lia|]. intros [E|[]]. lia.
  - (* while loop *)
    pose proof (frag_while _ _ Hf) as HfB. cbn [wired] in Hw.
    destruct Hw as (W1 & _ & _ & W4 & _ & _ & W7 & _ & _ & WB).
    unfold in_t in Hj. rewrite ntrans_while in Hj. unfold in_p. rewrite nplaces_while. cbn [entries].
    pose proof (xplace_range_b b HfB (loop_p p)) as XB. cbn [loop_p pp] in XB.
    destruct (Nat.eq_dec j (pt p)) as [->|N0']; [|destruct (Nat.eq_dec j (pt p + 1)) as [->|N1];
      [|destruct (Nat.eq_dec j (pt p + 2)) as [->|N2]]].
    + exists (pp p + 1). rewrite W1. split; [right; left; reflexivity|]. split; [lia|]. intros [E|[]]. lia.
    + exists (pp p + 2). rewrite W4. split; [right; left; reflexivity|]. split; [lia|]. intros [E|[]]. lia.
    + exists (xplace_b b (loop_p p)). rewrite W7. split; [left; reflexivity|]. split; [lia|]. intros [E|[]]. lia.
    + destruct (exit_blocked_block N b (loop_p p) ctx [] HfB WB j) as (q & Q1 & Q2 & _); [unfold in_tb; cbn [loop_p pt]; lia|].
      exists q. split; [exact Q1|]. unfold in_pb in Q2. cbn [loop_p pp] in Q2. split; [lia|]. intros [E|[]]. lia.
  - (* counting loop *)
    pose proof (frag_count _ _ _ Hf) as HfB. cbn [wired] in Hw.
    destruct Hw as (W1 & _ & _ & W4 & _ & _ & W7 & _ & _ & WB).
    unfold in_t in Hj. rewrite ntrans_count in Hj. unfold in_p. rewrite nplaces_count. cbn [entries].
    pose proof (xplace_range_b b HfB (loop_p p)) as XB. cbn [loop_p pp] in XB.
    destruct (Nat.eq_dec j (pt p)) as [->|N0']; [|destruct (Nat.eq_dec j (pt p + 1)) as [->|N1];
      [|destruct (Nat.eq_dec j (pt p + 2)) as [->|N2]]].
    + exists (pp p + 1). rewrite W1. split; [right; left; reflexivity|]. split; [lia|]. intros [E|[]]. lia.
    + exists (pp p + 2). rewrite W4. split; [right; left; reflexivity|]. split; [lia|]. intros [E|[]]. lia.
    + exists (xplace_b b (loop_p p)). rewrite W7. split; [left; reflexivity|]. split; [lia|]. intros [E|[]]. lia.
    + destruct (exit_blocked_block N b (loop_p p) ctx [] HfB WB j) as (q & Q1 & Q2 & _); [unfold in_tb; cbn [loop_p pt]; lia|].
      exists q. split; [exact Q1|]. unfold in_pb in Q2. cbn [loop_p pp] in Q2. split; [lia|]. intros [E|[]]. lia.
Qed.

Lemma cnt_cat_entries_at : forall bs q k b x,
    frag_brs bs = true -> nth_error bs k = Some b -> in_p b (bpos bs q k) x ->
    cnt (cat_of entries bs q) x = cnt (entries b (bpos bs q k)) x.
Proof.
  induction bs as [|b1 br IH]; intros q k b x Hf Hb Hx; [destruct k; discriminate Hb|].
  apply frag_brs_cons in Hf. destruct Hf as (_ & Hf1 & Hfr).
  cbn [cat_of]. rewrite cnt_app. destruct k as [|k]; cbn [nth_error bpos] in *.
  - inversion Hb; subst b1.
    assert (cnt (cat_of entries br (adv b q)) x = 0); [|lia].
    apply not_in_cnt. intro Hi. apply in_cat_of in Hi. destruct Hi as (k' & b' & Hb' & Hi).
    destruct (entries_range b' (proj1 (frag_brs_nth _ _ _ Hfr Hb')) _ x Hi) as [R _].
    pose proof (bpos_range br (adv b q) k' b' Hb') as R'. unfold in_p in *. cbn [adv pp] in R'. lia.
  - rewrite (IH (adv b1 q) k b x Hfr Hb Hx).
    assert (cnt (entries b1 q) x = 0); [|lia].
    apply not_in_cnt. intro Hi. destruct (entries_range b1 Hf1 _ x Hi) as [R _].
    pose proof (bpos_range br (adv b1 q) k b Hb) as R'. unfold in_p in *. cbn [adv pp] in R'. lia.
Qed.

Lemma cat_entries_range : forall bs q x, frag_brs bs = true -> In x (cat_of entries bs q) ->
    pp q <= x < pp q + nplaces_l bs.
Proof.
  intros bs q x Hf Hi. apply in_cat_of in Hi. destruct Hi as (k & b & Hb & Hi).
  destruct (entries_range b (proj1 (frag_brs_nth _ _ _ Hf Hb)) _ x Hi) as [R _].
  pose proof (bpos_range bs q k b Hb) as R'. unfold in_p in *. lia.
Qed.

Lemma mlx_nd : forall st b q, is_done st = false -> mlx st b q = ml st b q.
Proof. intros st b q H. destruct st; try reflexivity. discriminate H. Qed.

Lemma in_ids_nd : forall st id, In id (svc_ids st) -> is_done st = false.
Proof. intros st id H. destruct st; try reflexivity. contradiction. Qed.

(* [NC] = "the program has no counting loop" must be false wherever a counting loop stands (the
   counters store stays empty in programs without counting loops); nothing else is required:
   [rt] is not used any more (it once confined counting loops to the production task), and
   parameters may mention loop indices *)
Fixpoint sok (NC rt : bool) (s : xstmt) : bool :=
  match s with
  | XService _ _ ins => true
  | XCall _ _ ins body => true && forallb (sok NC rt) body
  | XParallel bs => forallb (sok NC rt) bs
  | XCond _ P F => forallb (sok NC rt) P && forallb (sok NC rt) F
  | XWhile _ B => forallb (sok NC rt) B
  | XCount _ _ B => negb NC && forallb (sok NC rt) B
  | XParLoop _ _ _ => true
  end.
Definition sok_block (NC rt : bool) (l : list xstmt) : bool := forallb (sok NC rt) l.

Lemma sok_block_nth : forall NC rt l i s, sok_block NC rt l = true -> nth_error l i = Some s -> sok NC rt s = true.
Proof.
  intros NC rt l i s H Hn. unfold sok_block in H. rewrite forallb_forall in H. apply H. eapply nth_error_In. exact Hn.
Qed.


(* the keys of the running loops are sites above the position: a loop that starts has a new key *)
Definition klb (kl : list (site * nat)) (p : pos) : Prop :=
  forall key k, In (key, k) kl -> List.length (st_path key) <= List.length (s_pre (psi p)).

Lemma psi_first_pos : forall l p, s_pre (psi (first_pos l p)) = s_pre (psi p) /\ s_tn (psi (first_pos l p)) = s_tn (psi p).
Proof. intros l p. unfold first_pos. destruct l as [|s [|s' r]]; split; reflexivity. Qed.

Lemma psi_spos : forall l p i, s_pre (psi (spos l p i)) = s_pre (psi p) /\ s_tn (psi (spos l p i)) = s_tn (psi p).
Proof.
  induction l as [|s r IH]; intros p i; [destruct i; split; reflexivity|].
  destruct i as [|i]; cbn [spos].
  - apply psi_first_pos.
  - destruct (IH (adv s (first_pos (s :: r) p)) i) as [E1 E2]. rewrite E1, E2.
    destruct (psi_first_pos (s :: r) p) as [F1 F2]. cbn [adv psi si_next s_pre s_tn]. split; assumption.
Qed.

Lemma psi_spos_il : forall l p i, s_il (psi (spos l p i)) = s_il (psi p).
Proof.
  induction l as [|s r IH]; intros p i; [destruct i; reflexivity|].
  destruct i as [|i]; cbn [spos].
  - unfold first_pos. destruct r; reflexivity.
  - rewrite IH. unfold first_pos. destruct r; reflexivity.
Qed.

Lemma klb_spos : forall kl l p i, klb kl p -> klb kl (spos l p i).
Proof. intros kl l p i H key k Hin. rewrite (proj1 (psi_spos l p i)). apply (H key k Hin). Qed.

Lemma klb_sub : forall kl p q, List.length (s_pre (psi p)) <= List.length (s_pre (psi q)) -> klb kl p -> klb kl q.
Proof. intros kl p q Hle H key k Hin. specialize (H key k Hin). lia. Qed.

Lemma klb_push : forall kl p k, klb kl p -> klb ((pkey p, k) :: kl) (loop_p p).
Proof.
  intros kl p k H key k0 [E|Hin].
  - inversion E; subst. unfold pkey, loop_p, si_loop, s_path. cbn [st_path psi s_pre]. rewrite app_length. cbn. lia.
  - specialize (H key k0 Hin). unfold loop_p, si_loop, s_path. cbn [psi s_pre]. rewrite app_length. cbn. lia.
Qed.

Lemma klb_fresh : forall kl p, klb kl p -> forall k, ~ In (pkey p, k) kl.
Proof.
  intros kl p H k Hin. specialize (H _ _ Hin). unfold pkey, s_path in H. cbn [st_path] in H.
  rewrite app_length in H. cbn in H. lia.
Qed.

End WithLV.
