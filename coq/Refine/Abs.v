(* Refine/Abs.v — the abstraction between the two models: positions of the statements of a
   block and of the branches of a Parallel, the marking [ml] that a reference state denotes
   on the laid-out net, the run-time content of the API store for the active part of the tree
   ([act]) and structural facts about enabledness (every transition of a component reads
   places of that component only; in a stable state nothing inside a component is enabled).
   Proof file. *)
From PFDL Require Import NetModel RefBase.
From PFDL.Refine Require Import Eval Layout GenSpec.
From Coq Require Import Lia.

(* ---- positions inside a block / a Parallel ---- *)
Fixpoint spos (l : list xstmt) (p : pos) (i : nat) : pos :=
  match l with
  | [] => p
  | s :: r => match i with
              | 0 => first_pos l p
              | S i' => spos r (adv s (first_pos l p)) i'
              end
  end.
Fixpoint bpos (l : list xstmt) (q : pos) (k : nat) : pos :=
  match l with
  | [] => q
  | b :: r => match k with 0 => q | S k' => bpos r (adv b q) k' end
  end.

Lemma spos_cons2 : forall s s' r p i,
    spos (s :: s' :: r) p (S i) = spos (s' :: r) (adv s (conn_skip p)) i.
Proof. reflexivity. Qed.

Lemma nplaces_l_le : forall l i s, nth_error l i = Some s -> nplaces s <= nplaces_l l.
Proof.
  induction l as [|x r IH]; intros [|i] s H; cbn [nth_error] in H; try discriminate; rewrite nplaces_l_cons.
  - inversion H; subst. lia.
  - specialize (IH _ _ H). lia.
Qed.

(* the statements of a block lie inside the block, in order (the connection that follows
   statement i is created just before it: index pt (spos l p i) - 1) *)
Lemma spos_range : forall l p i s, nth_error l i = Some s ->
    pp p <= pp (spos l p i) /\ pp (spos l p i) + nplaces s <= pp p + nplaces_l l /\
    pt p <= pt (spos l p i) /\ pt (spos l p i) + ntrans s <= pt p + ntrans_b l /\
    pa p <= pa (spos l p i) /\ pa (spos l p i) + napis s <= pa p + napis_l l.
Proof.
  induction l as [|x r IH]; intros p i s H; [destruct i; discriminate H|].
  destruct r as [|x' r].
  - destruct i as [|i]; [|destruct i; discriminate H]. cbn [nth_error] in H. inversion H; subst.
    cbn [spos first_pos]. rewrite nplaces_l_one, napis_l_one, ntrans_b_one. lia.
  - rewrite nplaces_l_cons, napis_l_cons, ntrans_b_cons. destruct i as [|i].
    + cbn [nth_error] in H. inversion H; subst. cbn [spos first_pos conn_skip pp pt pa]. lia.
    + cbn [nth_error] in H. rewrite spos_cons2.
      specialize (IH (adv x (conn_skip p)) i s H). cbn [adv conn_skip pp pt pa] in IH. lia.
Qed.

Lemma spos_mono : forall l p i k s s', i < k ->
    nth_error l i = Some s -> nth_error l k = Some s' ->
    pp (spos l p i) + nplaces s <= pp (spos l p k) /\
    pt (spos l p i) + ntrans s <= pt (spos l p k) /\
    pa (spos l p i) + napis s <= pa (spos l p k).
Proof.
  induction l as [|x r IH]; intros p i k s s' Hik Hi Hk; [destruct i; discriminate Hi|].
  destruct k as [|k]; [lia|]. destruct r as [|x' r]; [destruct k; discriminate Hk|].
  cbn [nth_error] in Hk. rewrite (spos_cons2 x x' r p k). destruct i as [|i].
  - cbn [nth_error] in Hi. inversion Hi; subst. change (spos (s :: x' :: r) p 0) with (conn_skip p).
    pose proof (spos_range (x' :: r) (adv s (conn_skip p)) k s' Hk) as R. cbn [adv conn_skip pp pt pa] in *. lia.
  - cbn [nth_error] in Hi. rewrite spos_cons2. apply (IH _ i k s s'); try assumption. lia.
Qed.

(* ---- reading [wired_block] by index ---- *)
Lemma wired_block_nth : forall (W : xstmt -> pos -> nat -> list cb -> Prop) N ctx xcbs l p i s,
    wired_block W N ctx xcbs l p -> nth_error l i = Some s ->
    W s (spos l p i) ctx (if Nat.eqb (S i) (List.length l) then xcbs else []) /\
    (forall s', nth_error l (S i) = Some s' ->
                let c := pt (spos l p i) - 1 in
                preN N c = [xplace s (spos l p i)] /\
                postN N c = entries s' (spos l p (S i)) /\
                cbsN N c = startcbs s' (spos l p (S i))).
Proof.
  intros W N ctx xcbs. induction l as [|x r IH]; intros p i s Hw Hn; [destruct i; discriminate Hn|].
  destruct r as [|x' r].
  - destruct i as [|i]; [|destruct i; discriminate Hn]. cbn [nth_error] in Hn. inversion Hn; subst.
    cbn [wired_block] in Hw. cbn [spos first_pos List.length Nat.eqb]. split; [exact Hw|].
    intros s' H'. discriminate H'.
  - cbn [wired_block] in Hw. cbv zeta in Hw. destruct Hw as (H1 & H2 & H3 & Hs & Hr).
    destruct i as [|i].
    + cbn [nth_error] in Hn. inversion Hn; subst. cbn [spos first_pos]. split.
      * cbn [List.length Nat.eqb]. exact Hs.
      * intros s' H'. cbn [nth_error] in H'. inversion H'; subst.
        cbv zeta. cbn [conn_skip pt]. replace (S (pt p) - 1) with (pt p) by lia.
        split; [exact H1|]. split; [exact H2|exact H3].
    + cbn [nth_error] in Hn. rewrite spos_cons2.
      destruct (IH (adv x (conn_skip p)) i s Hr Hn) as [A B]. split.
      * cbn [List.length] in *. exact A.
      * intros s' H'. cbn [nth_error] in H'. rewrite (spos_cons2 x x' r p (S i)). apply B. exact H'.
Qed.

Lemma bpos_range : forall l q k b, nth_error l k = Some b ->
    pp q <= pp (bpos l q k) /\ pp (bpos l q k) + nplaces b <= pp q + nplaces_l l /\
    pt q <= pt (bpos l q k) /\ pt (bpos l q k) + ntrans b <= pt q + ntrans_l l /\
    pa q <= pa (bpos l q k) /\ pa (bpos l q k) + napis b <= pa q + napis_l l.
Proof.
  induction l as [|x r IH]; intros q k b H; [destruct k; discriminate H|].
  rewrite nplaces_l_cons, napis_l_cons, ntrans_l_cons. destruct k as [|k]; cbn [nth_error bpos] in *.
  - inversion H; subst. lia.
  - specialize (IH (adv x q) k b H). cbn [adv pp pt pa] in IH. lia.
Qed.

Lemma bpos_mono : forall l q k k' b b', k < k' ->
    nth_error l k = Some b -> nth_error l k' = Some b' ->
    pp (bpos l q k) + nplaces b <= pp (bpos l q k') /\
    pt (bpos l q k) + ntrans b <= pt (bpos l q k') /\
    pa (bpos l q k) + napis b <= pa (bpos l q k').
Proof.
  induction l as [|x r IH]; intros q k k' b b' Hk H H'; [destruct k; discriminate H|].
  destruct k' as [|k']; [lia|]. cbn [nth_error bpos] in H'. destruct k as [|k]; cbn [nth_error bpos] in *.
  - inversion H; subst. pose proof (bpos_range r (adv b q) k' b' H') as R. cbn [adv pp pt pa] in R. lia.
  - apply (IH _ k k' b b'); try assumption. lia.
Qed.

Lemma wired_list_nth : forall (W : xstmt -> pos -> nat -> list cb -> Prop) ctx l q k b,
    wired_list W ctx l q -> nth_error l k = Some b -> W b (bpos l q k) ctx [].
Proof.
  intros W ctx. induction l as [|x r IH]; intros q k b Hw H; [destruct k; discriminate H|].
  cbn [wired_list] in Hw. destruct Hw as [Hx Hr]. destruct k as [|k]; cbn [nth_error bpos] in *.
  - inversion H; subst. exact Hx.
  - apply IH; assumption.
Qed.

Lemma in_cat_of : forall A (f : xstmt -> pos -> list A) l q x,
    In x (cat_of f l q) <-> exists k b, nth_error l k = Some b /\ In x (f b (bpos l q k)).
Proof.
  intros A f. induction l as [|y r IH]; intros q x; cbn [cat_of].
  - split; [intros []|intros (k & b & H & _); destruct k; discriminate H].
  - rewrite in_app_iff, IH. split.
    + intros [H|(k & b & H & Hin)]; [exists 0, y; split; [reflexivity|exact H]|exists (S k), b; split; assumption].
    + intros (k & b & H & Hin). destruct k as [|k]; cbn [nth_error bpos] in *.
      * inversion H; subst. left. exact Hin.
      * right. exists k, b. split; assumption.
Qed.

(* ---- every transition of a component reads places of that component only, at least one,
        and never the component's own exit place ---- *)
Definition pre_ok (N : NS) (s : xstmt) (p : pos) : Prop :=
  forall j, pt p <= j < pt p + ntrans s ->
            preN N j <> [] /\ forall q, In q (preN N j) -> pp p <= q < pp p + nplaces s /\ q <> xplace s p.

Lemma pre_ok_block : forall N l,
    Forall (fun s => frag s = true -> forall p ctx xcbs, wired N s p ctx xcbs -> pre_ok N s p) l ->
    frag_block l = true -> forall p ctx xcbs, wired_block (wired N) N ctx xcbs l p ->
    forall j, pt p <= j < pt p + ntrans_b l ->
              preN N j <> [] /\ forall q, In q (preN N j) -> pp p <= q < pp p + nplaces_l l /\ q <> xplace_b l p.
Proof.
  intros N. induction l as [|s r IH]; intros HF Hf p ctx xcbs Hw j Hj; [discriminate|].
  inversion HF as [|? ? Hs Hr]; subst. apply frag_block_cons in Hf. destruct Hf as [Hfs Hfr].
  destruct r as [|s' r].
  - cbn [wired_block] in Hw. rewrite ntrans_b_one in Hj. rewrite nplaces_l_one. unfold xplace_b. rewrite last_of_one.
    apply (Hs Hfs p ctx xcbs Hw j Hj).
  - destruct Hfr as [Hfr|Hfr]; [discriminate|].
    cbn [wired_block] in Hw. cbv zeta in Hw. destruct Hw as (H1 & H2 & H3 & Hws & Hwr).
    rewrite ntrans_b_cons in Hj. rewrite nplaces_l_cons. unfold xplace_b. rewrite last_of_cons.
    pose proof (xplace_range s Hfs (conn_skip p)) as Xs. cbn [conn_skip pp] in Xs.
    pose proof (xplace_range_b (s' :: r) Hfr (adv s (conn_skip p))) as Xr. cbn [adv conn_skip pp] in Xr. unfold xplace_b in Xr.
    destruct (Nat.eq_dec j (pt p)) as [->|Hne].
    + rewrite H1. split; [discriminate|]. intros q [<-|[]]. lia.
    + destruct (Nat.lt_ge_cases j (S (pt p) + ntrans s)) as [Hlt|Hge].
      * destruct (Hs Hfs (conn_skip p) ctx [] Hws j) as [Hne' Hin]; [cbn [conn_skip pt]; lia|].
        split; [exact Hne'|]. intros q Hq. destruct (Hin q Hq) as [Hr1 _]. cbn [conn_skip pp] in Hr1. lia.
      * destruct (IH Hr Hfr (adv s (conn_skip p)) ctx xcbs Hwr j) as [Hne' Hin]; [cbn [adv conn_skip pt]; lia|].
        split; [exact Hne'|]. intros q Hq. destruct (Hin q Hq) as [Hr1 Hr2]. cbn [adv conn_skip pp] in Hr1.
        unfold xplace_b in Hr2. split; [lia|exact Hr2].
Qed.

Lemma pre_ok_list : forall N l,
    Forall (fun s => frag s = true -> forall p ctx xcbs, wired N s p ctx xcbs -> pre_ok N s p) l ->
    frag_brs l = true -> forall q ctx, wired_list (wired N) ctx l q ->
    forall j, pt q <= j < pt q + ntrans_l l ->
              preN N j <> [] /\ forall x, In x (preN N j) -> pp q <= x < pp q + nplaces_l l.
Proof.
  intros N. induction l as [|b r IH]; intros HF Hf q ctx Hw j Hj.
  - unfold ntrans_l in Hj. cbn in Hj. lia.
  - inversion HF as [|? ? Hb Hr]; subst. apply frag_brs_cons in Hf. destruct Hf as (_ & Hfb & Hfr).
    cbn [wired_list] in Hw. destruct Hw as [Hwb Hwr]. rewrite ntrans_l_cons in Hj. rewrite nplaces_l_cons.
    destruct (Nat.lt_ge_cases j (pt q + ntrans b)) as [Hlt|Hge].
    + destruct (Hb Hfb q ctx [] Hwb j ltac:(lia)) as [Hne Hin]. split; [exact Hne|].
      intros x Hx. destruct (Hin x Hx) as [Hr1 _]. lia.
    + destruct (IH Hr Hfr (adv b q) ctx Hwr j) as [Hne Hin]; [cbn [adv pt]; lia|]. split; [exact Hne|].
      intros x Hx. specialize (Hin x Hx). cbn [adv pp] in Hin. lia.
Qed.

Lemma pre_ok_all : forall N s, frag s = true -> forall p ctx xcbs, wired N s p ctx xcbs -> pre_ok N s p.
Proof.
  intros N.
  induction s as [n a i|t a i body IH|bs IH|e0 p f IHp IHf|e0 b IH|v l b IH|v l c IH] using xstmt_ind';
    intros Hf p0 ctx xcbs Hw; try discriminate Hf.
  - cbn [wired] in Hw. destruct Hw as (H1 & _). intros j Hj. cbn [ntrans] in Hj. assert (j = pt p0) by lia. subst j.
    rewrite H1. split; [discriminate|]. intros q [<-|[<-|[]]]; cbn [nplaces xplace]; lia.
  - apply frag_call in Hf. destruct Hf as [_ Hf]. cbn [wired] in Hw. destruct Hw as [_ Hw].
    intros j Hj. rewrite ntrans_call in Hj. rewrite nplaces_call. cbn [xplace].
    apply (pre_ok_block N body IH Hf (body_pos p0) (pa p0) (CbTF (pa p0) :: xcbs) Hw j Hj).
  - pose proof (frag_par _ Hf) as [Hne Hfb]. cbn [wired] in Hw. destruct Hw as (H1 & _ & _ & Hw).
    intros j Hj. rewrite ntrans_par in Hj. rewrite nplaces_par. cbn [xplace].
    destruct (Nat.eq_dec j (pt p0)) as [->|Hnj].
    + rewrite H1. split.
      * destruct bs as [|b r]; [congruence|]. cbn [cat_of app]. discriminate.
      * intros q Hq. apply in_cat_of in Hq. destruct Hq as (k & b & Hk & [<-|[]]).
        assert (Hfb' : frag b = true).
        { unfold frag_brs in Hfb. rewrite forallb_forall in Hfb. apply nth_error_In in Hk. apply Hfb in Hk.
          apply andb_prop in Hk. apply Hk. }
        pose proof (xplace_range b Hfb' (bpos bs (par_pos p0) k)) as X.
        pose proof (bpos_range bs (par_pos p0) k b Hk) as R. cbn [par_pos pp] in R. lia.
    + destruct (pre_ok_list N bs IH Hfb (par_pos p0) ctx Hw j) as [Hne' Hin]; [cbn [par_pos pt]; lia|].
      split; [exact Hne'|]. intros q Hq. specialize (Hin q Hq). cbn [par_pos pp] in Hin. lia.
Qed.

(* =========================================================================== *)
(* markings                                                                     *)
(* =========================================================================== *)
Definition cnt (l : list nat) (q : nat) : nat := count_occ Nat.eq_dec l q.

Lemma cnt_app : forall l1 l2 q, cnt (l1 ++ l2) q = cnt l1 q + cnt l2 q.
Proof. intros. apply count_occ_app. Qed.
Lemma cnt_nil : forall q, cnt [] q = 0. Proof. reflexivity. Qed.
Lemma cnt_cons_eq : forall l q, cnt (q :: l) q = S (cnt l q).
Proof. intros. unfold cnt. apply count_occ_cons_eq. reflexivity. Qed.
Lemma cnt_cons_neq : forall l q x, x <> q -> cnt (x :: l) q = cnt l q.
Proof. intros. unfold cnt. apply count_occ_cons_neq. assumption. Qed.
Lemma cnt_pos_in : forall l q, 0 < cnt l q <-> In q l.
Proof. intros. unfold cnt. symmetry. apply count_occ_In. Qed.
Lemma cnt_notin : forall l q, ~ In q l -> cnt l q = 0.
Proof. intros. unfold cnt. apply count_occ_not_In. assumption. Qed.
Global Opaque cnt.

Definition tok (ps : list (option nat)) (q : nat) : nat :=
  match nth_error ps q with Some (Some k) => k | _ => 0 end.

Lemma tokens_tok : forall s q, tokens s q = tok (ns_places s) q.
Proof. reflexivity. Qed.

Lemma tok_upd : forall (f : nat -> nat) ps p q,
    tok (upd p (option_map f) ps) q =
    if Nat.eqb q p then match nth_error ps q with Some (Some k) => f k | _ => 0 end else tok ps q.
Proof.
  intros f ps p q. unfold tok. destruct (Nat.eqb_spec q p) as [->|Hne].
  - destruct (nth_error ps p) as [o|] eqn:E.
    + rewrite (nth_error_upd_eq _ _ _ _ _ E). destruct o; reflexivity.
    + assert (Hn : nth_error (upd p (option_map f) ps) p = None).
      { apply nth_error_None. rewrite upd_length. apply nth_error_None. exact E. }
      rewrite Hn. reflexivity.
  - rewrite nth_error_upd_neq by congruence. reflexivity.
Qed.

Lemma tok_fold_pred : forall l ps q,
    tok (fold_left (fun ps p => upd p (option_map Nat.pred) ps) l ps) q = tok ps q - cnt l q.
Proof.
  induction l as [|p l IH]; intros ps q; cbn [fold_left].
  - rewrite cnt_nil. lia.
  - rewrite IH, tok_upd. destruct (Nat.eqb_spec q p) as [->|Hne].
    + rewrite cnt_cons_eq. unfold tok. destruct (nth_error ps p) as [[k|]|]; lia.
    + rewrite cnt_cons_neq by congruence. reflexivity.
Qed.

Definition all_some (ps : list (option nat)) : Prop := forall q, q < List.length ps -> exists k, nth_error ps q = Some (Some k).

Lemma all_some_upd : forall (f : nat -> nat) ps p, all_some ps -> all_some (upd p (option_map f) ps).
Proof.
  intros f ps p H q Hq. rewrite upd_length in Hq. destruct (H q Hq) as [k Hk].
  destruct (Nat.eq_dec p q) as [->|Hne].
  - rewrite (nth_error_upd_eq _ _ _ _ _ Hk). cbn. eauto.
  - rewrite nth_error_upd_neq by exact Hne. eauto.
Qed.

Lemma all_some_fold : forall (f : nat -> nat) l ps,
    all_some ps -> all_some (fold_left (fun ps p => upd p (option_map f) ps) l ps)
                   /\ List.length (fold_left (fun ps p => upd p (option_map f) ps) l ps) = List.length ps.
Proof.
  intros f. induction l as [|p l IH]; intros ps H; cbn [fold_left]; [auto|].
  destruct (IH (upd p (option_map f) ps) (all_some_upd f ps p H)) as [A B].
  split; [exact A|]. rewrite B. apply upd_length.
Qed.

Lemma tok_fold_succ : forall l ps q,
    all_some ps -> (forall x, In x l -> x < List.length ps) ->
    tok (fold_left (fun ps p => upd p (option_map S) ps) l ps) q = tok ps q + cnt l q.
Proof.
  induction l as [|p l IH]; intros ps q Ha Hl; cbn [fold_left].
  - rewrite cnt_nil. lia.
  - rewrite IH.
    + rewrite tok_upd. destruct (Nat.eqb_spec q p) as [->|Hne].
      * rewrite cnt_cons_eq. unfold tok. destruct (Ha p (Hl p (or_introl eq_refl))) as [k Hk]. rewrite Hk. lia.
      * rewrite cnt_cons_neq by congruence. reflexivity.
    + apply all_some_upd. exact Ha.
    + intros x Hx. rewrite upd_length. apply Hl. right. exact Hx.
Qed.

(* the marking of [s] is the multiset [m] *)
Definition Marks (s : NS) (m : list nat) : Prop :=
  all_some (ns_places s) /\ forall q, tokens s q = cnt m q.

Lemma places_fire_ns : forall t s, ns_places (fire_ns t s) =
    fold_left (fun ps p => upd p (option_map S) ps) (tr_post t)
              (fold_left (fun ps p => upd p (option_map Nat.pred) ps) (tr_pre t) (ns_places s)).
Proof. reflexivity. Qed.

Lemma Marks_fire : forall s m t m',
    Marks s m -> (forall x, In x (tr_post t) -> x < List.length (ns_places s)) ->
    (forall q, cnt (tr_pre t) q <= cnt m q) ->
    (forall q, cnt m' q + cnt (tr_pre t) q = cnt m q + cnt (tr_post t) q) ->
    Marks (fire_ns t s) m' /\ List.length (ns_places (fire_ns t s)) = List.length (ns_places s).
Proof.
  intros s m t m' [Ha Hm] Hpost Hen Hm'.
  destruct (all_some_fold Nat.pred (tr_pre t) (ns_places s) Ha) as [A1 L1].
  destruct (all_some_fold S (tr_post t) _ A1) as [A2 L2].
  split; [split|].
  - rewrite places_fire_ns. exact A2.
  - intro q. rewrite tokens_tok, places_fire_ns, tok_fold_succ, tok_fold_pred.
    + rewrite <- tokens_tok, Hm. specialize (Hen q). specialize (Hm' q). lia.
    + exact A1.
    + intros x Hx. rewrite L1. apply Hpost. exact Hx.
  - rewrite places_fire_ns, L2, L1. reflexivity.
Qed.

Lemma enabled_iff : forall s m t, Marks s m -> (enabled s t = true <-> forall q, In q (tr_pre t) -> In q m).
Proof.
  intros s m t [_ Hm]. unfold enabled. rewrite forallb_forall. split; intros H q Hq.
  - specialize (H q Hq). apply Nat.ltb_lt in H. rewrite Hm in H. apply cnt_pos_in. exact H.
  - apply Nat.ltb_lt. rewrite Hm. apply cnt_pos_in. apply H. exact Hq.
Qed.

(* =========================================================================== *)
(* the marking and the API store denoted by a reference state                   *)
(* =========================================================================== *)
(* marked places of the (stable) state [st] of component [s] laid out at [p] *)
Fixpoint ml (st : rst) (s : xstmt) (p : pos) {struct st} : list nat :=
  match st, s with
  | RAwait _, XService _ _ _ => [pp p]
  | RCall _ i st', XCall _ _ _ body =>
    match nth_error body i with
    | Some s' => ml st' s' (spos body (body_pos p) i)
    | None => []
    end
  | RPar sts, XParallel bs =>
    (fix go (sts : list rst) (bs : list xstmt) (q : pos) : list nat :=
       match sts, bs with
       | st1 :: sr, b :: br =>
         (match st1 with RDone => [xplace b q] | _ => ml st1 b q end) ++ go sr br (adv b q)
       | _, _ => []
       end) sts bs (par_pos p)
  | _, _ => []
  end.

(* a finished branch of a Parallel keeps its exit token waiting at the sync *)
Definition mlx (st : rst) (b : xstmt) (q : pos) : list nat :=
  match st with RDone => [xplace b q] | _ => ml st b q end.
Fixpoint ml_list (sts : list rst) (bs : list xstmt) (q : pos) : list nat :=
  match sts, bs with
  | st1 :: sr, b :: br => mlx st1 b q ++ ml_list sr br (adv b q)
  | _, _ => []
  end.
Definition ml_block (body : list xstmt) (bp : pos) (i : nat) (st : rst) : list nat :=
  match nth_error body i with Some s' => ml st s' (spos body bp i) | None => [] end.

Lemma ml_call : forall cid i st t a ins body p,
    ml (RCall cid i st) (XCall t a ins body) p = ml_block body (body_pos p) i st.
Proof. reflexivity. Qed.
Lemma ml_par : forall sts bs p, ml (RPar sts) (XParallel bs) p = ml_list sts bs (par_pos p).
Proof.
  intros sts bs p. cbn [ml]. generalize (par_pos p). revert bs.
  induction sts as [|st1 sr IH]; intros [|b br] q; try reflexivity;
    cbn [ml_list]; rewrite <- IH; reflexivity.
Qed.

Definition EvF (i : nat) : event := EvFinish (ITest i).

(* the API records and place_dict bindings of the active part of the tree, and its shape:
   a service that is awaited carries its test identifier and is bound to its 'finished' place;
   a running call carries its identifier; what is inside a running component is not complete *)
Section Act.
  Variable N0 : NS.
  Variable ns : NS.
  Fixpoint act (st : rst) (s : xstmt) (p : pos) (ctx : nat) {struct st} : Prop :=
    match st, s with
    | RAwait id, XService n at_ ins =>
      nth_error (ns_apis ns) (pa p) = Some (with_uuid (ITest id) (svc_api n at_ ins ctx (pa p))) /\
      dict_get ident_eqb (ITest id) (ns_place_dict ns) = Some (pp p + 1) /\ id < ns_sid ns
    | RCall cid i st', XCall t at_ ins body =>
      nth_error (ns_apis ns) (pa p) = Some (with_uuid (ITest cid) (call_api t at_ ins ctx (pa p))) /\
      is_done st' = false /\
      (forall k s0 a, i < k -> nth_error body k = Some s0 ->
                      pa (spos body (body_pos p) k) <= a < pa (spos body (body_pos p) k) + napis s0 ->
                      nth_error (ns_apis ns) a = nth_error (ns_apis N0) a) /\
      match nth_error body i with
      | Some s' => act st' s' (spos body (body_pos p) i) (pa p)
      | None => False
      end
    | RPar sts, XParallel bs =>
      all_done sts = false /\
      (fix go (sts : list rst) (bs : list xstmt) (q : pos) : Prop :=
         match sts, bs with
         | st1 :: sr, b :: br => act st1 b q ctx /\ go sr br (adv b q)
         | [], [] => True
         | _, _ => False
         end) sts bs (par_pos p)
    | RDone, _ => True
    | _, _ => False
    end.

  Fixpoint act_list (sts : list rst) (bs : list xstmt) (q : pos) (ctx : nat) : Prop :=
    match sts, bs with
    | st1 :: sr, b :: br => act st1 b q ctx /\ act_list sr br (adv b q) ctx
    | [], [] => True
    | _, _ => False
    end.
  Definition act_block (body : list xstmt) (bp : pos) (ctx : nat) (i : nat) (st : rst) : Prop :=
    is_done st = false /\
    (forall k s0 a, i < k -> nth_error body k = Some s0 ->
                    pa (spos body bp k) <= a < pa (spos body bp k) + napis s0 ->
                    nth_error (ns_apis ns) a = nth_error (ns_apis N0) a) /\
    match nth_error body i with Some s' => act st s' (spos body bp i) ctx | None => False end.

  Lemma act_par : forall sts bs p ctx,
      act (RPar sts) (XParallel bs) p ctx <-> all_done sts = false /\ act_list sts bs (par_pos p) ctx.
  Proof.
    intros sts bs p ctx. cbn [act].
    assert (E : forall sts bs q,
               (fix go (sts : list rst) (bs : list xstmt) (q : pos) : Prop :=
                  match sts, bs with
                  | st1 :: sr, b :: br => act st1 b q ctx /\ go sr br (adv b q)
                  | [], [] => True
                  | _, _ => False
                  end) sts bs q <-> act_list sts bs q ctx).
    { induction sts0 as [|st1 sr IH]; intros [|b br] q; cbn [act_list]; try tauto.
      specialize (IH br (adv b q)). tauto. }
    specialize (E sts bs (par_pos p)). tauto.
  Qed.
End Act.

(* ---- which component a transition of a block / a Parallel belongs to ---- *)
Definition in_t (s : xstmt) (p : pos) (j : nat) : Prop := pt p <= j < pt p + ntrans s.
Definition in_p (s : xstmt) (p : pos) (q : nat) : Prop := pp p <= q < pp p + nplaces s.

Lemma block_cover : forall l p j, frag_block l = true -> pt p <= j < pt p + ntrans_b l ->
    (exists k s, nth_error l k = Some s /\ in_t s (spos l p k) j) \/
    (exists k s s', nth_error l k = Some s /\ nth_error l (S k) = Some s' /\ j = pt (spos l p k) - 1).
Proof.
  induction l as [|s r IH]; intros p j Hf Hj; [discriminate|].
  apply frag_block_cons in Hf. destruct Hf as [Hfs Hfr]. destruct r as [|s' r].
  - rewrite ntrans_b_one in Hj. left. exists 0, s. split; [reflexivity|]. cbn [spos first_pos]. exact Hj.
  - destruct Hfr as [Hfr|Hfr]; [discriminate|]. rewrite ntrans_b_cons in Hj.
    destruct (Nat.eq_dec j (pt p)) as [->|Hne].
    + right. exists 0, s, s'. split; [reflexivity|]. split; [reflexivity|]. cbn [spos first_pos conn_skip pt]. lia.
    + destruct (Nat.lt_ge_cases j (S (pt p) + ntrans s)) as [Hlt|Hge].
      * left. exists 0, s. split; [reflexivity|]. cbn [spos first_pos]. unfold in_t. cbn [conn_skip pt]. lia.
      * destruct (IH (adv s (conn_skip p)) j Hfr) as [(k & x & Hk & Hin)|(k & x & x' & Hk & Hk' & Hj')];
          [cbn [adv conn_skip pt]; lia| |].
        -- left. exists (S k), x. split; [exact Hk|]. rewrite spos_cons2. exact Hin.
        -- right. exists (S k), x, x'. split; [exact Hk|]. split; [exact Hk'|]. rewrite spos_cons2. exact Hj'.
Qed.

Lemma list_cover : forall l q j, pt q <= j < pt q + ntrans_l l ->
    exists k b, nth_error l k = Some b /\ in_t b (bpos l q k) j.
Proof.
  induction l as [|b r IH]; intros q j Hj.
  - unfold ntrans_l in Hj. cbn in Hj. lia.
  - rewrite ntrans_l_cons in Hj. destruct (Nat.lt_ge_cases j (pt q + ntrans b)) as [Hlt|Hge].
    + exists 0, b. split; [reflexivity|]. cbn [bpos]. unfold in_t. lia.
    + destruct (IH (adv b q) j) as (k & x & Hk & Hin); [cbn [adv pt]; lia|].
      exists (S k), x. split; [exact Hk|exact Hin].
Qed.

Lemma in_ml_list : forall sts bs q x, In x (ml_list sts bs q) ->
    exists k st b, nth_error sts k = Some st /\ nth_error bs k = Some b /\ In x (mlx st b (bpos bs q k)).
Proof.
  induction sts as [|st1 sr IH]; intros [|b br] q x H; cbn [ml_list] in H; try contradiction.
  apply in_app_or in H. destruct H as [H|H].
  - exists 0, st1, b. repeat split; assumption.
  - destruct (IH br (adv b q) x H) as (k & st & b' & H1 & H2 & H3). exists (S k), st, b'. repeat split; assumption.
Qed.

Lemma frag_block_nth : forall l i s, frag_block l = true -> nth_error l i = Some s -> frag s = true.
Proof.
  intros l i s Hf Hn. destruct l as [|x r]; [discriminate|]. unfold frag_block in Hf.
  rewrite forallb_forall in Hf. apply Hf. eapply nth_error_In. exact Hn.
Qed.
Lemma frag_brs_nth : forall l k b, frag_brs l = true -> nth_error l k = Some b -> frag b = true /\ is_call b = true.
Proof.
  intros l k b Hf Hn. unfold frag_brs in Hf. rewrite forallb_forall in Hf.
  apply nth_error_In in Hn. apply Hf in Hn. apply andb_prop in Hn. tauto.
Qed.

Lemma last_of_spos : forall A (f : xstmt -> pos -> A) d l p, l <> [] ->
    exists s, nth_error l (List.length l - 1) = Some s /\ last_of f d l p = f s (spos l p (List.length l - 1)).
Proof.
  intros A f d. induction l as [|x r IH]; intros p Hne; [congruence|]. destruct r as [|x' r].
  - exists x. split; reflexivity.
  - destruct (IH (adv x (conn_skip p)) ltac:(discriminate)) as (s & Hn & Hl).
    exists s. rewrite last_of_cons. cbn [List.length] in *.
    replace (S (S (List.length r)) - 1) with (S (S (List.length r) - 1)) by lia.
    split; [exact Hn|]. rewrite spos_cons2. exact Hl.
Qed.

Lemma act_list_nth : forall N0 ns sts bs q ctx k st b,
    act_list N0 ns sts bs q ctx -> nth_error sts k = Some st -> nth_error bs k = Some b ->
    act N0 ns st b (bpos bs q k) ctx.
Proof.
  intros N0 ns. induction sts as [|st1 sr IH]; intros [|b1 br] q ctx k st b Ha Hs Hb; cbn [act_list] in Ha;
    try contradiction; try (destruct k; discriminate).
  destruct Ha as [A1 A2]. destruct k as [|k]; cbn [nth_error bpos] in *.
  - inversion Hs; inversion Hb; subst. exact A1.
  - eapply IH; eassumption.
Qed.

Lemma act_list_length : forall N0 ns sts bs q ctx, act_list N0 ns sts bs q ctx -> List.length sts = List.length bs.
Proof.
  intros N0 ns. induction sts as [|st1 sr IH]; intros [|b br] q ctx H; cbn [act_list] in H; try contradiction; [reflexivity|].
  destruct H as [_ H]. cbn. f_equal. eapply IH. exact H.
Qed.

(* the marked places of a stable state lie inside the component and are not its exit place *)
Lemma ml_range : forall N0 ns st s p ctx, frag s = true -> act N0 ns st s p ctx ->
    forall q, In q (ml st s p) -> in_p s p q /\ q <> xplace s p.
Proof.
  intros N0 ns. induction st as [|id|cid i st' IH|sts IH|b i st' IH|k i st' IH|sts IH] using rst_ind';
    intros s p ctx Hf Ha q Hq.
  - destruct s; cbn in Hq; contradiction.
  - destruct s; cbn [act] in Ha; try contradiction. cbn [ml] in Hq. destruct Hq as [<-|[]].
    unfold in_p. cbn [nplaces xplace]. lia.
  - destruct s as [| t at_ ins body | | | | | ]; cbn [act] in Ha; try contradiction.
    destruct Ha as (_ & _ & _ & Ha). rewrite ml_call in Hq. unfold ml_block in Hq.
    destruct (nth_error body i) as [s'|] eqn:En; [|contradiction].
    apply frag_call in Hf. destruct Hf as [_ Hfb]. pose proof (frag_block_nth _ _ _ Hfb En) as Hfs.
    destruct (IH s' _ _ Hfs Ha q Hq) as [Hin Hx].
    pose proof (spos_range body (body_pos p) i s' En) as R. cbn [body_pos pp] in R.
    unfold in_p in *. rewrite nplaces_call. cbn [xplace]. split; [lia|].
    destruct (last_of_spos nat xplace 0 body (body_pos p)) as (sl & Hl & El); [destruct body; [discriminate|discriminate]|].
    rewrite El. destruct (Nat.eq_dec i (List.length body - 1)) as [->|Hne].
    + rewrite En in Hl. inversion Hl; subst. exact Hx.
    + assert (Hil : i < List.length body - 1).
      { assert (i < List.length body) by (apply nth_error_Some; congruence). lia. }
      pose proof (spos_mono body (body_pos p) i _ s' sl Hil En Hl) as M.
      pose proof (frag_block_nth _ _ _ Hfb Hl) as Hfl.
      pose proof (xplace_range sl Hfl (spos body (body_pos p) (List.length body - 1))) as X. lia.
  - destruct s as [| |bs| | | | ]; cbn [act] in Ha; try (destruct Ha; contradiction).
    apply act_par in Ha. destruct Ha as [_ Ha]. rewrite ml_par in Hq.
    apply frag_par in Hf. destruct Hf as [_ Hfb].
    destruct (in_ml_list _ _ _ _ Hq) as (k & st & b & Hs & Hb & Hin).
    destruct (frag_brs_nth _ _ _ Hfb Hb) as [Hfbk _].
    pose proof (bpos_range bs (par_pos p) k b Hb) as R. cbn [par_pos pp] in R.
    unfold in_p. rewrite nplaces_par. cbn [xplace].
    assert (Hq' : in_p b (bpos bs (par_pos p) k) q).
    { destruct st; cbn [mlx] in Hin;
        try (rewrite Forall_forall in IH;
             apply (IH _ (nth_error_In _ _ Hs) b _ ctx Hfbk (act_list_nth _ _ _ _ _ _ _ _ _ Ha Hs Hb) q Hin)).
      destruct Hin as [<-|[]]. apply (xplace_range b Hfbk). }
    unfold in_p in Hq'. lia.
  - destruct s; cbn [act] in Ha; contradiction.
  - destruct s; cbn [act] in Ha; contradiction.
  - destruct s; cbn [act] in Ha; contradiction.
Qed.

(* an idle or exited component has no enabled transition: each one reads a place of the
   component other than the exit place *)
Lemma exit_blocked : forall N s p ctx xcbs, frag s = true -> wired N s p ctx xcbs ->
    forall j, in_t s p j -> exists q, In q (preN N j) /\ in_p s p q /\ q <> xplace s p.
Proof.
  intros N s p ctx xcbs Hf Hw j Hj. destruct (pre_ok_all N s Hf p ctx xcbs Hw j Hj) as [Hne Hin].
  destruct (preN N j) as [|q l] eqn:E; [congruence|]. exists q. split; [left; reflexivity|].
  apply Hin. left. reflexivity.
Qed.

(* in a stable, incomplete state nothing inside the component is enabled: every transition
   of the component reads a place of the component that is not marked *)
Lemma stable_blocked : forall N0 ns N st s p ctx ctx' xcbs,
    frag s = true -> wired N s p ctx xcbs -> act N0 ns st s p ctx' -> is_done st = false ->
    forall j, in_t s p j -> exists q, In q (preN N j) /\ in_p s p q /\ ~ In q (ml st s p).
Proof.
  intros N0 ns N. induction st as [|id|cid i st' IH|sts IH|b i st' IH|k i st' IH|sts IH] using rst_ind';
    intros s p ctx ctx' xcbs Hf Hw Ha Hd j Hj; try discriminate Hd.
  - (* service *)
    destruct s; cbn [act] in Ha; try contradiction. cbn [wired] in Hw. destruct Hw as (H1 & _).
    unfold in_t in Hj. cbn [ntrans] in Hj. assert (j = pt p) by lia. subst j.
    exists (pp p + 1). rewrite H1. split; [right; left; reflexivity|]. split; [unfold in_p; cbn [nplaces]; lia|].
    cbn [ml]. intros [H|[]]. lia.
  - (* call *)
    destruct s as [| t at_ ins body | | | | | ]; cbn [act] in Ha; try contradiction.
    destruct Ha as (_ & Hd' & _ & Ha). destruct (nth_error body i) as [s'|] eqn:En; [|contradiction].
    pose proof (frag_call _ _ _ _ Hf) as [_ Hfb]. pose proof (frag_block_nth _ _ _ Hfb En) as Hfs.
    cbn [wired] in Hw. destruct Hw as [_ Hw].
    unfold in_t in Hj. rewrite ntrans_call in Hj. rewrite ml_call. unfold ml_block. rewrite En.
    set (bp := body_pos p) in *.
    assert (Hml : forall q, In q (ml st' s' (spos body bp i)) -> in_p s' (spos body bp i) q /\ q <> xplace s' (spos body bp i))
      by (apply (ml_range N0 ns st' s' _ _ Hfs Ha)).
    assert (Hsub : forall k x q, nth_error body k = Some x -> in_p x (spos body bp k) q -> in_p (XCall t at_ ins body) p q).
    { intros k x q Hk Hq. pose proof (spos_range body bp k x Hk) as R. unfold in_p in *. rewrite nplaces_call.
      unfold bp in R. cbn [body_pos pp] in R. fold bp in R. lia. }
    assert (Hdisj : forall k x q, nth_error body k = Some x -> k <> i -> in_p x (spos body bp k) q ->
                                  ~ In q (ml st' s' (spos body bp i))).
    { intros k x q Hk Hki Hq Hin. apply Hml in Hin. destruct Hin as [Hin _]. unfold in_p in *.
      destruct (Nat.lt_ge_cases k i) as [Hlt|Hge].
      - pose proof (spos_mono body bp k i x s' Hlt Hk En). lia.
      - pose proof (spos_mono body bp i k s' x ltac:(lia) En Hk). lia. }
    destruct (block_cover body bp j Hfb Hj) as [(k & x & Hk & Hin)|(k & x & x' & Hk & Hk' & Hjc)].
    + pose proof (frag_block_nth _ _ _ Hfb Hk) as Hfx.
      destruct (wired_block_nth _ _ _ _ _ _ _ _ Hw Hk) as [Wx _].
      destruct (Nat.eq_dec k i) as [->|Hki].
      * rewrite En in Hk. inversion Hk; subst x.
        destruct (IH s' _ _ (pa p) _ Hfs Wx Ha Hd' j Hin) as (q & Q1 & Q2 & Q3).
        exists q. split; [exact Q1|]. split; [eapply Hsub; eassumption|exact Q3].
      * destruct (exit_blocked N x _ _ _ Hfx Wx j Hin) as (q & Q1 & Q2 & _).
        exists q. split; [exact Q1|]. split; [eapply Hsub; eassumption|]. eapply Hdisj; eassumption.
    + pose proof (frag_block_nth _ _ _ Hfb Hk) as Hfx.
      destruct (wired_block_nth _ _ _ _ _ _ _ _ Hw Hk) as [_ Wc]. destruct (Wc x' Hk') as (C1 & _). cbv zeta in C1.
      subst j. exists (xplace x (spos body bp k)). rewrite C1. split; [left; reflexivity|].
      pose proof (xplace_range x Hfx (spos body bp k)) as X.
      split; [eapply Hsub; [exact Hk|exact X]|].
      destruct (Nat.eq_dec k i) as [->|Hki].
      * rewrite En in Hk. inversion Hk; subst x. intro Hin. apply Hml in Hin. destruct Hin as [_ Hin]. congruence.
      * eapply Hdisj; [exact Hk|exact Hki|exact X].
  - (* parallel *)
    destruct s as [| |bs| | | | ]; cbn [act] in Ha; try (destruct Ha; contradiction).
    apply act_par in Ha. destruct Ha as [Hnd Ha]. rewrite ml_par.
    pose proof (frag_par _ Hf) as [_ Hfb]. cbn [wired] in Hw. destruct Hw as (H1 & _ & _ & Hw).
    set (q0 := par_pos p) in *.
    assert (Hbr : forall k st b x, nth_error sts k = Some st -> nth_error bs k = Some b ->
                                   In x (mlx st b (bpos bs q0 k)) ->
                                   in_p b (bpos bs q0 k) x /\ (is_done st = false -> x <> xplace b (bpos bs q0 k))).
    { intros k st b x Hs Hb Hx. destruct (frag_brs_nth _ _ _ Hfb Hb) as [Hfbk _].
      pose proof (act_list_nth _ _ _ _ _ _ _ _ _ Ha Hs Hb) as Hak.
      destruct st; cbn [mlx] in Hx;
        try (destruct (ml_range N0 ns _ b _ _ Hfbk Hak x Hx) as [A B]; split; [exact A|intros _; exact B]).
      destruct Hx as [<-|[]]. split; [apply (xplace_range b Hfbk)|intro D; discriminate D]. }
    assert (Hsub : forall k b x, nth_error bs k = Some b -> in_p b (bpos bs q0 k) x -> in_p (XParallel bs) p x).
    { intros k b x Hb Hx. pose proof (bpos_range bs q0 k b Hb) as R. unfold in_p in *. rewrite nplaces_par.
      unfold q0 in R. cbn [par_pos pp] in R. fold q0 in R. lia. }
    assert (Hdisj : forall k b k' st' b' x, nth_error bs k = Some b -> nth_error sts k' = Some st' -> nth_error bs k' = Some b' ->
                                         k <> k' -> in_p b (bpos bs q0 k) x -> ~ In x (mlx st' b' (bpos bs q0 k'))).
    { intros k b k' st' b' x Hb Hs' Hb' Hkk Hx Hin. destruct (Hbr k' st' b' x Hs' Hb' Hin) as [Hin' _]. unfold in_p in *.
      destruct (Nat.lt_ge_cases k k') as [Hlt|Hge].
      - pose proof (bpos_mono bs q0 k k' b b' Hlt Hb Hb'). lia.
      - pose proof (bpos_mono bs q0 k' k b' b ltac:(lia) Hb' Hb). lia. }
    unfold in_t in Hj. rewrite ntrans_par in Hj.
    destruct (Nat.eq_dec j (pt p)) as [->|Hnj].
    + (* the sync: some branch is not complete *)
      assert (Hex : exists k st, nth_error sts k = Some st /\ is_done st = false).
      { clear -Hnd. induction sts as [|st1 sr IHs]; [discriminate|]. cbn [all_done] in Hnd.
        destruct (is_done st1) eqn:D.
        - cbn in Hnd. destruct (IHs Hnd) as (k & st & H1 & H2). exists (S k), st. split; assumption.
        - exists 0, st1. split; [reflexivity|exact D]. }
      destruct Hex as (k & st & Hs & Hdk).
      assert (Hlen := act_list_length _ _ _ _ _ _ Ha).
      destruct (nth_error bs k) as [b|] eqn:Hb.
      2:{ apply nth_error_None in Hb. assert (k < List.length sts) by (apply nth_error_Some; congruence). lia. }
      destruct (frag_brs_nth _ _ _ Hfb Hb) as [Hfbk _].
      exists (xplace b (bpos bs q0 k)). rewrite H1. split; [apply in_cat_of; exists k, b; split; [exact Hb|left; reflexivity]|].
      pose proof (xplace_range b Hfbk (bpos bs q0 k)) as X. split; [eapply Hsub; [exact Hb|exact X]|].
      intro Hin. destruct (in_ml_list _ _ _ _ Hin) as (k' & st' & b' & Hs' & Hb' & Hin').
      destruct (Nat.eq_dec k k') as [<-|Hkk].
      * rewrite Hs in Hs'. rewrite Hb in Hb'. inversion Hs'; inversion Hb'; subst.
        destruct (Hbr k st' b' _ Hs Hb Hin') as [_ Hx]. apply (Hx Hdk). reflexivity.
      * eapply (Hdisj k b k' st' b'); eassumption.
    + destruct (list_cover bs q0 j) as (k & b & Hb & Hin); [unfold q0; cbn [par_pos pt]; lia|].
      destruct (frag_brs_nth _ _ _ Hfb Hb) as [Hfbk _].
      pose proof (wired_list_nth _ _ _ _ _ _ Hw Hb) as Wb.
      assert (Hlen := act_list_length _ _ _ _ _ _ Ha).
      destruct (nth_error sts k) as [st|] eqn:Hs.
      2:{ apply nth_error_None in Hs. assert (k < List.length bs) by (apply nth_error_Some; congruence). lia. }
      pose proof (act_list_nth _ _ _ _ _ _ _ _ _ Ha Hs Hb) as Hak.
      assert (Hq : exists q, In q (preN N j) /\ in_p b (bpos bs q0 k) q /\ ~ In q (mlx st b (bpos bs q0 k))).
      { destruct (is_done st) eqn:D.
        - destruct (exit_blocked N b _ _ _ Hfbk Wb j Hin) as (q & Q1 & Q2 & Q3).
          exists q. split; [exact Q1|]. split; [exact Q2|]. destruct st; try discriminate D. cbn [mlx]. intros [E|[]]. congruence.
        - rewrite Forall_forall in IH.
          destruct (IH _ (nth_error_In _ _ Hs) b _ _ _ _ Hfbk Wb Hak D j Hin) as (q & Q1 & Q2 & Q3).
          exists q. split; [exact Q1|]. split; [exact Q2|]. destruct st; try discriminate D; exact Q3. }
      destruct Hq as (q & Q1 & Q2 & Q3). exists q. split; [exact Q1|]. split; [eapply Hsub; eassumption|].
      intro Hin'. destruct (in_ml_list _ _ _ _ Hin') as (k' & st' & b' & Hs' & Hb' & Hin'').
      destruct (Nat.eq_dec k k') as [<-|Hkk].
      * rewrite Hs in Hs'. rewrite Hb in Hb'. inversion Hs'; inversion Hb'; subst. contradiction.
      * eapply (Hdisj k b k' st' b'); eassumption.
  - destruct s; cbn [act] in Ha; contradiction.
  - destruct s; cbn [act] in Ha; contradiction.
  - destruct s; cbn [act] in Ha; contradiction.
Qed.

(* [act] only depends on the API records of the component and on the bindings of the
   identifiers it awaits *)
Lemma dict_get_ITest_skip : forall (d r : list (ident * nat)) n id,
    Forall (fun kv => exists i, fst kv = ITest i /\ n <= i) d -> id < n ->
    dict_get ident_eqb (ITest id) (d ++ r) = dict_get ident_eqb (ITest id) r.
Proof.
  induction d as [|[u q] d IH]; intros r n id H Hid; [reflexivity|].
  inversion H as [|? ? (i & E & Hi) Hr]; subst. cbn [app dict_get]. cbn [fst] in E. subst u.
  cbn [ident_eqb]. destruct (Nat.eqb_spec id i); [lia|]. eapply IH; eassumption.
Qed.

Lemma act_mono : forall N0 ns ns' st s p ctx,
    frag s = true -> act N0 ns st s p ctx ->
    (forall k, pa p <= k < pa p + napis s -> nth_error (ns_apis ns') k = nth_error (ns_apis ns) k) ->
    ns_sid ns <= ns_sid ns' ->
    (exists d, ns_place_dict ns' = d ++ ns_place_dict ns /\
               Forall (fun kv => exists i, fst kv = ITest i /\ ns_sid ns <= i) d) ->
    act N0 ns' st s p ctx.
Proof.
  intros N0 ns ns'. induction st as [|id|cid i st' IH|sts IH|b i st' IH|k i st' IH|sts IH] using rst_ind';
    intros s p ctx Hf Ha Hap Hsid Hd.
  - destruct s; exact I.
  - destruct s; cbn [act] in *; try contradiction. destruct Ha as (A1 & A2 & A3).
    split; [rewrite Hap by (cbn [napis]; lia); exact A1|]. split; [|lia].
    destruct Hd as (d & Hd & Hk). rewrite Hd. rewrite (dict_get_ITest_skip d _ (ns_sid ns) id Hk A3). exact A2.
  - destruct s as [| t at_ ins body | | | | | ]; cbn [act] in *; try contradiction.
    destruct Ha as (A1 & A2 & A2' & A3). rewrite napis_call in Hap.
    split; [rewrite Hap by lia; exact A1|]. split; [exact A2|].
    split.
    { intros k0 s0 a0 Hk0 Hn0 Ha0. rewrite Hap; [apply (A2' k0 s0 a0 Hk0 Hn0 Ha0)|].
      pose proof (spos_range body (body_pos p) k0 s0 Hn0) as R. cbn [body_pos pa] in R. lia. }
    destruct (nth_error body i) as [s'|] eqn:En; [|contradiction].
    pose proof (frag_call _ _ _ _ Hf) as [_ Hfb]. pose proof (frag_block_nth _ _ _ Hfb En) as Hfs.
    apply IH; try assumption. intros k0 Hk0. apply Hap.
    pose proof (spos_range body (body_pos p) i s' En) as R. cbn [body_pos pa] in R. lia.
  - destruct s as [| |bs| | | | ]; cbn [act] in Ha; try (destruct Ha; contradiction).
    apply act_par in Ha. apply act_par. destruct Ha as [A1 A2]. split; [exact A1|].
    pose proof (frag_par _ Hf) as [_ Hfb]. rewrite napis_par in Hap.
    assert (G : forall sts0 bs0 q, Forall (fun st => forall s p ctx, frag s = true -> act N0 ns st s p ctx ->
                  (forall k, pa p <= k < pa p + napis s -> nth_error (ns_apis ns') k = nth_error (ns_apis ns) k) ->
                  ns_sid ns <= ns_sid ns' ->
                  (exists d, ns_place_dict ns' = d ++ ns_place_dict ns /\
                             Forall (fun kv => exists i, fst kv = ITest i /\ ns_sid ns <= i) d) ->
                  act N0 ns' st s p ctx) sts0 ->
                frag_brs bs0 = true -> act_list N0 ns sts0 bs0 q ctx ->
                (forall k, pa q <= k < pa q + napis_l bs0 -> nth_error (ns_apis ns') k = nth_error (ns_apis ns) k) ->
                act_list N0 ns' sts0 bs0 q ctx).
    { induction sts0 as [|st1 sr IHs]; intros [|b1 br] q HF Hfb0 Hal Hap0; cbn [act_list] in *; try contradiction; [exact I|].
      inversion HF as [|? ? H1 H2]; subst. apply frag_brs_cons in Hfb0. destruct Hfb0 as (_ & Hf1 & Hfr).
      destruct Hal as [B1 B2]. rewrite napis_l_cons in Hap0. split.
      - apply H1; try assumption. intros k0 Hk0. apply Hap0. lia.
      - apply IHs; try assumption. intros k0 Hk0. apply Hap0. cbn [adv pa] in Hk0. lia. }
    apply G; assumption.
  - destruct s; cbn [act] in Ha; contradiction.
  - destruct s; cbn [act] in Ha; contradiction.
  - destruct s; cbn [act] in Ha; contradiction.
Qed.

Lemma startcbs_b_nth0 : forall l p s, nth_error l 0 = Some s -> startcbs_b l p = startcbs s (spos l p 0).
Proof. intros [|x r] p s H; inversion H; subst. reflexivity. Qed.
Lemma entries_b_nth0 : forall l p s, nth_error l 0 = Some s -> entries_b l p = entries s (spos l p 0).
Proof. intros [|x r] p s H; inversion H; subst. reflexivity. Qed.
Lemma startcbs_call : forall t a i bd p, startcbs (XCall t a i bd) p = CbTS (pa p) :: startcbs_b bd (body_pos p).
Proof. reflexivity. Qed.
Lemma entries_call : forall t a i bd p, entries (XCall t a i bd) p = entries_b bd (body_pos p).
Proof. reflexivity. Qed.

(* ---- the exit transition of a component: its callbacks and its output place ---- *)
Fixpoint own (s : xstmt) (p : pos) : list cb :=
  match s with
  | XService _ _ _ => [CbSF (pa p)]
  | XCall _ _ _ bd => last_of own [] bd (body_pos p) ++ [CbTF (pa p)]
  | _ => []
  end.
Definition own_b := last_of own [].

Lemma exit_facts_block : forall N l,
    Forall (fun s => frag s = true -> forall p ctx xcbs, wired N s p ctx xcbs ->
                     cbsN N (exit_t s p) = own s p ++ xcbs /\ postN N (exit_t s p) = [xplace s p]) l ->
    frag_block l = true -> forall p ctx xcbs, wired_block (wired N) N ctx xcbs l p ->
    cbsN N (exit_b l p) = own_b l p ++ xcbs /\ postN N (exit_b l p) = [xplace_b l p].
Proof.
  intros N. induction l as [|s r IH]; intros HF Hf p ctx xcbs Hw; [discriminate|].
  inversion HF as [|? ? Hs Hr]; subst. apply frag_block_cons in Hf. destruct Hf as [Hfs Hfr].
  unfold exit_b, own_b, xplace_b in *. destruct r as [|s' r].
  - rewrite !last_of_one. cbn [wired_block] in Hw. apply (Hs Hfs p ctx xcbs Hw).
  - destruct Hfr as [Hfr|Hfr]; [discriminate|]. rewrite !last_of_cons.
    cbn [wired_block] in Hw. cbv zeta in Hw. destruct Hw as (_ & _ & _ & _ & Hwr). apply (IH Hr Hfr _ ctx xcbs Hwr).
Qed.

Lemma exit_facts : forall N s, frag s = true -> forall p ctx xcbs, wired N s p ctx xcbs ->
    cbsN N (exit_t s p) = own s p ++ xcbs /\ postN N (exit_t s p) = [xplace s p].
Proof.
  intros N. induction s as [n a i|t a i bd IH|bs IH|e0 p f IHp IHf|e0 b IH|v l b IH|v l c IH] using xstmt_ind';
    intros Hf p0 ctx xcbs Hw; try discriminate Hf.
  - cbn [wired] in Hw. destruct Hw as (_ & H2 & H3 & _). cbn [exit_t own xplace app]. split; assumption.
  - apply frag_call in Hf. destruct Hf as [_ Hf]. cbn [wired] in Hw. destruct Hw as [_ Hw].
    destruct (exit_facts_block N bd IH Hf (body_pos p0) (pa p0) (CbTF (pa p0) :: xcbs) Hw) as [E1 E2].
    cbn [exit_t own xplace]. split; [|exact E2]. unfold exit_b in E1. rewrite E1. unfold own_b.
    rewrite <- app_assoc. reflexivity.
  - cbn [wired] in Hw. destruct Hw as (_ & H2 & H3 & _). cbn [exit_t own xplace app]. split; assumption.
Qed.

Lemma no_parloop_app : forall l1 l2, no_parloop (l1 ++ l2) = no_parloop l1 && no_parloop l2.
Proof. intros. unfold no_parloop. apply forallb_app. Qed.

Lemma no_parloop_startcbs : forall s p, no_parloop (startcbs s p) = true.
Proof.
  induction s as [n a i|t a i bd IH|bs IH|e0 p f IHp IHf|e0 b IH|v l b IH|v l c IH] using xstmt_ind';
    intros p0; try reflexivity.
  - cbn [startcbs]. destruct bd as [|s0 r]; [reflexivity|]. inversion IH as [|? ? H0 _]; subst.
    change (no_parloop (CbTS (pa p0) :: startcbs s0 (first_pos (s0 :: r) (body_pos p0)))) with
        (no_parloop (startcbs s0 (first_pos (s0 :: r) (body_pos p0)))). apply H0.
  - cbn [startcbs]. generalize (par_pos p0). induction bs as [|b r IHr]; intro q; [reflexivity|].
    inversion IH as [|? ? Hb Hr]; subst. cbn [cat_of]. rewrite no_parloop_app, Hb. apply IHr. exact Hr.
Qed.

Lemma no_parloop_own : forall s p, no_parloop (own s p) = true.
Proof.
  induction s as [n a i|t a i bd IH|bs IH|e0 p f IHp IHf|e0 b IH|v l b IH|v l c IH] using xstmt_ind';
    intros p0; try reflexivity.
  cbn [own]. rewrite no_parloop_app. cbn. rewrite andb_true_r. generalize (body_pos p0).
  induction bd as [|s0 r IHr]; intro q; [reflexivity|]. inversion IH as [|? ? H0 Hr]; subst.
  destruct r as [|s1 r]; [rewrite last_of_one; apply H0|]. rewrite last_of_cons. apply IHr. exact Hr.
Qed.

(* ---- block-level versions ---- *)
Definition in_tb (l : list xstmt) (p : pos) (j : nat) : Prop := pt p <= j < pt p + ntrans_b l.
Definition in_pb (l : list xstmt) (p : pos) (q : nat) : Prop := pp p <= q < pp p + nplaces_l l.

Lemma exit_blocked_block : forall N l p ctx xcbs, frag_block l = true -> wired_block (wired N) N ctx xcbs l p ->
    forall j, in_tb l p j -> exists q, In q (preN N j) /\ in_pb l p q /\ q <> xplace_b l p.
Proof.
  intros N l p ctx xcbs Hf Hw j Hj.
  destruct (pre_ok_block N l (proj2 (Forall_forall _ l) (fun s _ => pre_ok_all N s)) Hf p ctx xcbs Hw j Hj) as [Hne Hin].
  destruct (preN N j) as [|q r] eqn:E; [congruence|]. exists q. split; [left; reflexivity|].
  apply Hin. left. reflexivity.
Qed.

Lemma xplace_b_nth : forall l p, frag_block l = true ->
    exists s, nth_error l (List.length l - 1) = Some s /\ xplace_b l p = xplace s (spos l p (List.length l - 1)).
Proof. intros l p Hf. apply last_of_spos. destruct l; [discriminate|discriminate]. Qed.

Lemma ml_range_block : forall N0 ns l bp ctx i st, frag_block l = true -> act_block N0 ns l bp ctx i st ->
    forall q, In q (ml_block l bp i st) ->
              in_pb l bp q /\ q <> xplace_b l bp /\
              exists s, nth_error l i = Some s /\ in_p s (spos l bp i) q.
Proof.
  intros N0 ns l bp ctx i st Hf (_ & _ & Ha) q Hq. unfold ml_block in Hq.
  destruct (nth_error l i) as [s'|] eqn:En; [|contradiction].
  pose proof (frag_block_nth _ _ _ Hf En) as Hfs.
  destruct (ml_range N0 ns st s' _ _ Hfs Ha q Hq) as [Hin Hx].
  pose proof (spos_range l bp i s' En) as R. unfold in_p, in_pb in *.
  split; [lia|]. split; [|exists s'; split; [reflexivity|exact Hin]].
  destruct (xplace_b_nth l bp Hf) as (sl & Hl & El). rewrite El.
  destruct (Nat.eq_dec i (List.length l - 1)) as [->|Hne].
  - rewrite En in Hl. inversion Hl; subst. exact Hx.
  - assert (Hil : i < List.length l - 1).
    { assert (i < List.length l) by (apply nth_error_Some; congruence). lia. }
    pose proof (spos_mono l bp i _ s' sl Hil En Hl) as M.
    pose proof (xplace_range sl (frag_block_nth _ _ _ Hf Hl) (spos l bp (List.length l - 1))) as X. lia.
Qed.

Lemma stable_blocked_block : forall N0 ns N l bp ctx ctx' xcbs i st,
    frag_block l = true -> wired_block (wired N) N ctx xcbs l bp -> act_block N0 ns l bp ctx' i st ->
    forall j, in_tb l bp j -> exists q, In q (preN N j) /\ in_pb l bp q /\ ~ In q (ml_block l bp i st).
Proof.
  intros N0 ns N l bp ctx ctx' xcbs i st Hfb Hw Hab j Hj.
  pose proof Hab as (Hd' & _ & Ha). destruct (nth_error l i) as [s'|] eqn:En; [|contradiction].
  pose proof (frag_block_nth _ _ _ Hfb En) as Hfs.
  assert (Hml : forall q, In q (ml_block l bp i st) -> in_p s' (spos l bp i) q /\ q <> xplace s' (spos l bp i)).
  { intros q Hq. unfold ml_block in Hq. rewrite En in Hq. apply (ml_range N0 ns st s' _ _ Hfs Ha q Hq). }
  assert (Hsub : forall k x q, nth_error l k = Some x -> in_p x (spos l bp k) q -> in_pb l bp q).
  { intros k x q Hk Hq. pose proof (spos_range l bp k x Hk) as R. unfold in_p, in_pb in *. lia. }
  assert (Hdisj : forall k x q, nth_error l k = Some x -> k <> i -> in_p x (spos l bp k) q ->
                                ~ In q (ml_block l bp i st)).
  { intros k x q Hk Hki Hq Hin. apply Hml in Hin. destruct Hin as [Hin _]. unfold in_p in *.
    destruct (Nat.lt_ge_cases k i) as [Hlt|Hge].
    - pose proof (spos_mono l bp k i x s' Hlt Hk En). lia.
    - pose proof (spos_mono l bp i k s' x ltac:(lia) En Hk). lia. }
  destruct (block_cover l bp j Hfb Hj) as [(k & x & Hk & Hin)|(k & x & x' & Hk & Hk' & Hjc)].
  - pose proof (frag_block_nth _ _ _ Hfb Hk) as Hfx.
    destruct (wired_block_nth _ _ _ _ _ _ _ _ Hw Hk) as [Wx _].
    destruct (Nat.eq_dec k i) as [->|Hki].
    + rewrite En in Hk. inversion Hk; subst x.
      destruct (stable_blocked N0 ns N st s' _ _ ctx' _ Hfs Wx Ha Hd' j Hin) as (q & Q1 & Q2 & Q3).
      exists q. split; [exact Q1|]. split; [eapply Hsub; eassumption|]. unfold ml_block. rewrite En. exact Q3.
    + destruct (exit_blocked N x _ _ _ Hfx Wx j Hin) as (q & Q1 & Q2 & _).
      exists q. split; [exact Q1|]. split; [eapply Hsub; eassumption|]. eapply Hdisj; eassumption.
  - pose proof (frag_block_nth _ _ _ Hfb Hk) as Hfx.
    destruct (wired_block_nth _ _ _ _ _ _ _ _ Hw Hk) as [_ Wc]. destruct (Wc x' Hk') as (C1 & _). cbv zeta in C1.
    subst j. exists (xplace x (spos l bp k)). rewrite C1. split; [left; reflexivity|].
    pose proof (xplace_range x Hfx (spos l bp k)) as X.
    split; [eapply Hsub; [exact Hk|exact X]|].
    destruct (Nat.eq_dec k i) as [->|Hki].
    + rewrite En in Hk. inversion Hk; subst x. intro Hin. apply Hml in Hin. destruct Hin as [_ Hin]. congruence.
    + eapply Hdisj; [exact Hk|exact Hki|exact X].
Qed.

(* ---- more about counting ---- *)
Lemma cnt_cons : forall x l q, cnt (x :: l) q = (if Nat.eqb x q then 1 else 0) + cnt l q.
Proof.
  intros x l q. destruct (Nat.eqb_spec x q) as [->|Hne]; [rewrite cnt_cons_eq; lia|rewrite cnt_cons_neq by exact Hne; lia].
Qed.

Definition inb (lo hi q : nat) : bool := Nat.leb lo q && Nat.ltb q hi.
Lemma inb_spec : forall lo hi q, inb lo hi q = true <-> lo <= q < hi.
Proof.
  intros. unfold inb. rewrite andb_true_iff, Nat.leb_le, Nat.ltb_lt. tauto.
Qed.
(* the part of a marking outside a range *)
Definition outside (lo hi : nat) (m : list nat) : list nat := filter (fun q => negb (inb lo hi q)) m.

Lemma cnt_outside : forall lo hi m q, cnt (outside lo hi m) q = if inb lo hi q then 0 else cnt m q.
Proof.
  intros lo hi. induction m as [|x m IH]; intro q; cbn [outside filter].
  - rewrite cnt_nil. destruct (inb lo hi q); reflexivity.
  - fold (outside lo hi m). destruct (inb lo hi x) eqn:Ex; cbn [negb].
    + rewrite IH, cnt_cons. destruct (Nat.eqb_spec x q) as [->|Hne]; [rewrite Ex; reflexivity|].
      destruct (inb lo hi q); lia.
    + rewrite !cnt_cons, IH. destruct (Nat.eqb_spec x q) as [->|Hne]; [rewrite Ex; lia|].
      destruct (inb lo hi q); lia.
Qed.

Lemma not_in_cnt : forall l q, ~ In q l <-> cnt l q = 0.
Proof.
  intros l q. split; [apply cnt_notin|]. intros H Hin. apply cnt_pos_in in Hin. lia.
Qed.

(* an awaited identifier is bound to a place inside the component that awaits it *)
Lemma in_ids_list : forall sts id, In id (ids_list sts) -> exists k st, nth_error sts k = Some st /\ In id (svc_ids st).
Proof.
  induction sts as [|st1 sr IH]; intros id H; [contradiction|].
  unfold ids_list in H. cbn [flat_map] in H. apply in_app_or in H. destruct H as [H|H].
  - exists 0, st1. split; [reflexivity|exact H].
  - destruct (IH id H) as (k & st & H1 & H2). exists (S k), st. split; assumption.
Qed.

Lemma act_dict_in : forall N0 ns st s p ctx id,
    frag s = true -> act N0 ns st s p ctx -> In id (svc_ids st) ->
    exists fp, dict_get ident_eqb (ITest id) (ns_place_dict ns) = Some fp /\ in_p s p fp.
Proof.
  intros N0 ns. induction st as [|id0|cid i st' IH|sts IH|b i st' IH|k i st' IH|sts IH] using rst_ind';
    intros s p ctx id Hf Ha Hin.
  - contradiction.
  - destruct s; cbn [act] in Ha; try contradiction. destruct Ha as (_ & Hd & _).
    cbn [svc_ids] in Hin. destruct Hin as [<-|[]]. exists (pp p + 1). split; [exact Hd|].
    unfold in_p. cbn [nplaces]. lia.
  - destruct s as [| t at_ ins body | | | | | ]; cbn [act] in Ha; try contradiction.
    destruct Ha as (_ & _ & _ & Ha). destruct (nth_error body i) as [s'|] eqn:En; [|contradiction].
    pose proof (frag_call _ _ _ _ Hf) as [_ Hfb]. pose proof (frag_block_nth _ _ _ Hfb En) as Hfs.
    cbn [svc_ids] in Hin. destruct (IH s' _ _ id Hfs Ha Hin) as (fp & Hd & Hr). exists fp. split; [exact Hd|].
    pose proof (spos_range body (body_pos p) i s' En) as R. cbn [body_pos pp] in R.
    unfold in_p in *. rewrite nplaces_call. lia.
  - destruct s as [| |bs| | | | ]; cbn [act] in Ha; try (destruct Ha; contradiction).
    apply act_par in Ha. destruct Ha as [_ Ha]. pose proof (frag_par _ Hf) as [_ Hfb].
    cbn [svc_ids] in Hin. destruct (in_ids_list _ _ Hin) as (k & st & Hs & Hin').
    assert (Hlen := act_list_length _ _ _ _ _ _ Ha).
    destruct (nth_error bs k) as [b|] eqn:Hb.
    2:{ apply nth_error_None in Hb. assert (k < List.length sts) by (apply nth_error_Some; congruence). lia. }
    destruct (frag_brs_nth _ _ _ Hfb Hb) as [Hfbk _].
    rewrite Forall_forall in IH.
    destruct (IH _ (nth_error_In _ _ Hs) b _ _ id Hfbk (act_list_nth _ _ _ _ _ _ _ _ _ Ha Hs Hb) Hin') as (fp & Hd & Hr).
    exists fp. split; [exact Hd|]. pose proof (bpos_range bs (par_pos p) k b Hb) as R. cbn [par_pos pp] in R.
    unfold in_p in *. rewrite nplaces_par. lia.
  - destruct s; cbn [act] in Ha; contradiction.
  - destruct s; cbn [act] in Ha; contradiction.
  - destruct s; cbn [act] in Ha; contradiction.
Qed.
