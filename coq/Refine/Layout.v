(* Refine/Layout.v — where the generator puts what: for the fragment Service / task call /
   Parallel of the call-tree unfolding, the identifiers (creation indices) of the places,
   transitions and API records of every statement occurrence, computed from the tree and the
   three counters at the moment its generation starts.  Definitions and arithmetic only. *)
From PFDL Require Import NetModel.
From Coq Require Import Lia.

(* the three creation counters: places, transitions, API records *)
(* the source position of a statement occurrence: task, path of the enclosing block, index in
   that block (PetriNetGenerator names a counting loop by it) *)
(* [s_il]: the occurrence stands inside a loop (of its task instance or of a caller): the flag
   [in_loop] that the generator hands down and stores in the API objects *)
Record sinfo := mksi { s_tn : name; s_pre : list nat; s_idx : nat; s_il : bool }.
Definition s_path (k : sinfo) : list nat := s_pre k ++ [s_idx k].
Definition si_next (k : sinfo) : sinfo := mksi (s_tn k) (s_pre k) (S (s_idx k)) (s_il k).
Definition si_sub (k : sinfo) : sinfo := mksi (s_tn k) (s_path k) 0 (s_il k).
Definition si_loop (k : sinfo) : sinfo := mksi (s_tn k) (s_path k) 0 true.
Definition si_sub2 (b : nat) (k : sinfo) : sinfo := mksi (s_tn k) (s_path k ++ [b]) 0 (s_il k).
Definition si_task (t : name) (il : bool) : sinfo := mksi t [] 0 il.
Record pos := mkpos { pp : nat; pt : nat; pa : nat; psi : sinfo }.
Definition pkey (p : pos) : site := {| st_task := s_tn (psi p); st_path := s_path (psi p) |}.

(* ---- induction principle for the nested type ---- *)
Lemma xstmt_ind' : forall (P : xstmt -> Prop),
    (forall n a i, P (XService n a i)) ->
    (forall t a i body, Forall P body -> P (XCall t a i body)) ->
    (forall bs, Forall P bs -> P (XParallel bs)) ->
    (forall e p f, Forall P p -> Forall P f -> P (XCond e p f)) ->
    (forall e b, Forall P b -> P (XWhile e b)) ->
    (forall v l b, Forall P b -> P (XCount v l b)) ->
    (forall v l c, P c -> P (XParLoop v l c)) ->
    forall s, P s.
Proof.
  intros P HS HC HP HCo HW HCn HPL.
  fix IH 1. intros [n a i|t a i body|bs|e p f|e b|v l b|v l c].
  - apply HS.
  - apply HC. induction body as [|x r IHr]; constructor; [apply IH|exact IHr].
  - apply HP. induction bs as [|x r IHr]; constructor; [apply IH|exact IHr].
  - apply HCo; [induction p as [|x r IHr]|induction f as [|x r IHr]]; constructor; try apply IH; assumption.
  - apply HW. induction b as [|x r IHr]; constructor; [apply IH|exact IHr].
  - apply HCn. induction b as [|x r IHr]; constructor; [apply IH|exact IHr].
  - apply HPL. apply IH.
Qed.

(* ---- the fragment: services, task calls with non-empty bodies, non-empty Parallel of calls,
        Conditions with a non-empty Passed block (the Failed block may be missing), While loops
        with non-empty bodies, sequential counting loops with non-empty bodies; no called task is
        named like the production task ---- *)
(* counting loops belong to the layout / generator fragment (where they may stand, and which
   parameters they allow, is restricted for the simulation only: Abs.sok) *)
Definition count_ok : bool := true.

Fixpoint frag (s : xstmt) : bool :=
  match s with
  | XService _ _ _ => true
  | XCall t _ _ body =>
    negb (Nat.eqb t production_task) && match body with [] => false | _ => forallb frag body end
  | XParallel bs =>
    match bs with [] => false | _ => forallb (fun b => match b with XCall _ _ _ _ => frag b | _ => false end) bs end
  | XCond _ p f =>
    match p with [] => false | _ => forallb frag p end && forallb frag f
  | XWhile _ b => match b with [] => false | _ => forallb frag b end
  | XCount _ _ b => count_ok && match b with [] => false | _ => forallb frag b end
  | _ => false
  end.
Definition frag_block (ss : list xstmt) : bool :=
  match ss with [] => false | _ => forallb frag ss end.

(* ---- sizes ---- *)
Fixpoint nplaces (s : xstmt) : nat :=
  match s with
  | XService _ _ _ => 3
  | XCall t _ _ body => list_sum (map nplaces body)
  | XParallel bs => S (list_sum (map nplaces bs))
  | XCond _ p f => 4 + list_sum (map nplaces p) + list_sum (map nplaces f)
  | XWhile _ b => 4 + list_sum (map nplaces b)
  | XCount _ _ b => 4 + list_sum (map nplaces b)
  | _ => 0
  end.
Fixpoint napis (s : xstmt) : nat :=
  match s with
  | XService _ _ _ => 1
  | XCall t _ _ body => S (list_sum (map napis body))
  | XParallel bs => list_sum (map napis bs)
  | XCond _ p f => list_sum (map napis p) + list_sum (map napis f)
  | XWhile _ b => list_sum (map napis b)
  | XCount _ _ b => list_sum (map napis b)
  | _ => 0
  end.
(* transitions of a block: one connection before every statement but the last *)
Definition ntrans_block (nt : xstmt -> nat) : list xstmt -> nat :=
  fix go (l : list xstmt) : nat :=
    match l with
    | [] => 0
    | s :: r => match r with [] => nt s | _ => S (nt s + go r) end
    end.
Fixpoint ntrans (s : xstmt) : nat :=
  match s with
  | XService _ _ _ => 1
  | XCall t _ _ body => ntrans_block ntrans body
  | XParallel bs => S (list_sum (map ntrans bs))
  | XCond _ p f =>
    match f with
    | [] => 3 + ntrans_block ntrans p
    | _ :: _ => 4 + ntrans_block ntrans p + ntrans_block ntrans f
    end
  | XWhile _ b => 3 + ntrans_block ntrans b
  | XCount _ _ b => 3 + ntrans_block ntrans b
  | _ => 0
  end.
Definition nplaces_l (l : list xstmt) : nat := list_sum (map nplaces l).
Definition napis_l (l : list xstmt) : nat := list_sum (map napis l).
Definition ntrans_b (l : list xstmt) : nat := ntrans_block ntrans l.
Definition ntrans_l (l : list xstmt) : nat := list_sum (map ntrans l).

(* counters after the component *)
Definition adv (s : xstmt) (p : pos) : pos :=
  mkpos (pp p + nplaces s) (pt p + ntrans s) (pa p + napis s) (si_next (psi p)).

(* position of the statements of a block *)
Definition conn_skip (p : pos) : pos := mkpos (pp p) (S (pt p)) (pa p) (psi p).
Definition first_pos (l : list xstmt) (p : pos) : pos :=
  match l with _ :: _ :: _ => conn_skip p | _ => p end.
(* value of [f] at the last statement of a block starting at p *)
Definition last_of {A} (f : xstmt -> pos -> A) (d : A) : list xstmt -> pos -> A :=
  fix go (l : list xstmt) (p : pos) : A :=
    match l with
    | [] => d
    | s :: r => match r with [] => f s p | _ => go r (adv s (conn_skip p)) end
    end.
(* concatenation over the branches of a Parallel, laid out one after the other *)
Definition cat_of {A} (f : xstmt -> pos -> list A) : list xstmt -> pos -> list A :=
  fix go (l : list xstmt) (q : pos) : list A :=
    match l with
    | [] => []
    | b :: r => f b q ++ go r (adv b q)
    end.

Definition body_pos (t : name) (p : pos) : pos := mkpos (pp p) (pt p) (S (pa p)) (si_task t (s_il (psi p))).
Definition par_pos (p : pos) : pos := mkpos (S (pp p)) (S (pt p)) (pa p) (si_sub (psi p)).
(* Condition: places passed, failed, expr, finished = pp .. pp+3; transitions first-passed,
   first-failed, second-passed = pt .. pt+2; then the Passed block, the second-failed
   transition, the Failed block *)
Definition cond_p (p : pos) : pos := mkpos (pp p + 4) (pt p + 3) (pa p) (si_sub2 0 (psi p)).
(* the body of a loop (same offsets) *)
Definition loop_p (p : pos) : pos := mkpos (pp p + 4) (pt p + 3) (pa p) (si_loop (psi p)).
Definition cond_f (P : list xstmt) (p : pos) : pos :=
  mkpos (pp p + 4 + nplaces_l P) (pt p + 4 + ntrans_b P) (pa p + napis_l P) (si_sub2 1 (psi p)).
Definition cond_sf (P : list xstmt) (p : pos) : nat := pt p + 3 + ntrans_b P.

(* places that receive a token when the component is entered *)
Fixpoint entries (s : xstmt) (p : pos) : list nat :=
  match s with
  | XService _ _ _ => [pp p]
  | XCall t _ _ body =>
    match body with [] => [] | s0 :: _ => entries s0 (first_pos body (body_pos t p)) end
  | XParallel bs => cat_of entries bs (par_pos p)
  | XCond _ _ _ => [pp p + 2]
  | XWhile _ _ => [pp p]
  | XCount _ _ _ => [pp p]
  | _ => []
  end.
(* callbacks the component registers on the transition that enters it, in order *)
Fixpoint startcbs (s : xstmt) (p : pos) (ctx : nat) {struct s} : list cb :=
  match s with
  | XService _ _ _ => [CbSS (pa p)]
  | XCall t _ _ body =>
    CbTS (pa p) :: match body with [] => [] | s0 :: _ => startcbs s0 (first_pos body (body_pos t p)) (pa p) end
  | XParallel bs => cat_of (fun b q => startcbs b q ctx) bs (par_pos p)
  | XCond e _ _ => [CbCond e (pp p) (pp p + 1) ctx]
  | XWhile e _ => [CbWhile e (pp p + 1) (pp p + 2) ctx]
  | XCount _ lim _ => [CbCount (pkey p) lim (pp p + 1) (pp p + 2) ctx]
  | _ => []
  end.
(* the place whose token says "this component is complete" (input of the transition after it) *)
Fixpoint xplace (s : xstmt) (p : pos) : nat :=
  match s with
  | XService _ _ _ => pp p + 2
  | XCall t _ _ body => last_of xplace 0 body (body_pos t p)
  | XParallel _ => pp p
  | XCond _ _ _ => pp p + 3
  | XWhile _ _ => pp p + 3
  | XCount _ _ _ => pp p + 3
  | _ => 0
  end.
(* the transitions whose firing completes the component (done_t of its last service / the sync /
   the second-passed and second-failed transitions of a Condition): the generator returns them,
   an enclosing call registers its task-finished callback on each *)
Fixpoint exits (s : xstmt) (p : pos) : list nat :=
  match s with
  | XService _ _ _ => [pt p]
  | XCall t _ _ body => last_of exits [] body (body_pos t p)
  | XParallel _ => [pt p]
  | XCond _ P F => match F with
                   | [] => [pt p + 2; pt p + 1]
                   | _ :: _ => [pt p + 2; pt p + 3 + ntrans_block ntrans P]
                   end
  | XWhile _ _ => [pt p + 1]
  | XCount _ _ _ => [pt p + 1]
  | _ => []
  end.

Definition entries_b (l : list xstmt) (p : pos) : list nat :=
  match l with [] => [] | s0 :: _ => entries s0 (first_pos l p) end.
Definition startcbs_b (l : list xstmt) (p : pos) (ctx : nat) : list cb :=
  match l with [] => [] | s0 :: _ => startcbs s0 (first_pos l p) ctx end.
Definition xplace_b := last_of xplace 0.
Definition exits_b := last_of exits [].

(* ---- reading a net ---- *)
Definition tr0 : trans := {| tr_pre := []; tr_post := [] |}.
Definition preN (s : NS) (j : nat) : list nat := tr_pre (nth j (ns_trans s) tr0).
Definition postN (s : NS) (j : nat) : list nat := tr_post (nth j (ns_trans s) tr0).
Definition cbsN (s : NS) (j : nat) : list cb := nth j (ns_cbs s) [].

(* the API records as created *)
Definition svc_api (il : bool) (n : name) (at_ : site) (ins : list param) (ctx k : nat) : api :=
  {| a_is_task := false; a_name := n; a_site := at_; a_uuid := IUuid k; a_ctx := Some ctx;
     a_in_loop := il; a_params := ins; a_src := ins; a_has_call := false |}.
Definition call_api (il : bool) (t : name) (at_ : site) (ins : list param) (ctx k : nat) : api :=
  {| a_is_task := true; a_name := t; a_site := at_; a_uuid := IUuid k; a_ctx := Some ctx;
     a_in_loop := il; a_params := ins; a_src := ins; a_has_call := true |}.

(* the same record up to its (run-time) identifier *)
Definition api_like (a0 a : api) : Prop := a = with_uuid (a_uuid a) a0.

(* ---- the net contains the component: every transition the component creates has exactly
        the arcs and callbacks of the design (DESIGN.md Appendix A); [xcbs] are the callbacks
        the context registers on the component's exit transition (task-finished of the
        enclosing calls, innermost first) ---- *)
Definition wired_block (W : xstmt -> pos -> nat -> list cb -> Prop) (N : NS) (ctx : nat) (xcbs : list cb)
  : list xstmt -> pos -> Prop :=
  fix go (l : list xstmt) (p : pos) : Prop :=
    match l with
    | [] => True
    | s :: r =>
      match r with
      | [] => W s p ctx xcbs
      | s' :: _ =>
        let ps := conn_skip p in
        let pr := adv s ps in
        preN N (pt p) = [xplace s ps] /\
        postN N (pt p) = entries s' (first_pos r pr) /\
        cbsN N (pt p) = startcbs s' (first_pos r pr) ctx /\
        W s ps ctx [] /\ go r pr
      end
    end.
Definition wired_list (W : xstmt -> pos -> nat -> list cb -> Prop) (ctx : nat)
  : list xstmt -> pos -> Prop :=
  fix go (l : list xstmt) (q : pos) : Prop :=
    match l with
    | [] => True
    | b :: r => W b q ctx [] /\ go r (adv b q)
    end.

(* the counting variable that the source program binds at a site (NetModel.loop_var of the
   program; kept abstract here) *)
Class LoopVars := loop_var_of : site -> option name.

Section Wired.
  Context `{LV : LoopVars}.
  Variable N : NS.
  Fixpoint wired (s : xstmt) (p : pos) (ctx : nat) (xcbs : list cb) {struct s} : Prop :=
    match s with
    | XService n at_ ins =>
      preN N (pt p) = [pp p; pp p + 1] /\ postN N (pt p) = [pp p + 2] /\
      cbsN N (pt p) = CbSF (pa p) :: xcbs /\
      nth_error (ns_apis N) (pa p) = Some (svc_api (s_il (psi p)) n at_ ins ctx (pa p)) /\
      dict_get ident_eqb (IUuid (pa p)) (ns_place_dict N) = Some (pp p + 1)
    | XCall t at_ ins body =>
      nth_error (ns_apis N) (pa p) = Some (call_api (s_il (psi p)) t at_ ins ctx (pa p)) /\
      wired_block wired N (pa p) (CbTF (pa p) :: xcbs) body (body_pos t p)
    | XParallel bs =>
      preN N (pt p) = cat_of (fun b q => [xplace b q]) bs (par_pos p) /\
      postN N (pt p) = [pp p] /\
      cbsN N (pt p) = xcbs /\
      wired_list wired ctx bs (par_pos p)
    | XCond e P F =>
      match F with
      | [] =>
        preN N (pt p) = [pp p + 2; pp p] /\ postN N (pt p) = entries_b P (cond_p p) /\
        cbsN N (pt p) = startcbs_b P (cond_p p) ctx /\
        preN N (pt p + 1) = [pp p + 2; pp p + 1] /\ postN N (pt p + 1) = [pp p + 3] /\ cbsN N (pt p + 1) = xcbs /\
        preN N (pt p + 2) = [xplace_b P (cond_p p)] /\ postN N (pt p + 2) = [pp p + 3] /\ cbsN N (pt p + 2) = xcbs /\
        wired_block wired N ctx [] P (cond_p p)
      | _ :: _ =>
        preN N (pt p) = [pp p + 2; pp p] /\ postN N (pt p) = entries_b P (cond_p p) /\
        cbsN N (pt p) = startcbs_b P (cond_p p) ctx /\
        preN N (pt p + 1) = [pp p + 2; pp p + 1] /\ postN N (pt p + 1) = entries_b F (cond_f P p) /\
        cbsN N (pt p + 1) = startcbs_b F (cond_f P p) ctx /\
        preN N (pt p + 2) = [xplace_b P (cond_p p)] /\ postN N (pt p + 2) = [pp p + 3] /\ cbsN N (pt p + 2) = xcbs /\
        preN N (cond_sf P p) = [xplace_b F (cond_f P p)] /\ postN N (cond_sf P p) = [pp p + 3] /\
        cbsN N (cond_sf P p) = xcbs /\
        wired_block wired N ctx [] P (cond_p p) /\ wired_block wired N ctx [] F (cond_f P p)
      end
    | XWhile e B =>
      (* places loop, then, else, done = pp .. pp+3; transitions condition-passed,
         condition-failed, iteration = pt .. pt+2; the body follows (at [loop_p p]) *)
      preN N (pt p) = [pp p; pp p + 1] /\ postN N (pt p) = entries_b B (loop_p p) /\
      cbsN N (pt p) = startcbs_b B (loop_p p) ctx /\
      preN N (pt p + 1) = [pp p; pp p + 2] /\ postN N (pt p + 1) = [pp p + 3] /\ cbsN N (pt p + 1) = xcbs /\
      preN N (pt p + 2) = [xplace_b B (loop_p p)] /\ postN N (pt p + 2) = [pp p] /\
      cbsN N (pt p + 2) = [CbWhile e (pp p + 1) (pp p + 2) ctx] /\
      wired_block wired N ctx [] B (loop_p p)
    | XCount v lim B =>
      preN N (pt p) = [pp p; pp p + 1] /\ postN N (pt p) = entries_b B (loop_p p) /\
      cbsN N (pt p) = startcbs_b B (loop_p p) ctx /\
      preN N (pt p + 1) = [pp p; pp p + 2] /\ postN N (pt p + 1) = [pp p + 3] /\ cbsN N (pt p + 1) = xcbs /\
      preN N (pt p + 2) = [xplace_b B (loop_p p)] /\ postN N (pt p + 2) = [pp p] /\
      (cbsN N (pt p + 2) = [CbCount (pkey p) lim (pp p + 1) (pp p + 2) ctx] /\ loop_var_of (pkey p) = Some v) /\
      wired_block wired N ctx [] B (loop_p p)
    | _ => False
    end.
End Wired.

Section WithLV.
Context `{LV : LoopVars}.

(* ---- unfolding equations for the list helpers ---- *)
Lemma last_of_one : forall A (f : xstmt -> pos -> A) d s p, last_of f d [s] p = f s p.
Proof. reflexivity. Qed.
Lemma last_of_cons : forall A (f : xstmt -> pos -> A) d s s' r p,
    last_of f d (s :: s' :: r) p = last_of f d (s' :: r) (adv s (conn_skip p)).
Proof. reflexivity. Qed.
Lemma ntrans_b_one : forall s, ntrans_b [s] = ntrans s. Proof. reflexivity. Qed.
Lemma ntrans_b_cons : forall s s' r, ntrans_b (s :: s' :: r) = S (ntrans s + ntrans_b (s' :: r)).
Proof. reflexivity. Qed.
Lemma ntrans_call : forall t a i body, ntrans (XCall t a i body) = ntrans_b body. Proof. reflexivity. Qed.
Lemma ntrans_par : forall bs, ntrans (XParallel bs) = S (ntrans_l bs). Proof. reflexivity. Qed.
Lemma nplaces_call : forall t a i body, nplaces (XCall t a i body) = nplaces_l body. Proof. reflexivity. Qed.
Lemma nplaces_par : forall bs, nplaces (XParallel bs) = S (nplaces_l bs). Proof. reflexivity. Qed.
Lemma napis_call : forall t a i body, napis (XCall t a i body) = S (napis_l body). Proof. reflexivity. Qed.
Lemma napis_par : forall bs, napis (XParallel bs) = napis_l bs. Proof. reflexivity. Qed.
Lemma ntrans_cond : forall e P f0 F, ntrans (XCond e P (f0 :: F)) = 4 + ntrans_b P + ntrans_b (f0 :: F). Proof. reflexivity. Qed.
Lemma ntrans_cond0 : forall e P, ntrans (XCond e P []) = 3 + ntrans_b P. Proof. reflexivity. Qed.
Lemma ntrans_while : forall e B, ntrans (XWhile e B) = 3 + ntrans_b B. Proof. reflexivity. Qed.
Lemma nplaces_while : forall e B, nplaces (XWhile e B) = 4 + nplaces_l B. Proof. reflexivity. Qed.
Lemma napis_while : forall e B, napis (XWhile e B) = napis_l B. Proof. reflexivity. Qed.
Lemma ntrans_count : forall v l B, ntrans (XCount v l B) = 3 + ntrans_b B. Proof. reflexivity. Qed.
Lemma nplaces_count : forall v l B, nplaces (XCount v l B) = 4 + nplaces_l B. Proof. reflexivity. Qed.
Lemma napis_count : forall v l B, napis (XCount v l B) = napis_l B. Proof. reflexivity. Qed.
Lemma nplaces_cond : forall e P F, nplaces (XCond e P F) = 4 + nplaces_l P + nplaces_l F. Proof. reflexivity. Qed.
Lemma napis_cond : forall e P F, napis (XCond e P F) = napis_l P + napis_l F. Proof. reflexivity. Qed.
Lemma nplaces_l_cons : forall s r, nplaces_l (s :: r) = nplaces s + nplaces_l r. Proof. reflexivity. Qed.
Lemma napis_l_cons : forall s r, napis_l (s :: r) = napis s + napis_l r. Proof. reflexivity. Qed.
Lemma ntrans_l_cons : forall s r, ntrans_l (s :: r) = ntrans s + ntrans_l r. Proof. reflexivity. Qed.

Lemma frag_call : forall t a i body,
    frag (XCall t a i body) = true -> Nat.eqb t production_task = false /\ frag_block body = true.
Proof.
  intros t a i body H. cbn [frag] in H. apply andb_prop in H. destruct H as [H1 H2].
  split; [destruct (Nat.eqb t production_task); [discriminate|reflexivity]|exact H2].
Qed.
Lemma frag_block_cons : forall s r, frag_block (s :: r) = true -> frag s = true /\ (r = [] \/ frag_block r = true).
Proof.
  intros s r H. cbn [frag_block forallb] in H. apply andb_prop in H. destruct H as [H1 H2].
  split; [exact H1|]. destruct r as [|s' r]; [left; reflexivity|right; exact H2].
Qed.
Definition is_call (b : xstmt) : bool := match b with XCall _ _ _ _ => true | _ => false end.
Definition frag_brs (bs : list xstmt) : bool := forallb (fun b => is_call b && frag b) bs.
Lemma frag_par : forall bs, frag (XParallel bs) = true -> bs <> [] /\ frag_brs bs = true.
Proof.
  intros bs H. cbn [frag] in H. destruct bs as [|b r]; [discriminate|]. split; [discriminate|].
  unfold frag_brs. rewrite forallb_forall in *. intros x Hx. specialize (H x Hx).
  destruct x; try discriminate. exact H.
Qed.
Lemma frag_brs_cons : forall b r, frag_brs (b :: r) = true -> is_call b = true /\ frag b = true /\ frag_brs r = true.
Proof.
  intros b r H. unfold frag_brs in H. cbn [forallb] in H. apply andb_prop in H. destruct H as [H1 H2].
  apply andb_prop in H1. destruct H1. auto.
Qed.

Lemma frag_cond : forall e P f0 F, frag (XCond e P (f0 :: F)) = true -> frag_block P = true /\ frag_block (f0 :: F) = true.
Proof. intros e P f0 F H. cbn [frag] in H. apply andb_prop in H. exact H. Qed.
Lemma frag_cond0 : forall e P, frag (XCond e P []) = true -> frag_block P = true.
Proof. intros e P H. cbn [frag] in H. apply andb_prop in H. apply H. Qed.

(* a Condition with a Failed block *)
Lemma frag_cond_ne : forall e P F, F <> [] -> frag (XCond e P F) = true -> frag_block P = true /\ frag_block F = true.
Proof. intros e P [|f0 F] Hne H; [congruence|]. apply (frag_cond _ _ _ _ H). Qed.
Lemma ntrans_cond_ne : forall e P F, F <> [] -> ntrans (XCond e P F) = 4 + ntrans_b P + ntrans_b F.
Proof. intros e P [|f0 F] Hne; [congruence|reflexivity]. Qed.
Lemma exits_cond_ne : forall e P F p, F <> [] -> exits (XCond e P F) p = [pt p + 2; pt p + 3 + ntrans_b P].
Proof. intros e P [|f0 F] p Hne; [congruence|reflexivity]. Qed.
Lemma wired_cond_ne : forall N e P F p ctx xcbs, F <> [] ->
    wired N (XCond e P F) p ctx xcbs =
    (preN N (pt p) = [pp p + 2; pp p] /\ postN N (pt p) = entries_b P (cond_p p) /\
     cbsN N (pt p) = startcbs_b P (cond_p p) ctx /\
     preN N (pt p + 1) = [pp p + 2; pp p + 1] /\ postN N (pt p + 1) = entries_b F (cond_f P p) /\
     cbsN N (pt p + 1) = startcbs_b F (cond_f P p) ctx /\
     preN N (pt p + 2) = [xplace_b P (cond_p p)] /\ postN N (pt p + 2) = [pp p + 3] /\ cbsN N (pt p + 2) = xcbs /\
     preN N (cond_sf P p) = [xplace_b F (cond_f P p)] /\ postN N (cond_sf P p) = [pp p + 3] /\
     cbsN N (cond_sf P p) = xcbs /\
     wired_block (wired N) N ctx [] P (cond_p p) /\ wired_block (wired N) N ctx [] F (cond_f P p)).
Proof. intros N e P [|f0 F] p ctx xcbs Hne; [congruence|reflexivity]. Qed.
Lemma frag_cond_P : forall e P F, frag (XCond e P F) = true -> frag_block P = true.
Proof. intros e P F H. cbn [frag] in H. apply andb_prop in H. apply H. Qed.
Lemma frag_cond_F : forall e P F, frag (XCond e P F) = true -> F <> [] -> frag_block F = true.
Proof. intros e P F H Hne. apply (frag_cond_ne e P F Hne H). Qed.
Lemma frag_while : forall e B, frag (XWhile e B) = true -> frag_block B = true.
Proof. intros e B H. exact H. Qed.
Lemma frag_count : forall v l B, frag (XCount v l B) = true -> frag_block B = true.
Proof. intros v l B H. cbn [frag] in H. apply andb_prop in H. apply H. Qed.
Lemma list_nil_dec : forall (l : list xstmt), {l = []} + {l <> []}.
Proof. intros [|x r]; [left; reflexivity|right; discriminate]. Qed.

(* every component of the fragment owns at least one transition, place and API record *)
Lemma frag_sizes : forall s, frag s = true -> 1 <= ntrans s /\ 1 <= nplaces s /\ 1 <= napis s.
Proof.
  induction s as [n a i|t a i body IH|bs IH|e p f IHp IHf|e b IH|v l b IH|v l c IH] using xstmt_ind'; intro H; try discriminate H.
  - cbn. lia.
  - apply frag_call in H. destruct H as [_ H]. rewrite ntrans_call, nplaces_call, napis_call.
    destruct body as [|s r]; [discriminate|]. apply frag_block_cons in H. destruct H as [Hs _].
    inversion IH as [|? ? IHs _]; subst. specialize (IHs Hs).
    rewrite nplaces_l_cons. destruct r; [rewrite ntrans_b_one|rewrite ntrans_b_cons]; lia.
  - apply frag_par in H. destruct H as [Hne H]. rewrite ntrans_par, nplaces_par, napis_par.
    destruct bs as [|b r]; [congruence|]. apply frag_brs_cons in H. destruct H as (_ & Hb & _).
    inversion IH as [|? ? IHb _]; subst. specialize (IHb Hb). rewrite napis_l_cons. lia.
  - assert (HP : frag_block p = true) by (destruct f; [apply (frag_cond0 _ _ H)|apply (frag_cond _ _ _ _ H)]).
    assert (Hnt : 3 <= ntrans (XCond e p f)) by (destruct f; [rewrite ntrans_cond0|rewrite ntrans_cond]; lia).
    rewrite nplaces_cond, napis_cond.
    destruct p as [|s r]; [discriminate|]. apply frag_block_cons in HP. destruct HP as [Hs _].
    inversion IHp as [|? ? IHs _]; subst. specialize (IHs Hs). rewrite napis_l_cons. lia.
  - apply frag_while in H. rewrite ntrans_while, nplaces_while, napis_while.
    destruct b as [|s r]; [discriminate|]. apply frag_block_cons in H. destruct H as [Hs _].
    inversion IH as [|? ? IHs _]; subst. specialize (IHs Hs). rewrite napis_l_cons. lia.
  - apply frag_count in H. rewrite ntrans_count, nplaces_count, napis_count.
    destruct b as [|s r]; [discriminate|]. apply frag_block_cons in H. destruct H as [Hs _].
    inversion IH as [|? ? IHs _]; subst. specialize (IHs Hs). rewrite napis_l_cons. lia.
Qed.

(* ---- exit transitions and exit place lie inside the component ---- *)
Definition exits_in (es : list nat) (lo hi : nat) : Prop := es <> [] /\ forall e, In e es -> lo <= e < hi.

Lemma exits_range_block : forall l,
    Forall (fun s => frag s = true -> forall p, exits_in (exits s p) (pt p) (pt p + ntrans s)) l ->
    frag_block l = true -> forall p, exits_in (exits_b l p) (pt p) (pt p + ntrans_b l).
Proof.
  induction l as [|s r IH]; intros HF Hf p; [discriminate|].
  inversion HF as [|? ? Hs Hr]; subst. apply frag_block_cons in Hf. destruct Hf as [Hfs Hfr].
  destruct r as [|s' r].
  - unfold exits_b. rewrite last_of_one, ntrans_b_one. apply Hs. exact Hfs.
  - destruct Hfr as [Hfr|Hfr]; [discriminate|]. unfold exits_b. rewrite last_of_cons, ntrans_b_cons.
    destruct (IH Hr Hfr (adv s (conn_skip p))) as [Hne Hin]. unfold exits_b in Hne, Hin. split; [exact Hne|].
    intros e He. specialize (Hin e He). cbn [adv conn_skip pt] in Hin. lia.
Qed.

Lemma exits_range : forall s, frag s = true -> forall p, exits_in (exits s p) (pt p) (pt p + ntrans s).
Proof.
  induction s as [n a i|t a i body IH|bs IH|e p f IHp IHf|e b IH|v l b IH|v l c IH] using xstmt_ind';
    intros H p0; try discriminate H.
  - cbn [exits ntrans]. split; [discriminate|]. intros e [<-|[]]. lia.
  - apply frag_call in H. destruct H as [_ H]. rewrite ntrans_call. cbn [exits].
    apply (exits_range_block body IH H (body_pos t p0)).
  - rewrite ntrans_par. cbn [exits]. split; [discriminate|]. intros e [<-|[]]. lia.
  - destruct f as [|f0 f]; [rewrite ntrans_cond0|rewrite ntrans_cond]; cbn [exits]; fold (ntrans_b p);
      (split; [discriminate|]); intros e0 [<-|[<-|[]]]; lia.
  - rewrite ntrans_while. cbn [exits]. split; [discriminate|]. intros e0 [<-|[]]. lia.
  - rewrite ntrans_count. cbn [exits]. split; [discriminate|]. intros e0 [<-|[]]. lia.
Qed.

Lemma xplace_range_block : forall l,
    Forall (fun s => frag s = true -> forall p, pp p <= xplace s p < pp p + nplaces s) l ->
    frag_block l = true -> forall p, pp p <= xplace_b l p < pp p + nplaces_l l.
Proof.
  induction l as [|s r IH]; intros HF Hf p; [discriminate|].
  inversion HF as [|? ? Hs Hr]; subst. apply frag_block_cons in Hf. destruct Hf as [Hfs Hfr].
  rewrite nplaces_l_cons. destruct r as [|s' r].
  - unfold xplace_b. rewrite last_of_one. specialize (Hs Hfs p). cbn. lia.
  - destruct Hfr as [Hfr|Hfr]; [discriminate|]. unfold xplace_b. rewrite last_of_cons.
    specialize (IH Hr Hfr (adv s (conn_skip p))). unfold xplace_b in IH. cbn [adv conn_skip pp] in IH. lia.
Qed.

Lemma xplace_range : forall s, frag s = true -> forall p, pp p <= xplace s p < pp p + nplaces s.
Proof.
  induction s as [n a i|t a i body IH|bs IH|e p f IHp IHf|e b IH|v l b IH|v l c IH] using xstmt_ind';
    intros H p0; try discriminate H.
  - cbn. lia.
  - apply frag_call in H. destruct H as [_ H]. rewrite nplaces_call. cbn [xplace].
    apply (xplace_range_block body IH H (body_pos t p0)).
  - rewrite nplaces_par. cbn [xplace]. lia.
  - rewrite nplaces_cond. cbn [xplace]. lia.
  - rewrite nplaces_while. cbn [xplace]. lia.
  - rewrite nplaces_count. cbn [xplace]. lia.
Qed.

Lemma napis_l_one : forall s, napis_l [s] = napis s.
Proof. intro s. unfold napis_l. cbn [map list_sum fold_right]. lia. Qed.
Lemma nplaces_l_one : forall s, nplaces_l [s] = nplaces s.
Proof. intro s. unfold nplaces_l. cbn [map list_sum fold_right]. lia. Qed.

Lemma exits_range_b : forall l, frag_block l = true -> forall p, exits_in (exits_b l p) (pt p) (pt p + ntrans_b l).
Proof.
  intros l H. apply exits_range_block; [|exact H]. apply Forall_forall. intros s _ Hs. apply exits_range. exact Hs.
Qed.
Lemma xplace_range_b : forall l, frag_block l = true -> forall p, pp p <= xplace_b l p < pp p + nplaces_l l.
Proof.
  intros l H. apply xplace_range_block; [|exact H]. apply Forall_forall. intros s _ Hs. apply xplace_range. exact Hs.
Qed.

(* ---- [wired] depends only on the component's own transitions, API records and place_dict
        entries; callbacks appended to its exit transitions extend [xcbs] ---- *)
Definition hits (es : list nat) (j : nat) : bool := existsb (Nat.eqb j) es.

Lemma hits_false : forall es j, (forall e, In e es -> e <> j) -> hits es j = false.
Proof.
  intros es j H. unfold hits. destruct (existsb (Nat.eqb j) es) eqn:E; [|reflexivity].
  apply existsb_exists in E. destruct E as (e & He & Hj). apply Nat.eqb_eq in Hj. subst e. exfalso. apply (H j He). reflexivity.
Qed.
Lemma hits_true : forall es j, In j es -> hits es j = true.
Proof. intros es j H. unfold hits. apply existsb_exists. exists j. split; [exact H|apply Nat.eqb_refl]. Qed.

Definition agree (N N' : NS) (p : pos) (dt da : nat) (es : list nat) (extra : list cb) : Prop :=
  (forall j, pt p <= j < pt p + dt ->
             preN N' j = preN N j /\ postN N' j = postN N j /\
             cbsN N' j = cbsN N j ++ (if hits es j then extra else [])) /\
  (forall j, pa p <= j < pa p + da -> nth_error (ns_apis N') j = nth_error (ns_apis N) j) /\
  (exists d, ns_place_dict N' = d ++ ns_place_dict N /\
             Forall (fun kv => exists k, fst kv = IUuid k /\ pa p + da <= k) d).

Lemma agree_sub : forall N N' p dt da es x q dt' da',
    agree N N' p dt da es x ->
    pt p <= pt q -> pt q + dt' <= pt p + dt -> pa p <= pa q -> pa q + da' <= pa p + da ->
    agree N N' q dt' da' es x.
Proof.
  intros N N' p dt da es x q dt' da' (Ht & Ha & d & Hd & Hk) H1 H2 H3 H4. split; [|split].
  - intros j Hj. apply Ht. lia.
  - intros j Hj. apply Ha. lia.
  - exists d. split; [exact Hd|]. eapply Forall_impl; [|exact Hk].
    intros kv (k & E & Hle). exists k. split; [exact E|lia].
Qed.

Lemma dict_get_skip : forall (d r : list (ident * nat)) n,
    Forall (fun kv => exists k, fst kv = IUuid k /\ n < k) d ->
    dict_get ident_eqb (IUuid n) (d ++ r) = dict_get ident_eqb (IUuid n) r.
Proof.
  induction d as [|[u q] d IH]; intros r n H; [reflexivity|].
  inversion H as [|? ? (k & E & Hk) Hr]; subst. cbn [app dict_get]. cbn [fst] in E. subst u.
  cbn [ident_eqb]. destruct (Nat.eqb_spec n k); [lia|]. apply IH. exact Hr.
Qed.

(* [es] lies outside the transitions [lo, hi) *)
Definition outside_t (es : list nat) (lo hi : nat) : Prop := forall e, In e es -> e < lo \/ hi <= e.

(* the two ways the change can relate to a component *)
Definition WA (N N' : NS) (es : list nat) (extra : list cb) (s : xstmt) : Prop :=
  forall p ctx xcbs, agree N N' p (ntrans s) (napis s) es extra ->
    (outside_t es (pt p) (pt p + ntrans s) -> wired N s p ctx xcbs -> wired N' s p ctx xcbs) /\
    (es = exits s p -> wired N s p ctx xcbs -> wired N' s p ctx (xcbs ++ extra)).

Lemma wired_agree_block : forall N N' es extra l,
    Forall (fun s => frag s = true -> WA N N' es extra s) l ->
    frag_block l = true -> forall p ctx xcbs,
      agree N N' p (ntrans_b l) (napis_l l) es extra ->
      (outside_t es (pt p) (pt p + ntrans_b l) ->
       wired_block (wired N) N ctx xcbs l p -> wired_block (wired N') N' ctx xcbs l p) /\
      (es = exits_b l p ->
       wired_block (wired N) N ctx xcbs l p -> wired_block (wired N') N' ctx (xcbs ++ extra) l p).
Proof.
  intros N N' es extra. induction l as [|s r IH]; intros HF Hf p ctx xcbs Hag; [discriminate|].
  inversion HF as [|? ? Hs Hr]; subst. apply frag_block_cons in Hf. destruct Hf as [Hfs Hfr].
  destruct r as [|s' r].
  - cbn [wired_block]. unfold exits_b. rewrite last_of_one. rewrite ntrans_b_one, napis_l_one in *.
    apply (Hs Hfs p ctx xcbs Hag).
  - destruct Hfr as [Hfr|Hfr]; [discriminate|].
    rewrite ntrans_b_cons, napis_l_cons in Hag. rewrite ntrans_b_cons. unfold exits_b. rewrite last_of_cons.
    pose proof (exits_range_b (s' :: r) Hfr (adv s (conn_skip p))) as [_ Hex]. unfold exits_b in Hex. cbn [adv conn_skip pt] in Hex.
    assert (Hag_s : agree N N' (conn_skip p) (ntrans s) (napis s) es extra)
      by (eapply agree_sub; [exact Hag|cbn; lia..]).
    assert (Hag_r : agree N N' (adv s (conn_skip p)) (ntrans_b (s' :: r)) (napis_l (s' :: r)) es extra)
      by (eapply agree_sub; [exact Hag|cbn; lia..]).
    destruct (IH Hr Hfr (adv s (conn_skip p)) ctx xcbs Hag_r) as [IHo IHe].
    destruct (Hs Hfs (conn_skip p) ctx [] Hag_s) as [Hso _].
    destruct Hag as (Ht & _). destruct (Ht (pt p) ltac:(lia)) as (E1 & E2 & E3).
    assert (Hcommon : hits es (pt p) = false -> outside_t es (pt (conn_skip p)) (pt (conn_skip p) + ntrans s) ->
                      forall xcbs', wired_block (wired N) N ctx xcbs (s :: s' :: r) p ->
                      (wired_block (wired N) N ctx xcbs (s' :: r) (adv s (conn_skip p)) ->
                       wired_block (wired N') N' ctx xcbs' (s' :: r) (adv s (conn_skip p))) ->
                      wired_block (wired N') N' ctx xcbs' (s :: s' :: r) p).
    { intros Hh Hos xcbs' Hw Hrest. cbn [wired_block] in Hw |- *. cbv zeta in Hw |- *.
      destruct Hw as (P1 & P2 & P3 & Hws & Hwr). rewrite Hh, app_nil_r in E3.
      split; [congruence|]. split; [congruence|]. split; [congruence|]. split; [apply Hso; assumption|apply Hrest; exact Hwr]. }
    split.
    + intros Ho Hw. apply Hcommon; [| |exact Hw|].
      * apply hits_false. intros e He Heq. destruct (Ho e He); lia.
      * intros e He. destruct (Ho e He); cbn [conn_skip pt]; lia.
      * apply IHo. intros e He. destruct (Ho e He); cbn [adv conn_skip pt]; lia.
    + intros Hes Hw. apply Hcommon; [| |exact Hw|].
      * apply hits_false. intros e He Heq. rewrite Hes in He. specialize (Hex e He). lia.
      * intros e He. rewrite Hes in He. specialize (Hex e He). cbn [conn_skip pt]. lia.
      * apply IHe. exact Hes.
Qed.

Lemma wired_agree_list : forall N N' es extra l,
    Forall (fun s => frag s = true -> WA N N' es extra s) l ->
    frag_brs l = true -> forall q ctx,
      agree N N' q (ntrans_l l) (napis_l l) es extra ->
      outside_t es (pt q) (pt q + ntrans_l l) ->
      wired_list (wired N) ctx l q -> wired_list (wired N') ctx l q.
Proof.
  intros N N' es extra. induction l as [|b r IH]; intros HF Hf q ctx Hag He Hw; [exact I|].
  inversion HF as [|? ? Hb Hr]; subst. apply frag_brs_cons in Hf. destruct Hf as (_ & Hfb & Hfr).
  cbn [wired_list] in *. destruct Hw as [Hwb Hwr]. rewrite ntrans_l_cons in *. rewrite napis_l_cons in Hag.
  split.
  - destruct (Hb Hfb q ctx []) as [Ho _]; [eapply agree_sub; [exact Hag|lia..]|].
    apply Ho; [|exact Hwb]. intros e Hin. destruct (He e Hin); lia.
  - apply IH; try assumption.
    + eapply agree_sub; [exact Hag|cbn [adv pt pa]; lia..].
    + intros e Hin. destruct (He e Hin); cbn [adv pt]; lia.
Qed.

Lemma wired_agree : forall N N' es extra s, frag s = true -> WA N N' es extra s.
Proof.
  intros N N' es extra.
  induction s as [n a i|t a i body IH|bs IH|e0 P F IHp IHf|e0 b IH|v l b IH|v l c IH] using xstmt_ind';
    intros Hf p0 ctx xcbs Hag; try discriminate Hf.
  - (* service *)
    cbn [ntrans napis] in Hag. destruct Hag as (Ht & Ha & d & Hd & Hk).
    destruct (Ht (pt p0) ltac:(lia)) as (E1 & E2 & E3).
    assert (Hrest : forall xcbs', cbsN N' (pt p0) = CbSF (pa p0) :: xcbs' ->
                                  wired N (XService n a i) p0 ctx xcbs -> wired N' (XService n a i) p0 ctx xcbs').
    { intros xcbs' Hc Hw. cbn [wired] in *. destruct Hw as (H1 & H2 & H3 & Ha0 & H5).
      split; [congruence|]. split; [congruence|]. split; [exact Hc|]. split; [rewrite Ha by lia; exact Ha0|].
      rewrite Hd, dict_get_skip; [exact H5|].
      eapply Forall_impl; [|exact Hk]. intros kv (k & E & Hle). exists k. split; [exact E|lia]. }
    split.
    + intros Ho Hw. apply Hrest; [|exact Hw]. cbn [wired] in Hw. destruct Hw as (_ & _ & H3 & _).
      rewrite E3, H3, hits_false, app_nil_r; [reflexivity|]. intros e He Heq. cbn [ntrans] in Ho. destruct (Ho e He); lia.
    + intros Hes Hw. apply Hrest; [|exact Hw]. cbn [wired] in Hw. destruct Hw as (_ & _ & H3 & _).
      rewrite E3, H3, hits_true; [reflexivity|]. rewrite Hes. left. reflexivity.
  - (* call *)
    apply frag_call in Hf. destruct Hf as [_ Hf]. rewrite ntrans_call, napis_call in *.
    assert (Hagb : agree N N' (body_pos t p0) (ntrans_b body) (napis_l body) es extra)
      by (eapply agree_sub; [exact Hag|cbn [body_pos pt pa]; lia..]).
    destruct (wired_agree_block N N' es extra body IH Hf (body_pos t p0) (pa p0) (CbTF (pa p0) :: xcbs) Hagb) as [Bo Be].
    destruct Hag as (_ & Ha & _).
    split.
    + intros Ho Hw. cbn [wired] in *. destruct Hw as (Ha0 & Hw). split; [rewrite Ha by lia; exact Ha0|]. apply Bo; assumption.
    + intros Hes Hw. cbn [wired exits] in *. destruct Hw as (Ha0 & Hw). split; [rewrite Ha by lia; exact Ha0|].
      change (CbTF (pa p0) :: xcbs ++ extra) with ((CbTF (pa p0) :: xcbs) ++ extra). apply Be; assumption.
  - (* parallel *)
    apply frag_par in Hf. destruct Hf as [_ Hf]. rewrite ntrans_par, napis_par in *.
    assert (Hagl : agree N N' (par_pos p0) (ntrans_l bs) (napis_l bs) es extra)
      by (eapply agree_sub; [exact Hag|cbn [par_pos pt pa]; lia..]).
    destruct Hag as (Ht & _). destruct (Ht (pt p0) ltac:(lia)) as (E1 & E2 & E3).
    split.
    + intros Ho Hw. cbn [wired] in *. destruct Hw as (H1 & H2 & H3 & Hw).
      split; [congruence|]. split; [congruence|]. split.
      * rewrite E3, H3, hits_false, app_nil_r; [reflexivity|]. intros e He Heq. destruct (Ho e He); lia.
      * apply (wired_agree_list N N' es extra bs IH Hf _ _ Hagl); [|exact Hw].
        intros e He. destruct (Ho e He); cbn [par_pos pt]; lia.
    + intros Hes Hw. cbn [wired exits] in *. destruct Hw as (H1 & H2 & H3 & Hw).
      split; [congruence|]. split; [congruence|]. split.
      * rewrite E3, H3, hits_true; [reflexivity|]. rewrite Hes. left. reflexivity.
      * apply (wired_agree_list N N' es extra bs IH Hf _ _ Hagl); [|exact Hw].
        intros e He. rewrite Hes in He. destruct He as [<-|[]]. cbn [par_pos pt]. lia.
  - (* condition *)
    destruct F as [|f0 F].
    { (* no Failed block: the first-failed transition leads to the 'finished' place *)
      apply frag_cond0 in Hf. rename Hf into HfP. rewrite ntrans_cond0, napis_cond in *.
      assert (HagP : agree N N' (cond_p p0) (ntrans_b P) (napis_l P) es extra)
        by (eapply agree_sub; [exact Hag|cbn [cond_p pt pa]; lia..]).
      destruct (wired_agree_block N N' es extra P IHp HfP (cond_p p0) ctx [] HagP) as [Po _].
      destruct Hag as (Ht & _).
      destruct (Ht (pt p0) ltac:(lia)) as (A1 & A2 & A3).
      destruct (Ht (pt p0 + 1) ltac:(lia)) as (B1 & B2 & B3).
      destruct (Ht (pt p0 + 2) ltac:(lia)) as (C1 & C2 & C3).
      assert (Hrest : forall xcbs',
                 hits es (pt p0) = false ->
                 cbsN N' (pt p0 + 1) = xcbs' -> cbsN N' (pt p0 + 2) = xcbs' ->
                 outside_t es (pt (cond_p p0)) (pt (cond_p p0) + ntrans_b P) ->
                 wired N (XCond e0 P []) p0 ctx xcbs -> wired N' (XCond e0 P []) p0 ctx xcbs').
      { intros xcbs' H0 H1 H2 HoP Hw. cbn [wired] in *.
        destruct Hw as (W1 & W2 & W3 & W4 & W5 & W6 & W7 & W8 & W9 & WP).
        rewrite H0, app_nil_r in A3.
        repeat (split; [congruence|]). apply Po; assumption. }
      split.
      + intros Ho Hw. pose proof Hw as Hw0. cbn [wired] in Hw0.
        destruct Hw0 as (_ & _ & _ & _ & _ & W6 & _ & _ & W9 & _).
        apply Hrest; try exact Hw.
        * apply hits_false. intros e He Heq. destruct (Ho e He); lia.
        * rewrite B3, W6, hits_false, app_nil_r; [reflexivity|]. intros e He Heq. destruct (Ho e He); lia.
        * rewrite C3, W9, hits_false, app_nil_r; [reflexivity|]. intros e He Heq. destruct (Ho e He); lia.
        * intros e He. destruct (Ho e He); cbn [cond_p pt]; lia.
      + intros Hes Hw. pose proof Hw as Hw0. cbn [wired] in Hw0.
        destruct Hw0 as (_ & _ & _ & _ & _ & W6 & _ & _ & W9 & _).
        cbn [exits] in Hes.
        apply Hrest; try exact Hw.
        * apply hits_false. intros e He Heq. rewrite Hes in He. destruct He as [<-|[<-|[]]]; lia.
        * rewrite B3, W6, hits_true; [reflexivity|]. rewrite Hes. right. left. reflexivity.
        * rewrite C3, W9, hits_true; [reflexivity|]. rewrite Hes. left. reflexivity.
        * intros e He. rewrite Hes in He. cbn [cond_p pt]. destruct He as [<-|[<-|[]]]; lia. }
    remember (f0 :: F) as F' eqn:EF'.
    assert (HfF0 : frag (XCond e0 P F') = true) by exact Hf.
    rewrite EF' in Hf. apply frag_cond in Hf. destruct Hf as [HfP HfF]. rewrite <- EF' in HfF.
    assert (Ent : ntrans (XCond e0 P F') = 4 + ntrans_b P + ntrans_b F') by (rewrite EF'; reflexivity).
    assert (Ewd : forall NN xc, wired NN (XCond e0 P F') p0 ctx xc =
      (preN NN (pt p0) = [pp p0 + 2; pp p0] /\ postN NN (pt p0) = entries_b P (cond_p p0) /\
       cbsN NN (pt p0) = startcbs_b P (cond_p p0) ctx /\
       preN NN (pt p0 + 1) = [pp p0 + 2; pp p0 + 1] /\ postN NN (pt p0 + 1) = entries_b F' (cond_f P p0) /\
       cbsN NN (pt p0 + 1) = startcbs_b F' (cond_f P p0) ctx /\
       preN NN (pt p0 + 2) = [xplace_b P (cond_p p0)] /\ postN NN (pt p0 + 2) = [pp p0 + 3] /\ cbsN NN (pt p0 + 2) = xc /\
       preN NN (cond_sf P p0) = [xplace_b F' (cond_f P p0)] /\ postN NN (cond_sf P p0) = [pp p0 + 3] /\
       cbsN NN (cond_sf P p0) = xc /\
       wired_block (wired NN) NN ctx [] P (cond_p p0) /\ wired_block (wired NN) NN ctx [] F' (cond_f P p0)))
      by (intros NN xc; rewrite EF'; reflexivity).
    assert (Eex : exits (XCond e0 P F') p0 = [pt p0 + 2; pt p0 + 3 + ntrans_b P]) by (rewrite EF'; reflexivity).
    clear EF' f0. rename F into Fold. rename F' into F.
    rewrite Ent, napis_cond in *.
    assert (HagP : agree N N' (cond_p p0) (ntrans_b P) (napis_l P) es extra)
      by (eapply agree_sub; [exact Hag|cbn [cond_p pt pa]; lia..]).
    assert (HagF : agree N N' (cond_f P p0) (ntrans_b F) (napis_l F) es extra)
      by (eapply agree_sub; [exact Hag|cbn [cond_f pt pa]; lia..]).
    destruct (wired_agree_block N N' es extra P IHp HfP (cond_p p0) ctx [] HagP) as [Po _].
    destruct (wired_agree_block N N' es extra F IHf HfF (cond_f P p0) ctx [] HagF) as [Fo _].
    destruct Hag as (Ht & _).
    destruct (Ht (pt p0) ltac:(lia)) as (A1 & A2 & A3).
    destruct (Ht (pt p0 + 1) ltac:(lia)) as (B1 & B2 & B3).
    destruct (Ht (pt p0 + 2) ltac:(lia)) as (C1 & C2 & C3).
    destruct (Ht (cond_sf P p0) ltac:(unfold cond_sf; lia)) as (D1 & D2 & D3).
    assert (Hrest : forall xcbs',
               hits es (pt p0) = false -> hits es (pt p0 + 1) = false ->
               cbsN N' (pt p0 + 2) = xcbs' -> cbsN N' (cond_sf P p0) = xcbs' ->
               outside_t es (pt (cond_p p0)) (pt (cond_p p0) + ntrans_b P) ->
               outside_t es (pt (cond_f P p0)) (pt (cond_f P p0) + ntrans_b F) ->
               wired N (XCond e0 P F) p0 ctx xcbs -> wired N' (XCond e0 P F) p0 ctx xcbs').
    { intros xcbs' H0 H1 H2 H3 HoP HoF Hw. rewrite Ewd in *.
      destruct Hw as (W1 & W2 & W3 & W4 & W5 & W6 & W7 & W8 & W9 & W10 & W11 & W12 & WP & WF).
      rewrite H0, app_nil_r in A3. rewrite H1, app_nil_r in B3.
      repeat (split; [congruence|]). split; [apply Po; assumption|apply Fo; assumption]. }
    split.
    + intros Ho Hw. pose proof Hw as Hw0. rewrite Ewd in Hw0.
      destruct Hw0 as (_ & _ & _ & _ & _ & _ & _ & _ & W9 & _ & _ & W12 & _).
      apply Hrest; try exact Hw.
      * apply hits_false. intros e He Heq. destruct (Ho e He); lia.
      * apply hits_false. intros e He Heq. destruct (Ho e He); lia.
      * rewrite C3, W9, hits_false, app_nil_r; [reflexivity|]. intros e He Heq. destruct (Ho e He); lia.
      * rewrite D3, W12, hits_false, app_nil_r; [reflexivity|]. intros e He Heq. unfold cond_sf in Heq. destruct (Ho e He); lia.
      * intros e He. destruct (Ho e He); cbn [cond_p pt]; lia.
      * intros e He. destruct (Ho e He); cbn [cond_f pt]; lia.
    + intros Hes Hw. pose proof Hw as Hw0. rewrite Ewd in Hw0.
      destruct Hw0 as (_ & _ & _ & _ & _ & _ & _ & _ & W9 & _ & _ & W12 & _).
      rewrite Eex in Hes.
      apply Hrest; try exact Hw.
      * apply hits_false. intros e He Heq. rewrite Hes in He. destruct He as [<-|[<-|[]]]; lia.
      * apply hits_false. intros e He Heq. rewrite Hes in He. destruct He as [<-|[<-|[]]]; lia.
      * rewrite C3, W9, hits_true; [reflexivity|]. rewrite Hes. left. reflexivity.
      * rewrite D3, W12, hits_true; [reflexivity|]. rewrite Hes. right. left. reflexivity.
      * intros e He. rewrite Hes in He. cbn [cond_p pt]. destruct He as [<-|[<-|[]]]; lia.
      * intros e He. rewrite Hes in He. cbn [cond_f pt]. destruct He as [<-|[<-|[]]]; lia.
  - (* while loop *)
    apply frag_while in Hf. rewrite ntrans_while, napis_while in *.
    assert (HagB : agree N N' (loop_p p0) (ntrans_b b) (napis_l b) es extra)
      by (eapply agree_sub; [exact Hag|cbn [loop_p pt pa]; lia..]).
    destruct (wired_agree_block N N' es extra b IH Hf (loop_p p0) ctx [] HagB) as [Bo _].
    destruct Hag as (Ht & _).
    destruct (Ht (pt p0) ltac:(lia)) as (A1 & A2 & A3).
    destruct (Ht (pt p0 + 1) ltac:(lia)) as (B1 & B2 & B3).
    destruct (Ht (pt p0 + 2) ltac:(lia)) as (C1 & C2 & C3).
    assert (Hrest : forall xcbs',
               hits es (pt p0) = false -> hits es (pt p0 + 2) = false ->
               cbsN N' (pt p0 + 1) = xcbs' ->
               outside_t es (pt (loop_p p0)) (pt (loop_p p0) + ntrans_b b) ->
               wired N (XWhile e0 b) p0 ctx xcbs -> wired N' (XWhile e0 b) p0 ctx xcbs').
    { intros xcbs' H0 H2 H1 HoB Hw. cbn [wired] in *.
      destruct Hw as (W1 & W2 & W3 & W4 & W5 & W6 & W7 & W8 & W9 & WB).
      rewrite H0, app_nil_r in A3. rewrite H2, app_nil_r in C3.
      repeat (split; [congruence|]). apply Bo; assumption. }
    split.
    + intros Ho Hw. pose proof Hw as Hw0. cbn [wired] in Hw0.
      destruct Hw0 as (_ & _ & _ & _ & _ & W6 & _).
      apply Hrest; try exact Hw.
      * apply hits_false. intros e He Heq. destruct (Ho e He); lia.
      * apply hits_false. intros e He Heq. destruct (Ho e He); lia.
      * rewrite B3, W6, hits_false, app_nil_r; [reflexivity|]. intros e He Heq. destruct (Ho e He); lia.
      * intros e He. destruct (Ho e He); cbn [loop_p pt]; lia.
    + intros Hes Hw. pose proof Hw as Hw0. cbn [wired] in Hw0.
      destruct Hw0 as (_ & _ & _ & _ & _ & W6 & _).
      cbn [exits] in Hes.
      apply Hrest; try exact Hw.
      * apply hits_false. intros e He Heq. rewrite Hes in He. destruct He as [<-|[]]; lia.
      * apply hits_false. intros e He Heq. rewrite Hes in He. destruct He as [<-|[]]; lia.
      * rewrite B3, W6, hits_true; [reflexivity|]. rewrite Hes. left. reflexivity.
      * intros e He. rewrite Hes in He. cbn [loop_p pt]. destruct He as [<-|[]]; lia.
  - (* counting loop *)
    apply frag_count in Hf. rewrite ntrans_count, napis_count in *.
    assert (HagB : agree N N' (loop_p p0) (ntrans_b b) (napis_l b) es extra)
      by (eapply agree_sub; [exact Hag|cbn [loop_p pt pa]; lia..]).
    destruct (wired_agree_block N N' es extra b IH Hf (loop_p p0) ctx [] HagB) as [Bo _].
    destruct Hag as (Ht & _).
    destruct (Ht (pt p0) ltac:(lia)) as (A1 & A2 & A3).
    destruct (Ht (pt p0 + 1) ltac:(lia)) as (B1 & B2 & B3).
    destruct (Ht (pt p0 + 2) ltac:(lia)) as (C1 & C2 & C3).
    assert (Hrest : forall xcbs',
               hits es (pt p0) = false -> hits es (pt p0 + 2) = false ->
               cbsN N' (pt p0 + 1) = xcbs' ->
               outside_t es (pt (loop_p p0)) (pt (loop_p p0) + ntrans_b b) ->
               wired N (XCount v l b) p0 ctx xcbs -> wired N' (XCount v l b) p0 ctx xcbs').
    { intros xcbs' H0 H2 H1 HoB Hw. cbn [wired] in *.
      destruct Hw as (W1 & W2 & W3 & W4 & W5 & W6 & W7 & W8 & W9 & WB).
      rewrite H0, app_nil_r in A3. rewrite H2, app_nil_r in C3.
      repeat (split; [congruence|]). apply Bo; assumption. }
    split.
    + intros Ho Hw. pose proof Hw as Hw0. cbn [wired] in Hw0.
      destruct Hw0 as (_ & _ & _ & _ & _ & W6 & _).
      apply Hrest; try exact Hw.
      * apply hits_false. intros e He Heq. destruct (Ho e He); lia.
      * apply hits_false. intros e He Heq. destruct (Ho e He); lia.
      * rewrite B3, W6, hits_false, app_nil_r; [reflexivity|]. intros e He Heq. destruct (Ho e He); lia.
      * intros e He. destruct (Ho e He); cbn [loop_p pt]; lia.
    + intros Hes Hw. pose proof Hw as Hw0. cbn [wired] in Hw0.
      destruct Hw0 as (_ & _ & _ & _ & _ & W6 & _).
      cbn [exits] in Hes.
      apply Hrest; try exact Hw.
      * apply hits_false. intros e He Heq. rewrite Hes in He. destruct He as [<-|[]]; lia.
      * apply hits_false. intros e He Heq. rewrite Hes in He. destruct He as [<-|[]]; lia.
      * rewrite B3, W6, hits_true; [reflexivity|]. rewrite Hes. left. reflexivity.
      * intros e He. rewrite Hes in He. cbn [loop_p pt]. destruct He as [<-|[]]; lia.
Qed.

(* ---- the counting loops of a component stand at sites that bind their counting variables:
        [keys_ok x tn pre i] for the component x at index i of the block (tn, pre) ---- *)
Definition key_ok (tn : name) (path : list nat) (v : name) : Prop :=
  loop_var_of {| st_task := tn; st_path := path |} = Some v.

Fixpoint keys_ok (x : xstmt) (tn : name) (pre : list nat) (i : nat) {struct x} : Prop :=
  match x with
  | XCall t _ _ body =>
    (fix blk (l : list xstmt) (j : nat) : Prop :=
       match l with [] => True | y :: r => keys_ok y t [] j /\ blk r (S j) end) body 0
  | XParallel bs =>
    (fix blk (l : list xstmt) (j : nat) : Prop :=
       match l with [] => True | y :: r => keys_ok y tn (pre ++ [i]) j /\ blk r (S j) end) bs 0
  | XCond _ P F =>
    (fix blk (l : list xstmt) (j : nat) : Prop :=
       match l with [] => True | y :: r => keys_ok y tn ((pre ++ [i]) ++ [0]) j /\ blk r (S j) end) P 0 /\
    (fix blk (l : list xstmt) (j : nat) : Prop :=
       match l with [] => True | y :: r => keys_ok y tn ((pre ++ [i]) ++ [1]) j /\ blk r (S j) end) F 0
  | XWhile _ B =>
    (fix blk (l : list xstmt) (j : nat) : Prop :=
       match l with [] => True | y :: r => keys_ok y tn (pre ++ [i]) j /\ blk r (S j) end) B 0
  | XCount v _ B =>
    key_ok tn (pre ++ [i]) v /\
    (fix blk (l : list xstmt) (j : nat) : Prop :=
       match l with [] => True | y :: r => keys_ok y tn (pre ++ [i]) j /\ blk r (S j) end) B 0
  | _ => True
  end.
Fixpoint keys_block (tn : name) (pre : list nat) (l : list xstmt) (i : nat) : Prop :=
  match l with [] => True | y :: r => keys_ok y tn pre i /\ keys_block tn pre r (S i) end.

Lemma keys_ok_call : forall t a ins body tn pre i, keys_ok (XCall t a ins body) tn pre i = keys_block t [] body 0.
Proof. intros. cbn [keys_ok]. generalize 0. induction body as [|y r IH]; intro j; [reflexivity|]. cbn [keys_block]. rewrite <- IH. reflexivity. Qed.
Lemma keys_ok_par : forall bs tn pre i, keys_ok (XParallel bs) tn pre i = keys_block tn (pre ++ [i]) bs 0.
Proof. intros. cbn [keys_ok]. generalize 0. induction bs as [|y r IH]; intro j; [reflexivity|]. cbn [keys_block]. rewrite <- IH. reflexivity. Qed.
Lemma keys_ok_cond : forall e P F tn pre i,
    keys_ok (XCond e P F) tn pre i = (keys_block tn ((pre ++ [i]) ++ [0]) P 0 /\ keys_block tn ((pre ++ [i]) ++ [1]) F 0).
Proof.
  intros. cbn [keys_ok]. generalize ((pre ++ [i]) ++ [0]) ((pre ++ [i]) ++ [1]). intros q0 q1. f_equal.
  - generalize 0. induction P as [|y r IH]; intro j; [reflexivity|]. cbn [keys_block]. rewrite <- IH. reflexivity.
  - generalize 0. induction F as [|y r IH]; intro j; [reflexivity|]. cbn [keys_block]. rewrite <- IH. reflexivity.
Qed.
Lemma keys_ok_while : forall e B tn pre i, keys_ok (XWhile e B) tn pre i = keys_block tn (pre ++ [i]) B 0.
Proof. intros. cbn [keys_ok]. generalize 0. induction B as [|y r IH]; intro j; [reflexivity|]. cbn [keys_block]. rewrite <- IH. reflexivity. Qed.
Lemma keys_ok_count : forall v l B tn pre i,
    keys_ok (XCount v l B) tn pre i = (key_ok tn (pre ++ [i]) v /\ keys_block tn (pre ++ [i]) B 0).
Proof. intros. cbn [keys_ok]. f_equal. generalize 0. induction B as [|y r IH]; intro j; [reflexivity|]. cbn [keys_block]. rewrite <- IH. reflexivity. Qed.
Lemma keys_block_nth : forall tn pre l i j s, keys_block tn pre l i -> nth_error l j = Some s -> keys_ok s tn pre (i + j).
Proof.
  intros tn pre. induction l as [|y r IH]; intros i j s H Hn; [destruct j; discriminate Hn|].
  cbn [keys_block] in H. destruct H as [H1 H2]. destruct j as [|j]; cbn [nth_error] in Hn.
  - inversion Hn; subst. rewrite Nat.add_0_r. exact H1.
  - replace (i + S j) with (S i + j) by lia. apply (IH (S i) j s H2 Hn).
Qed.

End WithLV.
