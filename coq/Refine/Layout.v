(* Refine/Layout.v — where the generator puts what: for the fragment Service / task call /
   Parallel of the call-tree unfolding, the identifiers (creation indices) of the places,
   transitions and API records of every statement occurrence, computed from the tree and the
   three counters at the moment its generation starts.  Definitions and arithmetic only. *)
From PFDL Require Import NetModel.
From Coq Require Import Lia.

(* the three creation counters: places, transitions, API records *)
Record pos := mkpos { pp : nat; pt : nat; pa : nat }.

(* ---- induction principle for the nested type ---- *)
Lemma xstmt_ind' : forall (P : xstmt -> Prop),
    (forall n a i, P (XService n a i)) ->
    (forall t a i body, Forall P body -> P (XCall t a i body)) ->
    (forall bs, Forall P bs -> P (XParallel bs)) ->
    (forall e p f, Forall P p -> Forall P f -> P (XCond e p f)) ->
    (forall e b, Forall P b -> P (XWhile e b)) ->
    (forall v l b, Forall P b -> P (XCount v l b)) ->
    (forall v l c, P c -> P (XParLoop v l c)) ->
    forall s, P s.
Proof.
  intros P HS HC HP HCo HW HCn HPL.
  fix IH 1. intros [n a i|t a i body|bs|e p f|e b|v l b|v l c].
  - apply HS.
  - apply HC. induction body as [|x r IHr]; constructor; [apply IH|exact IHr].
  - apply HP. induction bs as [|x r IHr]; constructor; [apply IH|exact IHr].
  - apply HCo; [induction p as [|x r IHr]|induction f as [|x r IHr]]; constructor; try apply IH; assumption.
  - apply HW. induction b as [|x r IHr]; constructor; [apply IH|exact IHr].
  - apply HCn. induction b as [|x r IHr]; constructor; [apply IH|exact IHr].
  - apply HPL. apply IH.
Qed.

(* ---- the fragment: services, task calls with non-empty bodies, non-empty Parallel of calls;
        no called task is named like the production task ---- *)
Fixpoint frag (s : xstmt) : bool :=
  match s with
  | XService _ _ _ => true
  | XCall t _ _ body =>
    negb (Nat.eqb t production_task) && match body with [] => false | _ => forallb frag body end
  | XParallel bs =>
    match bs with [] => false | _ => forallb (fun b => match b with XCall _ _ _ _ => frag b | _ => false end) bs end
  | _ => false
  end.
Definition frag_block (ss : list xstmt) : bool :=
  match ss with [] => false | _ => forallb frag ss end.

(* ---- sizes ---- *)
Fixpoint nplaces (s : xstmt) : nat :=
  match s with
  | XService _ _ _ => 3
  | XCall _ _ _ body => list_sum (map nplaces body)
  | XParallel bs => S (list_sum (map nplaces bs))
  | _ => 0
  end.
Fixpoint napis (s : xstmt) : nat :=
  match s with
  | XService _ _ _ => 1
  | XCall _ _ _ body => S (list_sum (map napis body))
  | XParallel bs => list_sum (map napis bs)
  | _ => 0
  end.
(* transitions of a block: one connection before every statement but the last *)
Definition ntrans_block (nt : xstmt -> nat) : list xstmt -> nat :=
  fix go (l : list xstmt) : nat :=
    match l with
    | [] => 0
    | s :: r => match r with [] => nt s | _ => S (nt s + go r) end
    end.
Fixpoint ntrans (s : xstmt) : nat :=
  match s with
  | XService _ _ _ => 1
  | XCall _ _ _ body => ntrans_block ntrans body
  | XParallel bs => S (list_sum (map ntrans bs))
  | _ => 0
  end.
Definition nplaces_l (l : list xstmt) : nat := list_sum (map nplaces l).
Definition napis_l (l : list xstmt) : nat := list_sum (map napis l).
Definition ntrans_b (l : list xstmt) : nat := ntrans_block ntrans l.
Definition ntrans_l (l : list xstmt) : nat := list_sum (map ntrans l).

(* counters after the component *)
Definition adv (s : xstmt) (p : pos) : pos :=
  mkpos (pp p + nplaces s) (pt p + ntrans s) (pa p + napis s).

(* position of the statements of a block *)
Definition conn_skip (p : pos) : pos := mkpos (pp p) (S (pt p)) (pa p).
Definition first_pos (l : list xstmt) (p : pos) : pos :=
  match l with _ :: _ :: _ => conn_skip p | _ => p end.
(* value of [f] at the last statement of a block starting at p *)
Definition last_of {A} (f : xstmt -> pos -> A) (d : A) : list xstmt -> pos -> A :=
  fix go (l : list xstmt) (p : pos) : A :=
    match l with
    | [] => d
    | s :: r => match r with [] => f s p | _ => go r (adv s (conn_skip p)) end
    end.
(* concatenation over the branches of a Parallel, laid out one after the other *)
Definition cat_of {A} (f : xstmt -> pos -> list A) : list xstmt -> pos -> list A :=
  fix go (l : list xstmt) (q : pos) : list A :=
    match l with
    | [] => []
    | b :: r => f b q ++ go r (adv b q)
    end.

Definition body_pos (p : pos) : pos := mkpos (pp p) (pt p) (S (pa p)).
Definition par_pos (p : pos) : pos := mkpos (S (pp p)) (S (pt p)) (pa p).

(* places that receive a token when the component is entered *)
Fixpoint entries (s : xstmt) (p : pos) : list nat :=
  match s with
  | XService _ _ _ => [pp p]
  | XCall _ _ _ body =>
    match body with [] => [] | s0 :: _ => entries s0 (first_pos body (body_pos p)) end
  | XParallel bs => cat_of entries bs (par_pos p)
  | _ => []
  end.
(* callbacks the component registers on the transition that enters it, in order *)
Fixpoint startcbs (s : xstmt) (p : pos) : list cb :=
  match s with
  | XService _ _ _ => [CbSS (pa p)]
  | XCall _ _ _ body =>
    CbTS (pa p) :: match body with [] => [] | s0 :: _ => startcbs s0 (first_pos body (body_pos p)) end
  | XParallel bs => cat_of startcbs bs (par_pos p)
  | _ => []
  end.
(* the place whose token says "this component is complete" (input of the transition after it) *)
Fixpoint xplace (s : xstmt) (p : pos) : nat :=
  match s with
  | XService _ _ _ => pp p + 2
  | XCall _ _ _ body => last_of xplace 0 body (body_pos p)
  | XParallel _ => pp p
  | _ => 0
  end.
(* the transition whose firing completes the component (done_t of its last service / sync) *)
Fixpoint exit_t (s : xstmt) (p : pos) : nat :=
  match s with
  | XService _ _ _ => pt p
  | XCall _ _ _ body => last_of exit_t 0 body (body_pos p)
  | XParallel _ => pt p
  | _ => 0
  end.

Definition entries_b (l : list xstmt) (p : pos) : list nat :=
  match l with [] => [] | s0 :: _ => entries s0 (first_pos l p) end.
Definition startcbs_b (l : list xstmt) (p : pos) : list cb :=
  match l with [] => [] | s0 :: _ => startcbs s0 (first_pos l p) end.
Definition xplace_b := last_of xplace 0.
Definition exit_b := last_of exit_t 0.

(* ---- reading a net ---- *)
Definition tr0 : trans := {| tr_pre := []; tr_post := [] |}.
Definition preN (s : NS) (j : nat) : list nat := tr_pre (nth j (ns_trans s) tr0).
Definition postN (s : NS) (j : nat) : list nat := tr_post (nth j (ns_trans s) tr0).
Definition cbsN (s : NS) (j : nat) : list cb := nth j (ns_cbs s) [].

(* the API records as created *)
Definition svc_api (n : name) (at_ : site) (ins : list param) (ctx k : nat) : api :=
  {| a_is_task := false; a_name := n; a_site := at_; a_uuid := IUuid k; a_ctx := Some ctx;
     a_in_loop := false; a_params := ins; a_src := ins; a_has_call := false |}.
Definition call_api (t : name) (at_ : site) (ins : list param) (ctx k : nat) : api :=
  {| a_is_task := true; a_name := t; a_site := at_; a_uuid := IUuid k; a_ctx := Some ctx;
     a_in_loop := false; a_params := ins; a_src := ins; a_has_call := true |}.

(* the same record up to its (run-time) identifier *)
Definition api_like (a0 a : api) : Prop := a = with_uuid (a_uuid a) a0.

(* ---- the net contains the component: every transition the component creates has exactly
        the arcs and callbacks of the design (DESIGN.md Appendix A); [xcbs] are the callbacks
        the context registers on the component's exit transition (task-finished of the
        enclosing calls, innermost first) ---- *)
Definition wired_block (W : xstmt -> pos -> nat -> list cb -> Prop) (N : NS) (ctx : nat) (xcbs : list cb)
  : list xstmt -> pos -> Prop :=
  fix go (l : list xstmt) (p : pos) : Prop :=
    match l with
    | [] => True
    | s :: r =>
      match r with
      | [] => W s p ctx xcbs
      | s' :: _ =>
        let ps := conn_skip p in
        let pr := adv s ps in
        preN N (pt p) = [xplace s ps] /\
        postN N (pt p) = entries s' (first_pos r pr) /\
        cbsN N (pt p) = startcbs s' (first_pos r pr) /\
        W s ps ctx [] /\ go r pr
      end
    end.
Definition wired_list (W : xstmt -> pos -> nat -> list cb -> Prop) (ctx : nat)
  : list xstmt -> pos -> Prop :=
  fix go (l : list xstmt) (q : pos) : Prop :=
    match l with
    | [] => True
    | b :: r => W b q ctx [] /\ go r (adv b q)
    end.

Section Wired.
  Variable N : NS.
  Fixpoint wired (s : xstmt) (p : pos) (ctx : nat) (xcbs : list cb) {struct s} : Prop :=
    match s with
    | XService n at_ ins =>
      preN N (pt p) = [pp p; pp p + 1] /\ postN N (pt p) = [pp p + 2] /\
      cbsN N (pt p) = CbSF (pa p) :: xcbs /\
      nth_error (ns_apis N) (pa p) = Some (svc_api n at_ ins ctx (pa p)) /\
      dict_get ident_eqb (IUuid (pa p)) (ns_place_dict N) = Some (pp p + 1)
    | XCall t at_ ins body =>
      nth_error (ns_apis N) (pa p) = Some (call_api t at_ ins ctx (pa p)) /\
      wired_block wired N (pa p) (CbTF (pa p) :: xcbs) body (body_pos p)
    | XParallel bs =>
      preN N (pt p) = cat_of (fun b q => [xplace b q]) bs (par_pos p) /\
      postN N (pt p) = [pp p] /\
      cbsN N (pt p) = xcbs /\
      wired_list wired ctx bs (par_pos p)
    | _ => False
    end.
End Wired.

(* ---- unfolding equations for the list helpers ---- *)
Lemma last_of_one : forall A (f : xstmt -> pos -> A) d s p, last_of f d [s] p = f s p.
Proof. reflexivity. Qed.
Lemma last_of_cons : forall A (f : xstmt -> pos -> A) d s s' r p,
    last_of f d (s :: s' :: r) p = last_of f d (s' :: r) (adv s (conn_skip p)).
Proof. reflexivity. Qed.
Lemma ntrans_b_one : forall s, ntrans_b [s] = ntrans s. Proof. reflexivity. Qed.
Lemma ntrans_b_cons : forall s s' r, ntrans_b (s :: s' :: r) = S (ntrans s + ntrans_b (s' :: r)).
Proof. reflexivity. Qed.
Lemma ntrans_call : forall t a i body, ntrans (XCall t a i body) = ntrans_b body. Proof. reflexivity. Qed.
Lemma ntrans_par : forall bs, ntrans (XParallel bs) = S (ntrans_l bs). Proof. reflexivity. Qed.
Lemma nplaces_call : forall t a i body, nplaces (XCall t a i body) = nplaces_l body. Proof. reflexivity. Qed.
Lemma nplaces_par : forall bs, nplaces (XParallel bs) = S (nplaces_l bs). Proof. reflexivity. Qed.
Lemma napis_call : forall t a i body, napis (XCall t a i body) = S (napis_l body). Proof. reflexivity. Qed.
Lemma napis_par : forall bs, napis (XParallel bs) = napis_l bs. Proof. reflexivity. Qed.
Lemma nplaces_l_cons : forall s r, nplaces_l (s :: r) = nplaces s + nplaces_l r. Proof. reflexivity. Qed.
Lemma napis_l_cons : forall s r, napis_l (s :: r) = napis s + napis_l r. Proof. reflexivity. Qed.
Lemma ntrans_l_cons : forall s r, ntrans_l (s :: r) = ntrans s + ntrans_l r. Proof. reflexivity. Qed.

Lemma frag_call : forall t a i body,
    frag (XCall t a i body) = true -> Nat.eqb t production_task = false /\ frag_block body = true.
Proof.
  intros t a i body H. cbn [frag] in H. apply andb_prop in H. destruct H as [H1 H2].
  split; [destruct (Nat.eqb t production_task); [discriminate|reflexivity]|exact H2].
Qed.
Lemma frag_block_cons : forall s r, frag_block (s :: r) = true -> frag s = true /\ (r = [] \/ frag_block r = true).
Proof.
  intros s r H. cbn [frag_block forallb] in H. apply andb_prop in H. destruct H as [H1 H2].
  split; [exact H1|]. destruct r as [|s' r]; [left; reflexivity|right; exact H2].
Qed.
Definition is_call (b : xstmt) : bool := match b with XCall _ _ _ _ => true | _ => false end.
Definition frag_brs (bs : list xstmt) : bool := forallb (fun b => is_call b && frag b) bs.
Lemma frag_par : forall bs, frag (XParallel bs) = true -> bs <> [] /\ frag_brs bs = true.
Proof.
  intros bs H. cbn [frag] in H. destruct bs as [|b r]; [discriminate|]. split; [discriminate|].
  unfold frag_brs. rewrite forallb_forall in *. intros x Hx. specialize (H x Hx).
  destruct x; try discriminate. exact H.
Qed.
Lemma frag_brs_cons : forall b r, frag_brs (b :: r) = true -> is_call b = true /\ frag b = true /\ frag_brs r = true.
Proof.
  intros b r H. unfold frag_brs in H. cbn [forallb] in H. apply andb_prop in H. destruct H as [H1 H2].
  apply andb_prop in H1. destruct H1. auto.
Qed.

(* every component of the fragment owns at least one transition, place and API record *)
Lemma frag_sizes : forall s, frag s = true -> 1 <= ntrans s /\ 1 <= nplaces s /\ 1 <= napis s.
Proof.
  induction s as [n a i|t a i body IH|bs IH|e p f IHp IHf|e b IH|v l b IH|v l c IH] using xstmt_ind'; intro H; try discriminate H.
  - cbn. lia.
  - apply frag_call in H. destruct H as [_ H]. rewrite ntrans_call, nplaces_call, napis_call.
    destruct body as [|s r]; [discriminate|]. apply frag_block_cons in H. destruct H as [Hs _].
    inversion IH as [|? ? IHs _]; subst. specialize (IHs Hs).
    rewrite nplaces_l_cons. destruct r; [rewrite ntrans_b_one|rewrite ntrans_b_cons]; lia.
  - apply frag_par in H. destruct H as [Hne H]. rewrite ntrans_par, nplaces_par, napis_par.
    destruct bs as [|b r]; [congruence|]. apply frag_brs_cons in H. destruct H as (_ & Hb & _).
    inversion IH as [|? ? IHb _]; subst. specialize (IHb Hb). rewrite napis_l_cons. lia.
Qed.

(* ---- exit transition and exit place lie inside the component ---- *)
Lemma exit_range_block : forall l,
    Forall (fun s => frag s = true -> forall p, pt p <= exit_t s p < pt p + ntrans s) l ->
    frag_block l = true -> forall p, pt p <= exit_b l p < pt p + ntrans_b l.
Proof.
  induction l as [|s r IH]; intros HF Hf p; [discriminate|].
  inversion HF as [|? ? Hs Hr]; subst. apply frag_block_cons in Hf. destruct Hf as [Hfs Hfr].
  destruct r as [|s' r].
  - unfold exit_b. rewrite last_of_one, ntrans_b_one. apply Hs. exact Hfs.
  - destruct Hfr as [Hfr|Hfr]; [discriminate|]. unfold exit_b. rewrite last_of_cons, ntrans_b_cons.
    specialize (IH Hr Hfr (adv s (conn_skip p))). unfold exit_b in IH. cbn [adv conn_skip pt] in IH. lia.
Qed.

Lemma exit_range : forall s, frag s = true -> forall p, pt p <= exit_t s p < pt p + ntrans s.
Proof.
  induction s as [n a i|t a i body IH|bs IH|e p f IHp IHf|e b IH|v l b IH|v l c IH] using xstmt_ind';
    intros H p0; try discriminate H.
  - cbn. lia.
  - apply frag_call in H. destruct H as [_ H]. rewrite ntrans_call. cbn [exit_t].
    apply (exit_range_block body IH H (body_pos p0)).
  - rewrite ntrans_par. cbn [exit_t]. lia.
Qed.

Lemma xplace_range_block : forall l,
    Forall (fun s => frag s = true -> forall p, pp p <= xplace s p < pp p + nplaces s) l ->
    frag_block l = true -> forall p, pp p <= xplace_b l p < pp p + nplaces_l l.
Proof.
  induction l as [|s r IH]; intros HF Hf p; [discriminate|].
  inversion HF as [|? ? Hs Hr]; subst. apply frag_block_cons in Hf. destruct Hf as [Hfs Hfr].
  rewrite nplaces_l_cons. destruct r as [|s' r].
  - unfold xplace_b. rewrite last_of_one. specialize (Hs Hfs p). cbn. lia.
  - destruct Hfr as [Hfr|Hfr]; [discriminate|]. unfold xplace_b. rewrite last_of_cons.
    specialize (IH Hr Hfr (adv s (conn_skip p))). unfold xplace_b in IH. cbn [adv conn_skip pp] in IH. lia.
Qed.

Lemma xplace_range : forall s, frag s = true -> forall p, pp p <= xplace s p < pp p + nplaces s.
Proof.
  induction s as [n a i|t a i body IH|bs IH|e p f IHp IHf|e b IH|v l b IH|v l c IH] using xstmt_ind';
    intros H p0; try discriminate H.
  - cbn. lia.
  - apply frag_call in H. destruct H as [_ H]. rewrite nplaces_call. cbn [xplace].
    apply (xplace_range_block body IH H (body_pos p0)).
  - rewrite nplaces_par. cbn [xplace]. lia.
Qed.

Lemma napis_l_one : forall s, napis_l [s] = napis s.
Proof. intro s. unfold napis_l. cbn [map list_sum fold_right]. lia. Qed.
Lemma nplaces_l_one : forall s, nplaces_l [s] = nplaces s.
Proof. intro s. unfold nplaces_l. cbn [map list_sum fold_right]. lia. Qed.

Lemma exit_range_b : forall l, frag_block l = true -> forall p, pt p <= exit_b l p < pt p + ntrans_b l.
Proof.
  intros l H. apply exit_range_block; [|exact H]. apply Forall_forall. intros s _ Hs. apply exit_range. exact Hs.
Qed.
Lemma xplace_range_b : forall l, frag_block l = true -> forall p, pp p <= xplace_b l p < pp p + nplaces_l l.
Proof.
  intros l H. apply xplace_range_block; [|exact H]. apply Forall_forall. intros s _ Hs. apply xplace_range. exact Hs.
Qed.

(* ---- [wired] depends only on the component's own transitions, API records and place_dict
        entries; callbacks appended to its exit transition extend [xcbs] ---- *)
Definition agree (N N' : NS) (p : pos) (dt da : nat) (e : nat) (extra : list cb) : Prop :=
  (forall j, pt p <= j < pt p + dt ->
             preN N' j = preN N j /\ postN N' j = postN N j /\
             cbsN N' j = cbsN N j ++ (if Nat.eqb e j then extra else [])) /\
  (forall j, pa p <= j < pa p + da -> nth_error (ns_apis N') j = nth_error (ns_apis N) j) /\
  (exists d, ns_place_dict N' = d ++ ns_place_dict N /\
             Forall (fun kv => exists k, fst kv = IUuid k /\ pa p + da <= k) d).

Lemma agree_sub : forall N N' p dt da e x q dt' da',
    agree N N' p dt da e x ->
    pt p <= pt q -> pt q + dt' <= pt p + dt -> pa p <= pa q -> pa q + da' <= pa p + da ->
    agree N N' q dt' da' e x.
Proof.
  intros N N' p dt da e x q dt' da' (Ht & Ha & d & Hd & Hk) H1 H2 H3 H4. split; [|split].
  - intros j Hj. apply Ht. lia.
  - intros j Hj. apply Ha. lia.
  - exists d. split; [exact Hd|]. eapply Forall_impl; [|exact Hk].
    intros kv (k & E & Hle). exists k. split; [exact E|lia].
Qed.

Lemma dict_get_skip : forall (d r : list (ident * nat)) n,
    Forall (fun kv => exists k, fst kv = IUuid k /\ n < k) d ->
    dict_get ident_eqb (IUuid n) (d ++ r) = dict_get ident_eqb (IUuid n) r.
Proof.
  induction d as [|[u q] d IH]; intros r n H; [reflexivity|].
  inversion H as [|? ? (k & E & Hk) Hr]; subst. cbn [app dict_get]. cbn [fst] in E. subst u.
  cbn [ident_eqb]. destruct (Nat.eqb_spec n k); [lia|]. apply IH. exact Hr.
Qed.

Lemma wired_agree_block : forall N N' e extra l,
    Forall (fun s => frag s = true -> forall p ctx xcbs,
                agree N N' p (ntrans s) (napis s) e extra ->
                ((e < pt p \/ pt p + ntrans s <= e) \/ e = exit_t s p) ->
                wired N s p ctx xcbs ->
                wired N' s p ctx (xcbs ++ if Nat.eqb e (exit_t s p) then extra else [])) l ->
    frag_block l = true -> forall p ctx xcbs,
      agree N N' p (ntrans_b l) (napis_l l) e extra ->
      ((e < pt p \/ pt p + ntrans_b l <= e) \/ e = exit_b l p) ->
      wired_block (wired N) N ctx xcbs l p ->
      wired_block (wired N') N' ctx (xcbs ++ if Nat.eqb e (exit_b l p) then extra else []) l p.
Proof.
  intros N N' e extra. induction l as [|s r IH]; intros HF Hf p ctx xcbs Hag He Hw; [discriminate|].
  inversion HF as [|? ? Hs Hr]; subst. apply frag_block_cons in Hf. destruct Hf as [Hfs Hfr].
  destruct r as [|s' r].
  - cbn [wired_block] in *. unfold exit_b in *. rewrite last_of_one in *. rewrite ntrans_b_one in *.
    apply Hs; try assumption. rewrite napis_l_one in Hag. exact Hag.
  - destruct Hfr as [Hfr|Hfr]; [discriminate|].
    cbn [wired_block] in Hw. cbv zeta in Hw. destruct Hw as (Hpre & Hpost & Hcb & Hws & Hwr).
    cbn [wired_block]. cbv zeta.
    rewrite ntrans_b_cons, napis_l_cons in Hag. rewrite ntrans_b_cons in He.
    unfold exit_b in *. rewrite last_of_cons in *.
    pose proof (exit_range_b (s' :: r) Hfr (adv s (conn_skip p))) as Hex.
    unfold exit_b in Hex. cbn [adv conn_skip pt] in Hex.
    destruct Hag as (Ht & Ha & Hd).
    destruct (Ht (pt p) ltac:(lia)) as (E1 & E2 & E3).
    assert (Hne : Nat.eqb e (pt p) = false).
    { apply Nat.eqb_neq. destruct He as [[He|He]|He]; lia. }
    rewrite Hne, app_nil_r in E3.
    split; [congruence|]. split; [congruence|]. split; [congruence|]. split.
    + assert (Hx := Hs Hfs (conn_skip p) ctx [] ).
      pose proof (exit_range s Hfs (conn_skip p)) as Hes. cbn [conn_skip pt] in Hes.
      assert (Hne2 : Nat.eqb e (exit_t s (conn_skip p)) = false).
      { apply Nat.eqb_neq. destruct He as [[He|He]|He]; lia. }
      rewrite Hne2 in Hx. cbn [app] in Hx. apply Hx; [|cbn [conn_skip pt]; destruct He as [[He|He]|He]; left; lia|exact Hws].
      apply (agree_sub N N' p (S (ntrans s + ntrans_b (s' :: r))) (napis s + napis_l (s' :: r)));
        [split; [exact Ht|split; [exact Ha|exact Hd]]|cbn; lia..].
    + apply IH; try assumption.
      * apply (agree_sub N N' p (S (ntrans s + ntrans_b (s' :: r))) (napis s + napis_l (s' :: r)));
          [split; [exact Ht|split; [exact Ha|exact Hd]]|cbn; lia..].
      * cbn [adv conn_skip pt]. destruct He as [[He|He]|He]; [left; left; lia|left; right; lia|right; exact He].
Qed.

Lemma wired_agree_list : forall N N' e extra l,
    Forall (fun s => frag s = true -> forall p ctx xcbs,
                agree N N' p (ntrans s) (napis s) e extra ->
                ((e < pt p \/ pt p + ntrans s <= e) \/ e = exit_t s p) ->
                wired N s p ctx xcbs ->
                wired N' s p ctx (xcbs ++ if Nat.eqb e (exit_t s p) then extra else [])) l ->
    frag_brs l = true -> forall q ctx,
      agree N N' q (ntrans_l l) (napis_l l) e extra ->
      (e < pt q \/ pt q + ntrans_l l <= e) ->
      wired_list (wired N) ctx l q -> wired_list (wired N') ctx l q.
Proof.
  intros N N' e extra. induction l as [|b r IH]; intros HF Hf q ctx Hag He Hw; [exact I|].
  inversion HF as [|? ? Hb Hr]; subst. apply frag_brs_cons in Hf. destruct Hf as (_ & Hfb & Hfr).
  cbn [wired_list] in *. destruct Hw as [Hwb Hwr]. rewrite ntrans_l_cons in *. rewrite napis_l_cons in Hag.
  split.
  - pose proof (exit_range b Hfb q) as Hex.
    assert (Hne : Nat.eqb e (exit_t b q) = false) by (apply Nat.eqb_neq; lia).
    specialize (Hb Hfb q ctx []). rewrite Hne in Hb. cbn [app] in Hb. apply Hb; [|left; lia|exact Hwb].
    eapply agree_sub; [exact Hag|lia..].
  - apply IH; try assumption.
    + eapply agree_sub; [exact Hag|cbn [adv pt pa]; lia..].
    + cbn [adv pt]. lia.
Qed.

Lemma wired_agree : forall N N' e extra s, frag s = true -> forall p ctx xcbs,
    agree N N' p (ntrans s) (napis s) e extra ->
    ((e < pt p \/ pt p + ntrans s <= e) \/ e = exit_t s p) ->
    wired N s p ctx xcbs ->
    wired N' s p ctx (xcbs ++ if Nat.eqb e (exit_t s p) then extra else []).
Proof.
  intros N N' e extra.
  induction s as [n a i|t a i body IH|bs IH|e0 p f IHp IHf|e0 b IH|v l b IH|v l c IH] using xstmt_ind';
    intros Hf p0 ctx xcbs Hag He Hw; try discriminate Hf.
  - cbn [wired exit_t ntrans napis] in *. destruct Hw as (H1 & H2 & H3 & Ha0 & H5).
    destruct Hag as (Ht & Ha & d & Hd & Hk).
    destruct (Ht (pt p0) ltac:(lia)) as (E1 & E2 & E3).
    split; [congruence|]. split; [congruence|]. split; [rewrite E3, H3; reflexivity|]. split.
    + rewrite Ha by lia. exact Ha0.
    + rewrite Hd, dict_get_skip; [exact H5|].
      eapply Forall_impl; [|exact Hk]. intros kv (k & E & Hle). exists k. split; [exact E|lia].
  - apply frag_call in Hf. destruct Hf as [_ Hf].
    cbn [wired exit_t] in *. destruct Hw as (Ha0 & Hw). rewrite ntrans_call, napis_call in *.
    split.
    + destruct Hag as (_ & Ha & _). rewrite Ha by lia. exact Ha0.
    + change (CbTF (pa p0) :: xcbs ++ (if Nat.eqb e (last_of exit_t 0 body (body_pos p0)) then extra else []))
        with ((CbTF (pa p0) :: xcbs) ++ (if Nat.eqb e (exit_b body (body_pos p0)) then extra else [])).
      apply (wired_agree_block N N' e extra body IH Hf); [|exact He|exact Hw].
      eapply agree_sub; [exact Hag|cbn [body_pos pt pa]; lia..].
  - apply frag_par in Hf. destruct Hf as [_ Hf].
    cbn [wired exit_t] in *. destruct Hw as (H1 & H2 & H3 & Hw). rewrite ntrans_par, napis_par in *.
    destruct Hag as (Ht & Ha & Hd).
    destruct (Ht (pt p0) ltac:(lia)) as (E1 & E2 & E3).
    split; [congruence|]. split; [congruence|]. split; [rewrite E3, H3; reflexivity|].
    apply (wired_agree_list N N' e extra bs IH Hf); [| |exact Hw].
    + eapply agree_sub; [split; [exact Ht|split; [exact Ha|exact Hd]]|cbn [par_pos pt pa]; lia..].
    + cbn [par_pos pt]. destruct He as [[He|He]|He]; lia.
Qed.
