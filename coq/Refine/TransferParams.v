(* Refine/TransferParams.v — the parameter monitor of C15 (MonitorsParams.v / RefParams.v) on the FAITHFUL
   net model: on the fragment of the refinement theorem (counting loops with indexed parameters are
   inside it) every successful run of the net model (any fuel) is the trace of the reference
   semantics, which the monitor accepts.  Proof file. *)
From PFDL Require Import NetModel NetRun RunCase Monitors MonitorsSeq MonitorsFork MonitorsDecide MonitorsParams RefParams.
From PFDL.Refine Require Import Main Transfer.

Section MonitorsParams.
  Variables (c : runcase) (tr tr1 : list callrec) (f : nat).
  Variable Hin : in_fragment c = true.
  Variable Href : run_ref c = Ok tr.
  Variable Hnet : run_net_f f c = Ok tr1.

  Theorem net_params_fragment : mon_params c tr1 = true.
  Proof. exact (net_transfer (fun c t => mon_params c t = true) C15_params_programs c Hin tr Href f tr1 Hnet). Qed.

  Theorem net_C15_fragment : mon_C15 c tr1 = true.
  Proof. exact (net_transfer (fun c t => mon_C15 c t = true) C15_programs c Hin tr Href f tr1 Hnet). Qed.
End MonitorsParams.
