(* Refine/SubstIdx.v — substitute_loop_indexes of the net model versus subst_params of the
   reference semantics: when the counters dict of the context task holds exactly the running
   counting loops (outermost first) and the loop keys resolve to the counting variables, the
   net's substitution of loop indices in an API object's parameters is the reference
   semantics' [subst_params] for the index environment of those loops, and nothing else
   changes.  (Not yet used by Sim.v, whose fragment keeps parameters index-free.)  Proof file. *)
From PFDL Require Import NetModel RefBase.
From PFDL.Refine Require Import Eval Layout GenSpec Abs.
From Coq Require Import Lia.

Section SubstIdx.
  Variable tasks : list task.

  (* the index environment of the running counting loops [kl] (innermost first) *)
  Definition ie_of (kl : list (site * nat)) (ie : ienv) : Prop :=
    Forall2 (fun kk vk => loop_var tasks (fst kk) = Some (fst vk) /\ snd vk = snd kk) kl ie.

  Lemma dict_get_set_nat : forall (V : Type) v v' (x : V) d,
      dict_get Nat.eqb v' (dict_set Nat.eqb v x d) = if Nat.eqb v' v then Some x else dict_get Nat.eqb v' d.
  Proof.
    intros V v v' x. induction d as [|[k y] r IH]; cbn [dict_set dict_get].
    - destruct (Nat.eqb v' v); reflexivity.
    - destruct (Nat.eqb_spec v k) as [->|Hne]; cbn [dict_get].
      + destruct (Nat.eqb v' k); reflexivity.
      + rewrite IH. destruct (Nat.eqb_spec v' k) as [->|Hne']; [|reflexivity].
        destruct (Nat.eqb_spec k v); [congruence|reflexivity].
  Qed.

  (* current_counters' of the dict of the running loops, as a fold over the loops *)
  Fixpoint cur_of (kl : list (site * nat)) : list (name * cval) :=
    match kl with
    | [] => []
    | (key, k) :: r => match loop_var tasks key with
                       | Some v => dict_set Nat.eqb v (CInt k) (cur_of r)
                       | None => cur_of r
                       end
    end.

  Lemma current_counters_enc : forall kl, current_counters' tasks (enc (rev kl)) = cur_of kl.
  Proof.
    intro kl. unfold current_counters'.
    assert (G : forall l acc, fold_left (fun acc kv =>
                   match fst kv with
                   | KLoop k => match loop_var tasks k with Some v => dict_set Nat.eqb v (snd kv) acc | None => acc end
                   | KVar v => dict_set Nat.eqb v (snd kv) acc
                   end) (enc l) acc
                 = fold_left (fun acc (kk : site * nat) => match loop_var tasks (fst kk) with
                                            | Some v => dict_set Nat.eqb v (CInt (snd kk)) acc | None => acc end) l acc).
    { induction l as [|[key k] r IH]; intro acc; [reflexivity|]. cbn [enc map fold_left fst snd]. apply IH. }
    rewrite G. rewrite <- fold_left_rev_right. rewrite rev_involutive.
    induction kl as [|[key k] r IH]; [reflexivity|]. cbn [fold_right cur_of fst snd]. rewrite IH. reflexivity.
  Qed.

  Lemma cur_of_get : forall kl ie, ie_of kl ie ->
      forall v, dict_get Nat.eqb v (cur_of kl) = option_map CInt (assoc v ie).
  Proof.
    intros kl ie H. induction H as [|[key k] [v0 k0] kl ie [Hv Hk] _ IH]; intro v; [reflexivity|].
    cbn [fst snd] in Hv, Hk. subst k0. cbn [cur_of assoc]. rewrite Hv, dict_get_set_nat.
    destruct (Nat.eqb v v0); [reflexivity|apply IH].
  Qed.

  Lemma subst_one_spec : forall kl ie e, ie_of kl ie ->
      subst_one (cur_of kl) [] e = (subst_pelem ie e, cur_of kl, []).
  Proof.
    intros kl ie e H. destruct e as [n|v|k|]; try reflexivity. cbn [subst_one subst_pelem].
    rewrite (cur_of_get kl ie H v). destruct (assoc v ie); reflexivity.
  Qed.

  Lemma subst_path_spec : forall kl ie l, ie_of kl ie ->
      subst_path (cur_of kl) [] l = (map (subst_pelem ie) l, cur_of kl, []).
  Proof.
    intros kl ie l H. induction l as [|e r IH]; [reflexivity|]. cbn [subst_path map].
    rewrite (subst_one_spec kl ie e H), IH. reflexivity.
  Qed.

  Theorem subst_all_params : forall kl ie ps, ie_of kl ie ->
      subst_all (cur_of kl) [] ps = (subst_params ie ps, cur_of kl).
  Proof.
    intros kl ie ps H. induction ps as [|p r IH]; [reflexivity|].
    destruct p as [v|v l|sn j]; cbn [subst_all]; unfold subst_params in *; cbn [map subst_param].
    - rewrite IH. reflexivity.
    - rewrite (subst_path_spec kl ie l H), IH. reflexivity.
    - rewrite IH. reflexivity.
  Qed.

  Lemma enc_plain_ : forall l, plain (enc l).
  Proof. intro l. unfold plain, enc. apply Forall_forall. intros kv Hin. apply in_map_iff in Hin. destruct Hin as (x & <- & _). eexists. reflexivity. Qed.

  (* substitute_loop_indexes, when the counters of the context task are those of [kl] *)
  Theorem substitute_loop_indexes_spec : forall ai s a ci c kl ie,
      nth_error (ns_apis s) ai = Some a -> a_ctx a = Some ci -> nth_error (ns_apis s) ci = Some c ->
      dict_get ident_eqb (a_uuid c) (ns_counters s) = Some (enc (rev kl)) -> ie_of kl ie ->
      substitute_loop_indexes tasks ai s
      = Ok (tt, s <| ns_apis := upd ai (with_params (subst_params ie (a_params a))) (ns_apis s) |>).
  Proof.
    intros ai s a ci c kl ie Ha Hci Hc Hd Hie.
    unfold substitute_loop_indexes. unfold nbind at 1. unfold get_api at 1. rewrite Ha, Hci.
    unfold nbind at 1. unfold get_api at 1. rewrite Hc.
    unfold nbind at 1. unfold nget at 1. rewrite Hd.
    rewrite current_counters_enc, (subst_all_params kl ie (a_params a) Hie).
    rewrite (plain_map_id (cur_of kl) (enc (rev kl)) (enc_plain_ (rev kl))).
    unfold nbind, set_api, nmod. f_equal. f_equal.
    change (ns_counters (s <| ns_apis := upd ai (with_params (subst_params ie (a_params a))) (ns_apis s) |>)) with (ns_counters s).
    rewrite (dict_set_same _ _ _ _ Hd). destruct s; reflexivity.
  Qed.
End SubstIdx.
