(* Refine/TransferC02.v — the sequencing monitor of C02 (MonitorsSeq.v / RefC02.v) on the FAITHFUL
   net model: on the fragment of the refinement theorem every successful run of the net model
   (any fuel) is the trace of the reference semantics, which the monitor accepts.  Proof file. *)
From PFDL Require Import NetModel NetRun RunCase Monitors MonitorsSeq RefC02.
From PFDL.Refine Require Import Main Transfer.

Section MonitorsSeq.
  Variables (c : runcase) (tr tr1 : list callrec) (f : nat).
  Variable Hin : in_fragment c = true.
  Variable Href : run_ref c = Ok tr.
  Variable Hnet : run_net_f f c = Ok tr1.

  (* with the program: positions classified by the source program of the case *)
  Theorem net_C02seq_fragment : mon_C02seq c tr1 = true.
  Proof. exact (net_transfer (fun c t => mon_C02seq c t = true) C02_seq_programs c Hin tr Href f tr1 Hnet). Qed.

  (* trace only *)
  Theorem net_C02seq_free_fragment : holds_C02seq tr1 = true.
  Proof. exact (net_transfer (fun _ t => holds_C02seq t = true) C02_seq_free_programs c Hin tr Href f tr1 Hnet). Qed.
End MonitorsSeq.
