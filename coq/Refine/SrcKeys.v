(* Refine/SrcKeys.v — the keys of counting loops resolve to their counting variables: in the
   unfolding of a program, a counting loop [XCount v ...] that the generator places at the
   source site (task, path) satisfies NetModel.loop_var (task, path) = Some v.  This is what
   NetModel.current_counters' needs in order to turn the counters dict (keyed by sites) into an
   index environment (keyed by variables); see SubstIdx.v.  Proof file. *)
From PFDL Require Import NetModel.
From PFDL.Refine Require Import Eval Layout GenSpec.
From Coq Require Import Lia.

Section SrcKeys.
  Variable tasks : list task.

  (* Layout.keys_ok, read with the program's own NetModel.loop_var *)
  Local Instance LVt : LoopVars := loop_var tasks.

  (* ---- stmt_at below a statement ---- *)
  Lemma stmt_at_one : forall ss j, stmt_at ss [j] = nth_error ss j.
  Proof. intros ss j. cbn [stmt_at]. destruct (nth_error ss j); reflexivity. Qed.

  Definition loop_body (s : stmt) : option (list stmt) :=
    match s with SWhile _ b | SCount _ _ _ b => Some b | _ => None end.

  Lemma stmt_at_below : forall n path, List.length path = n -> forall ss s,
      stmt_at ss path = Some s ->
      (forall b j, loop_body s = Some b -> stmt_at ss (path ++ [j]) = nth_error b j) /\
      (forall e p fl j, s = SCond e p fl ->
                        stmt_at ss (path ++ [0; j]) = nth_error p j /\ stmt_at ss (path ++ [1; j]) = nth_error fl j).
  Proof.
    induction n as [n IH] using lt_wf_ind. intros path Hn ss s H.
    destruct path as [|i rest]; [discriminate H|].
    cbn [stmt_at] in H. destruct (nth_error ss i) as [s0|] eqn:E0; [|discriminate H].
    destruct rest as [|r0 rr].
    - inversion H; subst s0. split.
      + intros b j Hb. cbn [app stmt_at]. rewrite E0. destruct s; try discriminate Hb; inversion Hb; subst; apply stmt_at_one.
      + intros e p fl j ->. cbn [app stmt_at]. rewrite E0. split; apply stmt_at_one.
    - assert (Hstep : forall tail, stmt_at ss (i :: (r0 :: rr) ++ tail) =
                                   match s0 with
                                   | SWhile _ b | SCount _ _ _ b => stmt_at b ((r0 :: rr) ++ tail)
                                   | SCond _ p fl => match (r0 :: rr) ++ tail with
                                                     | 0 :: rest' => stmt_at p rest'
                                                     | 1 :: rest' => stmt_at fl rest'
                                                     | _ => None
                                                     end
                                   | _ => None
                                   end).
      { intro tail. cbn [stmt_at app]. rewrite E0. reflexivity. }
      destruct s0 as [n0 ins0 o0|c0|cs0|e0 b0|par0 v0 lim0 b0|e0 p0 fl0]; try discriminate H.
      + destruct (IH (List.length (r0 :: rr)) ltac:(subst n; cbn [List.length]; lia) (r0 :: rr) eq_refl b0 s H) as [A B].
        split.
        * intros b j Hb. change ((i :: r0 :: rr) ++ [j]) with (i :: (r0 :: rr) ++ [j]). rewrite Hstep. apply A. exact Hb.
        * intros e p fl j Hs. change ((i :: r0 :: rr) ++ [0; j]) with (i :: (r0 :: rr) ++ [0; j]).
          change ((i :: r0 :: rr) ++ [1; j]) with (i :: (r0 :: rr) ++ [1; j]). rewrite !Hstep. apply (B e p fl j Hs).
      + destruct (IH (List.length (r0 :: rr)) ltac:(subst n; cbn [List.length]; lia) (r0 :: rr) eq_refl b0 s H) as [A B].
        split.
        * intros b j Hb. change ((i :: r0 :: rr) ++ [j]) with (i :: (r0 :: rr) ++ [j]). rewrite Hstep. apply A. exact Hb.
        * intros e p fl j Hs. change ((i :: r0 :: rr) ++ [0; j]) with (i :: (r0 :: rr) ++ [0; j]).
          change ((i :: r0 :: rr) ++ [1; j]) with (i :: (r0 :: rr) ++ [1; j]). rewrite !Hstep. apply (B e p fl j Hs).
      + (* below a Condition: one more path element selects the block *)
        destruct r0 as [|[|r0]]; try discriminate H.
        * destruct rr as [|r1 rr]; [discriminate H|].
          destruct (IH (List.length (r1 :: rr)) ltac:(subst n; cbn [List.length]; lia) (r1 :: rr) eq_refl p0 s H) as [A B].
          split.
          -- intros b j Hb. change ((i :: 0 :: r1 :: rr) ++ [j]) with (i :: (0 :: r1 :: rr) ++ [j]). rewrite Hstep.
             cbn [app]. apply A. exact Hb.
          -- intros e p fl j Hs. change ((i :: 0 :: r1 :: rr) ++ [0; j]) with (i :: (0 :: r1 :: rr) ++ [0; j]).
             change ((i :: 0 :: r1 :: rr) ++ [1; j]) with (i :: (0 :: r1 :: rr) ++ [1; j]). rewrite !Hstep. cbn [app].
             apply (B e p fl j Hs).
        * destruct rr as [|r1 rr]; [discriminate H|].
          destruct (IH (List.length (r1 :: rr)) ltac:(subst n; cbn [List.length]; lia) (r1 :: rr) eq_refl fl0 s H) as [A B].
          split.
          -- intros b j Hb. change ((i :: 1 :: r1 :: rr) ++ [j]) with (i :: (1 :: r1 :: rr) ++ [j]). rewrite Hstep.
             cbn [app]. apply A. exact Hb.
          -- intros e p fl j Hs. change ((i :: 1 :: r1 :: rr) ++ [0; j]) with (i :: (1 :: r1 :: rr) ++ [0; j]).
             change ((i :: 1 :: r1 :: rr) ++ [1; j]) with (i :: (1 :: r1 :: rr) ++ [1; j]). rewrite !Hstep. cbn [app].
             apply (B e p fl j Hs).
  Qed.

  (* ---- the unfolding places counting loops at their source sites ---- *)
  Definition K_stmt (fu : nat) : Prop :=
    forall tn pre i s x t, unfold_stmt tasks fu tn (pre ++ [i]) s = Ok x -> frag x = true ->
      find_task tn tasks = Some t -> stmt_at (t_body t) (pre ++ [i]) = Some s ->
      keys_ok x tn pre i.

  Lemma ucall_blk_ublock : forall fu tn ss i, ucall_blk tasks fu tn i ss = ublock tasks fu tn [] i ss.
  Proof. intros fu tn. induction ss as [|s r IH]; intro i; cbn [ucall_blk ublock app]; [reflexivity|]. rewrite IH. reflexivity. Qed.

  Lemma frag_block_all : forall l, frag_block l = true -> forallb frag l = true.
  Proof. intros [|y r] H; [reflexivity|exact H]. Qed.

  Lemma K_ublk : forall fu, K_stmt fu ->
      forall tn t pre, find_task tn tasks = Some t ->
      forall ss i xs, ublock tasks fu tn pre i ss = Ok xs -> forallb frag xs = true ->
        (forall j, stmt_at (t_body t) (pre ++ [i + j]) = nth_error ss j) ->
        keys_block tn pre xs i.
  Proof.
    intros fu HK tn t pre Ft. induction ss as [|s r IH]; intros i xs H Hf Hat; cbn [ublock] in H.
    - inversion H; subst. exact I.
    - apply rbind_ok_inv in H. destruct H as (x & Hx & H). apply rbind_ok_inv in H. destruct H as (xs' & Hxs & H).
      inversion H; subst xs. clear H. cbn [forallb] in Hf. apply andb_prop in Hf. destruct Hf as [Hfx Hfxs].
      cbn [keys_block]. split.
      + apply (HK tn pre i s x t Hx Hfx Ft). specialize (Hat 0). rewrite Nat.add_0_r in Hat. exact Hat.
      + apply (IH (S i) xs' Hxs Hfxs). intro j. specialize (Hat (S j)).
        replace (S i + j) with (i + S j) by lia. exact Hat.
  Qed.

  Lemma K_call : forall fu, K_stmt fu ->
      forall tn pth c x tn' pre' i', udo_call tasks fu tn pth c = Ok x -> frag x = true -> keys_ok x tn' pre' i'.
  Proof.
    intros fu HK tn pth c x tn' pre' i' H Hf. unfold udo_call in H.
    destruct (find_task (c_name c) tasks) as [t|] eqn:Ft; [|discriminate H].
    pose proof (find_task_name _ _ _ Ft) as En.
    apply rbind_ok_inv in H. destruct H as (body & Hb & H). inversion H; subst x. clear H.
    pose proof (frag_call _ _ _ _ Hf) as [_ Hfb]. apply frag_block_all in Hfb.
    rewrite keys_ok_call. rewrite ucall_blk_ublock, En in Hb.
    apply (K_ublk fu HK (c_name c) t [] Ft (t_body t) 0 body Hb Hfb).
    intro j. cbn [app Nat.add]. apply stmt_at_one.
  Qed.

  Lemma K_calls : forall fu, K_stmt fu ->
      forall tn path tn' pre' cs i xs, ucalls tasks fu tn path i cs = Ok xs -> frag_brs xs = true ->
        keys_block tn' pre' xs i.
  Proof.
    intros fu HK tn path tn' pre'. induction cs as [|c r IH]; intros i xs H Hf; cbn [ucalls] in H.
    - inversion H; subst. exact I.
    - apply rbind_ok_inv in H. destruct H as (x & Hx & H). apply rbind_ok_inv in H. destruct H as (xs' & Hxs & H).
      inversion H; subst xs. clear H. apply frag_brs_cons in Hf. destruct Hf as (_ & Hfx & Hfxs).
      cbn [keys_block]. split; [apply (K_call fu HK _ _ _ _ _ _ _ Hx Hfx)|apply (IH _ _ Hxs Hfxs)].
  Qed.

  Theorem K_all : forall fu, K_stmt fu.
  Proof.
    induction fu as [|fu IH]; [intros tn pre i s x t H; discriminate H|].
    intros tn pre i s x t H Hf Ft Hat.
    set (path := pre ++ [i]) in *.
    destruct (stmt_at_below _ path eq_refl _ _ Hat) as [Bl Bc].
    destruct (unfold_frag_shape _ _ _ _ _ _ H Hf) as [(n & ins & o & ->)|[(c & ->)|[(cs & ->)|[(e & p & fl & ->)|[(e & wb & ->)|(cv & clim & wb & ->)]]]]].
    - rewrite unfold_stmt_S_service in H. inversion H; subst x. exact I.
    - rewrite unfold_stmt_S_call in H. apply (K_call fu IH _ _ _ _ _ _ _ H Hf).
    - rewrite unfold_stmt_S_par in H. apply rbind_ok_inv in H. destruct H as (bs & Hbs & H). inversion H; subst x. clear H.
      rewrite keys_ok_par. fold path. apply (K_calls fu IH _ _ _ _ _ _ _ Hbs (proj2 (frag_par _ Hf))).
    - rewrite unfold_stmt_S_cond in H. apply rbind_ok_inv in H. destruct H as (xp & Hp & H).
      apply rbind_ok_inv in H. destruct H as (xf & Hfl & H). inversion H; subst x. clear H.
      assert (Hf2 := Hf). cbn [frag] in Hf2. apply andb_prop in Hf2. destruct Hf2 as [HfP HfaF].
      apply frag_block_all in HfP.
      rewrite keys_ok_cond. fold path. split.
      + apply (K_ublk fu IH tn t (path ++ [0]) Ft p 0 xp Hp HfP). intro j. cbn [Nat.add].
        rewrite <- app_assoc. cbn [app]. apply (Bc e p fl j eq_refl).
      + apply (K_ublk fu IH tn t (path ++ [1]) Ft fl 0 xf Hfl HfaF). intro j. cbn [Nat.add].
        rewrite <- app_assoc. cbn [app]. apply (Bc e p fl j eq_refl).
    - rewrite unfold_stmt_S_while in H. apply rbind_ok_inv in H. destruct H as (xb & Hb & H). inversion H; subst x. clear H.
      pose proof (frag_while _ _ Hf) as HfB. apply frag_block_all in HfB.
      rewrite keys_ok_while. fold path.
      apply (K_ublk fu IH tn t path Ft wb 0 xb Hb HfB). intro j. cbn [Nat.add]. apply (Bl wb j eq_refl).
    - rewrite unfold_stmt_S_count in H. apply rbind_ok_inv in H. destruct H as (xb & Hb & H). inversion H; subst x. clear H.
      pose proof (frag_count _ _ _ Hf) as HfB. apply frag_block_all in HfB.
      rewrite keys_ok_count. fold path. split.
      + unfold key_ok, loop_var_of, LVt, loop_var. cbn [st_task st_path]. rewrite Ft, Hat. reflexivity.
      + apply (K_ublk fu IH tn t path Ft wb 0 xb Hb HfB). intro j. cbn [Nat.add]. apply (Bl wb j eq_refl).
  Qed.

  (* the whole program: every counting loop of the unfolding resolves to its variable *)
  Theorem unfold_program_keys : forall f body,
      unfold_program tasks f = Ok body -> forallb frag body = true ->
      keys_block production_task [] body 0.
  Proof.
    intros f body H Hf. rewrite unfold_program_eq in H.
    destruct (find_task production_task tasks) as [t|] eqn:Ft; [|discriminate H].
    rewrite ucall_blk_ublock in H.
    apply (K_ublk f (K_all f) production_task t [] Ft (t_body t) 0 body H Hf).
    intro j. cbn [app Nat.add]. apply stmt_at_one.
  Qed.
End SrcKeys.

Print Assumptions unfold_program_keys.
