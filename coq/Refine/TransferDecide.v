(* Refine/TransferDecide.v — the decision-following monitor of C04 / C05 (MonitorsDecide.v / RefDecide.v)
   on the FAITHFUL net model: on the fragment of the refinement theorem (Conditions, while loops and
   counting loops of the production task are inside it) every successful run of the net model (any
   fuel) is the trace of the reference semantics, which the monitors accept.  Proof file. *)
From PFDL Require Import NetModel NetRun RunCase Monitors MonitorsSeq MonitorsFork MonitorsDecide RefC02 RefDecide.
From PFDL.Refine Require Import Main Transfer.

Section MonitorsDecide.
  Variables (c : runcase) (tr tr1 : list callrec) (f : nat).
  Variable Hin : in_fragment c = true.
  Variable Href : run_ref c = Ok tr.
  Variable Hnet : run_net_f f c = Ok tr1.

  Theorem net_decide_fragment : mon_decide c tr1 = true.
  Proof. exact (net_transfer (fun c t => mon_decide c t = true) C04_decide_programs c Hin tr Href f tr1 Hnet). Qed.

  Theorem net_C04_fragment : mon_C04 c tr1 = true.
  Proof. exact (net_transfer (fun c t => mon_C04 c t = true) C04_programs c Hin tr Href f tr1 Hnet). Qed.

  Theorem net_C05_fragment : mon_C05 c tr1 = true.
  Proof. exact (net_transfer (fun c t => mon_C05 c t = true) C05_programs c Hin tr Href f tr1 Hnet). Qed.
End MonitorsDecide.
