(* Refine/TransferC03.v — the fork / join monitor of C03 (MonitorsFork.v / RefC03.v) on the FAITHFUL
   net model: on the fragment of the refinement theorem every successful run of the net model
   (any fuel) is the trace of the reference semantics, which the monitors accept.  (Parallel loops
   are outside the fragment, so the parallel-loop rules of C06 hold there vacuously; the statement
   is given for completeness.)  Proof file. *)
From PFDL Require Import NetModel NetRun RunCase Monitors MonitorsSeq MonitorsFork RefC02 RefC03.
From PFDL.Refine Require Import Main Transfer.

Section MonitorsFork.
  Variables (c : runcase) (tr tr1 : list callrec) (f : nat).
  Variable Hin : in_fragment c = true.
  Variable Href : run_ref c = Ok tr.
  Variable Hnet : run_net_f f c = Ok tr1.

  Theorem net_C03fork_fragment : mon_C03fork c tr1 = true.
  Proof. exact (net_transfer (fun c t => mon_C03fork c t = true) C03_fork_programs c Hin tr Href f tr1 Hnet). Qed.

  Theorem net_C03_fragment : mon_C03 c tr1 = true.
  Proof. exact (net_transfer (fun c t => mon_C03 c t = true) C03_programs c Hin tr Href f tr1 Hnet). Qed.

  Theorem net_C06inst_fragment : mon_C06inst c tr1 = true.
  Proof. exact (net_transfer (fun c t => mon_C06inst c t = true) C06_inst_programs c Hin tr Href f tr1 Hnet). Qed.
End MonitorsFork.
