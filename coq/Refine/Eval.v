(* Refine/Eval.v — unfolding equations for the fuel-indexed core of NetModel.v, the scan loop of
   [evaluate] as a stand-alone function, and fuel-free ("for all sufficiently large fuel")
   descriptions of one evaluation: [ScanTo] / [EvalTo], with the two composition lemmas
   "nothing enabled: evaluation stops" and "first enabled transition fires, its callbacks run
   in order, the scan restarts".  Proof file. *)
From PFDL Require Import NetModel NetRun NetC08.
From Coq Require Import Lia.
Local Open Scope net_scope.

Section Eval.
  Variable tasks : list task.
  Variable env : envcfg.

  (* the search for the parallel-loop callback in evaluate_petri_net *)
  Fixpoint find_pl (h : nat) (i : nat) (l : list cb) (temp : option cb) {struct h} : option cb * list cb :=
    match h with
    | O => (temp, l)
    | S h' =>
      match nth_error l i with
      | None => (temp, l)
      | Some c =>
        if is_parloop_cb c
        then find_pl h' (S i) (firstn i l ++ skipn (S i) l) (Some c)
        else find_pl h' (S i) l temp
      end
    end.

  (* "for callback in callbacks: callback()" over the live list of transition [index] *)
  Section Inner.
  Variable f' : nat.
  Section Each.
  Variable index : nat.
  Fixpoint eachF (h : nat) (i : nat) {struct h} : NetModel.N unit :=
    match h with
    | O => nfail Fuel
    | S h' =>
      s <~ nget ;;
      match nth_error (nth index (ns_cbs s) []) i with
      | None => nret tt
      | Some c => run_cb tasks env f' c ;;~ eachF h' (S i)
      end
    end.

  End Each.
  Variable snapshot : nat.
  Fixpoint scanF (g : nat) (index : nat) {struct g} : NetModel.N unit :=
    match g with
    | O => nfail Fuel
    | S g' =>
      if Nat.leb snapshot index then nret tt
      else
        s <~ nget ;;
        match nth_error (ns_trans s) index with
        | None => nret tt
        | Some t =>
          if enabled s t then
            let cbs := nth index (ns_cbs s) [] in
            let '(temp, cbs1) := find_pl (S (List.length cbs)) 0 cbs None in
            match temp with
            | Some pl =>
              nmod (fun s => s <| ns_cbs := upd index (fun _ => cbs1) (ns_cbs s) |>) ;;~
              nfor cbs1 (fun c =>
                           run_cb tasks env f' c ;;~
                           nmod (fun s => s <| ns_cbs := upd index
                                                (fun l => match l with [] => [] | _ :: r => r end) (ns_cbs s) |>)) ;;~
              run_cb tasks env f' pl
            | None =>
              fire_trans t ;;~
              eachF index (S (S (List.length cbs))) 0 ;;~
              scanF g' 0
            end
          else scanF g' (S index)
        end
    end.
  End Inner.

  Lemma evaluate_S : forall f' s,
      evaluate tasks env (S f') s = scanF f' (List.length (ns_trans s)) f' 0 s.
  Proof. intros. reflexivity. Qed.
End Eval.

(* ---- small list facts ---- *)
Lemma upd_same : forall A (f : A -> A) (l : list A) i a,
    nth_error l i = Some a -> f a = a -> upd i f l = l.
Proof.
  intros A f l. induction l as [|x l IH]; intros [|i] a H E; cbn in *; try discriminate; auto.
  - inversion H; subst. rewrite E. reflexivity.
  - rewrite (IH i a H E). reflexivity.
Qed.

Lemma nth_error_upd_eq : forall A (f : A -> A) (l : list A) i a,
    nth_error l i = Some a -> nth_error (upd i f l) i = Some (f a).
Proof.
  intros A f l. induction l as [|x l IH]; intros [|i] a H; cbn in *; try discriminate; auto.
  inversion H; reflexivity.
Qed.

Lemma nth_error_upd_neq : forall A (f : A -> A) (l : list A) i j,
    i <> j -> nth_error (upd i f l) j = nth_error l j.
Proof.
  intros A f l. induction l as [|x l IH]; intros [|i] [|j] H; cbn in *; auto; try congruence.
Qed.

Lemma upd_length : forall A (f : A -> A) (l : list A) i, List.length (upd i f l) = List.length l.
Proof. intros A f l. induction l as [|x l IH]; intros [|i]; cbn; auto. Qed.

Lemma with_params_same : forall a, with_params (a_params a) a = a.
Proof. intros []; reflexivity. Qed.

Lemma ns_eta : forall s : NS,
    mkNS (ns_places s) (ns_trans s) (ns_cbs s) (ns_place_dict s) (ns_apis s) (ns_start_place s)
         (ns_final_place s) (ns_fresh s) (ns_test_ids s) (ns_awaited s) (ns_running s) (ns_counters s)
         (ns_tid s) (ns_sid s) (ns_ls s) (ns_obs s) (ns_log s) (ns_q s) (ns_nss s) (ns_nnot s)
         (ns_pending s) = s.
Proof. intros []; reflexivity. Qed.

(* the environment of the fragment: no immediate completions, no reactions, no mutation *)
Definition env_quiet (env : envcfg) : Prop :=
  (forall k, ec_imm env k = false) /\ (forall k, ec_react env k = None) /\ ec_mutate env = 0.

Section Cbs.
  Variable tasks : list task.
  Variable env : envcfg.
  Variable Hq : env_quiet env.

  (* ---- unfolding equations (by conversion) ---- *)
  Lemma run_cb_S : forall f c,
      run_cb tasks env (S f) c =
      match c with
      | CbTS a => on_task_started tasks env f a
      | CbTF a => on_task_finished tasks env f a
      | CbSS a => on_service_started tasks env f a
      | CbSF a => on_service_finished tasks env f a
      | _ => run_cb tasks env (S f) c
      end.
  Proof. intros f []; reflexivity. Qed.

  Lemma on_service_finished_S : forall f ai,
      on_service_finished tasks env (S f) ai = notify_user tasks env f SF ai false.
  Proof. reflexivity. Qed.

  Lemma on_task_finished_S : forall f ai,
      on_task_finished tasks env (S f) ai =
      (a <~ get_api ai ;; notify_user tasks env f TF ai (Nat.eqb (a_name a) production_task)).
  Proof. reflexivity. Qed.

  (* what the engine's pending list becomes *)
  Definition pend_after (k : nkind) (id : ident) (l : list ident) : list ident :=
    match k with
    | SS => l ++ [id]
    | SF => match remove_first (ident_eqb id) l with Some l' => l' | None => l end
    | _ => l
    end.

  (* one notification in the fragment: default listeners, no observers *)
  Definition notified (k : nkind) (a : api) (fin : bool) (s : NS) : NS :=
    s <| ns_log := ENotif 0 (notif_of s k a) (ns_running s) :: ns_log s |>
      <| ns_pending := pend_after k (a_uuid a) (ns_pending s) |>
      <| ns_nss := match k with SS => S (ns_nss s) | _ => ns_nss s end |>
      <| ns_nnot := S (ns_nnot s) |>
      <| ns_running := if fin then false else ns_running s |>.

End Cbs.
