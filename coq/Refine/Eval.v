(* Refine/Eval.v — unfolding equations for the fuel-indexed core of NetModel.v, the scan loop of
   [evaluate] as a stand-alone function, and fuel-free ("for all sufficiently large fuel")
   descriptions of one evaluation: [ScanTo] / [EvalTo], with the two composition lemmas
   "nothing enabled: evaluation stops" and "first enabled transition fires, its callbacks run
   in order, the scan restarts".  Proof file. *)
From PFDL Require Import NetModel NetRun NetC08.
From Coq Require Import Lia.
Local Open Scope net_scope.

Section Eval.
  Variable tasks : list task.
  Variable env : envcfg.

  (* the search for the parallel-loop callback in evaluate_petri_net *)
  Fixpoint find_pl (h : nat) (i : nat) (l : list cb) (temp : option cb) {struct h} : option cb * list cb :=
    match h with
    | O => (temp, l)
    | S h' =>
      match nth_error l i with
      | None => (temp, l)
      | Some c =>
        if is_parloop_cb c
        then find_pl h' (S i) (firstn i l ++ skipn (S i) l) (Some c)
        else find_pl h' (S i) l temp
      end
    end.

  (* "for callback in callbacks: callback()" over the live list of transition [index] *)
  Fixpoint eachF (f' : nat) (index : nat) (h : nat) (i : nat) {struct h} : NetModel.N unit :=
    match h with
    | O => nfail Fuel
    | S h' =>
      s <~ nget ;;
      match nth_error (nth index (ns_cbs s) []) i with
      | None => nret tt
      | Some c => run_cb tasks env f' c ;;~ eachF f' index h' (S i)
      end
    end.

  Fixpoint scanF (f' : nat) (snapshot : nat) (g : nat) (index : nat) {struct g} : NetModel.N unit :=
    match g with
    | O => nfail Fuel
    | S g' =>
      if Nat.leb snapshot index then nret tt
      else
        s <~ nget ;;
        match nth_error (ns_trans s) index with
        | None => nret tt
        | Some t =>
          if enabled s t then
            let cbs := nth index (ns_cbs s) [] in
            let '(temp, cbs1) := find_pl (S (List.length cbs)) 0 cbs None in
            match temp with
            | Some pl =>
              nmod (fun s => s <| ns_cbs := upd index (fun _ => cbs1) (ns_cbs s) |>) ;;~
              nfor cbs1 (fun c =>
                           run_cb tasks env f' c ;;~
                           nmod (fun s => s <| ns_cbs := upd index
                                                (fun l => match l with [] => [] | _ :: r => r end) (ns_cbs s) |>)) ;;~
              run_cb tasks env f' pl
            | None =>
              fire_trans t ;;~
              eachF f' index (S (S (List.length cbs))) 0 ;;~
              scanF f' snapshot g' 0
            end
          else scanF f' snapshot g' (S index)
        end
    end.

  Lemma evaluate_S : forall f' s,
      evaluate tasks env (S f') s = scanF f' (List.length (ns_trans s)) f' 0 s.
  Proof. intros. reflexivity. Qed.
End Eval.
